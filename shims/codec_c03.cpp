// C03 leaf wrappers: the real tokenizer kernels of the codec (include/fix8/message.hpp)
#include <fix8/f8includes.hpp>
using namespace FIX8;
extern "C" __attribute__((noinline)) unsigned vf_extract_element(const char *from, unsigned sz, char *tag, char *val)
{ return MessageBase::extract_element(from, sz, tag, val); }
extern "C" __attribute__((noinline)) unsigned vf_extract_element_fw(const char *from, unsigned sz, unsigned val_sz, char *tag, char *val)
{ return MessageBase::extract_element_fixed_width(from, sz, val_sz, tag, val); }
