// C26 cut-mode shim: MemoryPersister operations bound through ordinary C++ (linked with runtime/persist.cpp IR)
#include <fix8/f8includes.hpp>
using namespace FIX8;
extern "C" { void vf_range_cb(unsigned seq, const char *data, unsigned len, int no_more); }
struct VSession : Session
{
  VSession(const F8MetaCntx& c, const SessionID& sid);   // never called
  bool handle_application(const unsigned, const Message *&) override { return true; }
  bool rec_cb(const SequencePair& with, RetransmissionContext& rctx)
     { vf_range_cb(with.first, with.second.data(), unsigned(with.second.size()), rctx._no_more_records); return true; }
};
VSession::VSession(const F8MetaCntx& c, const SessionID& sid) : Session(c, sid) {}
extern "C" {
void vf_mp_ctor(MemoryPersister *mem) { new (mem) MemoryPersister; }
bool vf_mp_put(MemoryPersister *p, unsigned seq, const char *d, unsigned n) { return p->MemoryPersister::put(seq, f8String(d, n)); }
bool vf_mp_putc(MemoryPersister *p, unsigned a, unsigned b) { return p->MemoryPersister::put(a, b); }
int vf_mp_get(MemoryPersister *p, unsigned seq, char *out) { f8String to; if (!p->MemoryPersister::get(seq, to)) return -1; memcpy(out, to.data(), to.size()); return int(to.size()); }
bool vf_mp_getc(MemoryPersister *p, unsigned *a, unsigned *b) { return p->MemoryPersister::get(*a, *b); }
unsigned vf_mp_last(MemoryPersister *p) { unsigned s; return p->MemoryPersister::get_last_seqnum(s); }
unsigned vf_mp_nearest(MemoryPersister *p, unsigned req, unsigned last) { return p->MemoryPersister::find_nearest_highest_seqnum(req, last); }
unsigned vf_mp_range(MemoryPersister *p, Session *s, unsigned from, unsigned to)
{ return p->MemoryPersister::get(from, to, *s, static_cast<bool (Session::*)(const Session::SequencePair&, Session::RetransmissionContext&)>(&VSession::rec_cb)); }
// ---- file persister (C26 file family, C27, C29): real FIX8::FilePersister from runtime/filepersist.cpp over models/posixfs.c
void vf_fp_ctor(FilePersister *p, unsigned rotnum) { new (p) FilePersister(rotnum); }
bool vf_fp_init(FilePersister *p, const char *dir, unsigned dl, const char *name, unsigned nl, bool purge) { return p->FilePersister::initialise(f8String(dir, dl), f8String(name, nl), purge); }
bool vf_fp_put(FilePersister *p, unsigned seq, const char *d, unsigned n) { return p->FilePersister::put(seq, f8String(d, n)); }
bool vf_fp_putc(FilePersister *p, unsigned a, unsigned b) { return p->FilePersister::put(a, b); }
int vf_fp_get(FilePersister *p, unsigned seq, char *out) { f8String to; if (!p->FilePersister::get(seq, to)) return -1; memcpy(out, to.data(), to.size()); return int(to.size()); }
bool vf_fp_getc(FilePersister *p, unsigned *a, unsigned *b) { return p->FilePersister::get(*a, *b); }
unsigned vf_fp_last(FilePersister *p) { unsigned s; return p->FilePersister::get_last_seqnum(s); }
unsigned vf_fp_nearest(FilePersister *p, unsigned req, unsigned last) { return p->FilePersister::find_nearest_highest_seqnum(req, last); }
unsigned vf_fp_range(FilePersister *p, Session *s, unsigned from, unsigned to)
{ return p->FilePersister::get(from, to, *s, static_cast<bool (Session::*)(const Session::SequencePair&, Session::RetransmissionContext&)>(&VSession::rec_cb)); }
int vf_fp_fod(FilePersister *p) { return p->_fod; }   // descriptors (inductive harness: arbitrary reachable file positions)
int vf_fp_iod(FilePersister *p) { return p->_iod; }
}
