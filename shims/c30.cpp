// C30 cut-mode shim: the bundled FastFlow queues as fix8 uses them (ff_unbounded_queue wraps ff::uMPMC_Ptr_Queue)
#include <fix8/f8includes.hpp>
extern "C" {
void vf_q_ctor(ff::uMPMC_Ptr_Queue *q) { new (q) ff::uMPMC_Ptr_Queue; }
bool vf_q_init(ff::uMPMC_Ptr_Queue *q, unsigned long nq, unsigned long size) { return q->init(nq, size); }
bool vf_q_push(ff::uMPMC_Ptr_Queue *q, void *d) { return q->push(d); }
bool vf_q_pop(ff::uMPMC_Ptr_Queue *q, void **d) { return q->pop(d); }
// the single-writer/single-reader layers on their own
void vf_u_ctor(ff::uSWSR_Ptr_Buffer *b, unsigned long size) { new (b) ff::uSWSR_Ptr_Buffer(size); }
bool vf_u_init(ff::uSWSR_Ptr_Buffer *b) { return b->init(); }
bool vf_u_push(ff::uSWSR_Ptr_Buffer *b, void *d) { return b->push(d); }
bool vf_u_pop(ff::uSWSR_Ptr_Buffer *b, void **d) { return b->pop(d); }
void vf_s_ctor(ff::SWSR_Ptr_Buffer *b, unsigned long size) { new (b) ff::SWSR_Ptr_Buffer(size); }
bool vf_s_init(ff::SWSR_Ptr_Buffer *b) { return b->init(); }
bool vf_s_push(ff::SWSR_Ptr_Buffer *b, void *d) { return b->push(d); }
bool vf_s_pop(ff::SWSR_Ptr_Buffer *b, void **d) { return b->pop(d); }
}
