// C25 cut-mode shim: FIXWriter::write / write_batch lock discipline (include/fix8/connection.hpp) and the pipelined
// writer loop FIXWriter::execute (runtime/connection.cpp); Session::send_process is the critical-section witness (stub)
#include <connection.cpp>          // found through -I<repo>/runtime: the repo's current working tree
using namespace FIX8;
extern "C" {
void vf_w_init(FIXWriter *w, int pmodel) { w->_pmodel = ProcessModel(pmodel); }
bool vf_w_write(FIXWriter *w, Message *m, bool destroy) { return w->FIXWriter::write(m, destroy); }
bool vf_w_write_ref(FIXWriter *w, Message *m) { return w->FIXWriter::write(*m); }
unsigned long vf_w_write_batch(FIXWriter *w, const std::vector<Message *> *v, bool destroy) { return w->FIXWriter::write_batch(*v, destroy); }
int vf_w_execute(FIXWriter *w, f8_thread_cancellation_token *tok) { return w->FIXWriter::execute(*tok); }
void vf_tok_init(f8_thread_cancellation_token *tok) { new (tok) f8_thread_cancellation_token; }
void vf_vec_init2(std::vector<Message *> *v, Message *a, Message *b) { new (v) std::vector<Message *>; v->reserve(2); v->push_back(a); v->push_back(b); }
bool vf_msg_eob(const Message *m) { return m->get_end_of_batch(); }
}
