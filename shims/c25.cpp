// C25 leaf-mode shim: FIXWriter::write / write_batch (inline header code of include/fix8/connection.hpp) with the scoped spin lock
// inlined into these wrappers (CBMC's thread encoding cannot carry pointer-typed writes to address-taken locals, which the
// out-of-line form of f8_scoped_lock_impl and of the vector iterators would need). Session::send_process and pthread_spin_* stay
// external calls and are bound to the witness / the test-and-set model.
#include <fix8/f8includes.hpp>
using namespace FIX8;
#define VF_K extern "C" __attribute__((noinline))
VF_K void vf_w_init(FIXWriter *w, int pmodel) { w->_pmodel = ProcessModel(pmodel); }
VF_K bool vf_w_write(FIXWriter *w, Message *m, bool destroy) { return w->FIXWriter::write(m, destroy); }
VF_K bool vf_w_write_ref(FIXWriter *w, Message *m) { return w->FIXWriter::write(*m); }
VF_K unsigned long vf_w_write_batch2(FIXWriter *w, std::vector<Message *> *v, bool destroy) { return w->FIXWriter::write_batch(*v, destroy); }
// a two-element vector over harness storage (begin/end/capacity pointers), built before the threads start
VF_K void vf_vec_init2(std::vector<Message *> *v, Message **store, Message *a, Message *b)
{ store[0] = a; store[1] = b; v->_M_impl._M_start = store; v->_M_impl._M_finish = store + 2; v->_M_impl._M_end_of_storage = store + 2; }
VF_K bool vf_msg_eob(const Message *m) { return m->get_end_of_batch(); }
