// C08 leaf wrappers: integer text codecs and fast_atof
#include <fix8/f8includes.hpp>
using namespace FIX8;
extern "C" {
__attribute__((noinline)) size_t vf_itoa_int(int v, char *to) { return itoa<int>(v, to, 10); }
__attribute__((noinline)) size_t vf_itoa_uint(unsigned v, char *to) { return itoa<unsigned>(v, to, 10); }
__attribute__((noinline)) int vf_atoi_int(const char *s) { return fast_atoi<int>(s); }
__attribute__((noinline)) unsigned vf_atoi_uint(const char *s) { return fast_atoi<unsigned>(s); }
__attribute__((noinline)) double vf_atof(const char *s) { return fast_atof(s); }
}
