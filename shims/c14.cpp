// C14 leaf wrapper: the real rothash (include/fix8/f8utils.hpp), the step function of f8c's group_hash fold
#include <fix8/f8includes.hpp>
using namespace FIX8;
extern "C" __attribute__((noinline)) unsigned vf_rothash(unsigned result, unsigned value) { return rothash(result, value); }
