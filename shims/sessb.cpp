// session world, outbound side (C16, C17, C18): the real runtime/session.cpp is compiled *in this translation unit*
// (so the internal-linkage constants of field.hpp it reads, e.g. Common_MsgType_SEQUENCE_RESET, are the ones the shim
// initialises) together with shim subclasses that override only environment-facing virtuals.
// Buffer-dimension constant scaled in the verification build only (AGENT_GUIDE rule 11): char output[MAX_MSG+32] in send_process
#define FIX8_MAX_MSG_LENGTH 32
#include <session.cpp>

extern "C" {
  // environment hooks, implemented in the C harness
  bool vf_rec_put(unsigned seq, const char *data, unsigned len);          // recording persister: put(seqnum, bytes)
  bool vf_rec_putc(unsigned snd, unsigned rcv);                           // recording persister: control record put
  bool vf_rec_getc(unsigned *snd, unsigned *rcv);                         // recording persister: control record get
  unsigned vf_rec_range(void *self, unsigned from, unsigned to, void *session);   // range get protocol (C18), calls vf_sb_retrans back
  bool vf_msg_is_admin(const void *msg);
  Message *vf_gen_seqreset(void *session, unsigned newseq, bool gapfill); // abstract message construction for generate_sequence_reset
  Message *vf_factory(const char *data, unsigned len);                    // abstract Message::factory for retrans_callback (C18)
  extern void *_ZTV6VSessB[]; extern void *_ZTV4VMsg[]; extern void *_ZTV5VPers[]; extern void *_ZTVN4FIX810ConnectionE[];
}

struct VSessB : Session
{
  VSessB(const F8MetaCntx& c, const SessionID& sid);   // never called; anchors the vtable
  bool handle_application(const unsigned seqnum, const Message *&msg) override { return true; }
#ifdef SESSB_ABSTRACT_SEQRESET
  Message *generate_sequence_reset(const unsigned newseqnum, const bool gapfillflag=false) override { return vf_gen_seqreset(this, newseqnum, gapfillflag); }
#endif
};
VSessB::VSessB(const F8MetaCntx& c, const SessionID& sid) : Session(c, sid) {}

struct VMsg : Message
{
  VMsg(const F8MetaCntx& c);                           // never called; anchors the vtable
  bool is_admin() const override { return vf_msg_is_admin(this); }
  f8String _vtype;                                     // MessageBase::_msgType is a reference: the referent lives here
};
VMsg::VMsg(const F8MetaCntx& c) : Message(c, "0", static_cast<const FieldTrait *>(nullptr), 0, nullptr) {}

struct VPers : Persister
{
  VPers();                                             // never called; anchors the vtable
  bool put(const unsigned seqnum, const f8String& what) override { return vf_rec_put(seqnum, what.data(), unsigned(what.size())); }
  bool put(const unsigned sender_seqnum, const unsigned target_seqnum) override { return vf_rec_putc(sender_seqnum, target_seqnum); }
  bool get(const unsigned seqnum, f8String& to) const override { return false; }
  unsigned get(const unsigned from, const unsigned to, Session& session, bool (Session::*cb)(const Session::SequencePair& with, Session::RetransmissionContext& rctx)) const override
    { return vf_rec_range(const_cast<VPers*>(this), from, to, &session); }
  unsigned get_last_seqnum(unsigned& to) const override { return to = 0; }
  bool get(unsigned& sender_seqnum, unsigned& target_seqnum) const override { return vf_rec_getc(&sender_seqnum, &target_seqnum); }
  unsigned find_nearest_highest_seqnum(const unsigned requested, const unsigned last) const override { return 0; }
};
VPers::VPers() {}

struct VConn : Connection { VConn(Session& s); };      // never called; anchors Connection's vtable
static Poco::Net::SocketAddress *vf_noaddr;
VConn::VConn(Session& s) : Connection(nullptr, *vf_noaddr, s, Connection::cn_initiator, pm_thread, 10, false) {}

static const FieldTrait *no_traits() { static char raw[sizeof(FieldTrait)]; return reinterpret_cast<const FieldTrait *>(raw); }   // empty table, non-null
struct VBatch { std::vector<Message *> v; };          // stable C name for the harness's typed storage
extern "C" {
// ---- world construction (typed static storage declared by the harness) ----
void vf_sb_globals()
{
  // the namespace-scope constants session.cpp reads on the encoded paths (no global constructors are run)
  new (const_cast<f8String*>(&Common_MsgType_SEQUENCE_RESET)) f8String("4");
  new (const_cast<f8String*>(&Common_MsgType_REJECT)) f8String("3");
}
void vf_sb_conn_init(Connection *c, VSessB *s, Poco::Net::StreamSocket *sock)
{
  *reinterpret_cast<void ***>(c) = &_ZTVN4FIX810ConnectionE[2];
  new (&c->_writer) FIXWriter(sock, *s, pm_thread);   // queue/thread/mutex/coroutine sub-constructors are cut (sessb.stubs)
  c->_pmodel = pm_thread; c->_sock = sock; c->_connected = true; c->_role = Connection::cn_initiator;
}
void vf_sb_init(VSessB *s, VPers *p)
{
  *reinterpret_cast<void ***>(s) = &_ZTV6VSessB[2];
  *reinterpret_cast<void ***>(p) = &_ZTV5VPers[2];
  new (&s->_batchmsgs_buffer) std::string;
  s->_batchmsgs_buffer.reserve(10 * (FIX8_MAX_MSG_LENGTH + HEADER_CALC_OFFSET));   // as the Session constructor does: heap buffer, never the in-object SSO bytes
  new (&s->_per_spl) f8_spin_lock;
  // remaining members: setters of shims/sess_common.cpp (vf_sess_set_ptrs / _set_sid / _set_seq / _set_flags / _set_state)
}
unsigned vf_sb_batchbuf_len(VSessB *s) { return unsigned(s->_batchmsgs_buffer.size()); }
void vf_sb_msg_init(VMsg *m, MessageBase *hdr, const char *msgtype, const F8MetaCntx *ctx)
{
  new (&m->_vtype) f8String(msgtype);
  new (static_cast<MessageBase *>(m)) MessageBase(*ctx, m->_vtype, no_traits(), 0, nullptr);   // real ctor, empty trait table
  *reinterpret_cast<void ***>(m) = &_ZTV4VMsg[2];
  m->_header = hdr; m->_trailer = nullptr; m->_custom_seqnum = 0; m->_no_increment = false; m->_end_of_batch = true;
}
unsigned vf_sb_msg_custom(const Message *m) { return m->get_custom_seqnum(); }
bool vf_sb_msg_noinc(const Message *m) { return m->get_no_increment(); }
bool vf_sb_msg_eob(const Message *m) { return m->get_end_of_batch(); }
const char *vf_sb_msg_type(const Message *m) { return m->get_msgtype().c_str(); }
// field accessors for the abstract header stubs
unsigned vf_fld_num(const BaseField *f) { return f->_fnum; }
unsigned vf_fld_uint(const void *f) { return static_cast<const msg_seq_num *>(f)->get(); }
bool vf_fld_bool(const void *f) { return static_cast<const poss_dup_flag *>(f)->get(); }
long vf_fld_time(const void *f) { return static_cast<const sending_time *>(f)->get().get_ticks(); }
void vf_fld_set_time(void *f, long ticks) { static_cast<sending_time *>(f)->set(Tickval(static_cast<Tickval::ticks>(ticks))); }
// ---- entries: the methods under test, called qualified ----
bool vf_sb_send_p(VSessB *s, Message *m, bool destroy, unsigned custom, bool noinc) { return s->Session::send(m, destroy, custom, noinc); }
bool vf_sb_send_r(VSessB *s, Message *m, unsigned custom, bool noinc) { return s->Session::send(*m, custom, noinc); }
// the batch is a std::vector<Message*> value in typed static storage whose three libstdc++ pointers are set over a typed
// Message* array of the harness (no heap allocation: pointers read back from untyped heap bytes defeat devirtualisation)
void vf_sb_vec_set(VBatch *b, Message **arr, unsigned j, unsigned cap)
{ b->v._M_impl._M_start = arr; b->v._M_impl._M_finish = arr + j; b->v._M_impl._M_end_of_storage = arr + cap; }
unsigned vf_sb_send_batch(VSessB *s, const VBatch *b, bool destroy) { return unsigned(s->Session::send_batch(b->v, destroy)); }
bool vf_sb_process(VSessB *s, const char *p, unsigned n) { const f8String from(p, n); return s->Session::process(from); }
struct VDecodeError : f8Exception { VDecodeError() {} };     // a decoding failure of the kind Message::factory raises: an f8Exception subclass that does not
void vf_sb_throw_invalid() { throw VDecodeError(); }         // force a logout; no message text (the library classes format 20+ character texts through iostreams)
void vf_sb_update_persist(VSessB *s) { s->Session::update_persist_seqnums(); }
void vf_sb_recover(VSessB *s) { s->Session::recover_seqnums(); }
bool vf_sb_resend_request(VSessB *s, unsigned seqnum, const Message *m) { return s->Session::handle_resend_request(seqnum, m); }
bool vf_sb_retrans(Session *s, unsigned seq, const char *d, unsigned n, Session::RetransmissionContext *rctx)
{ Session::SequencePair with(seq, f8String(d, n)); return s->Session::retrans_callback(with, *rctx); }
void vf_sb_rctx_init(Session::RetransmissionContext *mem, unsigned begin, unsigned end, unsigned interrupted) { new (mem) Session::RetransmissionContext(begin, end, interrupted); }
void vf_sb_rctx_nomore(Session::RetransmissionContext *r) { r->_no_more_records = true; }
unsigned vf_sb_get_next_send(Session *s) { return s->get_next_send_seq(); }
void vf_fld_set_int(void *f, int v) { static_cast<begin_seq_num *>(f)->set(v); }
int vf_fld_int(const void *f) { return static_cast<const new_seq_num *>(f)->get(); }
}
