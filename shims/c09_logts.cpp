// C09 (log timestamp clause) cut-mode shim: the real FIX8::GetTimeAsStringMS (runtime/f8utils.cpp IR is linked) on a
// Tickval built from (seconds, nanoseconds); the text is rendered through models/ostream_fmt.c
#include <fix8/f8includes.hpp>
using namespace FIX8;
extern "C" {
int vf_logts(char *out, long secs, long nsecs, unsigned dplaces)
{
  const Tickval tv(static_cast<time_t>(secs), nsecs);
  std::string res;
  GetTimeAsStringMS(res, &tv, dplaces, true);
  const unsigned n(res.size()); const char *p(res.data());
  for (unsigned ii(0); ii < 40; ++ii)   // fixed-count copy (no symbolic-length memcpy in the encoding)
    out[ii] = ii < n ? p[ii] : 0;
  return int(n);
}
// model validation only: one fixed-precision double through a real std::ostringstream (setw/setfill/setprecision/fixed), independent of
// how GetTimeAsStringMS happens to render its seconds; the translated version runs on models/ostream_fmt.c and is compared with printf
int vf_fmt_fixed(char *out, double x, unsigned width, unsigned prec)
{
  std::ostringstream oss;
  oss.setf(std::ios::showpoint); oss.setf(std::ios::fixed);
  oss << std::setw(width) << std::setfill('0') << std::setprecision(prec) << x << ' ' << std::setw(4) << int(prec) << '|' << std::setfill(' ') << std::setw(3) << 'c';
  const std::string res(oss.str());
  const unsigned n(res.size()); const char *p(res.data());
  for (unsigned ii(0); ii < 40; ++ii)
    out[ii] = ii < n ? p[ii] : 0;
  return int(n);
}
}
