// C09 (log timestamp clause) cut-mode shim: the real FIX8::GetTimeAsStringMS (runtime/f8utils.cpp IR is linked) on a
// Tickval built from (seconds, nanoseconds); the text is rendered through models/ostream_fmt.c
#include <fix8/f8includes.hpp>
using namespace FIX8;
extern "C" {
int vf_logts(char *out, long secs, long nsecs, unsigned dplaces)
{
  const Tickval tv(static_cast<time_t>(secs), nsecs);
  std::string res;
  GetTimeAsStringMS(res, &tv, dplaces, true);
  const unsigned n(res.size()); const char *p(res.data());
  for (unsigned ii(0); ii < 40; ++ii)   // fixed-count copy (no symbolic-length memcpy in the encoding)
    out[ii] = ii < n ? p[ii] : 0;
  return int(n);
}
}
