// Codec world, token-level driver (DESIGN.md section 4, L3 fallback).  Linked (llvm-link) with the cut-mode IR of
// runtime/message.cpp.  Real: Message::factory, Message::decode, MessageBase::decode, decode_group, extract_header,
// extract_element(+fixed_width), fast_atoi, Presence/FieldTraits lookups through the hash array, F8MetaCntx::find_be,
// GeneratedTable::find_ptr.  The metadata is a hand-built copy of four f8c-generated tables of the repo's FIX42UTEST
// schema (header, Logon 'A', Logon::NoMsgTypes, trailer; utests/utest_traits.cpp) - the native step
// replay/codec_tabcheck.cpp compares the copy with the generated tables of libutest.so on every run.
// Field-object creation, field/group insertion are recording cut points (named in props/codec.py).
#include <fix8/f8config.h>
#ifdef VF_FLD_LEN
#undef FIX8_MAX_FLD_LENGTH
#define FIX8_MAX_FLD_LENGTH VF_FLD_LEN
#endif
#include <fix8/f8includes.hpp>
#include <new>
using namespace FIX8;

extern "C" {
void vf_rec_create(const char *val);            // harness: the text handed to the field constructor
MessageBase *vf_next_element(void);             // harness: next pooled group element
}

// ---- trait tables: plain-data mirror of FieldTrait's generated initialisers {fnum, ftype, pos, component, traits}
struct FT { unsigned short fnum; unsigned ftype; unsigned short pos, comp, traits; };
#define VF_TAB static constexpr
#include "codec_tables.h"

// ---- field table: BaseEntry layout {Inst{_do&}, name, fnum, rlm, comment}
static BaseField *vf_mk(const char *from, const RealmBase *db, const int)
{
   vf_rec_create(from);
   return new Field<int, 0>(from, db);    // int-shaped object: MessageBase::has_group_count reads Field<int,0>::_value
}
struct BE { BaseField *(*mk)(const char *, const RealmBase *, const int); const char *name; unsigned short fnum; const RealmBase *rlm; const char *comment; };
static_assert(sizeof(BE) == sizeof(BaseEntry), "BaseEntry layout");
#define VF_NKNOWN (sizeof(vf_known_tags) / sizeof(*vf_known_tags))
struct FLU { BE e[VF_NKNOWN]; const BE *p[VF_FLU_SZ];
   constexpr FLU() : e{}, p{} {
      for (unsigned i = 0; i < VF_NKNOWN; ++i) { e[i].mk = vf_mk; e[i].name = "f"; e[i].fnum = vf_known_tags[i]; e[i].rlm = nullptr; e[i].comment = nullptr; p[vf_known_tags[i]] = &e[i]; }
   } };
static constexpr FLU vf_flu;

// ---- message table (sorted by strcmp): GeneratedTable<const char*, BaseMsgEntry> pairs {key, {Minst{std::function}, name, comment}}
struct MP { const char *key; char fn[sizeof(Minst)]; const char *name, *comment; };
static_assert(sizeof(MP) == sizeof(MsgTable::Pair), "MsgTable::Pair layout");
static constexpr MP vf_msgs[] = { { "A", {}, "Logon", nullptr }, { "header", {}, "header", nullptr }, { "trailer", {}, "trailer", nullptr } };
struct GT { const MP *pairs; size_t n; };     // GeneratedTable layout {_pairs, _pairsz}
static_assert(sizeof(GT) == sizeof(MsgTable), "GeneratedTable layout");
static constexpr GT vf_msgtable = { vf_msgs, VF_NMSGS };

// ---- F8MetaCntx without its constructor (it builds reverse-lookup maps that the codec never reads)
struct CTX { unsigned version; const MsgTable *bme; const FieldTable *be; const char **cn; unsigned flu_sz; const BaseEntry **flu;
             msg_create mk_hdr, mk_trl; f8String beginStr; size_t preamble_sz; ReverseMsgTable r1; ReverseFieldTable r2; };
static_assert(sizeof(CTX) == sizeof(F8MetaCntx), "F8MetaCntx layout");

static const f8String *vf_mt_hdr, *vf_mt_trl, *vf_mt_body, *vf_mt_grp;

struct VHeader : MessageBase
{
   begin_string *_bs; body_length *_bl; msg_type *_mt;
   VHeader(const F8MetaCntx& c, const f8String& mt, const FieldTrait *t, const FieldTrait_Hash_Array *h) : MessageBase(c, mt, t, 0, h),
      _bs(new begin_string(c._beginStr)), _bl(new body_length), _mt(new msg_type) {}
   begin_string *get_begin_string() { return _bs; }
   body_length *get_body_length() { return _bl; }
   msg_type *get_msg_type() { return _mt; }
};
struct VTrailer : MessageBase
{
   check_sum *_cs;
   VTrailer(const F8MetaCntx& c, const f8String& mt, const FieldTrait *t, const FieldTrait_Hash_Array *h) : MessageBase(c, mt, t, 0, h), _cs(new check_sum) {}
   check_sum *get_check_sum() { return _cs; }
};
struct VGroup : GroupBase
{
   VGroup(unsigned short fnum) : GroupBase(fnum) {}
   MessageBase *create_group(bool) const { return vf_next_element(); }
};

static void fill(FieldTrait *dst, unsigned short *hash, unsigned hsz, FieldTrait_Hash_Array *h, const FT *src, unsigned n)
{
   for (unsigned i = 0; i < n; ++i) { dst[i]._fnum = src[i].fnum; dst[i]._ftype = FieldTrait::FieldType(src[i].ftype); dst[i]._pos = src[i].pos;
                                      dst[i]._component = src[i].comp; dst[i]._field_traits = ebitset<FieldTrait::TraitTypes, unsigned short>(src[i].traits); }
   // FieldTrait_Hash_Array(from, els): _els(els), _sz(last fnum + 1), _arr[fnum] = offset  (its constructor is C12's subject)
   const_cast<unsigned&>(h->_els) = n; const_cast<unsigned&>(h->_sz) = hsz; h->_arr = hash;
   for (unsigned i = 0; i < n; ++i) hash[src[i].fnum] = i;
}
static void attach(MessageBase *m, FieldTrait *arr, unsigned n) { m->_fp._presence._arr = arr; m->_fp._presence._sz = n; }

extern "C" {
// sizes the harness needs for its typed storage
const unsigned vf_n_hdr = VF_N_HDR, vf_n_body = VF_N_BODY, vf_n_grp = VF_N_GRP, vf_n_trl = VF_N_TRL;

void vf_ctx_setup(F8MetaCntx *c, f8String *mt4)
{
   CTX *k = reinterpret_cast<CTX *>(c);
   k->version = 4200; k->bme = reinterpret_cast<const MsgTable *>(&vf_msgtable); k->be = nullptr; k->cn = nullptr; k->flu_sz = VF_FLU_SZ;
   k->flu = reinterpret_cast<const BaseEntry **>(const_cast<const BE **>(vf_flu.p));
   new (&k->beginStr) f8String("FIX.4.2"); k->preamble_sz = 2 + 7 + 1 + 3;
   vf_mt_hdr = new (mt4) f8String("header"); vf_mt_trl = new (mt4 + 1) f8String("trailer"); vf_mt_body = new (mt4 + 2) f8String("A"); vf_mt_grp = new (mt4 + 3) f8String("NoMsgTypes");
}
const void *vf_msg_entry_fn(unsigned i) { return vf_msgs[i].fn; }
const void *vf_ctx_mk_hdr(F8MetaCntx *c) { return &c->_mk_hdr; }
const void *vf_ctx_mk_trl(F8MetaCntx *c) { return &c->_mk_trl; }
void vf_tab_hdr(FieldTrait *d, unsigned short *hash, FieldTrait_Hash_Array *h) { fill(d, hash, VF_H_HDR, h, vf_hdr_traits, VF_N_HDR); }
void vf_tab_body(FieldTrait *d, unsigned short *hash, FieldTrait_Hash_Array *h) { fill(d, hash, VF_H_BODY, h, vf_body_traits, VF_N_BODY); }
void vf_tab_grp(FieldTrait *d, unsigned short *hash, FieldTrait_Hash_Array *h) { fill(d, hash, VF_H_GRP, h, vf_grp_traits, VF_N_GRP); }
void vf_tab_trl(FieldTrait *d, unsigned short *hash, FieldTrait_Hash_Array *h) { fill(d, hash, VF_H_TRL, h, vf_trl_traits, VF_N_TRL); }
void vf_mk_header(VHeader *m, F8MetaCntx *c, FieldTrait *arr, FieldTrait_Hash_Array *h)
{
   new (m) VHeader(*c, *vf_mt_hdr, arr, h); attach(m, arr, VF_N_HDR);
   // generated header::add_preamble(): 8, 9, 35 are inserted up front and flagged present
   m->_fp.set(Common_BeginString, FieldTrait::present); m->_fp.set(Common_BodyLength, FieldTrait::present); m->_fp.set(Common_MsgType, FieldTrait::present);
}
void vf_mk_trailer(VTrailer *m, F8MetaCntx *c, FieldTrait *arr, FieldTrait_Hash_Array *h)
{
   new (m) VTrailer(*c, *vf_mt_trl, arr, h); attach(m, arr, VF_N_TRL);
   m->_fp.set(Common_CheckSum, FieldTrait::present);     // generated trailer::add_preamble()
}
// the body is a plain FIX8::Message (a subclass would be laid out over Message's tail padding: a different C struct for the same storage)
void vf_mk_body(Message *m, F8MetaCntx *c, FieldTrait *arr, FieldTrait_Hash_Array *h) { new (m) Message(*c, *vf_mt_body, arr, 0, h); attach(m, arr, VF_N_BODY); }
void vf_mk_element(MessageBase *m, F8MetaCntx *c, FieldTrait *arr, FieldTrait_Hash_Array *h) { new (m) MessageBase(*c, *vf_mt_grp, arr, 0, h); attach(m, arr, VF_N_GRP); }
void vf_mk_group(VGroup *g, unsigned short fnum) { new (g) VGroup(fnum); }

// ---- operations under test
// returns 0 accepted, 1 a C++ exception left the factory (the harness reads its type from the exception model)
Message *vf_factory(const F8MetaCntx *c, const f8String *from, bool no_chksum, bool permissive) { return Message::factory(*c, *from, no_chksum, permissive); }
unsigned vf_extract_header(const f8String *from, char *len, char *mtype) { return MessageBase::extract_header(*from, len, mtype); }
unsigned vf_extract_trailer(const f8String *from, f8String *chksum) { return MessageBase::extract_trailer(*from, *chksum); }
unsigned vf_extract_element_s(const char *from, unsigned sz, f8String *tag, f8String *val) { return MessageBase::extract_element(from, sz, *tag, *val); }
unsigned vf_mb_decode(MessageBase *m, const f8String *from, unsigned off, unsigned ignore, bool permissive) { return m->MessageBase::decode(*from, off, ignore, permissive); }
// C02 framing: the real Message::encode(char**) (sub-encoders are cut points of the framing harness)
size_t vf_encode(Message *m, char **store) { return m->Message::encode(store); }
const char *vf_fmt_chksum(unsigned v, f8String *out) { new (out) f8String(Message::fmt_chksum(v)); return out->c_str(); }
// observers
const char *vf_unknown_data(const MessageBase *m) { return m->_unknown.data(); }
unsigned vf_unknown_size(const MessageBase *m) { return unsigned(m->_unknown.size()); }
int vf_field_int(const BaseField *f) { return static_cast<const Field<int, 0> *>(f)->_value; }
int vf_body_length(VHeader *h) { return h->_bl->get(); }
const char *vf_msg_type(VHeader *h) { return h->_mt->get().c_str(); }
const char *vf_check_sum(VTrailer *t) { return t->_cs->get().c_str(); }
// typeinfo identities for the harness's exception classification
const void *vf_ti(int k)
{
   switch (k) {
   case 0: return &typeid(InvalidMessage); case 1: return &typeid(BadCheckSum); case 2: return &typeid(DuplicateField);
   case 3: return &typeid(MissingMandatoryField); case 4: return &typeid(UnknownField); case 5: return &typeid(MissingRepeatingGroupField);
   case 6: return &typeid(InvalidRepeatingGroup); case 7: return &typeid(f8Exception); default: return nullptr; }
}
}
