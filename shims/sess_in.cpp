// Session world, inbound side (C19, C20, C22, C23): the real Session::process / enforce / sequence_check / compid_check /
// handle_* / heartbeat_service from runtime/session.cpp run on a VSession in typed static storage.  VSession overrides
// only the environment-facing virtuals: handle_application (canonical idiom enforce || deliver), send (records), and the
// generate_* message builders (record the kind and arguments; message construction is not the subject here).
// Inbound messages are abstract: VMessage in typed static storage; its attributes are supplied by the accessor stubs of
// models/sess_msg.c (cut points MessageBase::get<T>, listed in shims/sess.stubs).
// runtime/session.cpp is compiled *in this translation unit* so that the internal-linkage constants of field.hpp it reads
// (Common_MsgType_SEQUENCE_RESET, ...; dynamic initialisers that no harness runs) are the objects vf_world_init builds.
#include <fix8/f8includes.hpp>
// Log statements are compiled out in the verification build only (as the library itself does for slout_debug without FIX8_DEBUG):
// every glout_*/slout_* statement has the form `if (!is_loggable(level)); else log_stream(...) << ...`, so with logging disabled its
// operands are never evaluated.  Compiling them out removes the std::function/std::bind/FileLogger/FastFlow closure from the encoding.
#undef glout_info
#undef glout_warn
#undef glout_error
#undef glout_fatal
#undef glout_debug
#undef ssout_info
#undef ssout_warn
#undef ssout_error
#undef ssout_fatal
#undef ssout_debug
#define glout_info true ? FIX8::null_insert() : FIX8::null_insert()
#define glout_warn true ? FIX8::null_insert() : FIX8::null_insert()
#define glout_error true ? FIX8::null_insert() : FIX8::null_insert()
#define glout_fatal true ? FIX8::null_insert() : FIX8::null_insert()
#define glout_debug true ? FIX8::null_insert() : FIX8::null_insert()
#define ssout_info(x) true ? FIX8::null_insert() : FIX8::null_insert()
#define ssout_warn(x) true ? FIX8::null_insert() : FIX8::null_insert()
#define ssout_error(x) true ? FIX8::null_insert() : FIX8::null_insert()
#define ssout_fatal(x) true ? FIX8::null_insert() : FIX8::null_insert()
#define ssout_debug(x) true ? FIX8::null_insert() : FIX8::null_insert()
#include <session.cpp>
#include "sess_common.cpp"     // shared setters (same TU: llvm-link would merge isomorphic library types under foreign names)
extern "C" {
  // environment hooks implemented in models/sess_msg.c
  void vf_gen(int kind, unsigned a, unsigned b, const char *s, unsigned slen);
  void vf_rec_send(const void *msg, int destroy, unsigned custom_seqnum, int no_increment);
  int  vf_deliver(unsigned seqnum, const void *msg);
  int  vf_is_admin(const void *msg);
  int  vf_authenticate(void);
  extern char vf_gen_token;
  extern void *_ZTV8VSession[];
  extern void *_ZTV8VMessage[];
  extern void *_ZTV7VHeader[];
}
enum { g_logon = 1, g_logout, g_heartbeat, g_resend_request, g_sequence_reset, g_test_request, g_reject, g_business_reject };
alignas(8) static char vf_no_traits[sizeof(FieldTrait)];      // empty trait table (count 0) with a valid address
static inline const FieldTrait *no_traits() { return reinterpret_cast<const FieldTrait *>(vf_no_traits); }
static inline Message *token() { return reinterpret_cast<Message *>(&vf_gen_token); }
static inline unsigned slen(const char *s) { unsigned n(0); if (s) while (s[n]) ++n; return n; }

struct VSession : Session
{
  VSession() = delete;                                    // never constructed (typed static storage, see vf_session_init)
  ~VSession() override;                                   // key function: anchors the vtable without pulling in Session's constructors
  bool handle_application(const unsigned seqnum, const Message *&msg) override { return enforce(seqnum, msg) || vf_deliver(seqnum, msg); }
  bool send(Message *tosend, bool destroy, const unsigned custom_seqnum, const bool no_increment) override
     { vf_rec_send(tosend, destroy, custom_seqnum, no_increment); return true; }
  bool send(Message& tosend, const unsigned custom_seqnum, const bool no_increment) override
     { vf_rec_send(&tosend, 0, custom_seqnum, no_increment); return true; }
  bool authenticate(SessionID& id, const Message *msg) override { return vf_authenticate(); }
  Message *generate_logon(const unsigned hbi, const f8String davi) override { vf_gen(g_logon, hbi, _loginParameters._reset_sequence_numbers, davi.data(), unsigned(davi.size())); return token(); }
  Message *generate_logout(const char *msgstr) override { vf_gen(g_logout, msgstr != nullptr, 0, nullptr, 0); return token(); }
  Message *generate_heartbeat(const f8String& id) override { vf_gen(g_heartbeat, 0, 0, id.data(), unsigned(id.size())); return token(); }
  Message *generate_resend_request(const unsigned begin, const unsigned end) override { vf_gen(g_resend_request, begin, end, nullptr, 0); return token(); }
  Message *generate_sequence_reset(const unsigned newseqnum, const bool gapfill) override { vf_gen(g_sequence_reset, newseqnum, gapfill, nullptr, 0); return token(); }
  Message *generate_test_request(const f8String& id) override { vf_gen(g_test_request, 0, 0, id.data(), unsigned(id.size())); return token(); }
  Message *generate_reject(const unsigned seqnum, const char *what, const char *msgtype) override { vf_gen(g_reject, seqnum, msgtype != nullptr, msgtype, slen(msgtype)); return token(); }
  Message *generate_business_reject(const unsigned seqnum, const Message *msg, const int reason, const char *what) override { vf_gen(g_business_reject, seqnum, unsigned(reason), nullptr, 0); return token(); }
};
VSession::~VSession() {}                                  // never run; Session::~Session is a cut point (shims/sess.stubs)

// abstract inbound message: the Message/MessageBase members are built by the real MessageBase constructor (empty trait table).
// `delete msg` in Session::process ends in VMessage's deleting destructor, which is a cut point (shims/sess.stubs: recorded, the
// object stays intact): MessageBase's own vtable lives in runtime/message.cpp (codec world), outside this translation unit.
struct VHeader : MessageBase
{
  VHeader() = delete;
  ~VHeader() override;
};
VHeader::~VHeader() {}
struct VMessage : Message
{
  VMessage() = delete;
  ~VMessage() override;                                   // key function (vtable anchor); D0 is the cut point
  bool is_admin() const override { return vf_is_admin(this); }
  // attribute objects the accessor stubs hand out by pointer (real field objects built by their real constructors)
  f8String _vtype; sender_comp_id _vsci; target_comp_id _vtci; reset_seqnum_flag _vreset;
};
VMessage::~VMessage() {}

extern "C" {
// the namespace-scope std::string constants the session code compares message types with (their dynamic initialisers)
void vf_world_init()
{
  new (const_cast<f8String *>(&Common_MsgType_HEARTBEAT)) f8String("0");
  new (const_cast<f8String *>(&Common_MsgType_TEST_REQUEST)) f8String("1");
  new (const_cast<f8String *>(&Common_MsgType_RESEND_REQUEST)) f8String("2");
  new (const_cast<f8String *>(&Common_MsgType_REJECT)) f8String("3");
  new (const_cast<f8String *>(&Common_MsgType_SEQUENCE_RESET)) f8String("4");
  new (const_cast<f8String *>(&Common_MsgType_LOGOUT)) f8String("5");
  new (const_cast<f8String *>(&Common_MsgType_LOGON)) f8String("A");
  new (const_cast<f8String *>(&Common_MsgType_BUSINESS_REJECT)) f8String("j");
}
void vf_session_init(VSession *mem) { *reinterpret_cast<void ***>(mem) = &_ZTV8VSession[2]; }
// the message type (1..2 characters) is a real std::string member of the abstract message
void vf_header_init(VHeader *mem, const F8MetaCntx *ctx, VMessage *owner)
{
  new (static_cast<MessageBase *>(mem)) MessageBase(*ctx, owner->_vtype, no_traits(), 0, nullptr);
  *reinterpret_cast<void ***>(mem) = &_ZTV7VHeader[2];
}
void vf_message_init(VMessage *mem, const F8MetaCntx *ctx, VHeader *hdr, const char *type, unsigned ntype)
{
  new (&mem->_vtype) f8String(type, ntype);
  new (static_cast<MessageBase *>(mem)) MessageBase(*ctx, mem->_vtype, no_traits(), 0, nullptr);
  *reinterpret_cast<void ***>(mem) = &_ZTV8VMessage[2];
  mem->_header = hdr; mem->_trailer = nullptr; mem->_custom_seqnum = 0; mem->_no_increment = false; mem->_end_of_batch = true;
}
void vf_msg_set_compids(VMessage *m, const char *s, unsigned ns, const char *t, unsigned nt)
{ new (&m->_vsci) sender_comp_id(f8String(s, ns)); new (&m->_vtci) target_comp_id(f8String(t, nt)); }
void vf_msg_set_reset(VMessage *m, bool v) { new (&m->_vreset) reset_seqnum_flag(v); }
const void *vf_msg_sci(VMessage *m) { return &m->_vsci; }
const void *vf_msg_tci(VMessage *m) { return &m->_vtci; }
const void *vf_msg_reset(VMessage *m) { return &m->_vreset; }
// typed field setters used by the accessor stubs
void vf_set_bool_field(void *f, bool v) { static_cast<poss_dup_flag *>(f)->set(v); }
void vf_set_time_field(void *f, long ticks) { static_cast<sending_time *>(f)->set(Tickval(static_cast<Tickval::ticks>(ticks))); }
void vf_set_int_field(void *f, int v) { static_cast<new_seq_num *>(f)->set(v); }
void vf_set_hbi_field(void *f, int v) { static_cast<heartbeat_interval *>(f)->set(v); }
void vf_set_str_field(void *f, const char *p, unsigned n) { static_cast<test_request_id *>(f)->set(f8String(p, n)); }
// entries (qualified: direct calls)
bool vf_process(VSession *s, const char *p, unsigned n) { const f8String from(p, n); return s->Session::process(from); }
bool vf_seqcheck(VSession *s, unsigned seq, const Message *m) { return s->Session::sequence_check(seq, m); }
bool vf_hb_service(VSession *s) { return s->Session::heartbeat_service(); }
bool vf_handle_logon(VSession *s, unsigned seq, const Message *m) { return s->Session::handle_logon(seq, m); }
// SessionID comparisons (C23, leaf part): ids built by the real field constructors, make_id (log text) not run
void vf_sid_init(SessionID *mem, const char *s, unsigned ns, const char *t, unsigned nt)
{
  *reinterpret_cast<void ***>(mem) = nullptr;
  new (&mem->_beginString) begin_string(f8String("FIX.4.2", 7));
  new (&mem->_senderCompID) sender_comp_id(f8String(s, ns));
  new (&mem->_targetCompID) target_comp_id(f8String(t, nt));
}
bool vf_sid_eq(SessionID *a, SessionID *b) { return *a == *b; }
bool vf_sid_ne(SessionID *a, SessionID *b) { return *a != *b; }
bool vf_sid_same_sender(SessionID *a, const target_comp_id *t) { return a->same_sender_comp_id(*t); }
bool vf_sid_same_target(SessionID *a, const sender_comp_id *t) { return a->same_target_comp_id(*t); }
bool vf_sid_same_side_sender(SessionID *a, const sender_comp_id *t) { return a->same_side_sender_comp_id(*t); }
bool vf_sid_same_side_target(SessionID *a, const target_comp_id *t) { return a->same_side_target_comp_id(*t); }
// a decoding failure of the kind Message::factory raises
void vf_throw_decode(int kind)
{
  switch (kind)
  {
  case 1: throw InvalidMessage("x");             // malformed message: not force_logoff
  case 2: throw InvalidVersion("x");             // wrong BeginString: force_logoff
  case 3: throw MissingMandatoryField(35);       // decode-level failure: not force_logoff
  case 4: throw BadCheckSum(1);                  // trailer failure: not force_logoff
  default: throw std::exception();               // non-f8 failure
  }
}
}
