// C29 cut-mode shim: FileLogger::rotate on an object in typed static storage (Logger's constructor starts a thread, so
// only the members rotate() reads are set up here; member offsets come from the compiler)
#include <fix8/f8includes.hpp>
using namespace FIX8;
extern "C" {
unsigned vf_max_rotation() { return Logger::max_rotation; }      // the documented maximum, read from the real header
void vf_fl_setup(FileLogger *p, const char *path, unsigned pl, unsigned flags, unsigned rotnum)
{
  new (&p->_mutex) f8_mutex; new (&p->_pathname) std::string(path, pl);
  p->_rotnum = rotnum; p->_flags = Logger::LogFlags(flags); p->_ofs = nullptr;
}
bool vf_fl_rotate(FileLogger *p, bool force) { return p->FileLogger::rotate(force); }
unsigned vf_flag_append() { return 1u << Logger::append; }
unsigned vf_flag_compress() { return 1u << Logger::compress; }
}
