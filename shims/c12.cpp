// C12 wrappers: GeneratedTable lookups, the generic presorted_set, its FieldTrait specialisation (Presence) and
// FieldTrait_Hash_Array, bound through ordinary C++.  Compiled in leaf mode (-fno-access-control added) for the kernels
// and in cut mode for find_ref (the InvalidMetadata constructor is the cut point there).
#include <fix8/f8includes.hpp>
using namespace FIX8;

struct Val { unsigned _v; };                       // payload: the lookups never look inside it
using UTab = GeneratedTable<unsigned, Val>;
using STab = GeneratedTable<const char *, Val>;
struct Elem                                         // element of the generic presorted_set instantiation
{
	unsigned short _k, _v;
	Elem() = default;
	Elem(unsigned short k) : _k(k), _v() {}
};
struct ElemLess { bool operator()(const Elem& a, const Elem& b) const { return a._k < b._k; } };
using GSet = presorted_set<unsigned short, Elem, ElemLess>;

#define NI __attribute__((noinline))
extern "C" {
// ---- GeneratedTable<unsigned, Val>: index of the pair found / byte offset of the value found, -1 when absent
NI long vf_gt_pair_u(const UTab::Pair *tab, size_t n, unsigned key) { const UTab t(tab, n); const UTab::Pair *p(t.find_pair_ptr(key)); return p ? p - tab : -1; }
NI long vf_gt_ptr_u(const UTab::Pair *tab, size_t n, unsigned key)
	{ const UTab t(tab, n); const Val *v(t.find_ptr(key)); return v ? reinterpret_cast<const char *>(v) - reinterpret_cast<const char *>(tab) : -1; }
NI long vf_gt_at_u(const UTab::Pair *tab, size_t n, size_t idx) { const UTab t(tab, n); const UTab::Pair *p(t.at(idx)); return p ? p - tab : -1; }
NI long vf_gt_ref_u(const UTab::Pair *tab, size_t n, unsigned key)   // throws InvalidMetadata<unsigned> when absent
	{ const UTab t(tab, n); return reinterpret_cast<const char *>(&t.find_ref(key)) - reinterpret_cast<const char *>(tab); }
// ---- GeneratedTable<const char *, Val>
NI long vf_gt_pair_s(const STab::Pair *tab, size_t n, const char *key) { const STab t(tab, n); const STab::Pair *p(t.find_pair_ptr(key)); return p ? p - tab : -1; }
NI long vf_gt_ptr_s(const STab::Pair *tab, size_t n, const char *key)
	{ const STab t(tab, n); const Val *v(t.find_ptr(key)); return v ? reinterpret_cast<const char *>(v) - reinterpret_cast<const char *>(tab) : -1; }

// ---- generic presorted_set: state installed member by member (any state the harness describes)
NI void vf_gs_setup(GSet *p, Elem *arr, size_t sz, size_t rsz, size_t reserve)
	{ const_cast<size_t&>(p->_reserve) = reserve; p->_sz = sz; p->_rsz = rsz; p->_arr = arr; }
NI void vf_gs_ctor_arr(GSet *p, const Elem *from, size_t sz, size_t reserve) { new (p) GSet(from, sz, reserve); }
NI void vf_gs_ctor_empty(GSet *p, size_t reserve) { new (p) GSet(size_t(0), reserve); }
NI Elem *vf_gs_arr(GSet *p) { return p->_arr; }
NI size_t vf_gs_sz(GSet *p) { return p->size(); }
NI size_t vf_gs_rsz(GSet *p) { return p->rsize(); }
NI Elem *vf_gs_find_k(GSet *p, unsigned short key) { return p->find(key); }
NI const Elem *vf_gs_find_kc(const GSet *p, unsigned short key) { return p->find(key); }
NI Elem *vf_gs_find_ka(GSet *p, unsigned short key, bool *answer) { return p->find(key, *answer); }
NI Elem *vf_gs_insert(GSet *p, const Elem *what, bool *inserted) { GSet::result r(p->insert(what)); *inserted = r.second; return r.first; }
NI void vf_gs_clear(GSet *p) { p->clear(); }

// ---- Presence = presorted_set<unsigned short, FieldTrait, FieldTrait::Compare>
NI void vf_ps_setup(Presence *p, FieldTrait *arr, size_t sz, size_t rsz, size_t reserve, const FieldTrait_Hash_Array *ftha)
	{ p->_reserve = reserve; p->_sz = sz; p->_rsz = rsz; p->_arr = arr; p->_ftha = ftha; }
NI void vf_ps_ctor_arr(Presence *p, const FieldTrait *from, size_t sz, size_t reserve) { new (p) Presence(from, sz, reserve); }
NI void vf_ps_ctor_empty(Presence *p, size_t reserve) { new (p) Presence(size_t(0), reserve); }
NI void vf_ps_ctor_ftha(Presence *p, const FieldTrait *from, size_t sz, const FieldTrait_Hash_Array *ftha) { new (p) Presence(from, sz, ftha); }
NI void vf_ps_ctor_copy(Presence *p, const Presence *from) { new (p) Presence(*from); }
NI FieldTrait *vf_ps_arr(Presence *p) { return p->_arr; }
NI size_t vf_ps_sz(Presence *p) { return p->size(); }
NI size_t vf_ps_rsz(Presence *p) { return p->rsize(); }
NI FieldTrait *vf_ps_find_k(Presence *p, unsigned short key) { return p->find(key); }
NI const FieldTrait *vf_ps_find_kc(const Presence *p, unsigned short key) { return p->find(key); }
NI FieldTrait *vf_ps_find_t(Presence *p, unsigned short key) { return p->find(FieldTrait(key)); }
NI const FieldTrait *vf_ps_find_tc(const Presence *p, unsigned short key) { return p->find(FieldTrait(key)); }
NI FieldTrait *vf_ps_find_ka(Presence *p, unsigned short key, bool *answer) { return p->find(key, *answer); }
NI FieldTrait *vf_ps_insert(Presence *p, const FieldTrait *what, bool *inserted) { Presence::result r(p->insert(what)); *inserted = r.second; return r.first; }
NI void vf_ps_insert_range(Presence *p, const FieldTrait *b, const FieldTrait *e) { p->insert(b, e); }
NI void vf_ps_clear(Presence *p) { p->clear(); }
NI unsigned short vf_ft_fnum(const FieldTrait *t) { return t->_fnum; }

// ---- FieldTrait_Hash_Array
NI void vf_ha_ctor(FieldTrait_Hash_Array *h, const FieldTrait *from, size_t els) { new (h) FieldTrait_Hash_Array(from, els); }
NI unsigned vf_ha_els(const FieldTrait_Hash_Array *h) { return h->_els; }
NI unsigned vf_ha_sz(const FieldTrait_Hash_Array *h) { return h->_sz; }
NI unsigned short *vf_ha_arr(const FieldTrait_Hash_Array *h) { return h->_arr; }
}
// native-side helper of the translator validation only: an array the real code may delete[]
extern "C" void *vf_new_array(size_t bytes) { return new char[bytes]; }
