// C15 cut-mode shim: the real runtime/connection.cpp (FIXReader::read / sockRead / set_preamble_sz, extract_element,
// fast_atoi) compiled with the buffer-dimensioning constants scaled for the verification build only (guide rule 11)
#include <fix8/f8config.h>
#undef FIX8_MAX_MSG_LENGTH
#define FIX8_MAX_MSG_LENGTH 96
#undef FIX8_MAX_FLD_LENGTH
#define FIX8_MAX_FLD_LENGTH 24
#include <connection.cpp>          // found through -I<repo>/runtime: the repo's current working tree
using namespace FIX8;
extern "C" {
// the metadata context is only read for its BeginString
void vf_ctx_init(F8MetaCntx *c, const char *bs, unsigned n) { new (const_cast<f8String*>(&c->_beginStr)) f8String(bs, n); }
// the reader lives in typed static storage: socket pointer set, preamble size computed by the real set_preamble_sz()
void vf_reader_init(FIXReader *r, Poco::Net::StreamSocket *sock) { r->_sock = sock; r->FIXReader::set_preamble_sz(); }
void vf_str_ctor(f8String *s) { new (s) f8String; }
unsigned vf_max_msg_len() { return FIXReader::_max_msg_len; }
unsigned vf_max_fld_len() { return FIX8_MAX_FLD_LENGTH; }
unsigned vf_bg_sz(FIXReader *r) { return unsigned(r->_bg_sz); }
// 1 = message returned, 0 = false; a thrown exception leaves the pending flag set for the harness
int vf_read(FIXReader *r, f8String *to) { return r->FIXReader::read(*to) ? 1 : 0; }
}
