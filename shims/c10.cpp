// C10 leaf wrappers: real RealmBase::get_rlm_idx / is_valid on a caller-supplied table
#include <fix8/f8includes.hpp>
using namespace FIX8;
#define WRAP(NAME, T) \
extern "C" __attribute__((noinline)) int vf_rlm_idx_##NAME(const T *tab, int n, int dtype, T what) \
{ RealmBase r(tab, RealmBase::RealmType(dtype), FieldTrait::ft_int, n, nullptr); return r.get_rlm_idx<T>(what); } \
extern "C" __attribute__((noinline)) int vf_rlm_valid_##NAME(const T *tab, int n, int dtype, T what) \
{ RealmBase r(tab, RealmBase::RealmType(dtype), FieldTrait::ft_int, n, nullptr); return r.is_valid<T>(what); }
WRAP(char, char)
WRAP(int, int)
WRAP(double, double)
