// C07 leaf wrappers: the real checksum kernel
#include <fix8/f8includes.hpp>
using namespace FIX8;
extern "C" __attribute__((noinline)) unsigned vf_calc_chksum(const char *from, size_t sz, unsigned offset, int len)
{ return Message::calc_chksum(from, sz, offset, len); }
