// C25 (pipelined model) cut-mode shim: the real writer-thread loop FIXWriter::execute (runtime/connection.cpp) and the real
// FIXWriter::write / write_batch in process model pm_pipeline; queue and Session::send_process are cut points
#include <connection.cpp>          // found through -I<repo>/runtime: the repo's current working tree
using namespace FIX8;
extern "C" {
void vf_pw_init(FIXWriter *w) { w->_pmodel = pm_pipeline; }
void vf_tok_init(f8_thread_cancellation_token *tok) { new (tok) f8_thread_cancellation_token; }
int vf_pw_execute(FIXWriter *w, f8_thread_cancellation_token *tok) { return w->FIXWriter::execute(*tok); }
bool vf_pw_write(FIXWriter *w, Message *m) { return w->FIXWriter::write(m, true); }
unsigned long vf_pw_write_batch(FIXWriter *w, std::vector<Message *> *v) { return w->FIXWriter::write_batch(*v, true); }
// the real FIXWriter::stop() (pushes the stop sentinel; the thread plumbing behind request_stop is a cut point)
void vf_pw_push_sentinel(FIXWriter *w) { w->_started = true; w->FIXWriter::stop(); }
void vf_vec_init2(std::vector<Message *> *v, Message **store, Message *a, Message *b)
{ store[0] = a; store[1] = b; v->_M_impl._M_start = store; v->_M_impl._M_finish = store + 2; v->_M_impl._M_end_of_storage = store + 2; }
bool vf_msg_eob(const Message *m) { return m->get_end_of_batch(); }
}
