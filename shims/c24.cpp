// C24 wrappers: the real Schedule::test (Tickval::in_range/adjust/get_tm inlined) on a caller-supplied configuration,
// and decode_dow bound through ordinary C++ (cut mode, linked with runtime/f8utils.cpp IR)
#include <fix8/f8includes.hpp>
using namespace FIX8;
extern "C" {
// built exactly as Configuration::create_schedule builds it: Schedule{start, end, duration, utc_offset, start_day, end_day}
__attribute__((noinline)) bool vf_sched_test(long start, long end, int utc_offset, int start_day, int end_day, bool prev)
{
	const Schedule sch(Tickval(static_cast<Tickval::ticks>(start)), Tickval(static_cast<Tickval::ticks>(end)), Tickval(), utc_offset, start_day, end_day);
	return sch.test(prev);
}
__attribute__((noinline)) int vf_decode_dow(const char *p, unsigned n) { return decode_dow(std::string(p, n)); }
}
