// Session world, shared part (own translation unit, llvm-linked with runtime/session.cpp IR and a world-specific shim).
// Setters/getters for exactly the members of Session / Connection / SessionID the code under test reads; the objects
// themselves live in typed static storage declared by the C harness (no Session/Connection constructor is run: they
// start threads and touch sockets).  Member offsets come from the compiler (-fno-access-control), not from scripts.
// Shared between the inbound (C19,C20,C22,C23) and outbound (C16,C17,C18) helpers: keep edits additive.
#include <fix8/f8includes.hpp>
using namespace FIX8;
extern "C" {
// ---- Session scalar state
void vf_sess_set_seq(Session *s, unsigned next_send, unsigned next_recv) { s->_next_send_seq = next_send; s->_next_receive_seq = next_recv; }
void vf_sess_set_state(Session *s, int st) { s->_state = States::SessionStates(st); }
void vf_sess_set_active(Session *s, bool a) { s->_active = a; }
void vf_sess_set_req_seq(Session *s, unsigned rs, unsigned rr) { s->_req_next_send_seq = rs; s->_req_next_receive_seq = rr; }
// collaborators: connection and persister; _sf, _logger, _plogger, _schedule stay null (zero static storage).  No stores of adjacent
// nulls here: clang would merge them into a memset over part of the object, which costs CBMC its field sensitivity for the whole Session
void vf_sess_set_ptrs(Session *s, Connection *c, Persister *p) { s->_connection = c; s->_persist = p; }
// (the reference member Session::_ctx is set by the C harness on the generated struct: see harness/sess_in_world.h)
unsigned vf_sess_next_send(Session *s) { return s->_next_send_seq; }
unsigned vf_sess_next_recv(Session *s) { return s->_next_receive_seq; }
int vf_sess_state(Session *s) { return s->_state; }
bool vf_sess_is_shutdown_flag(Session *s) { return s->_control.has(Session::shutdown); }
void vf_sess_clear_control(Session *s) { s->_control.clearall(); }
// ---- LoginParameters flags (the remaining members stay zero: empty client list, no schedule)
void vf_sess_set_flags(Session *s, bool enforce_compids, bool silent_disconnect, bool reliable, bool always_seqnum_assign, bool reset_seqnums)
{
  LoginParameters& lp(s->_loginParameters);
  lp._enforce_compids = enforce_compids; lp._silent_disconnect = silent_disconnect; lp._reliable = reliable;
  lp._always_seqnum_assign = always_seqnum_assign; lp._reset_sequence_numbers = reset_seqnums;
  lp._no_chksum_flag = false; lp._permissive_mode_flag = false;
  new (&lp._login_schedule) Schedule;     // invalid schedule (errorticks): "no login schedule configured"
}
// ---- identity: the two CompID fields of Session::_sid / the acceptor's _sci are built by their real constructors
void vf_sess_set_sid(Session *s, const char *sender, unsigned ns, const char *target, unsigned nt)
{
  new (&s->_sid) SessionID;                       // real default constructor: all members (incl. the _id/_rid text strings) are proper objects
  s->_sid._senderCompID.set(f8String(sender, ns));
  s->_sid._targetCompID.set(f8String(target, nt));
}
void vf_sess_set_sci(Session *s, const char *sender, unsigned ns) { new (&s->_sci) sender_comp_id(f8String(sender, ns)); }
unsigned vf_sess_sid_sender(Session *s, char *out) { const f8String& v(s->_sid._senderCompID()); out[0] = v.size() > 0 ? v[0] : 0; out[1] = v.size() > 1 ? v[1] : 0; return unsigned(v.size()); }
unsigned vf_sess_sid_target(Session *s, char *out) { const f8String& v(s->_sid._targetCompID()); out[0] = v.size() > 0 ? v[0] : 0; out[1] = v.size() > 1 ? v[1] : 0; return unsigned(v.size()); }
// ---- timestamps (ticks = nanoseconds since the epoch)
void vf_sess_set_times(Session *s, long last_sent, long last_received)
{ s->_last_sent = Tickval(static_cast<Tickval::ticks>(last_sent)); s->_last_received = Tickval(static_cast<Tickval::ticks>(last_received)); }
long vf_sess_last_sent(Session *s) { return s->_last_sent.get_ticks(); }
long vf_sess_last_received(Session *s) { return s->_last_received.get_ticks(); }
// ---- Connection scalar state (typed static storage; reader/writer/socket members stay zero and are never run here)
void vf_conn_set(Connection *c, int role, bool connected, unsigned hb_interval, int pmodel)
{ c->_role = Connection::Role(role); c->_connected = connected; c->_pmodel = ProcessModel(pmodel); c->set_hb_interval(hb_interval); c->_sock = nullptr; }
unsigned vf_conn_hb(Connection *c) { return c->get_hb_interval(); }
}
