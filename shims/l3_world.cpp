// L3 codec world (C01, C11, C02 ordering): the classes f8c (built from the tree under test) generates for
// /verif/schemas/mini.xml, included as one translation unit, plus thin extern "C" entry points that bind to the real
// API through ordinary C++.  Linked (llvm-link) with the cut-mode IR of runtime/message.cpp.
// Everything below the generated sources only calls public fix8 API (qualified where the entry is virtual).
#include <fix8/f8config.h>
#ifdef VF_FLD_LEN
#undef FIX8_MAX_FLD_LENGTH
#define FIX8_MAX_FLD_LENGTH VF_FLD_LEN
#endif
#include <fix8/f8includes.hpp>
#include <new>
#include "mini_types.hpp"
#include "mini_router.hpp"
#include "mini_classes.hpp"
#ifndef VF_L3_NATIVE_LINK      // the verification build and the native replay compile the generated sources right here
#include "mini_types.cpp"
#include "mini_traits.cpp"
#include "mini_classes.cpp"
#endif
using namespace FIX8;

#ifdef VF_L3_CTX_TWIN
// F8MetaCntx without the two reverse-lookup std::maps (name -> entry; std::function comparators) that the codec never reads.
// ir2c binds the real constructor's symbol to this function (props/l3.py, listed as a stub of every harness).
struct L3CTX { unsigned version; const MsgTable *bme; const FieldTable *be; const char **cn; unsigned flu_sz; const BaseEntry **flu;
               msg_create mk_hdr, mk_trl; f8String beginStr; size_t preamble_sz; ReverseMsgTable r1; ReverseFieldTable r2; };
static_assert(sizeof(L3CTX) == sizeof(F8MetaCntx), "F8MetaCntx layout");
extern "C" void vf_ctx_ctor(F8MetaCntx *c, unsigned version, const MsgTable *bme, const FieldTable *be, const char **cn, const f8String *bg)
{
   L3CTX *k = reinterpret_cast<L3CTX *>(c);
   k->version = version; k->bme = bme; k->be = be; k->cn = cn;
   k->flu_sz = be->at(be->size() - 1)->_key + 1;
   k->flu = new const BaseEntry *[k->flu_sz];
   for (unsigned i = 0; i < k->flu_sz; ++i) k->flu[i] = nullptr;
   for (unsigned offset(0); offset < be->size(); ++offset) k->flu[be->at(offset)->_key] = &be->at(offset)->_value;
   new (&k->mk_hdr) msg_create(bme->find_ref("header")._create._do);
   new (&k->mk_trl) msg_create(bme->find_ref("trailer")._create._do);
   new (&k->beginStr) f8String(*bg);
   k->preamble_sz = 2 + k->beginStr.size() + 1 + 3;
}
#endif

extern "C" {
// ---- std::function<Message *(bool)>::operator() (Minst::_do, F8MetaCntx::_mk_hdr/_mk_trl) is bound to a harness function that identifies the
// std::function OBJECT (table slot / context member), checks that the function pointer stored in it is the instantiator of that slot and
// calls that instantiator directly: std::function keeps its target in a byte buffer, which the symbolic executor cannot follow as a constant.
using mk_fn = Message *(*)(bool);
static mk_fn l3_maker(int w)
{
   switch (w) { case 0: return &Minst::_gen::_make<MINI::Heartbeat>; case 1: return &Minst::_gen::_make<MINI::Order>;
                case 2: return &Minst::_gen::_make<MINI::header, bool>; case 3: return &Minst::_gen::_make<MINI::trailer, bool>;
#ifdef VF_L3_MINI2   // schemas/mini2.xml: third message type List (nested group); slot numbers 0..3 keep their meaning, List is 4
                case 4: return &Minst::_gen::_make<MINI::List>;
#endif
   }
   return nullptr;
}
int vf_fn_which(const msg_create *f)
{
   const F8MetaCntx& c(MINI::ctx());
   if (f == &c._mk_hdr) return 2;
   if (f == &c._mk_trl) return 3;
#ifdef VF_L3_MINI2   // message table of mini2: "0", "D", "E", "header", "trailer"
   for (unsigned i = 0; i < c._bme.size(); ++i) if (f == &c._bme.at(i)->_value._create._do) return i < 2 ? int(i) : i == 2 ? 4 : int(i) - 1;
#else
   for (unsigned i = 0; i < c._bme.size(); ++i) if (f == &c._bme.at(i)->_value._create._do) return int(i);
#endif
   return -1;
}
bool vf_fn_check(const msg_create *f, int w) { return *reinterpret_cast<const mk_fn *>(&f->_M_functor) == l3_maker(w); }
Message *vf_fn_make(int w, bool deep)
{
   switch (w) { case 0: return Minst::_gen::_make<MINI::Heartbeat>(deep); case 1: return Minst::_gen::_make<MINI::Order>(deep);
                case 2: return Minst::_gen::_make<MINI::header, bool>(deep); case 3: return Minst::_gen::_make<MINI::trailer, bool>(deep);
#ifdef VF_L3_MINI2
                case 4: return Minst::_gen::_make<MINI::List>(deep);
#endif
   }
   return nullptr;
}
// ---- construction through the public API
#ifdef VF_L3_MINI2
Message *vf_new_msg(int which, bool deep)
{
   return which == 0 ? static_cast<Message *>(new MINI::Heartbeat(deep)) : which == 2 ? static_cast<Message *>(new MINI::List(deep)) : static_cast<Message *>(new MINI::Order(deep));
}
#else
Message *vf_new_msg(int which, bool deep) { return which == 0 ? static_cast<Message *>(new MINI::Heartbeat(deep)) : static_cast<Message *>(new MINI::Order(deep)); }
#endif
MessageBase *vf_header(Message *m) { return m->Header(); }
MessageBase *vf_trailer(Message *m) { return m->Trailer(); }
BaseField *vf_mk_int(unsigned tag, int v)
{
   switch (tag) { case 34: return new MINI::MsgSeqNum(v); case 38: return new MINI::Qty(v); case 36: return new MINI::LineNo(v);
                  case 33: return new MINI::NoLines(v); case 61: return new MINI::RawDataLength(v);
#ifdef VF_L3_MINI2
                  case 13: return new MINI::NoOrders(v); case 14: return new MINI::OrdNo(v); case 16: return new MINI::NoAllocs(v); case 17: return new MINI::AllocNo(v);
#endif
   }
   return nullptr;
}
BaseField *vf_mk_str(unsigned tag, const char *d, unsigned n)
{
   const f8String s(d, n);
   switch (tag) { case 49: return new MINI::SenderCompID(s); case 56: return new MINI::TargetCompID(s); case 11: return new MINI::ClOrdID(s);
                  case 58: return new MINI::Text(s); case 62: return new MINI::RawData(s); case 63: return new MINI::TestReqID(s);
#ifdef VF_L3_MINI2
                  case 12: return new MINI::ListID(s); case 15: return new MINI::OrdText(s); case 18: return new MINI::AllocText(s);
#endif
   }
   return nullptr;
}
BaseField *vf_mk_char(unsigned tag, char c) { return tag == 54 ? new MINI::Side(c) : nullptr; }
BaseField *vf_mk_bool(unsigned tag, bool b) { return tag == 43 ? new MINI::Flag(b) : nullptr; }
BaseField *vf_mk_ts(unsigned tag, unsigned long long ticks)
{
   const Tickval tv(static_cast<Tickval::ticks>(ticks));
   switch (tag) { case 52: return new MINI::SendingTime(tv); case 60: return new MINI::TransactTime(tv); }
   return nullptr;
}
BaseField *vf_mk_float(unsigned tag, double v, int prec) { return tag == 44 ? new MINI::Price(v, prec) : nullptr; }
bool vf_add(MessageBase *to, BaseField *f) { return to->add_field(f); }
GroupBase *vf_find_group(MessageBase *m, unsigned short fnum) { return m->find_group(fnum); }
MessageBase *vf_group_new(GroupBase *g) { return static_cast<MINI::Order::NoLines *>(g)->MINI::Order::NoLines::create_group(true); }
#ifdef VF_L3_MINI2   // deep-constructed element of List::NoOrders (fnum 13; owns an empty NoAllocs instance) or of List::NoOrders::NoAllocs (fnum 16)
MessageBase *vf_group_new2(GroupBase *g, unsigned short fnum)
{
   return fnum == 13 ? static_cast<MINI::List::NoOrders *>(g)->MINI::List::NoOrders::create_group(true)
                     : static_cast<MINI::List::NoOrders::NoAllocs *>(g)->MINI::List::NoOrders::NoAllocs::create_group(true);
}
#endif
void vf_group_add(GroupBase *g, MessageBase *el) { *g += el; }
unsigned vf_group_size(const GroupBase *g) { return unsigned(g->size()); }
MessageBase *vf_group_el(const GroupBase *g, unsigned i) { return g->get_element(i); }

// ---- operations under test
size_t vf_encode(Message *m, char **store) { return m->Message::encode(store); }
f8String *vf_mkstring(const char *bytes, unsigned n) { return new f8String(bytes, n); }
const char *vf_string_data(const f8String *s) { return s->data(); }
Message *vf_factory(const f8String *from) { return Message::factory(MINI::ctx(), *from); }
Message *vf_clone(const Message *m) { return m->Message::clone(); }
unsigned vf_copy_legal(const MessageBase *from, MessageBase *to) { return from->MessageBase::copy_legal(to); }
unsigned vf_move_legal(MessageBase *from, MessageBase *to) { return from->MessageBase::move_legal(to); }
const F8MetaCntx *vf_ctx() { return &MINI::ctx(); }

// ---- observers
unsigned vf_pos_count(const MessageBase *m) { return unsigned(m->get_positions().size()); }
BaseField *vf_pos_nth(const MessageBase *m, unsigned i)
{
   Positions::const_iterator it(m->get_positions().begin());
   for (; i && it != m->get_positions().end(); --i) ++it;
   return it == m->get_positions().end() ? nullptr : it->second;
}
unsigned vf_pos_key(const MessageBase *m, unsigned i)
{
   Positions::const_iterator it(m->get_positions().begin());
   for (; i && it != m->get_positions().end(); --i) ++it;
   return it == m->get_positions().end() ? 0 : it->first;
}
unsigned vf_nfields(const MessageBase *m) { return unsigned(m->_fields.size()); }
BaseField *vf_get_field(const MessageBase *m, unsigned short fnum) { return m->get_field(fnum); }
bool vf_have(const MessageBase *m, unsigned short fnum) { return m->have(fnum); }
unsigned vf_tag(const BaseField *f) { return f->get_tag(); }
int vf_val_int(const BaseField *f) { return static_cast<const Field<int, 0> *>(f)->get(); }
char vf_val_char(const BaseField *f) { return static_cast<const Field<char, 0> *>(f)->get(); }
bool vf_val_bool(const BaseField *f) { return static_cast<const Field<Boolean, 0> *>(f)->get(); }
unsigned vf_val_strlen(const BaseField *f) { return unsigned(static_cast<const Field<f8String, 0> *>(f)->get().size()); }
const char *vf_val_str(const BaseField *f) { return static_cast<const Field<f8String, 0> *>(f)->get().data(); }
unsigned long long vf_val_ticks(const BaseField *f) { return static_cast<const Field<UTCTimestamp, 0> *>(f)->get().get_ticks(); }
double vf_val_float(const BaseField *f) { return static_cast<const Field<fp_type, 0> *>(f)->get(); }
const char *vf_msgtype(const MessageBase *m) { return m->get_msgtype().c_str(); }
}
