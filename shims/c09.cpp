// C09 leaf wrappers: date/time codecs
#include <fix8/f8includes.hpp>
using namespace FIX8;
extern "C" {
__attribute__((noinline)) long vf_time_to_epoch(const tm *t) { return time_to_epoch(*t); }
__attribute__((noinline)) size_t vf_dt_format(long ticks, char *to, int ind) { return date_time_format(Tickval(static_cast<Tickval::ticks>(ticks)), to, TimeIndicator(ind)); }
__attribute__((noinline)) long vf_dt_parse(const char *p, size_t len) { return date_time_parse(p, len); }
__attribute__((noinline)) long vf_time_parse(const char *p, size_t len, int timeonly) { return time_parse(p, len, timeonly); }
__attribute__((noinline)) long vf_date_parse(const char *p, size_t len) { return date_parse(p, len); }
}
