/* plain-data copy of four f8c-generated trait tables of FIX42UTEST (utests/utest_traits.cpp): header, Logon (A),
   Logon::NoMsgTypes, trailer.  {fnum, ftype, pos, component, traits}; compared with libutest.so by replay/codec_tabcheck.cpp on every run.
   Included by shims/codec_world.cpp (as FT) and by the harnesses (as the reference acceptor's tables). */
#define VF_N_HDR 27
#define VF_H_HDR 371   /* hash-array size: largest tag + 1 */
VF_TAB FT vf_hdr_traits[] = { {8,15,1,0,0x64}, {9,1,2,0,0x64}, {34,1,10,0,0x05}, {35,15,3,0,0x44}, {43,8,19,0,0x04}, {49,15,4,0,0x05}, {50,15,11,0,0x04}, {52,22,21,0,0x05}, {56,15,5,0,0x05}, {57,15,13,0,0x04}, {90,2,8,0,0x04}, {91,28,9,0,0x04}, {97,8,20,0,0x04}, {115,15,6,0,0x04}, {116,15,15,0,0x04}, {122,22,22,0,0x04}, {128,15,7,0,0x04}, {129,15,17,0,0x04}, {142,15,12,0,0x04}, {143,15,14,0,0x04}, {144,15,16,0,0x04}, {145,15,18,0,0x04}, {212,2,23,0,0x04}, {213,28,24,0,0x04}, {347,15,25,0,0x04}, {369,1,26,0,0x04}, {370,22,27,0,0x04} };
#define VF_N_BODY 7
#define VF_H_BODY 385   /* hash-array size: largest tag + 1 */
VF_TAB FT vf_body_traits[] = { {95,2,3,0,0x04}, {96,28,4,0,0x04}, {98,1,1,0,0x05}, {108,1,2,0,0x05}, {141,8,5,0,0x04}, {383,1,6,0,0x04}, {384,1,7,0,0x0c} };
#define VF_N_GRP 2
#define VF_H_GRP 386   /* hash-array size: largest tag + 1 */
VF_TAB FT vf_grp_traits[] = { {372,15,1,0,0x04}, {385,7,2,0,0x04} };
#define VF_N_TRL 3
#define VF_H_TRL 94   /* hash-array size: largest tag + 1 */
VF_TAB FT vf_trl_traits[] = { {10,15,3,0,0x64}, {89,28,2,0,0x04}, {93,2,1,0,0x04} };
/* tags with a field-table entry (F8MetaCntx::_flu) in this world: every tag of the four tables plus tags of other messages (7 BeginSeqNo, 58 Text,
   112 TestReqID, 9999: the largest field of FIX42UTEST); every other tag below VF_FLU_SZ has a null entry here (tabcheck verifies that the tags used by the
   harness menus have the same null/non-null status in the generated table) */
#define VF_FLU_SZ 10000   /* FIX42UTEST: largest field number 9999 + 1 */
VF_TAB unsigned short vf_known_tags[] = { 7, 8, 9, 10, 34, 35, 43, 49, 50, 52, 56, 57, 58, 89, 90, 91, 93, 95, 96, 97, 98, 108, 112, 115, 116, 122, 128, 129, 141, 142, 143, 144, 145, 212, 213, 347, 369, 370, 372, 383, 384, 385, 9999 };
#define VF_NMSGS 3
