// C31 cut-mode shim: the real Timer<T> (schedule / clear / operator()) with a recording monitor type; the thread object
// is never started (f8_thread's constructor is a cut point), the event loop is called directly.
#include <fix8/f8includes.hpp>
using namespace FIX8;
extern "C" { bool vf_cb(int id); }               // harness: records (event id, clock reading), returns the callback's result
struct Mon
{
	bool cb0() { return vf_cb(0); }
	bool cb1() { return vf_cb(1); }
	bool cb2() { return vf_cb(2); }
};
using VTimer = Timer<Mon>;
extern "C" {
void vf_tm_ctor(VTimer *t, Mon *m) { new (t) VTimer(*m, 10); }
bool vf_tm_schedule(VTimer *t, int id, bool repeat, unsigned ms)
{
	switch (id)
	{
	case 0: return t->VTimer::schedule(TimerEvent<Mon>(&Mon::cb0, repeat), ms);
	case 1: return t->VTimer::schedule(TimerEvent<Mon>(&Mon::cb1, repeat), ms);
	default: return t->VTimer::schedule(TimerEvent<Mon>(&Mon::cb2, repeat), ms);
	}
}
size_t vf_tm_clear(VTimer *t) { return t->VTimer::clear(); }
int vf_tm_run(VTimer *t) { return t->VTimer::operator()(); }
void vf_tm_stop(VTimer *t) { t->cancellation_token().request_stop(); }
size_t vf_tm_pending(VTimer *t) { return t->_event_queue.size(); }
// observe the i-th slot of the queue's underlying vector: callback id, due time (ns), interval, repeat flag
int vf_tm_event(VTimer *t, size_t i, long *due, unsigned *ms, bool *repeat)
{
	const TimerEvent<Mon>& e(t->_event_queue.c[i]);
	*due = e._t.get_ticks(); *ms = e._intervalMS; *repeat = e._repeat;
	return e._callback == &Mon::cb0 ? 0 : e._callback == &Mon::cb1 ? 1 : e._callback == &Mon::cb2 ? 2 : -1;
}
}
