// C30 threaded harnesses: the real push/pop of ff::SWSR_Ptr_Buffer and ff::uMPMC_Ptr_Queue; set-up without allocation so that all
// state lives in typed static storage of the harness (init itself is covered by the sequential harness C30_seq)
#include <fix8/f8includes.hpp>
extern "C" {
void vf_ts_setup(ff::SWSR_Ptr_Buffer *b, void **ring, unsigned long n) { new (b) ff::SWSR_Ptr_Buffer(n); b->buf = ring; b->reset(); }
bool vf_ts_push(ff::SWSR_Ptr_Buffer *b, void *d) { return b->push(d); }
bool vf_ts_pop(ff::SWSR_Ptr_Buffer *b, void **d) { return b->pop(d); }
// same assignments as uMPMC_Ptr_Queue::init, with the arrays and the sub-queue handles supplied by the harness
void vf_tq_setup(ff::uMPMC_Ptr_Queue *q, void **buf, ff::atomic_long_t *sp, ff::atomic_long_t *sc, void **subs, unsigned long nq)
{
  q->mask = nq - 1; q->buf = buf; q->seqP = sp; q->seqC = sc;
  for (size_t i = 0; i < nq; ++i) { buf[i] = subs[i]; ff::atomic_long_set(&sp[i], long(i)); ff::atomic_long_set(&sc[i], long(i)); }
  ff::atomic_long_set(&q->preadP, 0); ff::atomic_long_set(&q->preadC, 0);
}
bool vf_tq_push(ff::uMPMC_Ptr_Queue *q, void *d) { return q->push(d); }
bool vf_tq_pop(ff::uMPMC_Ptr_Queue *q, void **d) { return q->pop(d); }
}
