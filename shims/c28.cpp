// C28 cut-mode shim: the real Logger (runtime/logger.cpp + include/fix8/logger.hpp) with its thread, queue and clock cut away
#include <logger.cpp>              // found through -I<repo>/runtime: the repo's current working tree
using namespace FIX8;
extern "C" { void vf_processed(unsigned val, unsigned level, int empty); extern void *_ZTV7VLogger[]; }
// the logger under test: Logger's own operator()/enqueue/send/stop; only the sink (process_logline) records
struct VLogger : Logger
{
  VLogger();                                   // never called: the object lives in typed static storage
  void process_logline(LogElement *le) override { vf_processed(le->_val, unsigned(le->_level), le->_str.empty()); }
};
VLogger::VLogger() : Logger(LogFlags()) {}
using LE = Logger::LogElement;
// trees with an explicit exit marker in LogElement (_exit, repo fix "logger exit marker") and trees that use the empty text as the marker
template<class T> auto le_get_exit(const T *e, int) -> decltype(e->_exit, bool()) { return e->_exit; }
template<class T> bool le_get_exit(const T *, long) { return false; }
template<class T> auto le_set_exit(T *e, bool v, int) -> decltype(e->_exit, void()) { e->_exit = v; }
template<class T> void le_set_exit(T *, bool, long) {}
template<class L, class T> auto push_marker(L *l, T *, int) -> decltype(T()._exit, void()) { T le; le._exit = true; l->_msg_queue.try_push(le); }   // second statement group of the new stop()
template<class L, class T> void push_marker(L *l, T *, long) { l->Logger::enqueue(std::string()); }                                             // second statement of the old stop()
extern "C" {
void vf_lg_init(VLogger *l, unsigned levels)
{
  *reinterpret_cast<void ***>(l) = &_ZTV7VLogger[2];
  l->_levels = Logger::Levels(levels);
  new (&l->_stopping) f8_thread_cancellation_token;
}
int vf_lg_run(VLogger *l) { return l->Logger::operator()(); }
bool vf_lg_send(VLogger *l, const char *txt, unsigned n, unsigned level, unsigned val) { return l->Logger::send(std::string(txt, n), Logger::Level(level), nullptr, val); }
bool vf_lg_enqueue(VLogger *l, const char *txt, unsigned n, unsigned level, unsigned val) { return l->Logger::enqueue(std::string(txt, n), Logger::Level(level), nullptr, val); }
void vf_lg_stop(VLogger *l) { l->Logger::stop(); }
// the two steps of stop() separately (same statements as Logger::stop), so that the logger thread can be scheduled between them
void vf_lg_stop_step1(VLogger *l) { l->_stopping.request_stop(); }
void vf_lg_stop_step2(VLogger *l) { push_marker(l, (LE*)nullptr, 0); }
bool vf_lg_stopping(VLogger *l) { return bool(l->_stopping); }
// queue elements: copy construction / inspection / destruction through the real LogElement members
void vf_le_copy(LE *dst, const LE *src) { new (dst) LE(*src); }
// an element as the queue delivers it: same value, level, (non-)empty text and exit flag as the one pushed
void vf_le_make(LE *dst, unsigned val, unsigned level, bool empty, bool exitflag) { new (dst) LE(7, empty ? std::string() : std::string("x"), Logger::Level(level), nullptr, val); le_set_exit(dst, exitflag, 0); }
bool vf_le_exit(const LE *e) { return le_get_exit(e, 0); }
unsigned vf_le_level(const LE *e) { return unsigned(e->_level); }
unsigned vf_le_val(const LE *e) { return e->_val; }
bool vf_le_empty(const LE *e) { return e->_str.empty(); }
// text of an element read through the libstdc++ string layout {char *p; size_t n; ...} (the out-of-line size()/operator[] are not part of the model)
unsigned vf_le_len(const LE *e) { return unsigned(reinterpret_cast<const size_t*>(&e->_str)[1]); }
unsigned vf_le_byte(const LE *e, unsigned i) { const char *p = *reinterpret_cast<const char *const *>(&e->_str); return i < vf_le_len(e) ? (unsigned char)p[i] : 0; }
unsigned vf_le_size() { return sizeof(LE); }
}
