/* POSIX file model for the store world (FilePersister) and the rename recorder of the rotation checks.
   Stands for: open close read write lseek access rename unlink fstat __errno_location strerror.
   Contract:
     * a directory of VF_FS_NFILES slots; a file = name (C string < VF_FS_NAMELEN) + byte array of the constant capacity
       VF_FS_FSIZE + length; no allocation, no symbolic sizes. Path names are compared as whole strings (no directories,
       no links). A write beyond VF_FS_FSIZE, more than VF_FS_NFILES files or VF_FS_NFD descriptors are outside the
       harness bounds and asserted.
     * descriptors 3.. carry (file, offset); read/write transfer min(n, available) bytes at the offset and advance it,
       write extends the file, lseek implements SEEK_SET/SEEK_CUR/SEEK_END, open implements O_CREAT and O_TRUNC,
       access(F_OK), unlink, rename (replaces an existing target atomically, fails with ENOENT when the source is missing).
       No I/O errors, no short writes (a write is atomic - torn writes are not modelled; stated in the claims).
     * every rename call is appended to the recorder (vf_rn_*) with the slots involved and its result.
     * crash points (only with -DVF_FS_CRASH): after each completed write and lseek the harness-visible flag vf_fs_crashed
       may nondeterministically become 1; from then on the file images are frozen (later writes/truncations/renames change
       nothing), i.e. the arrays hold exactly what a process crash at that point leaves on disk. vf_fs_crash_at is the
       number of write/lseek calls completed when the crash happened (used to replay natively).  */
#ifndef VF_FS_NFILES
#define VF_FS_NFILES 2
#endif
#ifndef VF_FS_FSIZE
#define VF_FS_FSIZE 96
#endif
#ifndef VF_FS_NAMELEN
#define VF_FS_NAMELEN 16
#endif
#ifndef VF_FS_NFD
#define VF_FS_NFD 4
#endif
#ifndef VF_FS_MAXIO
#define VF_FS_MAXIO 16             /* most bytes one read/write transfers (unrolled; fixed at 16) */
#endif
#ifndef VF_FS_NRENAMES
#define VF_FS_NRENAMES 4
#endif
/* transfer loops are unrolled with constant indices (a running symbolic index would turn every byte store into an update
   of the whole buffer) */
#define VF_FS_J4(m, b) m((b) + 0) m((b) + 1) m((b) + 2) m((b) + 3)
#define VF_FS_J16(m) VF_FS_J4(m, 0) VF_FS_J4(m, 4) VF_FS_J4(m, 8) VF_FS_J4(m, 12)
uint8_t vf_fs_used[VF_FS_NFILES]; uint8_t vf_fs_name[VF_FS_NFILES][VF_FS_NAMELEN]; uint32_t vf_fs_len[VF_FS_NFILES]; uint8_t vf_fs_data[VF_FS_NFILES][VF_FS_FSIZE];
uint32_t vf_fs_id[VF_FS_NFILES];                    /* content identity tag (rotation checks: which generation a slot holds) */
uint8_t vf_fd_open[VF_FS_NFD], vf_fd_file[VF_FS_NFD]; uint32_t vf_fd_off[VF_FS_NFD];
uint8_t vf_fs_crashed, vf_fs_crash_disarmed; uint32_t vf_fs_syscalls, vf_fs_crash_at; static uint32_t vf_errno;
uint32_t vf_rn_n; int8_t vf_rn_from[VF_FS_NRENAMES], vf_rn_to[VF_FS_NRENAMES]; uint8_t vf_rn_ok[VF_FS_NRENAMES];
_Bool nondet_bool(void);
static void vf_fs_crashpoint(void)
{
  vf_fs_syscalls++;
#ifdef VF_FS_CRASH
  if (!vf_fs_crashed && !vf_fs_crash_disarmed && nondet_bool()) { vf_fs_crashed = 1; vf_fs_crash_at = vf_fs_syscalls; }
#endif
}
static int vf_fs_nameeq(const uint8_t *a, const uint8_t *b)
{
  for (int i = 0; i < VF_FS_NAMELEN; i++) { if (a[i] != b[i]) return 0; if (a[i] == 0) return 1; }
  return 0;
}
static int vf_fs_lookup(const uint8_t *path)
{
  for (int f = 0; f < VF_FS_NFILES; f++) if (vf_fs_used[f] && vf_fs_nameeq(vf_fs_name[f], path)) return f;
  return -1;
}
static int vf_fs_create(const uint8_t *path)
{
  for (int f = 0; f < VF_FS_NFILES; f++) if (!vf_fs_used[f]) {
    int i = 0; for (; i < VF_FS_NAMELEN - 1 && path[i]; i++) vf_fs_name[f][i] = path[i];
    __CPROVER_assert(path[i] == 0, "file model: path name shorter than VF_FS_NAMELEN");
    for (; i < VF_FS_NAMELEN; i++) vf_fs_name[f][i] = 0;
    vf_fs_used[f] = 1; vf_fs_len[f] = 0; vf_fs_id[f] = 0; return f;
  }
  __CPROVER_assert(0, "file model: more than VF_FS_NFILES files"); __CPROVER_assume(0); return -1;
}
/* harness helper: does a file of that name exist / which slot */
int vf_fs_slot(const char *path) { return vf_fs_lookup((const uint8_t*)path); }
/* harness helper: forget all descriptors (process end) and thaw the images for the next process, which runs without crash points */
void vf_fs_new_process(void) { for (int d = 0; d < VF_FS_NFD; d++) vf_fd_open[d] = 0; vf_fs_crashed = 0; vf_fs_crash_disarmed = 1; }
/* harness helpers: length of the file behind a descriptor; move a descriptor's position (to model positions left by earlier calls) */
uint32_t vf_fs_filelen(uint32_t fd) { return vf_fs_len[vf_fd_file[fd - 3]]; }
void vf_fs_set_offset(uint32_t fd, uint32_t off) { __CPROVER_assert(fd >= 3 && fd < 3 + VF_FS_NFD && vf_fd_open[fd - 3] && off <= vf_fs_len[vf_fd_file[fd - 3]], "file model: position inside the file"); vf_fd_off[fd - 3] = off; }
uint32_t *x___errno_location(void) { return &vf_errno; }
uint8_t *x_strerror(uint32_t e) { static uint8_t msg[] = "error"; return msg; }
uint32_t x_access(uint8_t *path, uint32_t mode) { if (vf_fs_lookup(path) >= 0) return 0; vf_errno = 2; return (uint32_t)-1; }
uint32_t x_open(uint8_t *path, uint32_t flags, ...)
{
  int f = vf_fs_lookup(path);
  if (f < 0) { if (!(flags & 0x40)) { vf_errno = 2; return (uint32_t)-1; } if (vf_fs_crashed) { __CPROVER_assume(0); } f = vf_fs_create(path); }
  else if ((flags & 0x200) && !vf_fs_crashed) { vf_fs_len[f] = 0; vf_fs_id[f] = 0; }
  for (int d = 0; d < VF_FS_NFD; d++) if (!vf_fd_open[d]) { vf_fd_open[d] = 1; vf_fd_file[d] = (uint8_t)f; vf_fd_off[d] = 0; return (uint32_t)(d + 3); }
  __CPROVER_assert(0, "file model: more than VF_FS_NFD descriptors"); __CPROVER_assume(0); return (uint32_t)-1;
}
static int vf_fd_ok(uint32_t fd) { return fd >= 3 && fd < 3 + VF_FS_NFD && vf_fd_open[fd - 3]; }
uint32_t x_close(uint32_t fd) { if (!vf_fd_ok(fd)) { vf_errno = 9; return (uint32_t)-1; } vf_fd_open[fd - 3] = 0; return 0; }
uint64_t x_lseek(uint32_t fd, uint64_t off, uint32_t whence)
{
  if (!vf_fd_ok(fd)) { vf_errno = 9; return (uint64_t)-1; }
  int d = (int)fd - 3, f = vf_fd_file[d]; int64_t base = whence == 0 ? 0 : whence == 1 ? (int64_t)vf_fd_off[d] : (int64_t)vf_fs_len[f], np = base + (int64_t)off;
  if (whence > 2 || np < 0) { vf_errno = 22; return (uint64_t)-1; }
  __CPROVER_assert(np <= VF_FS_FSIZE, "file model: seek within VF_FS_FSIZE");
  vf_fd_off[d] = (uint32_t)np; vf_fs_crashpoint();
  return (uint64_t)np;
}
uint64_t x_read(uint32_t fd, uint8_t *buf, uint64_t n)
{
  if (!vf_fd_ok(fd)) { vf_errno = 9; return (uint64_t)-1; }
  int d = (int)fd - 3, f = vf_fd_file[d]; uint32_t off = vf_fd_off[d], len = vf_fs_len[f];
  uint64_t avail = off < len ? len - off : 0, k = n < avail ? n : avail;
  __CPROVER_assert(k <= VF_FS_MAXIO, "file model: read within VF_FS_MAXIO bytes");
#define VF_FS_RD(j) if ((j) < k) buf[j] = vf_fs_data[f][off + (j)];
  VF_FS_J16(VF_FS_RD)
  vf_fd_off[d] = off + (uint32_t)k;
  return k;
}
uint64_t x_write(uint32_t fd, uint8_t *buf, uint64_t n)
{
  if (!vf_fd_ok(fd)) { vf_errno = 9; return (uint64_t)-1; }
  int d = (int)fd - 3, f = vf_fd_file[d]; uint32_t off = vf_fd_off[d];
  __CPROVER_assert(n <= VF_FS_MAXIO, "file model: write within VF_FS_MAXIO bytes");
  __CPROVER_assert(off + n <= VF_FS_FSIZE, "file model: file within VF_FS_FSIZE bytes");
  if (!vf_fs_crashed) {
#define VF_FS_WR(j) if ((j) < n) vf_fs_data[f][off + (j)] = buf[j];
    VF_FS_J16(VF_FS_WR)
    if (off + n > vf_fs_len[f]) vf_fs_len[f] = off + (uint32_t)n;
  }
  vf_fd_off[d] = off + (uint32_t)n; vf_fs_crashpoint();
  return n;
}
uint32_t x_unlink(uint8_t *path)
{
  int f = vf_fs_lookup(path); if (f < 0) { vf_errno = 2; return (uint32_t)-1; }
  if (!vf_fs_crashed) vf_fs_used[f] = 0;
  return 0;
}
uint32_t x_rename(uint8_t *from, uint8_t *to)
{
  int a = vf_fs_lookup(from), b = vf_fs_lookup(to); uint32_t r = vf_rn_n;
  __CPROVER_assert(r < VF_FS_NRENAMES, "file model: rename recorder capacity");
  vf_rn_from[r] = (int8_t)a; vf_rn_to[r] = (int8_t)b; vf_rn_ok[r] = a >= 0; vf_rn_n = r + 1;
  if (a < 0) { vf_errno = 2; return (uint32_t)-1; }
  if (a == b || vf_fs_crashed) return 0;
  if (b >= 0) vf_fs_used[b] = 0;                                        /* the target is replaced */
  int i = 0; for (; i < VF_FS_NAMELEN - 1 && to[i]; i++) vf_fs_name[a][i] = to[i];
  __CPROVER_assert(to[i] == 0, "file model: path name shorter than VF_FS_NAMELEN");
  for (; i < VF_FS_NAMELEN; i++) vf_fs_name[a][i] = 0;
  return 0;
}
