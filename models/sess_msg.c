/* Session world (inbound side): abstract inbound message, outbound recorder, application/authentication hooks.
   Contracts:
   * st_factory (cut point Message::factory): yields the harness's VMessage, or raises the decoding failure selected by
     m_decode_fail through the real exception classes (1 InvalidMessage, 2 InvalidVersion [force_logoff], 3 MissingMandatoryField,
     4 BadCheckSum, 5 std::exception), or returns null (m_factory_null).
   * st_get_* / st_getp_* / st_have (cut points MessageBase::get<T>/have): header/body attributes of that message are the m_*
     variables, which the harness makes symbolic.  The message always carries SenderCompID and TargetCompID.
   * VSession::generate_* record (kind, arguments) and return a token; VSession::send commits the record (kind order preserved). */
#ifndef VF_OUTMAX
#define VF_OUTMAX 4
#endif
enum { G_LOGON = 1, G_LOGOUT, G_HEARTBEAT, G_RESEND_REQUEST, G_SEQUENCE_RESET, G_TEST_REQUEST, G_REJECT, G_BUSINESS_REJECT };
uint8_t g_vf_gen_token;   /* extern char vf_gen_token of the shim: address used as the "generated message" token */
void *m_msg;
uint8_t m_decode_fail, m_factory_null, m_is_admin, m_auth = 1;
uint8_t m_has_pd, m_pd, m_has_st, m_has_ost, m_has_nsn, m_has_begin, m_has_end, m_has_trid, m_has_hbi, m_has_reset, m_has_davi;
int64_t m_st, m_ost; int32_t m_nsn, m_begin, m_end, m_hbi;
uint8_t m_trid[2], m_trid_n, m_sci[2], m_sci_n, m_tci[2], m_tci_n;
int n_factory, n_deliver, n_deleted; uint32_t deliver_seq;
uint32_t m_seq;     /* MsgSeqNum of the abstract message (returned by the fast_atoi<unsigned> cut point of the abstract-message builds) */
uint32_t st_atoi_seq(void *str, uint8_t term) { return m_seq; }
/* outbound recorder */
int out_n, out_bad; static int gen_pending;
uint32_t out_kind[VF_OUTMAX], out_a[VF_OUTMAX], out_b[VF_OUTMAX], out_custom[VF_OUTMAX]; uint8_t out_noinc[VF_OUTMAX], out_slen[VF_OUTMAX], out_s0[VF_OUTMAX], out_s1[VF_OUTMAX];
static uint32_t p_kind, p_a, p_b; static uint8_t p_slen, p_s0, p_s1;
void x_vf_gen(uint32_t kind, uint32_t a, uint32_t b, uint8_t *s, uint32_t slen)
{
  if (gen_pending) out_bad = 1;            /* a generated message that was never sent */
  gen_pending = 1; p_kind = kind; p_a = a; p_b = b; p_slen = (uint8_t)(slen > 255 ? 255 : slen);
  p_s0 = slen > 0 ? s[0] : 0; p_s1 = slen > 1 ? s[1] : 0;
}
void x_vf_rec_send(uint8_t *msg, uint32_t destroy, uint32_t custom, uint32_t noinc)
{
  if (msg != &g_vf_gen_token || !gen_pending) { out_bad = 1; return; }
  gen_pending = 0;
  if (out_n < VF_OUTMAX) { out_kind[out_n] = p_kind; out_a[out_n] = p_a; out_b[out_n] = p_b; out_custom[out_n] = custom; out_noinc[out_n] = noinc & 1;
                           out_slen[out_n] = p_slen; out_s0[out_n] = p_s0; out_s1[out_n] = p_s1; }
  else out_bad = 1;
  out_n++;
}
uint32_t x_vf_deliver(uint32_t seq, uint8_t *m) { n_deliver++; deliver_seq = seq; return 1; }
uint32_t x_vf_is_admin(uint8_t *m) { return m_is_admin; }
uint32_t x_vf_authenticate(void) { return m_auth; }
void st_msg_delete(void *m) { n_deleted++; if (m != m_msg) out_bad = 1; }
/* cut points */
void *st_factory(void *ctx, void *from, uint8_t nochk, uint8_t permissive)
{
  n_factory++;
  /* the returned pointer must stay a constant address on every path (a merged "null or message" pointer makes the vptr load of
     msg->is_admin() symbolic and CBMC fans out over all signature-compatible functions): the value returned while an exception is
     pending is ignored by the caller, and m_factory_null is a per-harness constant */
  if (m_decode_fail) vf_throw_decode(m_decode_fail);
  return m_factory_null ? (void*)0 : m_msg;
}
uint8_t st_get_possdup(void *mb, void *f) { if (!m_has_pd) return 0; vf_set_bool_field(f, m_pd); return 1; }
uint8_t st_get_sendingtime(void *mb, void *f) { if (!m_has_st) return 0; vf_set_time_field(f, m_st); return 1; }
uint8_t st_get_origsendingtime(void *mb, void *f) { if (!m_has_ost) return 0; vf_set_time_field(f, m_ost); return 1; }
uint8_t st_get_newseqno(void *mb, void *f) { if (!m_has_nsn) return 0; vf_set_int_field(f, m_nsn); return 1; }
uint8_t st_get_beginseqno(void *mb, void *f) { if (!m_has_begin) return 0; vf_set_int_field(f, m_begin); return 1; }
uint8_t st_get_endseqno(void *mb, void *f) { if (!m_has_end) return 0; vf_set_int_field(f, m_end); return 1; }
uint8_t st_get_hbi(void *mb, void *f) { if (!m_has_hbi) return 0; vf_set_hbi_field(f, m_hbi); return 1; }
uint8_t st_get_testreqid(void *mb, void *f) { if (!m_has_trid) return 0; vf_set_str_field(f, m_trid, m_trid_n); return 1; }
uint8_t st_get_davi(void *mb, void *f) { return 0; }     /* DefaultApplVerID absent (FIX < 5.0 sessions) */
uint8_t st_get_sci(void *mb, void *f) { vf_set_str_field(f, m_sci, m_sci_n); return 1; }
uint8_t st_get_tci(void *mb, void *f) { vf_set_str_field(f, m_tci, m_tci_n); return 1; }
void *st_getp_sci(void *mb) { return vf_msg_sci(m_msg); }
void *st_getp_tci(void *mb) { return vf_msg_tci(m_msg); }
void *st_getp_resetflag(void *mb) { return m_has_reset ? vf_msg_reset(m_msg) : 0; }
uint8_t st_have(void *mb, uint16_t fnum) { return fnum == 141 ? m_has_reset : fnum == 43 ? m_has_pd : fnum == 122 ? m_has_ost : 0; }
void st_fmt_s(void *e, void *msg, void *what) { }
void st_fmt_ssc(void *e, void *msg, void *what, void *msg2, void *what2) { }
void st_fmt_u(void *e, void *msg, uint32_t what) { }
void st_fmt_uu(void *e, void *msg, uint32_t what, void *msg2, uint32_t what2) { }
/* base-class builders / Session::send: never reached in this world (VSession overrides them) */
#define BASE_TRAP(what) __CPROVER_assert(0, "base-class " what " reached although VSession overrides it"); __CPROVER_assume(0)
void *st_base_pus(void *s, uint32_t a, void *b) { BASE_TRAP("generate_logon"); return 0; }
void *st_base_pp(void *s, void *a) { BASE_TRAP("generate_logout/heartbeat/test_request"); return 0; }
void *st_base_puu(void *s, uint32_t a, uint32_t b) { BASE_TRAP("generate_resend_request"); return 0; }
void *st_base_pub(void *s, uint32_t a, uint8_t b) { BASE_TRAP("generate_sequence_reset"); return 0; }
void *st_base_pupp(void *s, uint32_t a, void *b, void *c) { BASE_TRAP("generate_reject"); return 0; }
void *st_base_pupup(void *s, uint32_t a, void *b, uint32_t c, void *d) { BASE_TRAP("generate_business_reject"); return 0; }
uint8_t st_base_send(void *s, void *m, uint8_t d, uint32_t c, uint8_t n) { BASE_TRAP("Session::send(Message*)"); return 0; }
uint8_t st_base_send2(void *s, void *m, uint32_t c, uint8_t n) { BASE_TRAP("Session::send(Message&)"); return 0; }
uint8_t st_base_sp(void *s, void *m) { BASE_TRAP("Session::send_process"); return 0; }
