/* allocation model for the FastFlow queue world (C30): every allocation the queue code performs is served from typed
   static pools, so that CBMC keeps the objects field-sensitive (the queue's own aligned allocations are untyped).
   Contracts: allocation never fails; memory is never reused after free (free = no-op; ABA through address reuse is
   outside the claim); posix_memalign'd arrays are zero-initialised only where the real code initialises them
   (pool storage is nondeterministic until written: see VF_POOL_DIRTY).
   The two sequence arrays of uMPMC_Ptr_Queue::init are told apart from pointer arrays by call order (the harness gives
   VF_MA_SEQ_MASK: bit i set = the i-th posix_memalign call is an array of atomic counters). */
#ifndef VF_NPTRARR
#define VF_NPTRARR 12
#endif
#ifndef VF_PTRARR_LEN
#define VF_PTRARR_LEN 32            /* BufferPool's cache ring has 32 slots */
#endif
#ifndef VF_NSWSR
#define VF_NSWSR 8
#endif
#ifndef VF_NNODE
#define VF_NNODE 12
#endif
#ifndef VF_NUSW
#define VF_NUSW 4
#endif
#ifndef VF_MA_SEQ_MASK
#define VF_MA_SEQ_MASK 0
#endif
#ifndef VF_SEQ_LEN
#define VF_SEQ_LEN 4
#endif
static uint8_t *vf_ptrarr[VF_NPTRARR][VF_PTRARR_LEN]; static uint32_t vf_ptrarr_n;
static struct S_struct_2eff_3a_3aatomic64_t vf_seqarr[2][VF_SEQ_LEN]; static uint32_t vf_seqarr_n;
static struct S_class_2eff_3a_3aSWSR_Ptr_Buffer vf_swsr[VF_NSWSR]; static uint32_t vf_swsr_n;
static struct S_struct_2eff_3a_3adynqueue_3a_3aNode vf_node[VF_NNODE]; static uint32_t vf_node_n;
static struct S_class_2eff_3a_3auSWSR_Ptr_Buffer vf_usw[VF_NUSW]; static uint32_t vf_usw_n;
static uint32_t vf_ma_calls;
uint32_t x_posix_memalign(uint8_t **out, uint64_t align, uint64_t size)
{
  uint32_t c = vf_ma_calls++;
  if (c < 32 && ((VF_MA_SEQ_MASK >> c) & 1)) {
    __CPROVER_assert(vf_seqarr_n < 2 && size <= sizeof vf_seqarr[0], "allocation model: sequence-array pool large enough");
    *out = (uint8_t*)&vf_seqarr[vf_seqarr_n++][0]; return 0;
  }
  __CPROVER_assert(vf_ptrarr_n < VF_NPTRARR && size <= sizeof vf_ptrarr[0], "allocation model: pointer-array pool large enough");
  *out = (uint8_t*)&vf_ptrarr[vf_ptrarr_n++][0]; return 0;
}
uint8_t *x_malloc(uint64_t n)
{
  if (n == sizeof(struct S_class_2eff_3a_3aSWSR_Ptr_Buffer)) { __CPROVER_assert(vf_swsr_n < VF_NSWSR, "allocation model: SWSR buffer pool large enough"); return (uint8_t*)&vf_swsr[vf_swsr_n++]; }
  if (n == sizeof(struct S_struct_2eff_3a_3adynqueue_3a_3aNode)) { __CPROVER_assert(vf_node_n < VF_NNODE, "allocation model: list node pool large enough"); return (uint8_t*)&vf_node[vf_node_n++]; }
  __CPROVER_assert(0, "allocation model: unexpected malloc size"); __CPROVER_assume(0); return 0;
}
void x_free(uint8_t *p) { }
uint8_t *x__ZnwmSt11align_val_t(uint64_t n, uint64_t al)
{
  __CPROVER_assert(n <= sizeof vf_usw[0] && vf_usw_n < VF_NUSW, "allocation model: uSWSR buffer pool large enough");
  return (uint8_t*)&vf_usw[vf_usw_n++];
}
void x__ZdlPvSt11align_val_t(uint8_t *p, uint64_t al) { }
uint32_t x_llvm_2ectpop_2ei32(uint32_t v) { uint32_t c = 0; for (int i = 0; i < 32; i++) c += (v >> i) & 1; return c; }
/* an assert() of the code under test that fails is a finding, then the path ends (abort) */
void x___assert_fail(uint8_t *expr, uint8_t *file, uint32_t line, uint8_t *fn) { __CPROVER_assert(0, "assert() inside the code under test failed"); __CPROVER_assume(0); }
