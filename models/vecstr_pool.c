/* std::vector<std::string> as used by the rotation code (push_back, operator[], destructor), bound through shims/c29.stubs.
   Contract: ISO C++ vector semantics for these three members; storage comes from a static typed pool of VF_VEC_N vectors x
   VF_VEC_CAP strings instead of geometric reallocation (more elements are outside the harness bounds and asserted), so
   element addresses are constant expressions for the solver. operator[] additionally CHECKS its precondition i < size():
   this is the assertion "every vector index is inside the vector" of C29. The real begin/end/capacity members of the
   vector object are maintained, so other translated header code (size(), empty(), iterators) keeps working. */
#ifndef VF_VEC_CAP
#define VF_VEC_CAP 12
#endif
#ifndef VF_VEC_N
#define VF_VEC_N 2
#endif
static vstr vf_vec_pool[VF_VEC_N][VF_VEC_CAP]; static int vf_vec_used;
static vstr *vf_vec_slot(void *v)
{
  vstr **p = (vstr**)v;
  if (p[0] == 0) { __CPROVER_assert(vf_vec_used < VF_VEC_N, "vector model: at most VF_VEC_N vectors"); __CPROVER_assume(vf_vec_used < VF_VEC_N); p[0] = p[1] = vf_vec_pool[vf_vec_used++]; p[2] = p[0] + VF_VEC_CAP; }
  __CPROVER_assert(p[1] < p[2], "vector model: at most VF_VEC_CAP elements"); __CPROVER_assume(p[1] < p[2]);
  vstr *e = p[1]; p[1] = e + 1; return e;
}
#ifdef VF_VEC_OPAQUE    /* opaque-name runs (1000+ elements): elements are not constructed (their text is never observed), only counted */
void st_vecstr_push(void *v, void *s) { vf_vec_slot(v); }
void st_vecstr_push_rv(void *v, void *s) { vf_vec_slot(v); }
#else
void st_vecstr_push(void *v, void *s) { x__ZNSt7__cxx1112basic_stringIcSt11char_traitsIcESaIcEEC2ERKS4_(vf_vec_slot(v), (vstr*)s); }
void st_vecstr_push_rv(void *v, void *s) { x__ZNSt7__cxx1112basic_stringIcSt11char_traitsIcESaIcEEC2EOS4_(vf_vec_slot(v), (vstr*)s); }
#endif
void *st_vecstr_at(void *v, uint64_t i)
{
  vstr **p = (vstr**)v; uint64_t n = (uint64_t)(p[1] - p[0]);
#ifdef VF_COVER
  if (i >= n) i = 0;      /* reachability twin only: keep the path alive so that the harness's reach goals stay meaningful */
#else
  __CPROVER_assert(i < n, "C29: every vector index is inside the vector (rotation bookkeeping)"); __CPROVER_assume(i < n);
#endif
  return p[0] + i;
}
void st_vecstr_dtor(void *v)
{
#ifndef VF_VEC_OPAQUE
  vstr **p = (vstr**)v;
  for (int k = 0; k < VF_VEC_CAP; k++) if (p[0] + k < p[1]) x__ZNSt7__cxx1112basic_stringIcSt11char_traitsIcESaIcEED2Ev(p[0] + k);
#endif
}
