/* environment models of the session world, outbound side (C16/C17/C18).  Appended after the generated types.
   Contracts:
   - pthread_spin_*: sequential lock discipline; locking a held lock (self-deadlock) and unlocking a free lock are asserted
   - std::chrono::system_clock::now: arbitrary non-decreasing instants (ns since epoch, < 2^62)
   - Poco::Net::StreamSocket::sendBytes(buf, n): accepts all n bytes (blocking socket, no error), appending them to the
     wire capture; n above WIRE_CALL_MAX is outside every harness's bounds and asserted.  The copy is a constant-trip
     loop of guarded byte stores. */
#ifndef WIRE_MAX
#define WIRE_MAX 16
#endif
#ifndef WIRE_CALL_MAX
#define WIRE_CALL_MAX 12
#endif
int64_t nondet_i64(void);
static uint32_t vf_spin_bad;
uint32_t x_pthread_spin_init(uint32_t *l, uint32_t sh) { *l = 0; return 0; }
uint32_t x_pthread_spin_destroy(uint32_t *l) { return 0; }
uint32_t x_pthread_spin_lock(uint32_t *l) { __CPROVER_assert(*l == 0, "spin lock model: lock taken while held (self-deadlock)"); if (*l) vf_spin_bad = 1; *l = 1; return 0; }
uint32_t x_pthread_spin_unlock(uint32_t *l) { __CPROVER_assert(*l == 1, "spin lock model: unlock of a free lock"); if (!*l) vf_spin_bad = 1; *l = 0; return 0; }
uint32_t x_pthread_spin_trylock(uint32_t *l) { if (*l) return 16; *l = 1; return 0; }
static int64_t vf_clock_last;
uint64_t x__ZNSt6chrono3_V212system_clock3nowEv(void) { int64_t t = nondet_i64(); __CPROVER_assume(t >= vf_clock_last && t < (1LL << 62)); vf_clock_last = t; return (uint64_t)t; }
/* wire capture */
static uint8_t wire[WIRE_MAX]; static uint32_t wire_n, wire_calls, wire_call_len[4];
uint32_t x__ZN4Poco3Net12StreamSocket9sendBytesEPKvii(struct S_class_2ePoco_3a_3aNet_3a_3aStreamSocket *sock, uint8_t *buf, uint32_t n, uint32_t flags)
{
  __CPROVER_assert(n <= WIRE_CALL_MAX && wire_n + n <= WIRE_MAX, "socket model: bytes written within WIRE_MAX");
  if (wire_calls < 4) wire_call_len[wire_calls] = n;
  wire_calls++;
  for (uint32_t i = 0; i < WIRE_CALL_MAX; i++) if (i < n) wire[wire_n + i] = buf[i];
  wire_n += n; return n;
}
static uint32_t vf_errno_b; uint32_t *x___errno_location(void) { return &vf_errno_b; }
/* std::string::reserve (called once, on the empty batch buffer, as in the Session constructor): moves the string to a heap
   buffer of the model's constant capacity VF_MAXCOPY+1; longer contents are outside every harness's bounds (asserted by
   the string model's length checks) */
void x__ZNSt7__cxx1112basic_stringIcSt11char_traitsIcESaIcEE7reserveEm(vstr *s, uint64_t n)
{
  if (!VS_LOCAL(s)) return;
  uint8_t *np = vs_alloc(1); uint64_t old = VS_N(s);
  if (old) vf_copy(np, VS_P(s), old);
  np[old] = 0; VS_P(s) = np; VS_CAP(s) = VF_MAXCOPY;
}
uint8_t *x__ZNSt7__cxx1112basic_stringIcSt11char_traitsIcESaIcEEixEm(vstr *s, uint64_t i) { return VS_P(s) + i; }
uint8_t *x__ZNKSt7__cxx1112basic_stringIcSt11char_traitsIcESaIcEEixEm(vstr *s, uint64_t i) { return VS_P(s) + i; }
