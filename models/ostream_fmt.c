/* ostream formatting model (include after cxx.c: uses its std::string model).
   Stands for the out-of-line libstdc++ members of std::ostringstream / std::ostream that the fix8 code calls when it
   builds file names ("name.k") and time stamps:
     basic_ostringstream() / ~basic_ostringstream() / str()
     operator<<(ostream&, char | const char* | const std::string& | _Setw | _Setfill<char> | _Setprecision)
     ostream::operator<<(int | unsigned | long | unsigned long | double)
   Contract implemented (ISO C++ [ostream.formatted], "C" locale, libstdc++ fmtflags bit values):
     * the text goes to the stream's own std::string (the real member basic_stringbuf::_M_string, kept in a heap buffer of
       the constant capacity VF_MAXCOPY so that no allocation has a symbolic size); longer texts are outside every
       harness's bounds and asserted;
     * width / fill / precision / flags live in the real ios_base / basic_ios members of the object (so translated inline
       code such as ios_base::setf, reached through the vbase offset at vptr[-3], works on the same state); every formatted
       insertion pads to width() with fill() (left: after; internal: between sign and digits; otherwise before) and then
       resets width to 0;
     * integers are rendered in decimal (other bases / showpos / showbase: asserted unsupported);
     * double: floatfield == fixed only (anything else asserted unsupported), precision 0..9, |x|*10^p < 10^19: the exact
       binary value m*2^e is scaled by 10^p in 128-bit integer arithmetic and rounded to nearest, ties to even - what
       glibc's printf("%.*f") produces in the default rounding mode, which is what libstdc++'s num_put delegates to.
   All loops are unrolled by macros (no --unwindset entries needed for this file). */
typedef struct S_class_2estd_3a_3abasic_ostream vos;
typedef struct S_class_2estd_3a_3a__cxx11_3a_3abasic_ostringstream voss;
typedef struct S_class_2estd_3a_3abasic_ios vios;
#define VF_R4(x) x x x x
#define VF_R5(x) x x x x x
#define VF_R10(x) VF_R5(x) VF_R5(x)
#define VF_R20(x) VF_R4(VF_R5(x))
#ifndef VF_OS_MAXSTR
#define VF_OS_MAXSTR 40            /* longest C string / std::string argument of one insertion (unrolled) */
#endif
#ifndef VF_OS_MAXPAD
#define VF_OS_MAXPAD 16            /* largest padding of one insertion (unrolled) */
#endif
#define VF_R40(x) VF_R4(VF_R10(x))
#define VF_R16(x) VF_R4(VF_R4(x))
enum { VF_F_DEC = 2, VF_F_FIXED = 4, VF_F_HEX = 8, VF_F_INTERNAL = 0x10, VF_F_LEFT = 0x20, VF_F_OCT = 0x40, VF_F_RIGHT = 0x80, VF_F_SCI = 0x100,
       VF_F_SHOWBASE = 0x200, VF_F_SHOWPOINT = 0x400, VF_F_SHOWPOS = 0x800, VF_F_SKIPWS = 0x1000 };
/* vtable image of the model's ostringstream: slot [-3] (offset to the virtual base basic_ios) is all that translated code reads */
static const uint64_t vf_oss_vtab[4] = { offsetof(voss, f2), 0, 0, 0 };
#define VF_OSS_VPTR ((void*)&vf_oss_vtab[3])
static voss *os_oss(vos *os) { __CPROVER_assert(*(void**)os == VF_OSS_VPTR, "ostream model: the stream is an ostringstream built by the model"); return (voss*)os; }
#define OS_STR(o) (&(o)->f1.f2)
#define OS_PREC(o) ((o)->f2.f0.f1)
#define OS_WIDTH(o) ((o)->f2.f0.f2)
#define OS_FLAGS(o) ((o)->f2.f0.f3)
#define OS_FILL(o) ((o)->f2.f2)
void x__ZNSt7__cxx1119basic_ostringstreamIcSt11char_traitsIcESaIcEEC1Ev(voss *o)
{
  o->f0.f0 = VF_OSS_VPTR;
  vstr *s = OS_STR(o); VS_P(s) = vs_alloc(VF_MAXCOPY + 1); VS_CAP(s) = VF_MAXCOPY; VS_N(s) = 0; VS_P(s)[0] = 0;
  OS_PREC(o) = 6; OS_WIDTH(o) = 0; OS_FLAGS(o) = VF_F_SKIPWS | VF_F_DEC; OS_FILL(o) = ' '; o->f2.f3 = 1;
  o->f2.f4 = (struct S_class_2estd_3a_3abasic_streambuf*)&o->f1; o->f2.f0.f4 = 0; o->f2.f0.f5 = 0;
}
void x__ZNSt7__cxx1119basic_ostringstreamIcSt11char_traitsIcESaIcEED1Ev(voss *o) { free(VS_P(OS_STR(o))); }
void x__ZNKSt7__cxx1119basic_ostringstreamIcSt11char_traitsIcESaIcEE3strEv(vstr *res, voss *o) { vs_init_len(res, VS_P(OS_STR(o)), VS_N(OS_STR(o))); }
static void os_putc(voss *o, uint8_t c)
{
  vstr *s = OS_STR(o); uint64_t n = VS_N(s);
  __CPROVER_assert(n < VF_MAXCOPY, "ostream model: text within VF_MAXCOPY");
  VS_P(s)[n] = c; VS_P(s)[n + 1] = 0; VS_N(s) = n + 1;
}
static void os_pad(voss *o, uint64_t k)
{
  __CPROVER_assert(k <= VF_OS_MAXPAD, "ostream model: padding within VF_OS_MAXPAD");
  uint8_t f = OS_FILL(o); uint64_t i = 0;
  VF_R16(if (i < k) { os_putc(o, f); i++; })
}
/* body = sign (0/1 char) + n payload bytes, emitted with the padding rule; numeric selects the 'internal' rule */
static void os_emit(voss *o, int neg, const uint8_t *b, uint64_t n, int numeric)
{
  uint64_t w = OS_WIDTH(o), tot = n + (neg ? 1 : 0), pad = (w > tot && (int64_t)w > 0) ? w - tot : 0; uint32_t adj = OS_FLAGS(o) & (VF_F_LEFT | VF_F_RIGHT | VF_F_INTERNAL);
  OS_WIDTH(o) = 0;
  if (!(adj == VF_F_LEFT) && !(numeric && adj == VF_F_INTERNAL)) os_pad(o, pad);
  if (neg) os_putc(o, '-');
  if (numeric && adj == VF_F_INTERNAL) os_pad(o, pad);
  __CPROVER_assert(n <= VF_OS_MAXSTR, "ostream model: argument text within VF_OS_MAXSTR");
  uint64_t i = 0;
  VF_R40(if (i < n) { os_putc(o, b[i]); i++; })
  if (adj == VF_F_LEFT) os_pad(o, pad);
}
static void os_int_ok(voss *o) { __CPROVER_assert((OS_FLAGS(o) & (VF_F_HEX | VF_F_OCT | VF_F_SHOWPOS | VF_F_SHOWBASE)) == 0, "ostream model: decimal integers without showpos/showbase only"); }
static void os_put_u32(voss *o, uint32_t v, int neg)
{
  uint8_t d[10], t[10]; int n = 0; os_int_ok(o);
  VF_R10(if (n == 0 || v != 0) { d[n++] = (uint8_t)('0' + v % 10); v /= 10; })
  int k = 0; VF_R10(if (k < n) { t[k] = d[n - 1 - k]; k++; })
  os_emit(o, neg, t, (uint64_t)n, 1);
}
static int os_u64_digits(uint64_t v, uint8_t *t, int mindig)
{
  uint8_t d[20]; int n = 0;
  VF_R20(if (n < mindig || v != 0) { d[n++] = (uint8_t)('0' + v % 10); v /= 10; })
  int k = 0; VF_R20(if (k < n) { t[k] = d[n - 1 - k]; k++; })
  return n;
}
static void os_put_u64(voss *o, uint64_t v, int neg) { uint8_t t[20]; os_int_ok(o); int n = os_u64_digits(v, t, 1); os_emit(o, neg, t, (uint64_t)n, 1); }
vos *x__ZNSolsEi(vos *os, uint32_t v) { int neg = (int32_t)v < 0; os_put_u32(os_oss(os), neg ? 0u - v : v, neg); return os; }
vos *x__ZNSolsEj(vos *os, uint32_t v) { os_put_u32(os_oss(os), v, 0); return os; }
vos *x__ZNSolsEl(vos *os, uint64_t v) { int neg = (int64_t)v < 0; os_put_u64(os_oss(os), neg ? 0ull - v : v, neg); return os; }
vos *x__ZNSolsEm(vos *os, uint64_t v) { os_put_u64(os_oss(os), v, 0); return os; }
vos *x__ZStlsISt11char_traitsIcEERSt13basic_ostreamIcT_ES5_c(vos *os, uint8_t c) { os_emit(os_oss(os), 0, &c, 1, 0); return os; }
vos *x__ZStlsISt11char_traitsIcEERSt13basic_ostreamIcT_ES5_PKc(vos *os, uint8_t *s)
{
  uint64_t n = 0; VF_R40(if (s[n]) n++;)
  __CPROVER_assert(s[n] == 0, "ostream model: C string within VF_OS_MAXSTR");
  os_emit(os_oss(os), 0, s, n, 0); return os;
}
vos *x__ZStlsIcSt11char_traitsIcESaIcEERSt13basic_ostreamIT_T0_ES7_RKNSt7__cxx1112basic_stringIS4_S5_T1_EE(vos *os, vstr *s) { os_emit(os_oss(os), 0, VS_P(s), VS_N(s), 0); return os; }
vos *x__ZStlsIcSt11char_traitsIcEERSt13basic_ostreamIT_T0_ES6_St5_Setw(vos *os, uint32_t w) { OS_WIDTH(os_oss(os)) = (uint64_t)(int64_t)(int32_t)w; return os; }
vos *x__ZStlsIcSt11char_traitsIcEERSt13basic_ostreamIT_T0_ES6_St8_SetfillIS3_E(vos *os, uint8_t c) { OS_FILL(os_oss(os)) = c; return os; }
vos *x__ZStlsIcSt11char_traitsIcEERSt13basic_ostreamIT_T0_ES6_St13_Setprecision(vos *os, uint32_t p) { OS_PREC(os_oss(os)) = (uint64_t)(int64_t)(int32_t)p; return os; }
/* fixed-precision double, exact: x = m * 2^-sh; q = round_half_even(m * 10^p / 2^sh) */
static const uint64_t vf_pow10[10] = { 1ull, 10ull, 100ull, 1000ull, 10000ull, 100000ull, 1000000ull, 10000000ull, 100000000ull, 1000000000ull };
uint64_t vf_fixed_scaled(double x, int p, int *neg)
{
  union { double d; uint64_t u; } cv; cv.d = x;
  uint64_t bits = cv.u, m = bits & ((1ull << 52) - 1); int e = (int)((bits >> 52) & 0x7ff);
  *neg = (int)(bits >> 63);
  __CPROVER_assert(e != 0x7ff, "ostream model: finite double");
  if (e == 0) e = 1; else m |= 1ull << 52;
  int sh = 1075 - e;                                   /* x = m / 2^sh */
  __CPROVER_assert(sh >= 0, "ostream model: |x| < 2^53");
  unsigned __int128 N = (unsigned __int128)m * vf_pow10[p], q;
  if (sh == 0) q = N;
  else if (sh >= 100) q = 0;                           /* N < 2^83 < 2^(sh-1): below one half */
  else {
    unsigned __int128 one = 1; q = N >> sh; unsigned __int128 rem = N & ((one << sh) - 1), half = one << (sh - 1);
    if (rem > half || (rem == half && (q & 1))) q++;
  }
  __CPROVER_assert(q < (unsigned __int128)10000000000000000000ull, "ostream model: |x|*10^p < 10^19");
  return (uint64_t)q;
}
vos *x__ZNSolsEd(vos *os, double x)
{
  voss *o = os_oss(os); uint32_t fl = OS_FLAGS(o);
  __CPROVER_assert((fl & (VF_F_FIXED | VF_F_SCI)) == VF_F_FIXED, "ostream model: double only with floatfield == fixed");
  __CPROVER_assert((fl & (VF_F_SHOWPOS)) == 0, "ostream model: no showpos");
  int64_t pp = (int64_t)OS_PREC(o); __CPROVER_assert(pp >= 0 && pp <= 9, "ostream model: precision 0..9");
  int p = (int)pp, neg; uint64_t q = vf_fixed_scaled(x, p, &neg);
  uint8_t t[20], b[22]; int n = os_u64_digits(q, t, p + 1), k = 0, j = 0;
  VF_R20(if (k < n) { if (k == n - p && p > 0) b[j++] = '.'; b[j++] = t[k]; k++; })
  if (p == 0 && (fl & VF_F_SHOWPOINT)) b[j++] = '.';
  os_emit(o, neg, b, (uint64_t)j, 1); return os;
}
