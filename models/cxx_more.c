/* additional out-of-line std::string members needed by the store world (include after cxx.c) */
vstr *x__ZNSt7__cxx1112basic_stringIcSt11char_traitsIcESaIcEEpLEc(vstr *s, uint8_t c) { return x__ZNSt7__cxx1112basic_stringIcSt11char_traitsIcESaIcEE6appendEPKcm(s, &c, 1); }
/* std::string::rbegin(): reverse_iterator{ current = end() } (bound as a stub so that the numbered IR type name does not matter) */
void st_str_rbegin(void *res, void *s) { *(uint8_t**)res = VS_P((vstr*)s) + VS_N((vstr*)s); }
