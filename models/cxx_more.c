/* additional out-of-line std::string members needed by the store world (include after cxx.c) */
vstr *x__ZNSt7__cxx1112basic_stringIcSt11char_traitsIcESaIcEEpLEc(vstr *s, uint8_t c) { return x__ZNSt7__cxx1112basic_stringIcSt11char_traitsIcESaIcEE6appendEPKcm(s, &c, 1); }
/* std::string::rbegin(): reverse_iterator{ current = end() } (bound as a stub so that the numbered IR type name does not matter) */
void st_str_rbegin(void *res, void *s) { *(uint8_t**)res = VS_P((vstr*)s) + VS_N((vstr*)s); }
/* find_last_of(const char *set, size_t pos): last position <= pos holding a character of the C string set, else npos */
uint64_t x__ZNKSt7__cxx1112basic_stringIcSt11char_traitsIcESaIcEE12find_last_ofEPKcm(vstr *s, uint8_t *set, uint64_t pos)
{
  uint64_t n = VS_N(s); if (n == 0) return (uint64_t)-1;
  uint64_t i = pos < n - 1 ? pos : n - 1;
  for (;;) { for (uint64_t k = 0; set[k]; k++) if (VS_P(s)[i] == set[k]) return i; if (i == 0) break; i--; }
  return (uint64_t)-1;
}
