/* C24 models (appended after models/cxx.c): <cctype> classification the "C" locale way (ISO C) for int arguments that
   may be sign-extended chars; static-initialisation plumbing of runtime/f8utils.cpp (iostream init and atexit
   registration have no effect on decode_dow); std::string element access of the libstdc++ layout. */
uint32_t x_isupper(uint32_t c) { return c >= 'A' && c <= 'Z'; }
uint32_t x___cxa_atexit(FP1 f, uint8_t *obj, uint8_t *dso) { return 0; }
void x__ZNSt8ios_base4InitC1Ev(struct S_class_2estd_3a_3aallocator *a) {}
void x__ZNSt8ios_base4InitD1Ev(struct S_class_2estd_3a_3aallocator *a) {}
uint8_t *x__ZNKSt7__cxx1112basic_stringIcSt11char_traitsIcESaIcEEixEm(vstr *s, uint64_t i) { return VS_P(s) + i; }
uint8_t *x__ZNSt7__cxx1112basic_stringIcSt11char_traitsIcESaIcEE5beginEv(vstr *s) { return VS_P(s); }
uint8_t *x__ZNSt7__cxx1112basic_stringIcSt11char_traitsIcESaIcEE3endEv(vstr *s) { return VS_P(s) + VS_N(s); }
