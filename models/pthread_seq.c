/* sequential pthread mutex model (single-threaded harnesses), bound through shims/store.stubs (void* signatures, so the
   numbered IR type names do not matter): lock state is tracked so that a double lock / unlock of a free mutex is
   reported instead of silently passing */
uint32_t st_pthread_mutex_init(void *m, void *attr) { *(uint8_t*)m = 0; return 0; }
uint32_t st_pthread_mutex_destroy(void *m) { return 0; }
uint32_t st_pthread_mutex_lock(void *m) { __CPROVER_assert(*(uint8_t*)m == 0, "pthread model: mutex locked twice by the only thread (deadlock)"); *(uint8_t*)m = 1; return 0; }
uint32_t st_pthread_mutex_unlock(void *m) { __CPROVER_assert(*(uint8_t*)m == 1, "pthread model: unlock of a mutex that is not locked"); *(uint8_t*)m = 0; return 0; }
