/* harness-side macros */
#ifndef VF_H_H
#define VF_H_H
#include <stdint.h>
#include <stddef.h>
#ifdef VF_COVER
#define VF_ASSERT(c, msg) ((void)0)
#define VF_REACH() __CPROVER_cover(1)
#else
#define VF_ASSERT(c, msg) __CPROVER_assert((c), msg)
#define VF_REACH() ((void)0)
#endif
#define VF_ASSUME(c) __CPROVER_assume(c)
uint8_t nondet_u8(void); uint16_t nondet_u16(void); uint32_t nondet_u32(void); uint64_t nondet_u64(void);
int8_t nondet_i8(void); int32_t nondet_i32(void); int64_t nondet_i64(void); _Bool nondet_bool(void); double nondet_double(void);
#endif
