/* Session world: environment models shared by the inbound and outbound harness families.
   Contracts:
   * clock (std::chrono::system_clock::now, clock_gettime): arbitrary non-decreasing instants in [vf_clock_last, 2^62) ns;
     every reading is logged in vf_clock_log so the harness can relate decisions to the instants actually read.
   * pthread spin locks: uncontended (single-threaded harnesses); sleeps return immediately.
   * Connection::stop (reader/writer thread shutdown, socket close): recorded in n_conn_stop only.
   * ostringstream text building: no text is produced (str() == ""); log and Logout texts are not the subject. */
#ifndef VF_CLOCKMAX
#define VF_CLOCKMAX 6
#endif
int64_t nondet_i64(void);
int64_t vf_clock_last; int vf_clock_reads; int64_t vf_clock_log[VF_CLOCKMAX];
static int64_t vf_clock_next(void)
{
  int64_t t = nondet_i64(); __CPROVER_assume(t >= vf_clock_last && t < ((int64_t)1 << 62));
  vf_clock_last = t; if (vf_clock_reads < VF_CLOCKMAX) vf_clock_log[vf_clock_reads] = t; vf_clock_reads++; return t;
}
uint64_t x__ZNSt6chrono3_V212system_clock3nowEv(void) { return (uint64_t)vf_clock_next(); }
uint32_t x_pthread_spin_lock(uint32_t *l) { return 0; }
uint32_t x_pthread_spin_unlock(uint32_t *l) { return 0; }
/* clock_gettime (hypersleep's deadline computation): an arbitrary normalised timespec */
uint32_t x_clock_gettime(uint32_t clk, struct S_struct_2etimespec *ts) { int64_t s = nondet_i64(), ns = nondet_i64(); __CPROVER_assume(s >= 0 && s < ((int64_t)1 << 40) && ns >= 0 && ns < 1000000000); ts->f0 = (uint64_t)s; ts->f1 = (uint64_t)ns; return 0; }
uint32_t x_clock_nanosleep(uint32_t clk, uint32_t flags, struct S_struct_2etimespec *req, struct S_struct_2etimespec *rem) { return 0; }
int n_conn_stop;
void x__ZN4FIX810Connection4stopEv(struct S_class_2eFIX8_3a_3aConnection *c) { n_conn_stop++; }
void x__ZNSt9exceptionD2Ev(struct S_class_2estd_3a_3aexception *e) { }
void x__ZNSt9exceptionD1Ev(struct S_class_2estd_3a_3aexception *e) { }
uint8_t *x__ZNKSt7__cxx1112basic_stringIcSt11char_traitsIcESaIcEEixEm(vstr *s, uint64_t i) { return VS_P(s) + i; }
uint8_t *x__ZNSt7__cxx1112basic_stringIcSt11char_traitsIcESaIcEEixEm(vstr *s, uint64_t i) { return VS_P(s) + i; }
/* iostream cut points (shims/sess.stubs) */
void st_nop1(void *p) { }
void st_ostr_str(void *ret, void *os) { x__ZNSt7__cxx1112basic_stringIcSt11char_traitsIcESaIcEEC2Ev((vstr*)ret); }
void *st_os_ret2(void *os, void *x) { return os; }
void *st_print_os(void *f, void *os) { return os; }
void *st_os_ret_u(void *os, uint32_t x) { return os; }
void *st_os_ret_l(void *os, uint64_t x) { return os; }
int n_timer_sched, n_timer_clear; uint32_t timer_sched_ms;
uint8_t st_timer_schedule(void *timer, void *ev, uint32_t ms) { n_timer_sched++; timer_sched_ms = ms; return 1; }
uint64_t st_timer_clear(void *timer) { n_timer_clear++; return 0; }
/* exception objects are typed heap objects (ir2c: __cxa_allocate_exception(sizeof T) -> malloc(sizeof(struct T))) */
void st_exc_throw(void *obj, void *tinfo, void *dtor)
{
  if (vf_ti_match(tinfo, &g__ZTIN4FIX811f8ExceptionE))
    ((struct S_class_2eFIX8_3a_3af8Exception*)obj)->f0.f0 = (FP0*)((uint8_t**)&g__ZTVN4FIX811f8ExceptionE.f0.a[2]);
  x___cxa_throw((uint8_t*)obj, (uint8_t*)tinfo, (uint8_t*)dtor);
}
uint8_t st_false_pu(void *s, uint32_t l) { return 0; }
uint8_t st_false_ppupu(void *s, void *w, uint32_t l, void *f, uint32_t v) { return 0; }
uint8_t st_false_ppuu(void *s, void *w, uint32_t l, uint32_t d) { return 0; }
