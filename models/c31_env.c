/* C31 models (used after models/c12_exc.c): remaining exception-runtime entry points and the spin lock set-up.
   pthread_spin_lock/unlock are provided by the harness (lock acquisition is where another thread's clear() may interleave). */
void x___cxa_rethrow(void) { __vf_exc_pending = 1; }
uint8_t *x___cxa_begin_catch(uint8_t *obj) { __vf_exc_pending = 0; return obj; }
void x___cxa_end_catch(void) { }
uint32_t x_pthread_spin_init(uint32_t *l, uint32_t shared) { *l = 0; return 0; }
uint32_t x_pthread_spin_destroy(uint32_t *l) { return 0; }
