/* socket model (C15): Poco::Net::StreamSocket::receiveBytes over the harness's symbolic byte stream.
   Contract: a call asking for n >= 1 bytes returns k bytes with 1 <= k <= min(n, available), k chosen by the solver
   (chunk boundaries are symbolic), copies exactly those k next stream bytes, or returns 0 at stream end (peer closed).
   -DVF_WHOLE: every request is delivered in one chunk (structured defect-exposing harnesses only; chunking is covered elsewhere).
   -DVF_SPLIT2: at most three chunks per request (two arbitrary split points).
   -DVF_SPLIT1: every sockRead request is delivered in at most two chunks (one arbitrary split point per request).
   The copy is a constant-trip loop of guarded byte stores (no symbolic-length memcpy). EAGAIN/negative returns are
   outside the model (stated in the claim). */
#ifndef STREAM_MAX
#define STREAM_MAX 64
#endif
#ifndef VF_CHUNK_MAX
#define VF_CHUNK_MAX 16            /* largest single request of the code under test within the harness bounds */
#endif
static uint8_t vf_stream[STREAM_MAX]; static uint32_t vf_stream_len, vf_stream_pos, vf_recv_calls;
static uint8_t vf_fresh = 1; static uint32_t vf_req_end; static uint8_t vf_nchunk;
#ifndef VF_MAXCALLS
#define VF_MAXCALLS 48
#endif
uint8_t cx_chunk[VF_MAXCALLS];                      /* chunk size of every receiveBytes call, for the native replay */
uint32_t nondet_u32(void);
uint32_t x__ZN4Poco3Net12StreamSocket12receiveBytesEPvii(struct S_class_2ePoco_3a_3aNet_3a_3aStreamSocket *sock, uint8_t *buf, uint32_t n, uint32_t flags)
{
  vf_recv_calls++;
  __CPROVER_assert((int32_t)n >= 1, "socket model: positive request size");
  /* recv contract: the caller's buffer must have room for the whole requested length, whatever the peer then delivers. This exposes a
     reader that accepts an oversized (e.g. wrapped) BodyLength even when the symbolic stream is too short to overrun the buffer. */
  __CPROVER_assert(__CPROVER_w_ok(buf, n), "C15: receiveBytes is only asked for as many bytes as the destination buffer can hold");
  if (vf_stream_pos >= vf_stream_len) return 0;              /* peer closed */
  uint32_t avail = vf_stream_len - vf_stream_pos;
  uint32_t lim = n < avail ? n : avail;
  __CPROVER_assert(lim <= VF_CHUNK_MAX, "socket model: deliverable chunk within VF_CHUNK_MAX");
  uint32_t k = nondet_u32(); __CPROVER_assume(k >= 1 && k <= lim);
#ifdef VF_WHOLE
  k = lim;                                                    /* no splitting: every request is delivered in one piece (as far as the stream goes) */
#endif
#ifdef VF_SPLIT1
  uint32_t req_end = vf_fresh ? vf_stream_pos + n : vf_req_end;   /* stream position at which the current request is complete */
  if (!vf_fresh) k = lim;                                     /* second chunk of a request: everything that is left */
  vf_req_end = req_end;
  vf_fresh = (k == n);
#endif
#ifdef VF_SPLIT2
  /* at most three chunks per request (two arbitrary split points): the third call of a request returns everything that is left */
  if (vf_nchunk >= 2) k = lim;
  vf_nchunk = (k == n) ? 0 : vf_nchunk + 1;
#endif
  for (uint32_t i = 0; i < VF_CHUNK_MAX && i < n; i++)   if (i < k) buf[i] = vf_stream[vf_stream_pos + i];   /* (i < n folds the loop for constant 1-byte requests) */
#ifndef VF_NO_CHUNKREC
  if (vf_recv_calls <= VF_MAXCALLS) cx_chunk[vf_recv_calls - 1] = (uint8_t)k;
#endif
#ifdef VF_SPLIT1
  /* same value as vf_stream_pos + k; written so that the position after a completed request is the constant the request started
     from plus its size (keeps the stream position concrete for CBMC's constant propagation whatever the split point was) */
  vf_stream_pos = (k == n) ? req_end : vf_stream_pos + k;
#else
  vf_stream_pos += k;
#endif
  return k;
}
static uint32_t vf_errno; uint32_t *x___errno_location(void) { return &vf_errno; }
