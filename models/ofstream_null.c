/* std::ofstream(const char*, openmode) as used by FileLogger::rotate: opening is a no-op that succeeds (the file contents
   written through the stream are not the subject of the rotation check); only the stream state read by operator! exists.
   The harness hook vf_ofs_opened(path, mode) observes which path is (re)opened. */
typedef struct S_class_2estd_3a_3abasic_ofstream vofs;
static const uint64_t vf_ofs_vtab[4] = { offsetof(vofs, f2), 0, 0, 0 };
void vf_ofs_opened(uint8_t *path, uint32_t mode);
void x__ZNSt14basic_ofstreamIcSt11char_traitsIcEEC1EPKcSt13_Ios_Openmode(vofs *o, uint8_t *path, uint32_t mode)
{
  o->f0.f0 = (void*)&vf_ofs_vtab[3]; o->f2.f0.f5 = 0; o->f2.f0.f4 = 0;
  vf_ofs_opened(path, mode);
}
uint8_t x__ZNKSt9basic_iosIcSt11char_traitsIcEEntEv(struct S_class_2estd_3a_3abasic_ios *i) { return (i->f0.f5 & 5) != 0; }
