/* codec-world models (appended after models/cxx.c): formatting of exception texts is not the subject, so the
   ostringstream used to build "MissingMandatoryField" reasons is an empty shell (str() yields the empty string);
   the remaining std::string members the codec uses. */
void x__ZNSt7__cxx1119basic_ostringstreamIcSt11char_traitsIcESaIcEEC1Ev(struct S_class_2estd_3a_3a__cxx11_3a_3abasic_ostringstream *o) {}
void x__ZNSt7__cxx1119basic_ostringstreamIcSt11char_traitsIcESaIcEED1Ev(struct S_class_2estd_3a_3a__cxx11_3a_3abasic_ostringstream *o) {}
void x__ZNKSt7__cxx1119basic_ostringstreamIcSt11char_traitsIcESaIcEE3strEv(vstr *ret, struct S_class_2estd_3a_3a__cxx11_3a_3abasic_ostringstream *o) { VS_P(ret) = VS_SSO(ret); VS_N(ret) = 0; VS_SSO(ret)[0] = 0; }
struct S_class_2estd_3a_3abasic_ostream *x__ZStlsISt11char_traitsIcEERSt13basic_ostreamIcT_ES5_c(struct S_class_2estd_3a_3abasic_ostream *o, uint8_t c) { return o; }
struct S_class_2estd_3a_3abasic_ostream *x__ZNSolsEt(struct S_class_2estd_3a_3abasic_ostream *o, uint16_t v) { return o; }
struct S_class_2estd_3a_3abasic_ostream *x__ZStlsISt11char_traitsIcEERSt13basic_ostreamIcT_ES5_PKc(struct S_class_2estd_3a_3abasic_ostream *o, uint8_t *s) { return o; }
vstr *x__ZNSt7__cxx1112basic_stringIcSt11char_traitsIcESaIcEEpLEc(vstr *s, uint8_t c) { return x__ZNSt7__cxx1112basic_stringIcSt11char_traitsIcESaIcEE6appendEPKcm(s, &c, 1); }
