/* base runtime of every ir2c translation: exception flag, traps, libc ("C" locale, ISO C contracts) */
VF_TLS int __vf_exc_pending; VF_TLS void *__vf_exc_obj; VF_TLS void *__vf_exc_type;
void __vf_unmodeled(const char *name) { __CPROVER_assert(0, "unmodeled external reached"); }
void *__vf_alloca(size_t n) { void *p = malloc(n ? n : 1); __CPROVER_assume(p != 0); return p; }
uint64_t x_strlen(uint8_t *p) { uint64_t n = 0; while (p[n]) n++; return n; }
uint32_t x_isspace(uint32_t c) { return c == ' ' || (c >= 9 && c <= 13); }
uint32_t x_isdigit(uint32_t c) { return c >= '0' && c <= '9'; }
uint32_t x_toupper(uint32_t c) { return (c >= 'a' && c <= 'z') ? c - 32 : c; }
uint32_t x_tolower(uint32_t c) { return (c >= 'A' && c <= 'Z') ? c + 32 : c; }
uint32_t x_strcmp(uint8_t *a, uint8_t *b) { uint64_t i = 0; while (a[i] && a[i] == b[i]) i++; return (uint32_t)((int)a[i] - (int)b[i]); }
uint32_t x_memcmp(uint8_t *a, uint8_t *b, uint64_t n) { for (uint64_t i = 0; i < n; i++) if (a[i] != b[i]) return (uint32_t)((int)a[i] - (int)b[i]); return 0; }
uint32_t x_bcmp(uint8_t *a, uint8_t *b, uint64_t n) { for (uint64_t i = 0; i < n; i++) if (a[i] != b[i]) return 1; return 0; }
uint8_t *x_memchr(uint8_t *a, uint32_t c, uint64_t n) { for (uint64_t i = 0; i < n; i++) if (a[i] == (uint8_t)c) return a + i; return 0; }
