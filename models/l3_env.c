/* L3 codec world (appended after models/cxx.c): environment of the generated translation unit's static initialiser and the
   binding of the F8MetaCntx constructor to the shim's twin (shims/l3_world.cpp: vf_ctx_ctor). */
void x__ZNSt8ios_base4InitC1Ev(struct S_class_2estd_3a_3aios_5fbase_3a_3aInit *i) {}
void x__ZNSt8ios_base4InitD1Ev(struct S_class_2estd_3a_3aios_5fbase_3a_3aInit *i) {}
uint32_t x___cxa_atexit(void *fn, uint8_t *obj, uint8_t *dso) { return 0; }     /* destructors of statics never run inside a harness */
void st_ctx_ctor(void *c, uint32_t version, void *bme, void *be, void *cn, void *bg) { vf_ctx_ctor(c, version, bme, be, cn, bg); }
