/* C12 (find_ref) models: the exception runtime of models/cxx.c without its rb-tree part (this translation has no
   std::map types), plus the few out-of-line members the f8Exception destructor path names.  Same contracts as cxx.c:
   exceptions = pending flag + thrown typeinfo matched through the ancestry table ir2c emits. */
typedef struct S_class_2estd_3a_3a__cxx11_3a_3abasic_string vstr;
static const void *__vf_sel_ti;
static int vf_ti_match(const void *thrown, const void *want)
{
  if (thrown == want) return 1;
  for (int i = 0; __vf_ti_tab[i].ti; i++) if (__vf_ti_tab[i].ti == thrown && __vf_ti_tab[i].anc == want) return 1;
  return 0;
}
uint32_t __vf_landing(void **clauses, int n, int cleanup)
{
  for (int i = 0; i < n; i++)
    if (clauses[i] == 0 || vf_ti_match(__vf_exc_type, clauses[i])) { __vf_sel_ti = clauses[i]; return 1; }
  __vf_sel_ti = (const void*)&__vf_sel_ti;
  return cleanup ? 0 : 0xffffffffu;
}
uint32_t __vf_typeid_for(void *ti) { return ti == __vf_sel_ti ? 1 : 2; }
uint8_t *x___cxa_allocate_exception(uint64_t n) { uint8_t *p = malloc(n ? n : 1); __CPROVER_assume(p != 0); return p; }
void x___cxa_free_exception(uint8_t *p) { }
void x___cxa_throw(uint8_t *obj, uint8_t *tinfo, uint8_t *dtor) { __vf_exc_pending = 1; __vf_exc_obj = obj; __vf_exc_type = tinfo; }
void x__ZdlPv(uint8_t *p) { free(p); }
void x__ZNSt7__cxx1112basic_stringIcSt11char_traitsIcESaIcEED2Ev(vstr *s) { }
uint8_t *x__ZNKSt7__cxx1112basic_stringIcSt11char_traitsIcESaIcEE5c_strEv(vstr *s) { return s->f0.f0; }
