/* C++ runtime models (appended after the generated type section, so generated struct names are visible).
   Contracts: libstdc++ cxx11 ABI std::string {char* p; size_t n; union{char sso[16]; size_t cap;}} with ISO C++ value
   semantics; operator new never fails; exceptions = pending flag + thrown typeinfo matched against catch clauses through
   the typeinfo ancestry table ir2c emits (__vf_ti_tab); rb-tree rebalancing replaced by an unbalanced BST over the real
   node layout (same in-order sequence, which is all the inlined header code observes). */
typedef struct S_class_2estd_3a_3a__cxx11_3a_3abasic_string vstr;
#define VS_P(s)   ((s)->f0.f0)
#define VS_N(s)   ((s)->f1)
#define VS_SSO(s) ((uint8_t*)&(s)->f2)
#define VS_CAP(s) ((s)->f2.f0)
#define VS_LOCAL(s) (VS_P(s) == VS_SSO(s))
/* a fresh SSO buffer is zero-filled (its bytes beyond the string are unspecified in the real library): with a constant
   start value CBMC's constant propagation sees short constant strings as constants instead of updates of garbage */
#define VS_ZERO_SSO(s) ((s)->f2.f0 = 0, ((uint64_t*)VS_SSO(s))[1] = 0)
/* byte copy with a symbolic length: a bounded loop of guarded byte stores (a symbolic-size memcpy makes CBMC's
   byte-operator flattening explode); lengths above VF_MAXCOPY are outside every harness's bounds and asserted */
#ifndef VF_MAXCOPY
#define VF_MAXCOPY 24
#endif
static void vf_copy(uint8_t *d, const uint8_t *s, uint64_t n)
{
  __CPROVER_assert(n <= VF_MAXCOPY, "string model: copy length within VF_MAXCOPY");
  for (uint64_t i = 0; i < VF_MAXCOPY; i++) if (i < n) d[i] = s[i];
}
/* heap buffers of the string model have the constant capacity VF_MAXCOPY+1 (a malloc of symbolic size makes every
   access to the object an array-theory problem); longer strings are outside every harness's bounds and asserted */
static uint8_t *vs_alloc(uint64_t n) { __CPROVER_assert(n <= VF_MAXCOPY + 1, "string model: length within VF_MAXCOPY"); uint8_t *p = malloc(VF_MAXCOPY + 1); __CPROVER_assume(p != 0); return p; }
static void vs_init_len(vstr *s, const uint8_t *src, uint64_t n)
{
  if (n > 15) { VS_P(s) = vs_alloc(n + 1); VS_CAP(s) = n; } else { VS_ZERO_SSO(s); VS_P(s) = VS_SSO(s); }
  if (n) vf_copy(VS_P(s), src, n);
  VS_P(s)[n] = 0; VS_N(s) = n;
}
void x__ZNSt7__cxx1112basic_stringIcSt11char_traitsIcESaIcEEC2Ev(vstr *s) { VS_ZERO_SSO(s); VS_P(s) = VS_SSO(s); VS_N(s) = 0; VS_SSO(s)[0] = 0; }
void x__ZNSt7__cxx1112basic_stringIcSt11char_traitsIcESaIcEEC2EPKcmRKS3_(vstr *s, uint8_t *src, uint64_t n, struct S_class_2estd_3a_3aallocator *a) { vs_init_len(s, src, n); }
void x__ZNSt7__cxx1112basic_stringIcSt11char_traitsIcESaIcEEC2ERKS4_(vstr *s, vstr *o) { vs_init_len(s, VS_P(o), VS_N(o)); }
void x__ZNSt7__cxx1112basic_stringIcSt11char_traitsIcESaIcEEC2EOS4_(vstr *s, vstr *o)
{
  if (VS_LOCAL(o)) { vs_init_len(s, VS_P(o), VS_N(o)); }
  else { VS_P(s) = VS_P(o); VS_N(s) = VS_N(o); VS_CAP(s) = VS_CAP(o); }
  VS_P(o) = VS_SSO(o); VS_N(o) = 0; VS_SSO(o)[0] = 0;
}
void x__ZNSt7__cxx1112basic_stringIcSt11char_traitsIcESaIcEED2Ev(vstr *s) { if (!VS_LOCAL(s)) free(VS_P(s)); }
uint64_t x__ZNKSt7__cxx1112basic_stringIcSt11char_traitsIcESaIcEE4sizeEv(vstr *s) { return VS_N(s); }
uint8_t *x__ZNSt7__cxx1112basic_stringIcSt11char_traitsIcESaIcEE4dataEv(vstr *s) { return VS_P(s); }
uint8_t *x__ZNKSt7__cxx1112basic_stringIcSt11char_traitsIcESaIcEE7_M_dataEv(vstr *s) { return VS_P(s); }
void x__ZNSt7__cxx1112basic_stringIcSt11char_traitsIcESaIcEE7_M_dataEPc(vstr *s, uint8_t *p) { VS_P(s) = p; }
void x__ZNSt7__cxx1112basic_stringIcSt11char_traitsIcESaIcEE11_M_capacityEm(vstr *s, uint64_t c) { VS_CAP(s) = c; }
uint8_t *x__ZNSt7__cxx1112basic_stringIcSt11char_traitsIcESaIcEE13_M_local_dataEv(vstr *s) { return VS_SSO(s); }
void x__ZNSt7__cxx1112basic_stringIcSt11char_traitsIcESaIcEE13_M_set_lengthEm(vstr *s, uint64_t n) { VS_N(s) = n; VS_P(s)[n] = 0; }
void x__ZNSt7__cxx1112basic_stringIcSt11char_traitsIcESaIcEE13_S_copy_charsEPcPKcS7_(uint8_t *d, uint8_t *b, uint8_t *e) { if (e != b) vf_copy(d, b, (size_t)(e - b)); }
uint8_t *x__ZNSt7__cxx1112basic_stringIcSt11char_traitsIcESaIcEE9_M_createERmm(vstr *s, uint64_t *cap, uint64_t old) { return vs_alloc(*cap + 1); }
void x__ZNSt7__cxx1112basic_stringIcSt11char_traitsIcESaIcEE10_M_disposeEv(vstr *s) { if (!VS_LOCAL(s)) free(VS_P(s)); }
void x__ZNSt7__cxx1112basic_stringIcSt11char_traitsIcESaIcEE12_Alloc_hiderC2EPcRKS3_(struct S_struct_2estd_3a_3a__cxx11_3a_3abasic_string_3cchar_3e_3a_3a_Alloc_hider *h, uint8_t *p, struct S_class_2estd_3a_3aallocator *a) { h->f0 = p; }
vstr *x__ZNSt7__cxx1112basic_stringIcSt11char_traitsIcESaIcEEaSERKS4_(vstr *s, vstr *o)
{
  if (s == o) return s;
  uint64_t n = VS_N(o);
  uint64_t cap = VS_LOCAL(s) ? 15 : VS_CAP(s);
  if (n > cap) { uint8_t *np = vs_alloc(n + 1); if (!VS_LOCAL(s)) free(VS_P(s)); VS_P(s) = np; VS_CAP(s) = n; }
  if (n) vf_copy(VS_P(s), VS_P(o), n);
  VS_P(s)[n] = 0; VS_N(s) = n; return s;
}
vstr *x__ZNSt7__cxx1112basic_stringIcSt11char_traitsIcESaIcEE6appendEPKcm(vstr *s, uint8_t *src, uint64_t n)
{
  uint64_t old = VS_N(s), nn = old + n;
  uint64_t cap = VS_LOCAL(s) ? 15 : VS_CAP(s);
  if (nn > cap) { uint8_t *np = vs_alloc(nn + 1); if (old) vf_copy(np, VS_P(s), old); if (!VS_LOCAL(s)) free(VS_P(s)); VS_P(s) = np; VS_CAP(s) = nn; }
  if (n) vf_copy(VS_P(s) + old, src, n);
  VS_P(s)[nn] = 0; VS_N(s) = nn; return s;
}
void x__ZNSaIcEC2Ev(struct S_class_2estd_3a_3aallocator *a) {}
void x__ZNSaIcED2Ev(struct S_class_2estd_3a_3aallocator *a) {}
uint8_t *x__ZNKSt7__cxx1112basic_stringIcSt11char_traitsIcESaIcEE4dataEv(vstr *s) { return VS_P(s); }
uint8_t *x__ZNKSt7__cxx1112basic_stringIcSt11char_traitsIcESaIcEE5c_strEv(vstr *s) { return VS_P(s); }
uint32_t x__ZNKSt7__cxx1112basic_stringIcSt11char_traitsIcESaIcEE7compareERKS4_(vstr *a, vstr *b)
{
  uint64_t n = VS_N(a) < VS_N(b) ? VS_N(a) : VS_N(b);
  for (uint64_t i = 0; i < n; i++) if (VS_P(a)[i] != VS_P(b)[i]) return (uint32_t)((int)VS_P(a)[i] - (int)VS_P(b)[i]);
  return VS_N(a) == VS_N(b) ? 0 : (VS_N(a) < VS_N(b) ? (uint32_t)-1 : 1);
}
uint32_t x__ZNKSt7__cxx1112basic_stringIcSt11char_traitsIcESaIcEE7compareEPKc(vstr *a, uint8_t *b)
{
  uint64_t i = 0;
  for (; i < VS_N(a); i++) { if (b[i] == 0) return 1; if (VS_P(a)[i] != b[i]) return (uint32_t)((int)VS_P(a)[i] - (int)b[i]); }
  return b[i] == 0 ? 0 : (uint32_t)-1;
}
uint64_t x__ZNKSt7__cxx1112basic_stringIcSt11char_traitsIcESaIcEE4copyEPcmm(vstr *s, uint8_t *d, uint64_t n, uint64_t pos)
{ uint64_t k = VS_N(s) - pos; if (n < k) k = n; if (k) vf_copy(d, VS_P(s) + pos, k); return k; }
vstr *x__ZNSt7__cxx1112basic_stringIcSt11char_traitsIcESaIcEEaSEOS4_(vstr *s, vstr *o) { return x__ZNSt7__cxx1112basic_stringIcSt11char_traitsIcESaIcEEaSERKS4_(s, o); }
vstr *x__ZNSt7__cxx1112basic_stringIcSt11char_traitsIcESaIcEE6assignEPKcm(vstr *s, uint8_t *src, uint64_t n)
{
  uint64_t cap = VS_LOCAL(s) ? 15 : VS_CAP(s);
  if (n > cap) { uint8_t *np = vs_alloc(n + 1); if (!VS_LOCAL(s)) free(VS_P(s)); VS_P(s) = np; VS_CAP(s) = n; }
  if (n) vf_copy(VS_P(s), src, n);
  VS_P(s)[n] = 0; VS_N(s) = n; return s;
}
vstr *x__ZNSt7__cxx1112basic_stringIcSt11char_traitsIcESaIcEE6assignEPKc(vstr *s, uint8_t *src) { return x__ZNSt7__cxx1112basic_stringIcSt11char_traitsIcESaIcEE6assignEPKcm(s, src, x_strlen(src)); }
vstr *x__ZNSt7__cxx1112basic_stringIcSt11char_traitsIcESaIcEE6appendEPKc(vstr *s, uint8_t *src) { return x__ZNSt7__cxx1112basic_stringIcSt11char_traitsIcESaIcEE6appendEPKcm(s, src, x_strlen(src)); }
vstr *x__ZNSt7__cxx1112basic_stringIcSt11char_traitsIcESaIcEE9_M_appendEPKcm(vstr *s, uint8_t *src, uint64_t n) { return x__ZNSt7__cxx1112basic_stringIcSt11char_traitsIcESaIcEE6appendEPKcm(s, src, n); }
vstr *x__ZNSt7__cxx1112basic_stringIcSt11char_traitsIcESaIcEE9_M_assignERKS4_(vstr *s, vstr *o) { return x__ZNSt7__cxx1112basic_stringIcSt11char_traitsIcESaIcEEaSERKS4_(s, o); }
void x__ZNSt7__cxx1112basic_stringIcSt11char_traitsIcESaIcEE9push_backEc(vstr *s, uint8_t c) { x__ZNSt7__cxx1112basic_stringIcSt11char_traitsIcESaIcEE6appendEPKcm(s, &c, 1); }
void x__ZNSt7__cxx1112basic_stringIcSt11char_traitsIcESaIcEE5clearEv(vstr *s) { VS_N(s) = 0; VS_P(s)[0] = 0; }
uint64_t x__ZNKSt7__cxx1112basic_stringIcSt11char_traitsIcESaIcEE6lengthEv(vstr *s) { return VS_N(s); }
uint8_t x__ZNKSt7__cxx1112basic_stringIcSt11char_traitsIcESaIcEE5emptyEv(vstr *s) { return VS_N(s) == 0; }
uint64_t x__ZNKSt7__cxx1112basic_stringIcSt11char_traitsIcESaIcEE4findEPKcmm(vstr *s, uint8_t *pat, uint64_t pos, uint64_t n)
{
  if (n == 0) return pos <= VS_N(s) ? pos : (uint64_t)-1;
  for (uint64_t i = pos; i + n <= VS_N(s); i++) { uint64_t k = 0; while (k < n && VS_P(s)[i + k] == pat[k]) k++; if (k == n) return i; }
  return (uint64_t)-1;
}
uint64_t x__ZNKSt7__cxx1112basic_stringIcSt11char_traitsIcESaIcEE4findEPKcm(vstr *s, uint8_t *pat, uint64_t pos) { return x__ZNKSt7__cxx1112basic_stringIcSt11char_traitsIcESaIcEE4findEPKcmm(s, pat, pos, x_strlen(pat)); }
uint64_t x__ZNKSt7__cxx1112basic_stringIcSt11char_traitsIcESaIcEE4findEcm(vstr *s, uint8_t c, uint64_t pos) { for (uint64_t i = pos; i < VS_N(s); i++) if (VS_P(s)[i] == c) return i; return (uint64_t)-1; }

/* operator new / delete: allocation never fails (stated) */
uint8_t *x__Znwm(uint64_t n) { uint8_t *p = malloc(n ? n : 1); __CPROVER_assume(p != 0); return p; }
void x__ZdlPv(uint8_t *p) { free(p); }
void x__ZdlPvm(uint8_t *p, uint64_t n) { free(p); }
uint8_t *x__Znam(uint64_t n) { uint8_t *p = malloc(n ? n : 1); __CPROVER_assume(p != 0); return p; }
void x__ZdaPv(uint8_t *p) { free(p); }
/* rb-tree: unbalanced model over the real node layout {color, parent, left, right} */
typedef struct S_struct_2estd_3a_3a_Rb_tree_node_base rbn;   /* f0 color, f1 parent, f2 left, f3 right */
void x__ZSt29_Rb_tree_insert_and_rebalancebPSt18_Rb_tree_node_baseS0_RS_(uint8_t left, rbn *x, rbn *p, rbn *h)
{
  x->f1 = p; x->f2 = 0; x->f3 = 0; x->f0 = 1; /* all real nodes black; header stays red(0) */
  if (left) { p->f2 = x; if (p == h) { h->f1 = x; h->f3 = x; } else if (p == h->f2) h->f2 = x; }
  else { p->f3 = x; if (p == h->f3) h->f3 = x; }
}
rbn *x__ZSt18_Rb_tree_incrementPKSt18_Rb_tree_node_base(rbn *x)
{
  if (x->f3) { x = x->f3; while (x->f2) x = x->f2; }
  else { rbn *y = x->f1; while (x == y->f3) { x = y; y = y->f1; } if (x->f3 != y) x = y; }
  return x;
}
static rbn *rb_dec(rbn *x)
{
  if (x->f2) { rbn *y = x->f2; while (y->f3) y = y->f3; return y; }
  rbn *y = x->f1; while (x == y->f2) { x = y; y = y->f1; } return y;
}
rbn *x__ZSt18_Rb_tree_decrementPSt18_Rb_tree_node_base(rbn *x) { if (x->f0 == 0 && x->f1 && x->f1->f1 == x) return x->f3; return rb_dec(x); }
rbn *x__ZSt18_Rb_tree_decrementPKSt18_Rb_tree_node_base(rbn *x) { if (x->f0 == 0 && x->f1 && x->f1->f1 == x) return x->f3; return rb_dec(x); }

/* exceptions */
static VF_TLS const void *__vf_sel_ti;      /* per thread, like the pending-exception state (VF_TLS: vf_rt.h) */
static int vf_ti_match(const void *thrown, const void *want)
{
  if (thrown == want) return 1;
  for (int i = 0; __vf_ti_tab[i].ti; i++) if (__vf_ti_tab[i].anc == want && __vf_ti_tab[i].ti == thrown) return 1;   /* constant test first: no path split for unrelated rows */
  return 0;
}
uint32_t __vf_landing(void **clauses, int n, int cleanup)
{
  for (int i = 0; i < n; i++)
    if (clauses[i] == 0 || vf_ti_match(__vf_exc_type, clauses[i])) { __vf_sel_ti = clauses[i]; return 1; }
  __vf_sel_ti = (const void*)&__vf_sel_ti;      /* matches no typeinfo */
  return cleanup ? 0 : 0xffffffffu;
}
uint32_t __vf_typeid_for(void *ti) { return ti == __vf_sel_ti ? 1 : 2; }
uint8_t *x___cxa_allocate_exception(uint64_t n) { uint8_t *p = malloc(n ? n : 1); __CPROVER_assume(p != 0); return p; }
void x___cxa_free_exception(uint8_t *p) { }
void x___cxa_throw(uint8_t *obj, uint8_t *tinfo, uint8_t *dtor) { __vf_exc_pending = 1; __vf_exc_obj = obj; __vf_exc_type = tinfo; }
void x___cxa_rethrow(void) { __vf_exc_pending = 1; }
uint8_t *x___cxa_begin_catch(uint8_t *obj) { __vf_exc_pending = 0; return obj; }
void x___cxa_end_catch(void) { }
uint32_t x___cxa_guard_acquire(uint64_t *g) { return *(uint8_t*)g == 0; }
void x___cxa_guard_release(uint64_t *g) { *(uint8_t*)g = 1; }
void x___cxa_guard_abort(uint64_t *g) { }
void x__ZSt9terminatev(void) { __CPROVER_assert(0, "std::terminate reached"); __CPROVER_assume(0); }
void x___cxa_pure_virtual(void) { __CPROVER_assert(0, "pure virtual call"); __CPROVER_assume(0); }
