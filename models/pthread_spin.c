/* pthread spin lock / mutex model for threaded harnesses (C25): atomic test-and-set with blocking semantics.
   lock   = atomically { wait until free; take }   (the wait is an assume inside the atomic section: a thread that cannot take the
            lock is simply not scheduled at this point, which covers every finite spinning)
   unlock = atomically { release }
   trylock returns 0 and takes the lock if it was free, EBUSY (16) otherwise.  -DVF_THREADS enables the atomic sections. */
uint32_t x_pthread_spin_init(uint32_t *l, uint32_t shared) { *l = 0; return 0; }
uint32_t x_pthread_spin_destroy(uint32_t *l) { return 0; }
uint32_t x_pthread_spin_lock(uint32_t *l) { VF_ATOMIC_BEGIN(); __CPROVER_assume(*l == 0); *l = 1; VF_ATOMIC_END(); return 0; }
uint32_t x_pthread_spin_trylock(uint32_t *l) { uint32_t r; VF_ATOMIC_BEGIN(); if (*l == 0) { *l = 1; r = 0; } else r = 16; VF_ATOMIC_END(); return r; }
uint32_t x_pthread_spin_unlock(uint32_t *l) { VF_ATOMIC_BEGIN(); *l = 0; VF_ATOMIC_END(); return 0; }
uint32_t x_sched_yield(void) { return 0; }
