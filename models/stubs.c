/* bodies of the standing cut-point stubs named in shims/common.stubs */
uint8_t st_false_u(uint32_t a) { return 0; }
