#ifndef VF_RT_H
#define VF_RT_H
#include <stdint.h>
#include <stddef.h>

/* the pending-exception state is per thread (as C++ exceptions are); only threaded harnesses (-DVF_THREADS) need the distinction */
#if defined(VF_THREADS) && defined(__CPROVER__)
#define VF_TLS __CPROVER_thread_local
#else
#define VF_TLS
#endif
extern VF_TLS int __vf_exc_pending; extern VF_TLS void *__vf_exc_obj; extern VF_TLS void *__vf_exc_type;
uint32_t __vf_landing(void **clauses, int n, int cleanup);
uint32_t __vf_typeid_for(void *ti);
void *__vf_alloca(size_t n);
static inline void __vf_fence(void) {}
#ifndef __CPROVER__
#include <stdlib.h>
#include <stdio.h>
#define __CPROVER_assume(x) do { if(!(x)) abort(); } while(0)
#define __CPROVER_assert(x, m) do { if(!(x)) { fprintf(stderr, "assert: %s\n", m); abort(); } } while(0)
#define __CPROVER_atomic_begin()
#define __CPROVER_atomic_end()
#endif
/* atomic sections only matter (and only cost CBMC's concurrency encoding) in threaded harnesses */
#if defined(VF_THREADS) && defined(__CPROVER__)
#define VF_ATOMIC_BEGIN() __CPROVER_atomic_begin()
#define VF_ATOMIC_END() __CPROVER_atomic_end()
#else
#define VF_ATOMIC_BEGIN() ((void)0)
#define VF_ATOMIC_END() ((void)0)
#endif
/* scheduling hook emitted by ir2c after every cmpxchg / atomicrmw / atomic store (default: nothing); a harness that sequentialises a
   stalled thread defines VF_YIELD() before including the translation */
#ifndef VF_YIELD
#define VF_YIELD() ((void)0)
#endif
static inline void __vf_trap(void) { __CPROVER_assume(0); }
void __vf_unmodeled(const char *name);
static inline void *__vf_typed_new(void *p, uint64_t asked, uint64_t have) { __CPROVER_assume(p != 0); __CPROVER_assert(asked <= have, "typed new: size"); return p; }
void *malloc(size_t); void free(void*);
#endif
