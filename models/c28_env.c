/* environment of the logger world (C28): clock = arbitrary non-decreasing instants (only stamped into log elements) */
static int64_t vf28_clock_last;
int64_t nondet_i64(void);
uint64_t x__ZNSt6chrono3_V212system_clock3nowEv(void) { int64_t t = nondet_i64(); __CPROVER_assume(t >= vf28_clock_last && t < ((int64_t)1 << 62)); vf28_clock_last = t; return (uint64_t)t; }
/* std::string members used by line-text handling (include after cxx.c; ISO C++ semantics):
   find_last_not_of(const char *set, size_t pos): index of the last character at or before pos that is not in set, npos if none;
   substr(pos, n): copy of [pos, pos + min(n, size - pos)) (pos <= size within the harness bounds, asserted) */
static int vf28_in_set(uint8_t c, const uint8_t *set)     /* sets of up to 3 characters (longer ones are outside the harness bounds, asserted) */
{
  if (!set[0]) return 0; if (c == set[0]) return 1;
  if (!set[1]) return 0; if (c == set[1]) return 1;
  if (!set[2]) return 0; if (c == set[2]) return 1;
  __CPROVER_assert(!set[3], "string model: find_last_not_of character set of at most 3 characters");
  return 0;
}
uint64_t x__ZNKSt7__cxx1112basic_stringIcSt11char_traitsIcESaIcEE16find_last_not_ofEPKcm(vstr *s, uint8_t *set, uint64_t pos)
{
  uint64_t n = VS_N(s);
  __CPROVER_assert(n <= VF_MAXCOPY, "string model: length within VF_MAXCOPY");
  for (uint64_t k = VF_MAXCOPY; k-- > 0; )                                  /* constant trip count, highest index first */
    if (k < n && k <= pos && !vf28_in_set(VS_P(s)[k], set)) return k;
  return (uint64_t)-1;
}
void x__ZNKSt7__cxx1112basic_stringIcSt11char_traitsIcESaIcEE6substrEmm(vstr *res, vstr *s, uint64_t pos, uint64_t n)
{
  __CPROVER_assert(pos <= VS_N(s), "string model: substr position within the string (std::out_of_range otherwise)");
  uint64_t m = VS_N(s) - pos; if (n < m) m = n;
  vs_init_len(res, VS_P(s) + pos, m);
}
