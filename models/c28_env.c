/* environment of the logger world (C28): clock = arbitrary non-decreasing instants (only stamped into log elements) */
static int64_t vf28_clock_last;
int64_t nondet_i64(void);
uint64_t x__ZNSt6chrono3_V212system_clock3nowEv(void) { int64_t t = nondet_i64(); __CPROVER_assume(t >= vf28_clock_last && t < ((int64_t)1 << 62)); vf28_clock_last = t; return (uint64_t)t; }
