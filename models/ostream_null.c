/* "opaque names" variant of the ostream model for the rotation runs around the documented maximum (1000+ iterations):
   ostringstream construction and every operator<< are no-ops, str() yields an empty string. Only usable where the text
   is not observed (those harnesses check the vector indexing and the number of rename calls, not the names). */
typedef struct S_class_2estd_3a_3abasic_ostream vos;
typedef struct S_class_2estd_3a_3a__cxx11_3a_3abasic_ostringstream voss;
void x__ZNSt7__cxx1119basic_ostringstreamIcSt11char_traitsIcESaIcEEC1Ev(voss *o) { }
void x__ZNSt7__cxx1119basic_ostringstreamIcSt11char_traitsIcESaIcEED1Ev(voss *o) { }
void x__ZNKSt7__cxx1119basic_ostringstreamIcSt11char_traitsIcESaIcEE3strEv(vstr *res, voss *o) { x__ZNSt7__cxx1112basic_stringIcSt11char_traitsIcESaIcEEC2Ev(res); }
vos *x__ZNSolsEi(vos *os, uint32_t v) { return os; }
vos *x__ZNSolsEj(vos *os, uint32_t v) { return os; }
vos *x__ZNSolsEl(vos *os, uint64_t v) { return os; }
vos *x__ZNSolsEm(vos *os, uint64_t v) { return os; }
vos *x__ZStlsISt11char_traitsIcEERSt13basic_ostreamIcT_ES5_c(vos *os, uint8_t c) { return os; }
vos *x__ZStlsISt11char_traitsIcEERSt13basic_ostreamIcT_ES5_PKc(vos *os, uint8_t *s) { return os; }
vos *x__ZStlsIcSt11char_traitsIcESaIcEERSt13basic_ostreamIT_T0_ES7_RKNSt7__cxx1112basic_stringIS4_S5_T1_EE(vos *os, vstr *s) { return os; }
