#!/bin/sh
# usage: mkwt.sh <dir>   — scratch worktree of /repo HEAD with the (ignored) build output copied in, so `make` works
set -e
d=$1
git -C /repo worktree add -f "$d" HEAD -q
rsync -a --ignore-existing --exclude .git /repo/ "$d"/
echo "$d"
