#!/bin/bash
# usage: mut_test.sh <patch.diff> <check-id> [extra check args]  — applies a seeded change to the scratch tree /tmp/wk/me
# (synchronised to /repo HEAD), REBUILDS its library (native replays link it), runs the check against it, restores the tree.
p=$(readlink -f "$1"); id=$2; shift 2
T=${MUT_TREE:-/tmp/wk/me}; exec 9>$T.lock; flock 9      # one seeded change at a time per scratch tree
cd $T || exit 9
git checkout -q -- . ; git checkout -q --detach $(git -C /repo rev-parse HEAD)
if ! git apply "$p" 2>/dev/null; then patch -p1 -F3 < "$p" | tail -1; fi
git diff --stat | tail -1
# no rebuild needed: native replays use libraries built from the tree's sources by vf/core.repo_libs()
cd /verif && VF_REPO=$T timeout 3000 ./check $id "$@" 2>&1 | grep -v "^  \[ir\|^  \[nat" | tail -8
cd $T && git checkout -q -- . && find . -name "*.rej" -o -name "*.orig" | xargs rm -f
