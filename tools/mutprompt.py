#!/usr/bin/env python3
import json, sys
pid, d = sys.argv[1], sys.argv[2]
p = next(json.loads(l) for l in open('/verif/properties.jsonl') if json.loads(l)['id'] == pid)
print(f"""You are helping to test a verification effort by seeding ONE realistic, subtle bug into a C++ library (fix8, a FIX protocol engine).

Work ONLY inside the git worktree at {d} . It is a full checkout with build output already in place: run `make -j6` from {d} to rebuild after a change (a header change rebuilds most of the library, about 3 minutes) and `make -k check` from {d} to run the 4 unit-test programs (31 tests; all print PASS on the unchanged tree). Do NOT read, list or modify anything under /verif or /repo, and do not look at other directories under /tmp/mut. The machine has no network.

The property that your change must BREAK:
  Title: {p['title']}
  Statement: {p['statement']}
  Quantified over: {p['quantifier']['text']}
  Source files most likely involved: {', '.join(p['anchors'].get('files', []))}

Note: the current code may already violate parts of this property for some inputs (pre-existing defects). That does not count: your change must break a clause or input region that currently HOLDS, so that your demonstration passes on the original code and fails only with your change.

Your task:
1. Read the relevant code, then make a SMALL change to the library sources (not to the tests, not to build files) that makes the library violate this property, while the tree still compiles and `make -k check` still passes completely. The change should look like something a developer could plausibly commit (a refactor, an optimisation, an off-by-one, a changed constant or comparison, a reordered pair of statements, a dropped special case ...). It must need something SPECIFIC to manifest - a particular boundary value or unusual input, a multi-step sequence of operations, a particular interleaving or crash point, or two cooperating sites that each look fine alone - and must NOT be exposed at once by ordinary use. Do not add code that detects a magic input.
2. Write a demonstration under {d}/demo/ : a small standalone program demo.cpp (or several files) plus run.sh that builds it against this tree (headers in {d}/include, library {d}/runtime/.libs/libfix8.so, Poco libs -lPocoNet -lPocoUtil -lPocoFoundation; use -Wl,-rpath so it runs; for the unit-test schema classes link {d}/utests/.libs/libutest.so or compile what you need) and exits 0 when the property holds and non-zero when it is violated. It must exit 0 on the ORIGINAL code and non-zero on your CHANGED code - verify both yourself (NEVER use `git stash`: the stash is shared with other worktrees of this repository. Instead save your change with `git diff > /tmp/mut/{pid}.mine.patch`, revert with `git checkout -- <files>`, rebuild, run the demo, then re-apply with `git apply /tmp/mut/{pid}.mine.patch` and rebuild).
3. Write {d}/demo/patch.diff = `git diff` of the library source change only (no demo files), and {d}/demo/NOTES.md: what you changed, which clause of the property breaks, exactly what is needed for it to manifest, and the commands you ran with their observed results (make, make -k check, demo on original, demo on changed).
Leave the worktree with the change applied and built. In your final answer give a short summary: the change, what it needs to manifest, and the demo/test results.""")
