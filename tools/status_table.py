#!/usr/bin/env python3
"""regenerates the table of DESIGN.md section 9.5 from vf/claims.py, known_findings.json and the committed evidence files"""
import json, os, re, sys
V = os.path.dirname(os.path.dirname(os.path.abspath(__file__)))
sys.path.insert(0, V)
from vf.claims import CLAIMS
kf = json.load(open(V + '/known_findings.json'))['findings']
rows = ['| property | status | last quick run on /repo (this machine, shared) | known findings announced | fix: commits recorded |', '|---|---|---|---|---|']
for l in open(V + '/properties.jsonl'):
    pid = json.loads(l)['id']
    if pid not in CLAIMS:
        rows.append('| %s | not claimed | - | - | - |' % pid); continue
    ev = V + '/evidence/%s.json' % pid
    run = '-'
    if os.path.exists(ev):
        d = json.load(open(ev)); c = d['coverage']
        run = '%d harnesses, %s %ds' % (len(c.get('samples', [])), d.get('tier'), d.get('wall_s', 0))
        if c.get('not_finished'): run += ', %d no verdict' % len(c['not_finished'])
    known = [e.get('id') or e.get('define') for e in kf if e.get('property') == pid and e.get('status') == 'known']
    fixed = [e for e in kf if e.get('property') == pid and e.get('status') == 'fixed']
    rows.append('| %s | claimed | %s | %s | %s |' % (pid, run, ', '.join(known) or '-', len(fixed) or '-'))
table = '\n'.join(rows)
p = V + '/DESIGN.md'; s = open(p).read()
m = re.search(r'(### 9\.5 [^\n]*\n)(\| property \|.*?\n)(\n)', s, re.S)
if not m: sys.exit('section 9.5 table not found')
s = s[:m.start(2)] + table + '\n' + s[m.end(2):]
open(p, 'w').write(s)
print('DESIGN.md 9.5: %d rows' % (len(rows) - 2))
