#!/bin/bash
# runs every claimed check (quick tier) sequentially against /repo and summarises; evidence files are rewritten
cd /verif
ids=$(python3-vt -c "import json; print(' '.join(c['property_id'] for c in json.load(open('MANIFEST.json'))['checks']))")
for id in ${@:-$ids}; do
  s=$(date +%s); ./check $id --tier quick > /tmp/runall_$id.log 2>&1; rc=$?
  echo "$id rc=$rc $(( $(date +%s) - s ))s $(tail -n 1 /tmp/runall_$id.log)"
done
