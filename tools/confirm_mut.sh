#!/bin/bash
# usage: confirm_mut.sh <worktree>  — confirms a seeded change: builds, unit tests pass, demo fails with it and passes without it
d=$1; cd "$d" || exit 9
log=$d/demo/confirm.log; : > $log
git diff --quiet && git apply demo/patch.diff
make -j6 >> $log 2>&1 || { echo "BUILD-FAILED(with change)"; exit 1; }
make -k check > $d/demo/check_with.log 2>&1; pw=$(grep -c "^PASS:" $d/demo/check_with.log); fw=$(grep -c "^FAIL:" $d/demo/check_with.log)
bash demo/run.sh > $d/demo/demo_with.log 2>&1; rw=$?
git apply -R demo/patch.diff || { echo "REVERT-FAILED"; exit 1; }
make -j6 >> $log 2>&1 || { echo "BUILD-FAILED(original)"; exit 1; }
bash demo/run.sh > $d/demo/demo_without.log 2>&1; ro=$?
git apply demo/patch.diff
echo "tests_with_change: PASS=$pw FAIL=$fw  demo_with_change_rc=$rw  demo_original_rc=$ro"
