"""C10 realm lookups: real RealmBase::get_rlm_idx / is_valid on symbolic sorted tables"""
import os
from vf.core import *
FUN = ['FIX8::RealmBase::get_rlm_idx<T>', 'FIX8::RealmBase::is_valid<T>', 'std::lower_bound / std::binary_search (header code, inlined)']
TY = [('char', 0), ('int', 1), ('double', 2)]

def run(ctx):
    kf = known_findings('C10'); defs = kf_defines(kf)
    ll = ctx.build_ir('c10.cpp', 'leaf')
    roots = ['vf_rlm_idx_%s' % t for t, _ in TY] + ['vf_rlm_valid_%s' % t for t, _ in TY]
    ctx.translate(ll, roots, 'c10.c')
    ctx.translate(ll, roots, 'c10gen.c', opts=['--prefix', 'gen_'])
    exe = ctx.native('c10diff', ['replay/c10_diff.c', ctx.work + '/c10gen.c', 'shims/c10.cpp'])
    r = sh([exe, str(ctx.seed)])
    if r.returncode != 0: raise Broken('translator validation failed: ' + r.stdout[-500:])
    ctx.validation.append(dict(kernels=roots, result=r.stdout.strip()))
    nt = 8 if ctx.tier == 'quick' else 16
    for t, k in TY:
        ctx.add(Harness('C10_realm_%s' % t, VERIF + '/harness/C10_rlm.c', defines=defs + ['TYK=%d' % k, 'NT=%d' % nt], unwind=nt + 2, timeout=600,
                        functions=[f.replace('<T>', '<%s>' % t) for f in FUN],
                        bounds='any strictly ascending table of n <= %d %s values (set realm) or any [lo,hi] pair (range realm), any probe value%s' % (nt, t, ' except NaN' if t == 'double' else ''),
                        desc='index/validity oracle = linear membership scan'))
    ctx.assumptions += ['realm tables are sorted and duplicate-free (what f8c emits; checked for the generated tables only indirectly)',
                        'NaN probes/table entries excluded for double realms', 'f8String realms: not encoded (std::string comparison is out-of-line); the algorithm instantiated is the same template',
                        'range realms: only is_valid is claimed; get_rlm_idx returns 0 for every value of a range realm by design (ranges carry no per-value description)']
    ctx.solve()
    ctx.handle_failures(replay, kf)
    announce_known(ctx, kf, replay)
    return ctx.finish()

def replay(ctx, cx, h=None):
    c = cx.get('cx', cx)
    exe = ctx.native('c10replay', ['replay/c10_replay.cpp'], flags=('-O1', '-fsanitize=address,undefined'))
    ty = c.get('ty') or {'C10_realm_char': 'char', 'C10_realm_int': 'int', 'C10_realm_double': 'double'}.get(h.name if h else '', 'int')
    n = int(c['cx_n']); tab = c['cx_tab'][:n] if isinstance(c['cx_tab'], list) else []
    def num(v): return ('0x%016x' % v['bits']) if isinstance(v, dict) else str(v)
    r = sh([exe, ty, str(int(c['cx_dtype'])), num(c['cx_what']), *[num(v) for v in tab]], env=dict(os.environ, ASAN_OPTIONS='detect_leaks=0'))
    return r.returncode != 0, r.stdout.strip()[-300:].replace('\n', ' | ')
