"""C26 persister store contract (memory persister; file persister harness: see C26_file when present)"""
import os
from vf.core import *
ROOTS = ['vf_mp_ctor', 'vf_mp_put', 'vf_mp_putc', 'vf_mp_get', 'vf_mp_getc', 'vf_mp_last', 'vf_mp_nearest', 'vf_mp_range']
FUN = ['FIX8::MemoryPersister::put(seq,str)', 'put(control)', 'get(seq)', 'get(control)', 'get(from,to,session,callback)', 'find_nearest_highest_seqnum', 'get_last_seqnum',
       'std::map<unsigned,const f8String> header code (_Rb_tree::find/_M_get_insert_unique_pos/_M_insert_/lower_bound) as instantiated in runtime/persist.cpp']
US = ['main.0:8', 'main.1:8', 'main.2:8', 'x_vf_range_cb.0:8', '_ZNK4FIX815MemoryPersister27find_nearest_highest_seqnumEjj.0:9', 'vf_copy.0:10']

def build(ctx):
    shim = ctx.build_ir('c26.cpp', 'cut'); per = ctx.build_ir(REPO + '/runtime/persist.cpp', 'cut')
    ll = ctx.link_ir([shim, per], 'c26all')
    return ctx.translate(ll, ROOTS, 'c26.c', stubfiles=['common.stubs'], models=['cxx.c', 'stubs.c'], provided=['vf_range_cb'])

def run(ctx):
    kf = known_findings('C26'); defs = kf_defines(kf)
    info = build(ctx)
    ks = [(2, 0x7f), (3, 0x0f), (3, 0x35)] if ctx.tier == 'quick' else [(2, 0x7f), (3, 0x0f), (3, 0x35), (3, 0x47), (3, 0x7f), (4, 0x0f), (4, 0x35)]
    for k, ops in ks:
        ctx.add(Harness('C26_mem_k%d_ops%02x' % (k, ops), VERIF + '/harness/C26_mem.c', defines=defs + ['K=%d' % k, 'OPS=0x%x' % ops, 'VF_MAXCOPY=8'], unwind=k + 2,
                        unwindset=US + ['main.3:%d' % (k + 2)], timeout=900 if ctx.tier == 'quick' else 3000, mem_gb=16, functions=FUN, nochecks=False,
                        stubs=['GlobalLogger::is_loggable := false (logging off)', 'std::string out-of-line members, operator new, _Rb_tree_insert_and_rebalance/increment/decrement: models/cxx.c'],
                        bounds='every sequence of %d operations drawn from op set 0x%02x {0 put,1 control-put,2 get,3 control-get,4 last,5 nearest,6 range-get}, seqnums 0..6, payloads 1-2 symbolic bytes' % (k, ops),
                        desc='real MemoryPersister against a reference map + control record'))
    ctx.assumptions += ['operator new never fails', 'rb-tree rebalancing replaced by an unbalanced BST with the same in-order sequence',
                        'range retrieval uses a non-virtual recording callback on an opaque Session (only Session::get_next_send_seq is read)',
                        'file persister: covered by harness family C26_file / C27 when registered; not part of this run unless listed in samples']
    ctx.solve()
    ctx.handle_failures(replay, kf)
    announce_known(ctx, kf, replay)
    return ctx.finish()

def replay(ctx, cx, h=None):
    c = cx.get('cx', cx)
    exe = ctx.native('c26replay', ['replay/c26_replay.cpp', REPO + '/runtime/persist.cpp'], flags=('-O1', '-fsanitize=address,undefined'), libs=['-L' + REPO + '/runtime/.libs', '-lfix8', '-Wl,-rpath,' + REPO + '/runtime/.libs'])
    ops = c.get('cx_op', []); n = len(ops)
    def g(k, i): v = c.get(k, []); return int(v[i]) if i < len(v) else 0
    args = []
    for i in range(n): args += [str(g('cx_op', i)), str(g('cx_a', i)), str(g('cx_b', i)), str(g('cx_d0', i)), str(g('cx_d1', i)), str(g('cx_len', i))]
    r = sh([exe, 'mem'] + args, env=dict(os.environ, ASAN_OPTIONS='detect_leaks=0'))
    return r.returncode != 0, r.stdout.strip()[-400:].replace('\n', ' | ')
