"""C26 persister store contract: memory persister (harness/C26_mem.c) and file persister over the POSIX file model
(harness/C26_file.c, models/posixfs.c, models/ostream_fmt.c)"""
import os
from vf.core import *
ROOTS = ['vf_mp_ctor', 'vf_mp_put', 'vf_mp_putc', 'vf_mp_get', 'vf_mp_getc', 'vf_mp_last', 'vf_mp_nearest', 'vf_mp_range']
FUN = ['FIX8::MemoryPersister::put(seq,str)', 'put(control)', 'get(seq)', 'get(control)', 'get(from,to,session,callback)', 'find_nearest_highest_seqnum', 'get_last_seqnum',
       'std::map<unsigned,const f8String> header code (_Rb_tree::find/_M_get_insert_unique_pos/_M_insert_/lower_bound) as instantiated in runtime/persist.cpp']
US = ['main.0:8', 'main.1:8', 'main.2:8', 'x_vf_range_cb.0:8', '_ZNK4FIX815MemoryPersister27find_nearest_highest_seqnumEjj.0:9', 'vf_copy.0:10']

# ---- file persister family (shared with C27 / C29)
FROOTS = ['vf_fp_ctor', 'vf_fp_init', 'vf_fp_put', 'vf_fp_putc', 'vf_fp_get', 'vf_fp_getc', 'vf_fp_last', 'vf_fp_nearest', 'vf_fp_range', 'vf_fp_fod', 'vf_fp_iod']
FFUN = ['FIX8::FilePersister::initialise', 'FilePersister::put(seq,str)', 'put(control)', 'get(seq)', 'get(control)', 'get(from,to,session,callback)',
        'find_nearest_highest_seqnum', 'get_last_seqnum', 'FIX8::CheckAddTrailingSlash', 'FIX8::exist',
        'std::map<unsigned,Prec> header code (_Rb_tree::find/_M_get_insert_unique_pos/_M_insert_/lower_bound) as instantiated in runtime/filepersist.cpp']
FSTUBS = ['GlobalLogger::is_loggable := false (logging off)', 'std::string out-of-line members, operator new, _Rb_tree_insert_and_rebalance/increment/decrement: models/cxx.c, models/cxx_more.c',
          'std::ostringstream and operator<< (names dir/name, name.idx): models/ostream_fmt.c',
          'open/close/read/write/lseek/access/rename/unlink/errno/strerror: models/posixfs.c (files = fixed byte arrays + length, per-descriptor offset, no I/O errors, writes atomic)']
MSGLEN = 16      # FIX8_MAX_MSG_LENGTH in the verification build of filepersist.cpp (only dimensions the read buffers; payloads are <= 2 bytes)
NAMELEN = 16
def fs_unwindset(nfiles=2, nfd=4, namelen=NAMELEN):
    return ['vf_fs_nameeq.0:%d' % (namelen + 1), 'vf_fs_lookup.0:%d' % (nfiles + 1), 'vf_fs_create.0:%d' % (namelen + 1), 'vf_fs_create.1:%d' % (namelen + 1),
            'vf_fs_create.2:%d' % (nfiles + 1), 'x_open.0:%d' % (nfd + 1), 'x_rename.0:%d' % (namelen + 1), 'x_rename.1:%d' % (namelen + 1), 'vf_fs_new_process.0:%d' % (nfd + 1)]
FUS = ['main.0:8', 'main.1:8', 'main.2:8', 'x_vf_range_cb.0:8', '_ZNK4FIX813FilePersister27find_nearest_highest_seqnumEjj.0:9', 'vf_copy.0:10'] + fs_unwindset()

def build(ctx):
    shim = ctx.build_ir('c26.cpp', 'cut'); per = ctx.build_ir(REPO + '/runtime/persist.cpp', 'cut')
    ll = ctx.link_ir([shim, per], 'c26all')
    return ctx.translate(ll, ROOTS, 'c26.c', stubfiles=['common.stubs'], models=['cxx.c', 'stubs.c'], provided=['vf_range_cb'])

def build_file(ctx, out='c26f.c', roots=FROOTS, provided=('vf_range_cb',), extra_ll=(), models=None, stubfiles=None):
    """real FilePersister world: shim + persist.cpp + filepersist.cpp (message buffer scaled) + f8utils.cpp, file and ostream models"""
    shim = ctx.build_ir('c26.cpp', 'cut'); per = ctx.build_ir(REPO + '/runtime/persist.cpp', 'cut')
    fper = ctx.build_ir(REPO + '/runtime/filepersist.cpp', 'cut', extra=['-DFIX8_MAX_MSG_LENGTH=%d' % MSGLEN])
    ut = ctx.build_ir(REPO + '/runtime/f8utils.cpp', 'cut')
    ll = ctx.link_ir([shim, per, fper, ut] + list(extra_ll), out.replace('.c', '_all'))
    return ctx.translate(ll, roots, out, stubfiles=stubfiles or ['common.stubs', 'store.stubs'], models=models or ['cxx.c', 'stubs.c', 'cxx_more.c', 'ostream_fmt.c', 'posixfs.c'], provided=list(provided))

def opsname(sets): return '_'.join('%02x' % s for s in sets)

def run(ctx):
    kf = known_findings('C26'); defs = kf_defines(kf)
    info = build(ctx)
    ks = [(2, 0x7f), (3, 0x35)] if ctx.tier == 'quick' else [(2, 0x7f), (3, 0x0f), (3, 0x35), (3, 0x47), (3, 0x7f), (4, 0x0f), (4, 0x35)]
    for k, ops in ks:
        ctx.add(Harness('C26_mem_k%d_ops%02x' % (k, ops), VERIF + '/harness/C26_mem.c', defines=defs + ['K=%d' % k, 'OPS=0x%x' % ops, 'VF_MAXCOPY=8'], unwind=k + 2,
                        unwindset=US + ['main.3:%d' % (k + 2)], timeout=900 if ctx.tier == 'quick' else 3000, mem_gb=16, functions=FUN, nochecks=False,
                        stubs=['GlobalLogger::is_loggable := false (logging off)', 'std::string out-of-line members, operator new, _Rb_tree_insert_and_rebalance/increment/decrement: models/cxx.c'],
                        bounds='every sequence of %d operations drawn from op set 0x%02x {0 put,1 control-put,2 get,3 control-get,4 last,5 nearest,6 range-get}, seqnums 0..6, payloads 1-2 symbolic bytes' % (k, ops),
                        desc='real MemoryPersister against a reference map + control record'))
    # file persister: per-position operation sets (position i draws from sets[i]); range retrieval is by far the most
    # expensive operation to encode, so it is only placed last in a sequence
    build_file(ctx)
    fq = [(0x3f, 0x3f), (0x03, 0x03, 0x3c), (0x01, 0x03, 0x40)]
    ft = fq + [(0x3f, 0x3f, 0x3f), (0x05, 0x05, 0x05), (0x03, 0x43, 0x40), (0x01, 0x01, 0x03, 0x3c), (0x01, 0x03, 0x01, 0x40)]
    for sets in (fq if ctx.tier == 'quick' else ft):
        k = len(sets)
        ctx.add(Harness('C26_file_k%d_%s' % (k, opsname(sets)), VERIF + '/harness/C26_file.c',
                        defines=defs + ['K=%d' % k, 'VF_MAXCOPY=8', 'VF_FS_FSIZE=%d' % (16 * (k + 2))] + ['OPS%d=0x%x' % (i, s) for i, s in enumerate(sets)], unwind=k + 2,
                        unwindset=FUS + ['main.3:%d' % (k + 2)], timeout=900 if ctx.tier == 'quick' else 3000, mem_gb=16, functions=FFUN, stubs=FSTUBS,
                        nochecks=(ctx.tier == 'quick' and 0x40 in sets),     # range retrieval: pointer/overflow instrumentation only in the thorough tier (4x the formula)
                        bounds='initialise on an empty directory, then every sequence of %d operations where position i draws from op set %s {bit 0 put,1 control-put,2 get,3 control-get,4 last,5 nearest,6 range-get}, '
                               'seqnums 0..6, payloads 1-2 symbolic bytes; FIX8_MAX_MSG_LENGTH scaled to %d in filepersist.cpp; files <= %d bytes' % (k, [hex(s) for s in sets], MSGLEN, 16 * (k + 2)),
                        desc='real FilePersister over the POSIX file model against a reference map + control record'))
    # inductive step: a representative state (<= 2 stored records + control record) with BOTH descriptors at any position an earlier
    # history could have left them at, ONE operation, then the read-back probe (again from arbitrary positions)
    for sets in [(0x03, 0x03, 0x3f)] + ([] if ctx.tier == 'quick' else [(0x03, 0x03, 0x03, 0x3f)]):
        k = len(sets)
        ctx.add(Harness('C26_file_ind_%s' % opsname(sets), VERIF + '/harness/C26_file.c',
                        defines=defs + ['K=%d' % k, 'VF_MAXCOPY=8', 'VF_FS_FSIZE=%d' % (16 * (k + 2)), 'HAVOC_OFFSETS', 'FINAL_PROBE'] + ['OPS%d=0x%x' % (i, s) for i, s in enumerate(sets)], unwind=k + 2,
                        unwindset=FUS + ['main.3:%d' % (k + 2)], timeout=900 if ctx.tier == 'quick' else 3000, mem_gb=16, functions=FFUN, stubs=FSTUBS, nochecks=(ctx.tier == 'quick'),
                        bounds='state built by %d store operations (message/control, seq 0..6, 1-2 byte payloads); before every operation and before the final read-back probe the data descriptor sits after ANY stored record '
                               'and the index descriptor after the control slot or at the end (every position a history of gets/puts can leave); one operation from {put, control put, get, control get, last, nearest}; '
                               'then get(s) for symbolic s, control get and the data-file length must match the reference' % (k - 1),
                        desc='inductive step of the real FilePersister from an arbitrary reachable file-position state'))
    ctx.assumptions += ['operator new never fails', 'rb-tree rebalancing replaced by an unbalanced BST with the same in-order sequence',
                        'range retrieval uses a non-virtual recording callback on an opaque Session (only Session::get_next_send_seq is read)',
                        'file persister: POSIX calls follow models/posixfs.c (no I/O errors, no short reads/writes); file names are built by models/ostream_fmt.c; '
                        'crash/reopen behaviour is the subject of C27, not of this property']
    ctx.solve(jobs=4)
    ctx.handle_failures(replay, kf)
    announce_known(ctx, kf, replay)
    return ctx.finish()

def replay(ctx, cx, h=None):
    c = cx.get('cx', cx)
    exe = ctx.native('c26replay', ['replay/c26_replay.cpp', REPO + '/runtime/persist.cpp', REPO + '/runtime/filepersist.cpp'], flags=('-O1', '-fsanitize=address,undefined', '-fno-sanitize=vptr', '-fno-access-control'),
                     libs=['-L' + REPO + '/runtime/.libs', '-lfix8', '-Wl,-rpath,' + REPO + '/runtime/.libs'])
    ops = c.get('cx_op', []); n = len(ops)
    def g(k, i): v = c.get(k, []); return int(v[i]) if i < len(v) else 0
    args = []
    hv = (h is not None and '_file_ind' in h.name) or c.get('persister') == 'fileh'
    for i in range(n): args += [str(g('cx_op', i)), str(g('cx_a', i)), str(g('cx_b', i)), str(g('cx_d0', i)), str(g('cx_d1', i)), str(g('cx_len', i))] + ([str(g('cx_hd', i)), str(g('cx_hi', i))] if hv else [])
    if hv: args += [str(g('cx_hd', n)), str(g('cx_hi', n)), str(int(c.get('cx_probe', 1)) or 1)]
    which = 'fileh' if hv else 'file' if (h is not None and '_file_' in h.name) or c.get('persister') == 'file' else 'mem'
    r = sh([exe, which] + args, env=dict(os.environ, ASAN_OPTIONS='detect_leaks=0'))
    return r.returncode != 0, which + ' persister: ' + r.stdout.strip()[-400:].replace('\n', ' | ')
