"""C29 rotation: FileLogger::rotate (runtime/logger.cpp) and the purge/rotation branch of FilePersister::initialise
(runtime/filepersist.cpp) over a rename recorder with symbolic pre-existing generations; names are built through the ostream
formatting model, so every path is a real "name.k" string. One harness per rotation count (0..6 and the counts around the
documented maximum Logger::max_rotation, which is read from the real header through the shim)."""
import os
from vf.core import *
from props import C26

LFUN = ['FIX8::FileLogger::rotate', 'FIX8::split_path', 'FIX8::exist', 'f8_scoped_lock/f8_mutex', 'ebitset::has/operator&']
PFUN = ['FIX8::FilePersister::initialise (purge / rotation branch, creation, reopening)', 'FIX8::CheckAddTrailingSlash', 'FIX8::exist']
STUBS = ['std::vector<std::string> push_back/operator[]/~vector: models/vecstr_pool.c (static typed pool; operator[] checks i < size() = the C29 index assertion)',
         'std::ostringstream and operator<<: models/ostream_fmt.c (real "name.k" strings)', 'std::string: models/cxx.c, models/cxx_more.c',
         'rename/access/open: the recorder in harness/C29_rec.h (directory of generations with symbolic existence and content ids; ENOENT for a missing source; any other path is flagged)',
         'GlobalLogger::is_loggable := false (logging off)']
LSTUBS = STUBS + ['std::ofstream(path, mode): models/ofstream_null.c (opening is a successful no-op, the opened path is observed)', 'pthread_mutex_*: models/pthread_seq.c (sequential, lock state checked)']

def lus(n):
    m = '_ZN4FIX810FileLogger6rotateEb'
    return ['main.0:%d' % (n + 1), 'main.1:%d' % (n + 1), 'main.2:%d' % (n + 1)] + ['%s.%d:%d' % (m, i, n) for i in range(4)] + ['st_vecstr_dtor.0:%d' % (n + 1), 'x_strlen.0:4',
            'x__ZNKSt7__cxx1112basic_stringIcSt11char_traitsIcESaIcEE12find_last_ofEPKcm.0:4', 'x__ZNKSt7__cxx1112basic_stringIcSt11char_traitsIcESaIcEE12find_last_ofEPKcm.1:4',
            'vf_copy.0:14', 'gen_of.0:4', 'gen_of.1:6', 'gen_of.2:5', 'rec_init.0:%d' % (n + 1), 'rec_init.1:2', 'rec_rename.0:2']
def pus(n):
    return ['main.%d:%d' % (i, n + 1) for i in range(4)] + ['x_strlen.0:4', 'x_access.0:3', 'st_vecstr_dtor.0:%d' % (n + 1), 'vf_copy.0:14', 'gen_of.0:5', 'gen_of.1:6', 'gen_of.2:6',
            'rec_init.0:%d' % (n + 1), 'rec_init.1:3', 'rec_rename.0:3']

def max_rotation():
    import re
    m = re.search(r'max_rotation\s*=\s*(\d+)', open(REPO + '/include/fix8/logger.hpp').read())
    return int(m.group(1)) if m else 1024

def run(ctx):
    kf = known_findings('C29'); defs = kf_defines(kf)
    cap = max_rotation()
    # ---- translations
    shim = ctx.build_ir('c29.cpp', 'cut'); lg = ctx.build_ir(REPO + '/runtime/logger.cpp', 'cut'); ut = ctx.build_ir(REPO + '/runtime/f8utils.cpp', 'cut')
    ll = ctx.link_ir([shim, lg, ut], 'c29all')
    ctx.translate(ll, ['vf_max_rotation', 'vf_fl_setup', 'vf_fl_rotate', 'vf_flag_append', 'vf_flag_compress'], 'c29l.c', stubfiles=['common.stubs', 'store.stubs', 'c29.stubs'],
                  models=['cxx.c', 'stubs.c', 'cxx_more.c', 'ostream_fmt.c', 'pthread_seq.c', 'ofstream_null.c', 'vecstr_pool.c'], provided=['rename', 'vf_ofs_opened', 'access'])
    C26.build_file(ctx, out='c29f.c', roots=['vf_fp_ctor', 'vf_fp_init', 'vf_max_rotation'], provided=['rename', 'access', 'open', 'read'], extra_ll=[shim],
                   models=['cxx.c', 'stubs.c', 'cxx_more.c', 'ostream_fmt.c', 'vecstr_pool.c'], stubfiles=['common.stubs', 'store.stubs', 'c29.stubs'])
    # the same code with opaque names (models/ostream_null.c) for the 1000+ iteration runs around the documented maximum
    ctx.translate(ll, ['vf_max_rotation', 'vf_fl_setup', 'vf_fl_rotate', 'vf_flag_append', 'vf_flag_compress'], 'c29lb.c', stubfiles=['common.stubs', 'store.stubs', 'c29.stubs'],
                  models=['cxx.c', 'stubs.c', 'cxx_more.c', 'ostream_null.c', 'pthread_seq.c', 'ofstream_null.c', 'vecstr_pool.c'], provided=['rename', 'vf_ofs_opened', 'access'])
    C26.build_file(ctx, out='c29fb.c', roots=['vf_fp_ctor', 'vf_fp_init', 'vf_max_rotation'], provided=['rename', 'access', 'open', 'read'], extra_ll=[shim],
                   models=['cxx.c', 'stubs.c', 'cxx_more.c', 'ostream_null.c', 'vecstr_pool.c'], stubfiles=['common.stubs', 'store.stubs', 'c29.stubs'])
    BIGDEF = ['BIG', 'VF_VEC_OPAQUE', 'VF_VEC_CAP=%d' % (cap + 4)]
    BIGNOTE = '; names opaque (ostream no-op, vector elements not constructed), flags 0 / purge: only the vector indexing and the number of renames are observed'
    # ---- harnesses: (rotnum, compressed-names variant)
    small = [(0, 0), (1, 0), (2, 0), (6, 0), (3, 1)] if ctx.tier == 'quick' else [(r, c) for r in range(7) for c in (0, 1)]
    big = [cap + 1] if ctx.tier == 'quick' else [cap - 1, cap, cap + 1, cap + 76]
    for r, comp in small + [(b, 0) for b in big]:
        n = r + 4; isbig = r > 6
        if isbig and kf_class_excluded(defs, r, cap): continue
        ctx.add(Harness('C29_log_rot%d%s' % (r, '_gz' if comp else ''), VERIF + '/harness/C29_log.c',
                        defines=defs + ['ROTNUM=%d' % r, 'VF_MAXCOPY=12', 'VF_VEC_N=1'] + (BIGDEF if isbig else ['VF_VEC_CAP=%d' % (r + 3)]) + (['COMPRESSED'] if comp else []), unwind=3, unwindset=lus(n),
                        timeout=900 if not isbig else 2400, mem_gb=16, functions=LFUN, stubs=LSTUBS, nochecks=isbig, object_bits=16 if isbig else 12,
                        bounds=('rotation count %d (documented maximum %d read from logger.hpp)' % (r, cap)) + (BIGNOTE if isbig else ', flags {append%s} and force symbolic, every set of pre-existing generations name..name.%d with distinct contents' % (', compress' if comp else '', n - 2)),
                        desc='real FileLogger::rotate over the rename recorder'))
    psmall = [(0,), (2,), (6,)] if ctx.tier == 'quick' else [(r,) for r in range(7)]
    pbig = [cap + 1] if ctx.tier == 'quick' else [cap, cap + 1, cap + 76]
    for (r,) in psmall + [(b,) for b in pbig]:
        n = r + 4; isbig = r > 6
        if isbig and kf_class_excluded(defs, r, cap): continue
        ctx.add(Harness('C29_fp_rot%d' % r, VERIF + '/harness/C29_fp.c', defines=defs + ['ROTNUM=%d' % r, 'VF_MAXCOPY=12', 'VF_VEC_N=2'] + (BIGDEF if isbig else ['VF_VEC_CAP=%d' % (r + 3)]), unwind=(r + 3) if not isbig else 3,
                        unwindset=pus(n) + (['_ZN4FIX813FilePersister10initialiseERKNSt7__cxx1112basic_stringIcSt11char_traitsIcESaIcEEES8_b.%d:%d' % (i, n) for i in range(17)] if isbig else []),
                        timeout=900 if not isbig else 2400, mem_gb=16, functions=PFUN, stubs=STUBS, nochecks=isbig, object_bits=16 if isbig else 12,
                        bounds=('rotation count %d (documented maximum %d)' % (r, cap)) + (BIGNOTE if isbig else ', purge symbolic, every set of pre-existing data and index generations ./s[.k][.idx], k <= %d, with distinct contents' % (n - 2)),
                        desc='real FilePersister::initialise (purge rotation) over the rename recorder'))
    ctx.assumptions += ['rename() follows POSIX: atomic replace of the target, ENOENT for a missing source (harness/C29_rec.h)', 'operator new never fails',
                        'counts 7..%d and %d.. other than the listed boundary values are not run (the loops are uniform in the count; stated, not proved)' % (cap - 2, cap + 2),
                        'log file contents, compression and directory creation (create_path) are outside the claim']
    ctx.solve(jobs=4)
    ctx.handle_failures(replay, kf)
    announce_known(ctx, kf, replay)
    return ctx.finish()

def kf_class_excluded(defs, r, cap):
    """a committed known finding KF_ROT_OVER_MAX excludes the class rotnum > documented maximum: those harnesses would only re-find it"""
    return 'KF_ROT_OVER_MAX' in defs and r > cap

def replay(ctx, cx, h=None):
    """native ASan run of the real rotate()/initialise(purge) with the rotation count of the counterexample"""
    c = cx.get('cx', cx)
    exe = ctx.native('c29replay', ['replay/c29_replay.cpp', REPO + '/runtime/logger.cpp', REPO + '/runtime/filepersist.cpp'],
                     flags=('-O1', '-g', '-fsanitize=address,undefined', '-fno-sanitize=vptr', '-D_GLIBCXX_SANITIZE_VECTOR', '-fno-access-control'),
                     libs=['-L' + REPO + '/runtime/.libs', '-lfix8', '-Wl,-rpath,' + REPO + '/runtime/.libs'])
    which = c.get('which') or ('fp' if (h is not None and '_fp_' in h.name) else 'log')
    rot = int(c.get('cx_rotnum', 0)); flags = int(c.get('cx_flags', 0)); force = int(c.get('cx_force', 0)); purge = int(c.get('cx_purge', 1))
    ex = c.get('cx_ex0', []); ex = ex if isinstance(ex, list) else [ex]
    masks = [str(int(m)) for m in ex[:(1 if which == 'log' else 2)]] if rot <= 29 else []
    tmp = tempfile.mkdtemp(prefix='vf_c29_')
    try: r = sh([exe, which, str(rot), str(flags), str(force if which == 'log' else purge)] + masks, env=dict(os.environ, ASAN_OPTIONS='detect_leaks=0:detect_container_overflow=1', VF_C29_DIR=tmp))
    finally: shutil.rmtree(tmp, ignore_errors=True)
    out = (r.stdout or '')
    key = [l for l in out.splitlines() if 'ERROR: AddressSanitizer' in l or 'VIOLATED' in l or 'runtime error' in l or 'does not hold' in l or 'touched' in l]
    return r.returncode != 0, ('%s rotnum=%d -> ' % (which, rot)) + (' | '.join(key)[:400] if key else out.strip()[-300:].replace('\n', ' | '))
