"""C28 loggers write every accepted line exactly once: real Logger::operator() loop, send/enqueue/stop over an abstract FIFO,
interleavings at operation granularity explored sequentially"""
import os
from vf.core import *
ROOTS = ['vf_lg_init', 'vf_lg_run', 'vf_lg_send', 'vf_lg_enqueue', 'vf_lg_stop', 'vf_lg_stop_step1', 'vf_lg_stop_step2', 'vf_lg_stopping', 'vf_le_copy', 'vf_le_make', 'vf_le_level', 'vf_le_val', 'vf_le_empty', 'vf_le_exit', 'vf_le_len', 'vf_le_byte', 'vf_le_size']
FUN = ['FIX8::Logger::operator()()', 'FIX8::Logger::send', 'FIX8::Logger::enqueue', 'FIX8::Logger::stop', 'FIX8::Logger::is_loggable', 'FIX8::Logger::LogElement ctors (copy, (tid,str,level,fl,val))',
       'FIX8::f8_thread_cancellation_token::request_stop/operator!/stop_requested', 'FIX8::Tickval(bool)/copy']
STUBS = ['ff_unbounded_queue<LogElement>::try_push := append (value, level, text-empty) of the element to an abstract FIFO, returns true; try_pop := scheduling point, then hand out the oldest element rebuilt by the real LogElement constructor; release := count (contract justified by C30)',
         'hypersleep<h_microseconds> := scheduling point with a forced producer step (idle spinning = stuttering)', '_f8_threadcore::join := no-op (the thread body is run by the harness), getid := constant',
         'Logger::process_logline := virtual override in the shim recording (val, level, empty) and a scheduling point; the formatting of the line prefix incl. the sequence number text is outside this check',
         'std::chrono::system_clock::now := arbitrary non-decreasing instants', 'std::string::find_last_not_of(const char*,size_t) / substr := models/c28_env.c (ISO semantics)', 'std::string members, operator new: models/cxx.c']
LOOP = '_ZN4FIX86LoggerclEv'

def build(ctx):
    shim = ctx.build_ir('c28.cpp', 'cut')
    return ctx.translate(shim, ROOTS, 'c28.c', stubfiles=['common.stubs', 'c28.stubs'], models=['cxx.c', 'stubs.c', 'c28_env.c'], provided=['vf_processed'])

def log(ctx, name, nlines, stopmode, tier, defs, timeout=600):
    nb = 2 * nlines + 5
    ctx.add(Harness(name, VERIF + '/harness/C28_log.c', defines=defs + ['NLINES=%d' % nlines, 'STOPMODE=%d' % stopmode, 'VF_MAXCOPY=2'], unwind=4,
                    unwindset=[LOOP + '.0:%d' % nb, 'sched.0:%d' % (nlines + 4), 'sched.1:%d' % (nlines + 4)] + ['main.%d:%d' % (i, nlines + 5) for i in range(5)] + ['vf_copy.0:4', 'x__ZNKSt7__cxx1112basic_stringIcSt11char_traitsIcESaIcEE16find_last_not_ofEPKcm.0:4'],
                    timeout=timeout, mem_gb=16, functions=FUN, stubs=STUBS, tier=tier,
                    bounds='%d line(s) submitted through Logger::send by any producers (level enabled/disabled chosen by the solver), stop() %s, every interleaving of producer steps with the logger thread at operation granularity; line text symbolic: 0..2 characters over {a, CR, LF} (the empty line included)' % (
                        nlines, 'as one atomic call' if stopmode == 0 else 'as its two statements (request_stop; enqueue(marker)) with the logger thread schedulable in between'),
                    desc='every line accepted before stop reaches process_logline exactly once, in order, before the thread ends; submit result; disabled levels'))

def run(ctx):
    kf = known_findings('C28'); defs = kf_defines(kf) + [d for d in os.environ.get('VF_EXTRA_DEFS', '').split() if d]
    info = build(ctx)
    log(ctx, 'C28_log_n2_stop', 2, 0, 'quick', defs)
    log(ctx, 'C28_log_n2_split', 2, 1, 'quick', defs)
    log(ctx, 'C28_log_n3_stop', 3, 0, 'thorough', defs, 3000)
    log(ctx, 'C28_log_n3_split', 3, 1, 'thorough', defs, 3000)
    ctx.assumptions += ['queue = abstract FIFO (C30 contract); sequential consistency', 'per-producer order follows from global submission order because the queue is FIFO and there is one consumer: producers are not distinguished',
                        'the FIX8_MPMC_TBB variant of the loop and the line-prefix formatting are outside the claim',
                        'a disabled-level submission returns true by design (documented "true on success"); only "never reaches the queue" is asserted for it']
    ctx.solve(jobs=4)
    ctx.handle_failures(replay, kf)
    announce_known(ctx, kf, replay)
    return ctx.finish()

def replay(ctx, cx, h=None):
    """native witness run on the real threaded Logger: submit the lines and stop at once; repeated until the scheduler produces the loss (bounded attempts)"""
    c = cx.get('cx', cx)
    exe = ctx.native('c28replay', ['replay/c28_replay.cpp'], flags=('-O1', '-g'), libs=['-L' + REPO + '/runtime/.libs', '-lfix8', '-Wl,-rpath,' + REPO + '/runtime/.libs'])
    n = int(c.get('cx_nlines', 2) or 2)
    want = ('ret' if int(c.get('cx_ret_bad', 0) or 0) else '') + ('drop' if int(c.get('cx_dropped', 0) or 0) else '') + ('text' if int(c.get('cx_text_changed', 0) or 0) else '')
    # the texts the solver chose (hex, one argument per submitted line, in submission order); default text "line"
    t0 = c.get('cx_t0') or []; t1 = c.get('cx_t1') or []; tl = c.get('cx_tlen') or []
    texts = []
    for i in range(1, n + 1):
        if i < len(tl) and int(tl[i]) in (1, 2): texts.append(('%02x' % (int(t0[i]) & 255)) + (('%02x' % (int(t1[i]) & 255)) if int(tl[i]) == 2 else ''))
        elif i < len(tl): texts.append('-')          # the empty line
    r = sh([exe, str(n), want or 'any'] + texts, cwd=ctx.work)
    return r.returncode != 0, r.stdout.strip()[-500:].replace('\n', ' | ')
