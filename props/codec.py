"""shared machinery of the codec-world properties (C01..C06, C11): known-finding loading, native replay driver,
the token-level decoder world (shims/codec_world.cpp + runtime/message.cpp in cut mode)"""
import os, json
from vf.core import *

PROPOSED = os.path.join(VERIF, 'tools', 'reports', 'kf_codec.json')

def kfs(pid):
    """committed known findings; with VF_KF_PROPOSED=1 also the entries proposed in tools/reports/kf_codec.json
    (used while the proposals are not yet merged into known_findings.json)"""
    out = known_findings(pid)
    if os.environ.get('VF_KF_PROPOSED') and os.path.exists(PROPOSED):
        have = set(e.get('define') for e in out)
        out += [e for e in json.load(open(PROPOSED)).get('findings', []) if e.get('property') == pid and e.get('define') not in have]
    return out

# ------------------------------------------------------------------ native replay
ASAN = ('-O1', '-g', '-fsanitize=address,undefined', '-fno-sanitize=alignment,vptr', '-fno-access-control', '-I' + REPO + '/utests')
def replay_exe(ctx):
    return ctx.native('codecreplay', ['replay/codec_replay.cpp', REPO + '/runtime/message.cpp'], flags=ASAN,
                      libs=['-L' + REPO + '/utests/.libs', '-lutest', '-L' + REPO + '/runtime/.libs', '-lfix8',
                            '-Wl,-rpath,' + REPO + '/utests/.libs', '-Wl,-rpath,' + REPO + '/runtime/.libs'])

def run_replay(ctx, *args):
    r = sh([replay_exe(ctx), *[str(a) for a in args]], env=dict(os.environ, ASAN_OPTIONS='detect_leaks=0:abort_on_error=0', UBSAN_OPTIONS='halt_on_error=1:print_stacktrace=0'))
    return r.returncode, r.stdout

def _short(out, n=360):
    keep = [l for l in out.splitlines() if l.startswith(('RESULT', '==', 'SUMMARY', 'WRITE', 'READ')) or 'runtime error' in l or l.lstrip().startswith(('#0', '#1'))]
    return ' | '.join(keep)[:n] or out.strip()[-n:].replace('\n', ' | ')

def hexs(b): return bytes(b).hex() if b else ''

def sanitizer_hit(rc, out): return 'AddressSanitizer' in out or 'runtime error' in out or rc < 0 or rc in (134, 139)

def replay(ctx, cx, h=None):
    c = cx.get('cx', cx)
    kind = c.get('kind') or ('kernel' if 'cx_mode' in c else 'msg')
    if kind == 'kernel': return replay_kernel(ctx, c, h)
    if kind == 'hdr': return replay_hdr(ctx, c, h)
    return replay_msg(ctx, c, h)

def replay_kernel(ctx, c, h):
    """kernel counterexample: first at the harness's own capacities on heap buffers (ASan), then re-scaled to the real
    FIX8_MAX_FLD_LENGTH through Message::factory"""
    n = int(c.get('cx_sz', 0)); data = [int(v) & 255 for v in (c.get('cx_in') or [])][:n]
    capt = int(c.get('cx_capt') or 24); capv = int(c.get('cx_capv') or 24); mode = int(c.get('cx_mode', 0))
    if h is not None:
        d = dict(x.split('=') for x in h.defines if '=' in x); capt = int(d.get('CAPT', capt)); capv = int(d.get('CAPV', capv))
    if mode == 1: rc, out = run_replay(ctx, 'extractfw', hexs(data), int(c.get('cx_valsz', 0)), capt, capv)
    else: rc, out = run_replay(ctx, 'extract', hexs(data), capt, capv)
    hit = sanitizer_hit(rc, out) or rc == 5
    what = 'extract%s(cap %d/%d) on %d bytes: %s' % ('_fixed_width' if mode else '_element', capt, capv, n, _short(out))
    if hit and capt == 24:
        # the same shape at the real size: digits/value stretched by 2048/24, fed to Message::factory
        nd = int(c.get('cx_nd', 0)); vl = int(c.get('cx_vlen', 0)); f = 2048 / 24.0
        tag = b'1' * max(1, int(nd * f + 1)) if nd >= 24 else b'58'
        val = b'x' * int(vl * f + 1) if vl >= 24 else b'x'
        msg = b'8=FIX.4.2\x019=12\x0135=A\x0134=1\x0149=C\x0156=S\x0152=20130304-02:44:30\x01' + tag + b'=' + val + b'\x0198=0\x01108=30\x0110=000\x01'
        rc2, out2 = run_replay(ctx, 'factory', msg.hex(), 0, 0, 1)
        what += ' || real size via Message::factory (%d-byte message): %s' % (len(msg), _short(out2))
        hit = hit and sanitizer_hit(rc2, out2)
    return hit, what

def replay_hdr(ctx, c, h): return False, 'not implemented'
def replay_msg(ctx, c, h): return False, 'not implemented'
def add_c03_objects(ctx, defs): pass
