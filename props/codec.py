"""shared machinery of the codec-world properties (C01..C06, C11): known-finding loading, native replay driver,
the token-level decoder world (shims/codec_world.cpp + runtime/message.cpp in cut mode)"""
import os, json
from vf.core import *

PROPOSED = os.path.join(VERIF, 'tools', 'reports', 'kf_codec.json')
JOBS = int(os.environ.get('VF_JOBS') or 4)          # parallel cbmc processes (the machine is shared: at most 4)

def kfs(pid):
    """committed known findings; with VF_KF_PROPOSED=1 also the entries proposed in tools/reports/kf_codec.json
    (used while the proposals are not yet merged into known_findings.json)"""
    out = known_findings(pid)
    if os.environ.get('VF_KF_PROPOSED') and os.path.exists(PROPOSED):
        have = set(e.get('define') for e in out)
        out += [e for e in json.load(open(PROPOSED)).get('findings', []) if e.get('property') == pid and e.get('define') not in have]
    skip = set(filter(None, os.environ.get('VF_KF_SKIP', '').split(',')))      # runs against a tree that carries a proposed repair (VF_REPO): drop that finding's define
    return [e for e in out if e.get('define') not in skip]

# ------------------------------------------------------------------ native replay
ASAN = ('-O1', '-g', '-fsanitize=address,undefined', '-fno-sanitize=alignment,vptr', '-fno-access-control', '-I' + REPO + '/utests')
def replay_exe(ctx):
    return ctx.native('codecreplay', ['replay/codec_replay.cpp', REPO + '/runtime/message.cpp'], flags=ASAN,
                      libs=['-L' + REPO + '/utests/.libs', '-lutest', '-L' + REPO + '/runtime/.libs', '-lfix8',
                            '-Wl,-rpath,' + REPO + '/utests/.libs', '-Wl,-rpath,' + REPO + '/runtime/.libs'])

def run_replay(ctx, *args):
    r = sh([replay_exe(ctx), *[str(a) for a in args]], env=dict(os.environ, ASAN_OPTIONS='detect_leaks=0:abort_on_error=0', UBSAN_OPTIONS='halt_on_error=1:print_stacktrace=0'))
    if r.returncode == 127 or 'error while loading shared libraries' in r.stdout: raise Broken('replay program could not be started (library being rebuilt?): ' + r.stdout[-200:])
    return r.returncode, r.stdout

def _short(out, n=360):
    keep = [l for l in out.splitlines() if l.startswith(('RESULT', '==', 'SUMMARY', 'WRITE', 'READ')) or 'runtime error' in l or l.lstrip().startswith(('#0', '#1'))]
    return ' | '.join(keep)[:n] or out.strip()[-n:].replace('\n', ' | ')

def hexs(b): return bytes(b).hex() if b else ''

def sanitizer_hit(rc, out): return 'AddressSanitizer' in out or 'runtime error' in out or rc < 0 or rc in (134, 139)

def replay(ctx, cx, h=None):
    c = cx.get('cx', cx)
    kind = c.get('kind') or ('kernel' if 'cx_mode' in c else 'msg')
    if kind == 'kernel': return replay_kernel(ctx, c, h)
    if kind == 'hdr': return replay_hdr(ctx, c, h)
    if 'cx_lendig' in c: return replay_precond(ctx, c, h)
    if kind == 'data' or 'cx_data' in c: return replay_data(ctx, c, h)
    if kind == 'mtype' or 'cx_mt' in c or 'cx_garb' in c: return replay_mtype(ctx, c, h)
    return replay_msg(ctx, c, h)

def replay_kernel(ctx, c, h):
    """kernel counterexample: first at the harness's own capacities on heap buffers (ASan), then re-scaled to the real
    FIX8_MAX_FLD_LENGTH through Message::factory"""
    n = int(c.get('cx_sz', 0)); data = [int(v) & 255 for v in (c.get('cx_in') or [])][:n]
    capt = int(c.get('cx_capt') or 24); capv = int(c.get('cx_capv') or 24); mode = int(c.get('cx_mode', 0))
    if h is not None:
        d = dict(x.split('=') for x in h.defines if '=' in x); capt = int(d.get('CAPT', capt)); capv = int(d.get('CAPV', capv))
    kexe = ctx.native('codeckernel%d' % capv, ['replay/codec_kernel_replay.cpp'], flags=('-O1', '-g', '-fsanitize=address,undefined', '-fno-sanitize=alignment,vptr'),
                      defines=['FIX8_MAX_FLD_LENGTH=%d' % capv], libs=['-L' + REPO + '/runtime/.libs', '-lfix8', '-Wl,-rpath,' + REPO + '/runtime/.libs'])
    r = sh([kexe, 'fw' if mode == 1 else 'ext', hexs(data), str(int(c.get('cx_valsz', 0))), str(capt), str(capv)], env=dict(os.environ, ASAN_OPTIONS='detect_leaks=0'))
    rc, out = r.returncode, r.stdout
    hit = sanitizer_hit(rc, out) or rc == 5
    what = 'extract%s(cap %d/%d) on %d bytes: %s' % ('_fixed_width' if mode else '_element', capt, capv, n, _short(out))
    mres = _re.search(r'RESULT (\d+) of', out)
    if mode == 1 and mres and not hit:
        # functional contract of the fixed-width extractor (the harness oracle): digits '=' val_sz bytes SOH, all inside the input
        vs = int(c.get('cx_valsz', 0)); i = 0
        while i < n and 48 <= data[i] <= 57: i += 1
        exp = 0
        if 0 < i < capt and i < n and data[i] == 61 and vs < capv and n >= i + 1 + vs + 1 and data[i + 1 + vs] == 1: exp = i + 1 + vs + 1
        if int(mres.group(1)) != exp:
            hit = True; what += ' || reference: a fixed-width token of %d value bytes %s -> expected result %d' % (vs, 'ends inside the input with its separator' if exp else 'is not available', exp)
    if sanitizer_hit(rc, out) and capt == 24:
        # the same shape at the real size: digits/value stretched by 2048/24, fed to Message::factory
        nd = int(c.get('cx_nd', 0)); vl = int(c.get('cx_vlen', 0)); f = 2048 / 24.0
        tag = b'1' * max(1, int(nd * f + 1)) if nd >= 24 else b'58'
        val = b'x' * int(vl * f + 1) if vl >= 24 else b'x'
        msg = b'8=FIX.4.2\x019=12\x0135=A\x0134=1\x0149=C\x0156=S\x0152=20130304-02:44:30\x01' + tag + b'=' + val + b'\x0198=0\x01108=30\x0110=000\x01'
        rc2, out2 = run_replay(ctx, 'factory', msg.hex(), 0, 0, 1)
        what += ' || real size via Message::factory (%d-byte message): %s' % (len(msg), _short(out2))
        hit = hit and sanitizer_hit(rc2, out2)
    return hit, what

def replay_hdr(ctx, c, h): return False, 'not implemented'

def replay_data(ctx, c, h):
    """C06 counterexample: the same Length/data pair through the real Message::factory (checksum verification off)"""
    n = int(c.get('cx_n', 0)); data = bytes(int(v) & 255 for v in (c.get('cx_data') or [])[:n]); place = int(c.get('cx_place', 1))
    lt, dt = ((90, 91), (95, 96), (93, 89))[place]
    pair = b'%d=%d\x01%d=' % (lt, n, dt) + data + b'\x01'
    msg = (b'8=FIX.4.2\x019=12\x0135=A\x0149=a\x0156=b\x0134=1\x0152=20130304-02:44:30\x01' + (pair if place == 0 else b'') + b'98=0\x01108=3\x01' + (pair if place == 1 else b'') +
           b'141=Y\x01' + (pair if place == 2 else b'') + b'10=000\x01')
    rc, out = run_replay(ctx, 'factory', msg.hex(), 1, 0, 0)
    res, fields, unk, enc = parse_dump(out); shown = msg.replace(b'\x01', b'|')
    if sanitizer_hit(rc, out): return True, 'sanitizer report on %r: %s' % (shown, _short(out))
    if not (res or '').startswith('RESULT accepted'): return True, 'well-formed Length/data pair rejected: %r -> %s' % (shown, res)
    got = [v for cmp_, t, v in fields if t == dt]
    if got != [data]: return True, 'data field does not carry the %d bytes %r: decoded %r from %r' % (n, data, got, shown)
    if not any(t == 141 and v == b'Y' for cmp_, t, v in fields): return True, 'field after the data pair lost: %r -> %s' % (shown, fields)
    return False, 'native run decodes the pair correctly: %r' % shown

# ---- reference acceptor (Python twin of the harness oracle) used to judge native replays of whole messages
import re as _re
def tables():
    t = open(os.path.join(VERIF, 'shims', 'codec_tables.h')).read(); out = {}
    for k in ('hdr', 'body', 'grp', 'trl'):
        m = _re.search(r'vf_%s_traits\[\] = \{(.*?)\};' % k, t, _re.S)
        out[k] = [tuple(int(x, 0) for x in r) for r in _re.findall(r'\{(\d+),(\d+),(\d+),(\d+),(0x[0-9a-f]+)\}', m.group(1))]
    return out
STRING_TYPES = set(range(15, 41))     # FieldTrait::ft_string .. ft_Language (value kept as text by the field object)

def tokenize(msg):
    toks = []; i = 0
    while i < len(msg):
        j = msg.find(b'\x01', i)
        if j < 0: return None
        tv = msg[i:j]; k = tv.find(b'=')
        if k <= 0 or not tv[:k].isdigit(): return None
        toks.append((int(tv[:k]), tv[k + 1:])); i = j + 1
    return toks

def reference(msg, nochk):
    """(conforming?, expected [(component, tag, value)]) for a message 8=..|9=..|35=A|...|10=ddd| over header/Logon/NoMsgTypes/trailer"""
    T = tables(); toks = tokenize(msg)
    if not toks or len(toks) < 4 or [t for t, _ in toks[:3]] != [8, 9, 35] or toks[2][1] != b'A' or toks[-1][0] != 10: return None, None
    H = {r[0]: r for r in T['hdr']}; B = {r[0]: r for r in T['body']}; G = {r[0]: r for r in T['grp']}; TR = {r[0]: r for r in T['trl']}
    ok = True; region = 0; seen = {0: {8, 9, 35}, 1: set(), 2: set()}; exp = []; ing = False; nel = 0; has2 = False; want = 0
    for tag, val in toks[3:-1]:
        if ing and tag in G:
            if tag == 372: nel += 1; has2 = False
            else:
                if nel == 0 or has2: ok = False
                has2 = True
            exp.append(('b/g384.%d' % (nel - 1), tag, val)); continue
        if ing:
            ing = False
            if nel != want: ok = False
        r = 0 if tag in H else 1 if tag in B else 2 if (tag in TR and tag != 10) else -1
        if r < 0 or r < region: ok = False
        else: region = r
        if r >= 0:
            if tag in seen[r]: ok = False
            seen[r].add(tag)
        exp.append(('hbt'[r] if r >= 0 else '?', tag, val))
        if tag == 384 and r == 1:
            try: want = int(val)
            except ValueError: want = -1
            if want > 0: ing = True; nel = 0
    if ing and nel != want: ok = False
    for tab, r in ((T['hdr'], 0), (T['body'], 1)):
        for row in tab:
            if row[4] & 1 and row[0] not in seen[r]: ok = False
    if not nochk:
        cs = toks[-1][1]
        if len(cs) != 3 or not cs.isdigit() or int(cs) != sum(msg[:len(msg) - 7]) & 255: ok = False
    return ok, exp

def parse_dump(out):
    res = None; fields = []; unk = {}; enc = None
    for l in out.splitlines():
        if l.startswith('RESULT'): res = l
        elif l.startswith('F '): _, comp, tag, hx = (l.split(' ') + [''])[:4]; fields.append((comp, int(tag), bytes.fromhex(hx)))
        elif l.startswith('U '): _, comp, hx = l.split(' '); unk[comp] = bytes.fromhex(hx)
        elif l.startswith('E '): enc = bytes.fromhex(l[2:].strip())
    return res, fields, unk, enc

def cx_message(c):
    n = int(c.get('cx_len', 0)); msg = bytes(int(v) & 255 for v in (c.get('cx_msg') or [])[:n])
    return msg

def replay_msg(ctx, c, h):
    """whole-message counterexample of the decoder harnesses: run the real Message::factory (FIX42UTEST classes, ASan/UBSan) on the
    message bytes; the checksum digits are set right or wrong as in the counterexample; judged by the Python reference acceptor"""
    msg = cx_message(c)
    if len(msg) < 27: return False, 'no message in counterexample'
    nochk = int(c.get('cx_nochk', 0)); perm = int(c.get('cx_perm', 0))
    real = sum(msg[:-7]) & 255
    want_ok = int(bytes(int(x) & 255 for x in c.get('cx_cs', [48, 48, 48])).decode('latin1')) == int(c.get('cx_sum', -1)) if 'cx_cs' in c else True
    digits = real if want_ok else (real + 1) & 255
    msg = msg[:-4] + (b'%03d' % digits) + msg[-1:]
    rc, out = run_replay(ctx, 'factory', msg.hex(), nochk, perm, 0)
    res, fields, unk, enc = parse_dump(out)
    shown = msg.replace(b'\x01', b'|').decode('latin1')
    if sanitizer_hit(rc, out): return True, 'sanitizer report on %r: %s' % (shown, _short(out))
    conform, exp = reference(msg, nochk)
    if conform is None: return False, 'message outside the reference acceptor: %r' % shown
    accepted = res is not None and res.startswith('RESULT accepted')
    if perm: return replay_perm(ctx, c, msg, shown, accepted, fields, unk, enc, res)
    if accepted and not conform: return True, 'accepted although not schema-conforming: %r -> %s' % (shown, res)
    if not accepted and conform: return True, 'conforming message rejected: %r -> %s' % (shown, res)
    if accepted:
        T = tables(); ft = {r[0]: r[1] for k in T for r in T[k]}
        got = [(cmp_, t) for cmp_, t, v in fields if t not in (8, 9, 35, 10)]
        want = [(cmp_, t) for cmp_, t, v in exp]
        if sorted(got) != sorted(want): return True, 'accepted but fields differ from tokens: %r -> decoded %s' % (shown, got)
        gv = sorted((cmp_, t, v) for cmp_, t, v in fields if ft.get(t) in STRING_TYPES and t not in (8, 9, 35, 10)); wv = sorted((cmp_, t, v) for cmp_, t, v in exp if ft.get(t) in STRING_TYPES)
        if gv != wv: return True, 'accepted but string values differ from their text: %r -> %s' % (shown, gv)
    return False, 'native run agrees with the reference acceptor (%s): %r' % (res, shown)

def replay_perm(ctx, c, msg, shown, accepted, fields, unk, enc, res):
    """permissive mode: premise = the message without its unknown-tag tokens conforms; then it must be accepted, the known fields must be
    those tokens, and the re-encoding must contain every unknown token's bytes exactly once"""
    T = tables(); known = set(r[0] for k in ('hdr', 'body', 'trl') for r in T[k]); gtags = set(r[0] for r in T['grp'])
    toks = tokenize(msg); ut = []; ing = False
    for t, v in toks[3:-1]:                 # as in the harness acceptor: group-element tags are known while the group is open; any other token closes it
        if ing and t in gtags: continue
        ing = False
        if t not in known: ut.append((t, v))
        elif t == 384 and v.isdigit() and int(v) > 0: ing = True
    kmsg = b''.join(b'%d=%s\x01' % (t, v) for t, v in toks if (t, v) not in ut)
    conform, exp = reference(kmsg, 1)
    cs_ok = int(toks[-1][1]) == sum(msg[:-7]) & 255 if toks[-1][1].isdigit() else False
    if not conform: return False, 'premise not met (known tokens do not conform): %r' % shown
    if not accepted:
        if int(c.get('cx_nochk', 0)) or cs_ok: return True, 'permissive mode rejects a message whose only deviation is unknown tags: %r -> %s' % (shown, res)
        return False, 'rejected for its checksum: %r' % shown
    got = sorted((cmp_, t) for cmp_, t, v in fields if t not in (8, 9, 35, 10)); want = sorted((cmp_, t) for cmp_, t, v in exp)
    if got != want: c['native_class'] = 'known-fields-differ'      # read by the known-finding classifiers: not the pass-through duplication class
    if got != want: return True, 'permissive mode loses or invents known fields: %r -> decoded %s' % (shown, got)
    bad = [(t, v, enc.count(b'%d=%s\x01' % (t, v))) for t, v in ut if enc is None or enc.count(b'%d=%s\x01' % (t, v)) != 1]
    extra = enc is not None and len(enc) - len(msg) - (len(b'%d' % (len(enc) - 20 - 7)) - 2) if enc else 0
    if bad or (enc is not None and sum(len(u) for u in unk.values()) != sum(len(b'%d=%s\x01' % (t, v)) for t, v in ut)):
        return True, 'pass-through not byte-for-byte once: %r re-encodes to %r (unknown strings %s)' % (shown, (enc or b'').replace(b'\x01', b'|').decode('latin1'), {k: v.replace(b'\x01', b'|').decode('latin1') for k, v in unk.items()})
    return False, 'native run agrees (permissive): %r' % shown

def replay_mtype(ctx, c, h):
    """C03 object counterexamples (MsgType confusion, group-element loop): the message bytes through the real Message::factory
    (FIX42UTEST classes, ASan/UBSan, 20 s cap and 1 GB address-space cap: a hang or unbounded allocation is a violation of totality)"""
    msg = cx_message(c)
    if len(msg) < 20: return False, 'no message in counterexample'
    shown = msg.replace(b'\x01', b'|').decode('latin1')
    import subprocess
    try:
        r = subprocess.run([replay_exe(ctx), 'factory', msg.hex(), '1', '0', '0'], stdout=subprocess.PIPE, stderr=subprocess.STDOUT, text=True, timeout=20,
                           env=dict(os.environ, ASAN_OPTIONS='detect_leaks=0:abort_on_error=0:hard_rss_limit_mb=1500:allocator_may_return_null=0', UBSAN_OPTIONS='halt_on_error=1:print_stacktrace=0'))
    except subprocess.TimeoutExpired:
        return True, 'Message::factory does not return within 20 s on %r (%d bytes)' % (shown, len(msg))
    rc, out = r.returncode, r.stdout
    if rc == 127 or 'error while loading shared libraries' in out: raise Broken('replay program could not be started (library being rebuilt?): ' + out[-200:])
    if sanitizer_hit(rc, out) or 'rss limit' in out.lower() or 'out of memory' in out.lower(): return True, 'sanitizer report on %r: %s' % (shown, _short(out))
    if rc not in (0, 3): return True, 'Message::factory on %r ends with status %d: %s' % (shown, rc, _short(out))
    return False, 'native run of %r is clean: %s' % (shown, _short(out))

FUN_C03OBJ = ['FIX8::Message::factory', 'FIX8::MessageBase::extract_header', 'FIX8::GeneratedTable<const char*, BaseMsgEntry>::find_ptr', 'FIX8::Message::decode', 'FIX8::MessageBase::decode']
def add_c03_objects(ctx, defs):
    """object part of C03 over the token-level decoder world: (a) which message-table entry Message::factory instantiates for MsgType
    A / header / trailer / unknown, (b) termination of decode_group's element loop on an unparsable remainder"""
    world(ctx)
    common = dict(flags=['-I', VERIF + '/shims'], object_bits=13, timeout=600, mem_gb=12)
    hm = ctx.add(Harness('C03_mtype', VERIF + '/harness/C03_mtype.c', defines=list(defs) + WORLD_DEFS + ['VF_MAXCOPY=%d' % FLD], unwind=14, unwindset=us_decode(5), functions=FUN_C03OBJ,
                    stubs=STUBS_DECODE + [STUB_TOK, STUB_NOGRP], bounds='messages 8=FIX.4.2|9=12|35=<MsgType>|10=000| with MsgType in {A, header, trailer (all keys of the generated message table), B (not a key)}; checksum verification off',
                    desc='the factory instantiates only real message entries of the message table; unknown MsgType -> InvalidMessage', **common))
    # GeneratedTable::find_ptr is `res ? &res->_value : nullptr`; clang -O1 computes the member address before the select, so for a key that
    # is not in the table the IR forms null + 0 without using it: CBMC's pointer-overflow check flags that compiler-introduced address
    # computation (no dereference; the dereference/bounds checks stay on)
    hm.drop_checks = ('--pointer-overflow-check',)
    ctx.add(Harness('C03_gloop', VERIF + '/harness/C03_gloop.c', defines=list(defs) + WORLD_DEFS + ['VF_MAXCOPY=%d' % FLD], unwind=14, unwindset=us_decode(12), functions=FUN_DECODE,
                    stubs=STUBS_DECODE + [STUB_TOK.replace(':= token oracle', ':= token oracle (returns 0 at the malformed remainder, as the real tokenizer does: C03_ext_* grammar clause)')],
                    bounds='Logon message ...|98=0|108=3|384=n|372=D|[385=S|]<remainder>10=000| with count n in 1..2, one group element of one or two fields and either no remainder or 4 arbitrary bytes that are not a token (first byte neither a digit nor the equals sign; or 1..3 digits followed by a byte that is neither); element pool of 3',
                    desc='decode_group terminates: it creates no more elements than the input can hold; the message is accepted or a fix8 exception is raised', **common))

def add_c03_databound(ctx, defs):
    """C03, Length/data branch at the capacity of the decoder's value buffer, by composition: the kernel harnesses C03_fw_* prove the
    fixed-width extractor memory safe for every val_sz <= capacity - 1 (it stores val[val_sz] = 0 and takes no capacity for val); this
    harness runs the real MessageBase::decode on a Length/data pair whose Length text is two ARBITRARY digits and asserts, at the call
    site (ir2c --wrap), that decode only ever passes such a val_sz.  A failing assertion is a candidate; the replay decides it with a
    message whose Length has the same distance to the real capacity (2048) under ASan."""
    world(ctx)
    ext = ['-DFIX8_MAX_FLD_LENGTH=%d' % FLD]
    shim = ctx.build_ir('codec_world.cpp', 'cut', extra=ext); msg = ctx.build_ir(REPO + '/runtime/message.cpp', 'cut', extra=ext)
    ll = ctx.link_ir([shim, msg], 'codecworld')
    ctx.translate(ll, WORLD_ROOTS, 'world_tkng_w.c', stubs={SYMS['dgroup']: 'st_no_group'}, stubfiles=['codec_world.stubs', 'codec_tok.stubs', 'common.stubs'],
                  models=['cxx.c', 'stubs.c', 'codec.c'], provided=['vf_rec_create', 'vf_next_element'], opts=['--wrap', SYMS['fw']])
    for place, nm in ((1, 'body_95_96'),) + (((0, 'header_90_91'), (2, 'trailer_93_89')) if ctx.tier == 'thorough' else ()):
        ctx.add(Harness('C03_datalen_%s' % nm, VERIF + '/harness/C06_data.c',
                        defines=[d for d in defs if d != 'KF_SIG_PAIR'] + WORLD_DEFS + ['WORLD_FILE="world_tkng_w.c"', 'PLACE=%d' % place, 'NDATA=3', 'NFIX=2', 'FW_PRECOND', 'FLDCAP=%d' % FLD,
                                 'FW_SYM=' + SYMS['fw'], 'W_FW_SYM=w_' + SYMS['fw'], 'VF_MAXCOPY=%d' % FLD],
                        unwind=14, unwindset=us_decode(14), flags=['-I', VERIF + '/shims', '--max-field-sensitivity-array-size', '128'], object_bits=14, timeout=900,
                        functions=FUN_DECODE + ['MessageBase::decode: ft_Length branch incl. its capacity test (runtime/message.cpp)', 'FIX8::MessageBase::extract_element_fixed_width (behind the asserted precondition)'],
                        stubs=STUBS_DECODE + [STUB_TOK + ' (never applied to the data token: asserted)', STUB_NOGRP],
                        bounds='Logon message with the Length/data pair in the %s; Length text = two arbitrary digits (00..99), 2 data bytes; FIX8_MAX_FLD_LENGTH scaled to %d' % (nm.split('_')[0], FLD),
                        desc='call-site precondition of the fixed-width extractor: val_sz <= capacity - 1 (composition with the C03_fw_* kernel harnesses)'))

def replay_precond(ctx, c, h):
    """candidate from C03_datalen_*: the same distance to the real capacity, enough data bytes for the extractor to write, under ASan"""
    vs = int(c.get('cx_valsz', 0)); cap = int(c.get('cx_fldcap') or FLD); place = int(c.get('cx_place', 1))
    real = 2048 + (vs - cap)
    lt, dt = ((90, 91), (95, 96), (93, 89))[place]
    pair = b'%d=%d\x01%d=' % (lt, real, dt) + b'x' * real + b'\x01'
    msg = (b'8=FIX.4.2\x019=12\x0135=A\x0149=a\x0156=b\x0134=1\x0152=20130304-02:44:30\x01' + (pair if place == 0 else b'') + b'98=0\x01108=3\x01' + (pair if place == 1 else b'') +
           b'141=Y\x01' + (pair if place == 2 else b'') + b'10=000\x01')
    rc, out = run_replay(ctx, 'factory', msg.hex(), 1, 0, 0)
    what = 'scaled world: decode passes val_sz=%d to the extractor for a value buffer of %d; real size: Length=%d with %d data bytes through Message::factory (value buffer 2048): %s' % (vs, cap, real, real, _short(out))
    return sanitizer_hit(rc, out), what

# ------------------------------------------------------------------ the token-level decoder world
WORLD_ROOTS = ['vf_ctx_setup', 'vf_msg_entry_fn', 'vf_ctx_mk_hdr', 'vf_ctx_mk_trl', 'vf_tab_hdr', 'vf_tab_body', 'vf_tab_grp', 'vf_tab_trl', 'vf_mk_header', 'vf_mk_trailer',
               'vf_mk_body', 'vf_mk_element', 'vf_mk_group', 'vf_factory', 'vf_extract_header', 'vf_extract_trailer', 'vf_extract_element_s', 'vf_mb_decode',
               'vf_unknown_data', 'vf_unknown_size', 'vf_field_int', 'vf_body_length', 'vf_msg_type', 'vf_check_sum', 'vf_ti', 'vf_encode', 'vf_fmt_chksum']
FLD = 12          # scaled FIX8_MAX_FLD_LENGTH of the decoder world (tags <= 5 digits, values <= 7 bytes)
M_DECODE = '_ZN4FIX811MessageBase6decodeERKNSt7__cxx1112basic_stringIcSt11char_traitsIcESaIcEEEjjb'
M_DGROUP = '_ZN4FIX811MessageBase12decode_groupEPNS_9GroupBaseEtRKNSt7__cxx1112basic_stringIcSt11char_traitsIcESaIcEEEjj'
M_FILL = '_ZL4fillPN4FIX810FieldTraitEPtjPNS_21FieldTrait_Hash_ArrayEPK2FTj'
FUN_DECODE = ['FIX8::Message::factory', 'FIX8::MessageBase::extract_header', 'FIX8::Message::decode', 'FIX8::MessageBase::decode', 'FIX8::MessageBase::decode_group',
              'FIX8::fast_atoi<unsigned short|unsigned|int>', 'FIX8::presorted_set<unsigned short, FieldTrait>::find (hash-array path)', 'FIX8::FieldTraits::get/has/set/getPos/find_missing',
              'FIX8::F8MetaCntx::find_be', 'FIX8::GeneratedTable<const char*, BaseMsgEntry>::find_ptr', 'FIX8::MessageBase::has_group_count', 'FIX8::Field<int,0>(const char*) (field object handed back by the creator)']
STUBS_DECODE = [
    'BaseEntry::_create._do (field instantiator reached through the field table) := shim function that reports the text it is given to the harness log and returns a real Field<int,0> built from it',
    'MessageBase::add_field_decoder / MessageBase::add_field(fnum, itr, pos, field, false) := append (component, tag, position, text) to the harness log (no std::map insertion)',
    'MessageBase::find_add_group := the one group object of the world for (Logon, 384), null otherwise; GroupBase::create_group := next of a pool of 3 real MessageBase elements; GroupBase::operator<< := count; unique_ptr<MessageBase>::~unique_ptr := nothing',
    'std::function<Message*(bool)>::operator() (Minst::_do, _mk_hdr, _mk_trl) := the pre-built body / header / trailer object',
    'Message::calc_chksum(const char*, ...) := a byte sum chosen by the harness (kernel == byte sum is C07)',
    'constructors of the f8Exception family and f8Exception::format<> := no text formatting; the thrown typeinfo is observed',
    'basic_ostringstream / operator<< (reason text of MissingMandatoryField) := empty shell (models/codec.c); std::string, operator new: models/cxx.c',
    'SingleLogger::is_loggable := false (logging off)']
STUB_TOK = 'MessageBase::extract_element(const char*, unsigned, char*, char*, unsigned tag_sz, unsigned val_sz) := token oracle over the harness token table: returns the token that starts at the given position (tag text, value text, width), 0 when it does not fit the given capacities; this is the functional contract the C03_ext_* kernel harnesses prove for the real tokenizer on every byte string'
STUB_NOGRP = 'MessageBase::decode_group := assert(false) (harnesses without a group-count token: reaching it fails the check)'

SYMS = dict(dgroup=M_DGROUP, ext='_ZN4FIX811MessageBase15extract_elementEPKcjPcS3_jj', fw='_ZN4FIX811MessageBase27extract_element_fixed_widthEPKcjjPcS3_j')
WORLD_DEFS = []
def world(ctx):
    """build the four translations of the decoder world (tokenizer real/cut x decode_group real/cut) once per run"""
    if getattr(ctx, '_codec_world', None): return ctx._codec_world
    ext = ['-DFIX8_MAX_FLD_LENGTH=%d' % FLD]
    shim = ctx.build_ir('codec_world.cpp', 'cut', extra=ext); msg = ctx.build_ir(REPO + '/runtime/message.cpp', 'cut', extra=ext)
    ll = ctx.link_ir([shim, msg], 'codecworld')
    # the mangled names of the functions that are cut or whose loops get bounds are read from the IR (their signatures changed with the
    # capacity repair and may change with a group-count repair); the harness bodies of the cuts adapt through WORLD_DEFS
    txt = open(ll).read()
    def sym(rx, dflt):
        m = _re.search(r'^define [^@\n]*@(%s)\(' % rx, txt, _re.M); return m.group(1) if m else dflt
    SYMS['dgroup'] = sym(r'_ZN4FIX811MessageBase12decode_groupE\w+', M_DGROUP)
    SYMS['ext'] = sym(r'_ZN4FIX811MessageBase15extract_elementEPKcjPcS3_j*', SYMS['ext'])
    SYMS['fw'] = sym(r'_ZN4FIX811MessageBase27extract_element_fixed_widthEPKcjjPcS3_j*', SYMS['fw'])
    del WORLD_DEFS[:]
    if 'BaseField' in SYMS['dgroup']: WORLD_DEFS.append('DGROUP_CNTFLD')        # decode_group(grpbase, fnum, count field, from, offset, ignore)
    if not SYMS['ext'].endswith('jj'): WORLD_DEFS.append('EXT_NOCAP')           # extract_element without capacity parameters (before repo 4884c13)
    common = dict(stubfiles=['codec_world.stubs', 'common.stubs'], models=['cxx.c', 'stubs.c', 'codec.c'], provided=['vf_rec_create', 'vf_next_element'])
    info = {}
    info['world.c'] = ctx.translate(ll, WORLD_ROOTS, 'world.c', **common)
    info['world_ng.c'] = ctx.translate(ll, WORLD_ROOTS, 'world_ng.c', stubs={SYMS['dgroup']: 'st_no_group'}, **common)
    tk = dict(common, stubfiles=['codec_world.stubs', 'codec_tok.stubs', 'common.stubs'])
    info['world_tk.c'] = ctx.translate(ll, WORLD_ROOTS, 'world_tk.c', **tk)
    info['world_tkng.c'] = ctx.translate(ll, WORLD_ROOTS, 'world_tkng.c', stubs={SYMS['dgroup']: 'st_no_group'}, **tk)
    # encoder world (C02 framing): sub-encoders and fmt_chksum cut; pointer differences / comparisons stay pointer operations (ir2c --ptrdiff --ptrcmp):
    # msgLen = msg - moffs through uintptr_t values is opaque to CBMC's constant propagation, and with it hlen and every later store offset
    info['world_enc.c'] = ctx.translate(ll, WORLD_ROOTS, 'world_enc.c', stubs={'_ZNK4FIX811MessageBase6encodeEPc': 'st_mb_encode', '_ZN4FIX87Message10fmt_chksumB5cxx11Ej': 'st_fmt_chksum'},
                                        opts=['--ptrcmp', '--ptrdiff'], **common)
    tabcheck(ctx)
    ctx._codec_world = info
    return info

def tabcheck(ctx):
    """the hand-copied trait tables (shims/codec_tables.h) equal the f8c-generated ones in libutest.so"""
    exe = ctx.native('codectab', ['replay/codec_tabcheck.cpp'], flags=('-O1', '-fno-access-control', '-I' + REPO + '/utests'),
                     libs=['-L' + REPO + '/utests/.libs', '-lutest', '-L' + REPO + '/runtime/.libs', '-lfix8', '-Wl,-rpath,' + REPO + '/utests/.libs', '-Wl,-rpath,' + REPO + '/runtime/.libs'])
    r = sh([exe])
    if r.returncode != 0: raise Broken('codec_tables.h differs from the generated FIX42UTEST tables: ' + r.stdout[-400:])
    ctx.validation.append(dict(kernels=['codec_tables.h vs FIX42UTEST (header, Logon, Logon::NoMsgTypes, trailer, field table size)'], result=r.stdout.strip()))

def us_decode(ntok, harness_loops=('main', 'run'), extra=(), maxcopy=None):
    """per-loop unwinding bounds of the decoder world (names from cbmc --show-loops); global --unwind covers the small harness loops"""
    us = ['%s.%d:%d' % (f, i, 170) for f in harness_loops for i in range(0, 24)]
    us += ['_ZNK4FIX811FieldTraits12find_missingENS_10FieldTrait10TraitTypesE.0:29', 'in_tab.0:29', 'vf_ti_match.0:60', 'vf_copy.0:%d' % ((maxcopy or FLD) + 2), 'x_strlen.0:64',
           M_DECODE + '.0:3', M_DECODE + '.1:%d' % (ntok + 2), M_DECODE + '.2:%d' % (ntok + 2),
           SYMS['fw'] + '.0:%d' % FLD, SYMS['ext'] + '.0:%d' % (FLD + 1),
           'TK_render.0:%d' % max(ntok + 3, 13), 'TK_render.1:%d' % max(ntok + 3, 13), 'st_extract_element.0:%d' % max(ntok + 3, 10), 'st_extract_element.1:%d' % max(ntok + 3, 10), 'st_extract_element.2:%d' % max(ntok + 3, 10), 'st_extract_element.3:%d' % max(ntok + 3, 10),
           '_ZN4FIX89fast_atoiItEET_PKcc.0:7', '_ZN4FIX89fast_atoiIjEET_PKcc.0:9', '_ZN4FIX89fast_atoiIiEET_PKcc.0:9']
    us += ['%s.%d:29' % (M_FILL, i) for i in range(4)] + ['%s.%d:6' % (SYMS['dgroup'], i) for i in range(6)]
    over = set(e.rsplit(':', 1)[0] for e in extra)          # an explicit bound replaces the default for that loop
    return [u for u in us if u.rsplit(':', 1)[0] not in over] + list(extra)

def tok_harness(ctx, name, *, perm=0, nx=3, pres=0, drop=0, ng=0, gpres=0, glast=False, defs=(), tokcut=True, tier='quick', extra_defs=(), timeout=900, cfile='C04_tok.c', pid='C04', object_bits=None):
    """one query of the token-level driver (harness/C04_tok.c)"""
    world(ctx)
    nslots = bin(pres).count('1') + bin(gpres).count('1')
    ntok = 3 + 6 + nx + ng + 1
    mc = next((int(x.split('=')[1]) for x in extra_defs if x.startswith('VF_MAXCOPY=')), FLD)
    d = list(defs) + WORLD_DEFS + ['NX=%d' % nx, 'PRES=%d' % pres, 'DROP=%d' % drop, 'PERM=%d' % perm] + ([] if mc != FLD else ['VF_MAXCOPY=%d' % FLD]) + list(extra_defs)
    if ng: d += ['NG=%d' % ng, 'GPRES=%d' % gpres] + (['GLAST'] if glast else [])
    else: d += ['NOGROUP']
    if not tokcut: d += ['NO_TOKCUT']
    slots = []
    for i in range(nx):
        if i == 1 and ng: slots.append('384=n ' + ' '.join('G%d' % g if (gpres >> g) & 1 else '-' for g in range(ng)))
        else: slots.append('X%d' % i if (pres >> i) & 1 else '-')
    if glast and ng: slots.insert(2, slots[1]); slots[1] = '-'          # the group follows 108 (last field of the body)
    bounds = ('message 8=FIX.4.2|9=12|35=A| %s 49 56 34 52 %s 98 108 %s 10=ddd|%s; %d symbolic 9-byte token(s): tag from a menu of 11 (header/body/trailer tags, foreign tag, '
              'tag outside the field table, two tags == known tag mod 65536, repeat of 35%s), 2..6 symbolic value bytes (no SOH/NUL); checksum digits, byte sum and no_chksum flag symbolic; '
              'FIX8_MAX_FLD_LENGTH scaled to %d') % (slots[0], slots[1], ' '.join(slots[2:]), ' with mandatory token #%d left out' % drop if drop else (' with one of the six mandatory tokens left out (each in turn)' if 'DROPALL' in extra_defs else ''), nslots,
                                                   '; group slots: 372, 385, 383, 141, 5000; count 0..%d' % ng if ng else '', FLD)
    h = Harness(name, VERIF + '/harness/' + cfile, defines=d, unwind=14, unwindset=us_decode(ntok, maxcopy=mc), timeout=timeout, mem_gb=12, flags=['-I', VERIF + '/shims'], object_bits=object_bits or (16 if nslots > 1 else 13),
                functions=FUN_DECODE + ([] if tokcut else ['FIX8::MessageBase::extract_element']), stubs=STUBS_DECODE + ([STUB_TOK] if tokcut else []) + ([] if ng else [STUB_NOGRP]),
                bounds=bounds, desc='%s mode; oracle = reference acceptor over the token list and the FIX42UTEST trait tables' % ('permissive' if perm else 'strict'), tier=tier)
    return ctx.add(h)

DECODE_ASSUMPTIONS = ['trait/field/message tables: hand copy of FIX42UTEST header, Logon, Logon::NoMsgTypes, trailer, compared with libutest.so on every run (translator_validation)',
                      'Message::calc_chksum equals the byte sum (C07) - the decoder harness lets the harness choose that sum',
                      'the token oracle cut of extract_element is the contract proved by the C03_ext_* harnesses (inputs <= 40 bytes)',
                      'field objects are not built: the creator hook logs the text it receives (per-type parsing is C01/C08/C09); std::map insertion of fields is not executed',
                      'operator new never fails']

def kf_defines_for(ctx, pid):
    """defines of another property's known findings (a harness shared between properties must exclude those classes too)"""
    return kf_defines(kfs(pid))
