"""C17 sent application messages are stored exactly as transmitted (session world, outbound side)"""
import os
from vf.core import *
from props import sessb
from props.C16 import US

def run(ctx):
    kf = known_findings('C17'); defs = kf_defines(kf)
    sessb.build(ctx)
    T = ctx.tier == 'thorough'
    def H(name, defines, desc, bounds, tier='quick'):
        ctx.add(Harness(name, VERIF + '/harness/C17_store.c', defines=defs + defines + ['VF_MAXCOPY=13'], unwind=5, unwindset=US, timeout=900 if not T else 2400, mem_gb=12,
                        functions=sessb.FUN_SEND, stubs=sessb.STUBS_SEND, nochecks=False, desc=desc, tier=tier,
                        bounds=bounds + '; encodings 2..4 symbolic non-NUL bytes per message; (n, r) arbitrary; always_seqnum_assign symbolic'))
    one = 'one message of kind {app, heartbeat, sequence reset, logout}, new or retransmitted; custom_seqnum, no_increment, destroy symbolic'
    H('C17_single_ptr', ['OP=0', 'J=1', 'NMSG=1'], 'send(Message*): stored bytes/key vs wire bytes/MsgSeqNum', one)
    H('C17_single_ref', ['OP=1', 'J=1', 'NMSG=1'], 'send(Message&): stored bytes/key vs wire bytes/MsgSeqNum', one)
    for j in (2, 3):
        H('C17_batch_j%d' % j, ['OP=2', 'J=3', 'NMSG=3', 'JFIX=%d' % j, 'NEW_ONLY'], 'send_batch of %d new messages: every application message stored as transmitted, one write' % j, 'batch of %d new messages, kinds symbolic' % j)
    H('C17_batch_j1', ['OP=2', 'J=3', 'NMSG=3', 'JFIX=1', 'NEW_ONLY'], 'send_batch of 1', 'batch of 1', tier='thorough')
    for j in (2, 3):
        H('C17_batch_mixed_j%d' % j, ['OP=2', 'J=3', 'NMSG=3', 'JFIX=%d' % j], 'send_batch of %d messages, each new or a retransmission' % j, 'batch of %d, new/retransmitted symbolic' % j, tier='thorough')
    ctx.assumptions += ['operator new never fails', 'the socket accepts every byte written', 'single caller, process model pm_thread',
                        'encodings contain no NUL byte (send_process hands the encoder output to std::string::append(const char*) and to f8String(const char*): a raw data field with an embedded NUL is cut there; outside this claim, noted in the report)',
                        'the real encoder is replaced by an abstract encoder; byte identity is checked between what the encoder produced, what reached the socket and what reached Persister::put']
    ctx.solve(jobs=4)
    ctx.handle_failures(replay, kf)
    announce_known(ctx, kf, replay)
    return ctx.finish()

def replay(ctx, cx, h=None):
    return sessb.replay_send(ctx, cx, 2)
