"""C22 heartbeat / TestRequest supervision (session world, inbound side, symbolic clock)"""
import os
from vf.core import *
from props import sessin
FUN = ['FIX8::Session::heartbeat_service', 'Session::is_shutdown', 'Session::stop', 'Session::do_state_change', 'Tickval::Tickval(bool)/now/operator-/secs (std::chrono arithmetic)',
       'Connection::is_connected/get_hb_interval/get_hb_interval20pc/set_hb_interval']
FUN_IN = ['FIX8::Session::process', 'Session::handle_test_request', 'Session::handle_heartbeat', 'Session::enforce', 'Session::sequence_check', 'Session::compid_check']

def run(ctx):
    kf, defs = sessin.kf_defs('C22')
    info = sessin.build(ctx)
    ctx.assumptions += sessin.ASSUME + ['the connection is connected; outbound traffic is captured at Session::send, so _last_sent is not moved by the tick itself',
                                        'second-granular supervisor: "more than H+20%" is required to fire at the latest one second after the exact threshold and never before it']
    for ticks in (1, 2):
        ctx.add(Harness('C22_tick%d' % ticks, VERIF + '/harness/C22_tick.c', defines=defs + ['TICKS=%d' % ticks, 'VF_MAXCOPY=40', 'VF_CLOCKMAX=6'], unwind=12,
                        unwindset=sessin.US, timeout=900, backend='default', functions=FUN, stubs=sessin.STUBS,
                        bounds='%d supervision tick(s); H in 1..3600 s; every clock reading an arbitrary non-decreasing instant below 2^62 ns; last-sent/last-received instants arbitrary (not after the first reading); '
                               '%s; initiator or acceptor connection' % (ticks, 'any established state' if ticks == 1 else 'tick 1 from st_continuous sends the TestRequest, tick 2 arbitrary later'),
                        desc='supervision clauses of C22 over the real heartbeat_service'))
    for trlen in ((2,) if ctx.tier == 'quick' else (1, 2)):
        ctx.add(Harness('C22_inbound_l%d' % trlen, VERIF + '/harness/C22_inbound.c', defines=defs + ['TRLEN=%d' % trlen, 'VF_MAXCOPY=40'], unwind=12,
                        unwindset=sessin.US, timeout=900, functions=FUN_IN, stubs=sessin.STUBS,
                        bounds='one in-sequence Heartbeat or TestRequest (TestReqID %d arbitrary bytes) processed in any established state, expected number 1..9999999' % trlen,
                        desc='inbound TestRequest/Heartbeat clauses of C22 over the real process/handle_test_request/handle_heartbeat'))
    ctx.solve(jobs=4)
    ctx.handle_failures(replay, kf)
    announce_known(ctx, kf, replay)
    return ctx.finish()

def replay(ctx, cx, h=None):
    c = cx.get('cx', cx)
    if 'cx_h' in c:
        H = int(c['cx_h']); now = [int(x) for x in c.get('cx_now', [])] + [0] * 6
        ls, lr = int(c.get('cx_last_sent', 0)), int(c.get('cx_last_recv', 0))
        two = h is not None and 'tick2' in h.name or int(c.get('cx_reads', 2)) > 2
        thr_ms = H * 1200
        if two:
            # native clock cannot be steered: reproduce the class "second tick immediately after the TestRequest": silence > H+20% at tick 1, tick 2 right away
            steps, raw = sessin.run_steps(ctx, ['init,conn=1,role=A,sender=S,hb=%d,state=1,recv=5,send=5,active=1,sent_ago_ms=0,recv_ago_ms=%d' % (H, thr_ms + 1500), 'tick', 'tick'])
            if len(steps) < 2: return False, 'no output: ' + raw
            t1, t2 = steps[-2], steps[-1]
            tr = [s for s in t1['sent'] if s['type'] == '1']; lo = [s for s in t2['sent'] if s['type'] == '5']
            bad = bool(tr) and bool(lo)       # Logout at a tick that follows the TestRequest by (far) less than H+20%
            return bad, 'native: H=%d, tick 1 sends TestRequest, tick 2 immediately afterwards (elapsed << %d ms) sends %s | %s' % (H, thr_ms, 'Logout' if lo else 'nothing', raw[-250:])
        sent_ago = max(0, (now[0] - ls) // 1000000); recv_ago = max(0, (now[1] - lr) // 1000000)
        # keep away from the native clock's jitter: reproduce only when the counterexample is at least 300 ms off every threshold
        steps, raw = sessin.run_steps(ctx, ['init,conn=1,role=A,sender=S,hb=%d,state=%d,recv=5,send=5,active=1,sent_ago_ms=%d,recv_ago_ms=%d' % (H, int(c.get('cx_state', 1)), sent_ago, recv_ago), 'tick'])
        if not steps: return False, 'no output: ' + raw
        r = steps[-1]; hb = len([s for s in r['sent'] if s['type'] == '0']); tr = len([s for s in r['sent'] if s['type'] == '1']); lo = len([s for s in r['sent'] if s['type'] == '5'])
        st = int(c.get('cx_state', 1))
        bad = (sent_ago >= H * 1000 + 300 and hb != 1) or (sent_ago < H * 1000 - 300 and hb != 0) or (tr and recv_ago <= thr_ms - 300) or \
              (recv_ago >= thr_ms + 1300 and st not in (9, 2) and tr != 1) or (lo and st != 9) or (st == 9 and recv_ago >= thr_ms + 1300 and lo != 1)
        return bool(bad), 'native: H=%d sent_ago=%dms recv_ago=%dms state=%d -> heartbeat=%d testrequest=%d logout=%d | %s' % (H, sent_ago, recv_ago, st, hb, tr, lo, raw[-200:])
    # inbound
    t = chr(int(c.get('cx_type', 49))); exp = int(c.get('cx_expected', 1)); st = int(c.get('cx_state', 1))
    steps, raw = sessin.run_steps(ctx, ['init,role=I,sender=S,target=T,state=%d,recv=%d,send=9,enforce=1,active=1' % (st, exp), 'msg,type=%s,seq=%d,trid=QZ' % (t, exp)])
    if not steps: return False, 'no output: ' + raw
    r = steps[-1]
    if t == '1': bad = not (len(r['sent']) == 1 and r['sent'][0]['type'] == '0' and r['sent'][0].get('112') == 'QZ')
    else: bad = bool(r['sent']) or (st == 9 and r['state'] != 1) or (st not in (9, 12) and r['state'] != st) or (st == 12 and r['state'] not in (12, 1))
    return bad, 'native: ' + raw[-300:]
