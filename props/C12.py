"""C12 metadata lookup tables: GeneratedTable lookups, presorted_set (generic + FieldTrait specialisation), FieldTrait_Hash_Array"""
import os, re
from vf.core import *
ROOTS = ['vf_gt_pair_u', 'vf_gt_ptr_u', 'vf_gt_at_u', 'vf_gt_pair_s', 'vf_gt_ptr_s',
         'vf_gs_setup', 'vf_gs_ctor_arr', 'vf_gs_ctor_empty', 'vf_gs_arr', 'vf_gs_sz', 'vf_gs_rsz', 'vf_gs_find_k', 'vf_gs_find_kc', 'vf_gs_find_ka', 'vf_gs_insert', 'vf_gs_clear',
         'vf_ps_setup', 'vf_ps_ctor_arr', 'vf_ps_ctor_empty', 'vf_ps_ctor_ftha', 'vf_ps_ctor_copy', 'vf_ps_arr', 'vf_ps_sz', 'vf_ps_rsz', 'vf_ps_find_k', 'vf_ps_find_kc', 'vf_ps_find_t', 'vf_ps_find_tc',
         'vf_ps_find_ka', 'vf_ps_insert', 'vf_ps_insert_range', 'vf_ps_clear', 'vf_ft_fnum', 'vf_ha_ctor', 'vf_ha_els', 'vf_ha_sz', 'vf_ha_arr']
GTF = ['FIX8::GeneratedTable<K,V>::_find', 'find_pair_ptr', 'find_ptr', 'at', 'FIX8::_pair<K,V>::Less (unsigned and const char* keys)', 'std::lower_bound (header code)']
SETF = ['FIX8::presorted_set<K,T,Comp>::insert(const_iterator)', 'find(K)', 'find(K) const', 'find(K, bool&)', 'find(T, bool&)', 'clear', 'calc_reserve', 'begin/end/size/rsize', 'std::equal_range (header code)']
PSF = ['FIX8::presorted_set<unsigned short, FieldTrait, FieldTrait::Compare> (Presence): insert(const_iterator)', 'insert(range)', 'find(key)', 'find(key) const', 'find(FieldTrait)', 'find(FieldTrait) const',
       'find(key, bool&)', 'find(FieldTrait, bool&)', 'clear', 'hash-array constructor', 'copy constructor', 'FIX8::FieldTrait_Hash_Array::FieldTrait_Hash_Array']
MEMSTUB = 'memcpy/memmove/memset with non-constant length := element-wise loops defined in the harness (ISO C semantics; lengths asserted to be whole elements within range)'
NEWSTUB = 'operator new[] := fresh heap object of exactly the requested size (case split on the element count; never fails); operator delete[] := free'
MEMFLAGS = ('-O1', '-fsanitize=address,undefined', '-fno-sanitize-recover=undefined', '-fno-access-control')

def tname(cfile, fn, argno=0):
    """generated struct name of a wrapper's pointer parameter (the numbering suffix of same-named LLVM types depends on the IR)"""
    m = re.search(r'^\S[^\n]*\b%s\(([^)]*)\);' % fn, open(cfile).read(), re.M)
    if not m: raise Broken('prototype of %s not found in %s' % (fn, cfile))
    t = m.group(1).split(',')[argno]
    return re.search(r'struct (\w+)\*', t).group(1)

def run(ctx):
    kf = known_findings('C12'); defs = kf_defines(kf)
    ll = ctx.build_ir('c12.cpp', 'leaf', extra=['-fno-access-control'])
    info = ctx.translate(ll, ROOTS, 'c12.c', provided=['_Znam', '_ZdaPv'])
    gen = ctx.translate(ll, ROOTS, 'c12gen.c', opts=['--prefix', 'gen_'], provided=['_Znam', '_ZdaPv'])
    llc = ctx.build_ir('c12.cpp', 'cut')
    cut = ctx.translate(llc, ['vf_gt_ref_u'], 'c12cut.c', models=['c12_exc.c'], stubs={'_ZN4FIX815InvalidMetadataIjEC2Ej': 'st_invmeta_ctor'})
    T = ['UPAIR_T=' + tname(info['c'], 'vf_gt_pair_u'), 'SPAIR_T=' + tname(info['c'], 'vf_gt_pair_s'), 'GSET_T=' + tname(info['c'], 'vf_gs_setup'), 'PSET_T=' + tname(info['c'], 'vf_ps_setup')]
    TC = ['UPAIR_T=' + tname(cut['c'], 'vf_gt_ref_u'), 'SPAIR_T=' + tname(cut['c'], 'vf_gt_ref_u'), 'VF_TI_INVMETA=g__ZTIN4FIX815InvalidMetadataIjEE']
    # translator validation: gcc build of the generated C next to the g++ build of the same wrappers
    exe = ctx.native('c12diff', ['replay/c12_diff.c', ctx.work + '/c12gen.c', 'shims/c12.cpp'], flags=('-O1', '-fno-access-control'), defines=T)
    r = sh([exe, str(ctx.seed)])
    if r.returncode != 0: raise Broken('translator validation failed: ' + r.stdout[-500:])
    ctx.validation.append(dict(kernels=[x for x in ROOTS if 'setup' not in x], result=r.stdout.strip()))
    thorough = ctx.tier == 'thorough'
    nt = 8; nts = 4 if not thorough else 6
    G = VERIF + '/harness/C12_gt.c'
    hs = []
    hs.append(Harness('C12_table_unsigned', G, defines=defs + T + ['KIND=0', 'NT=%d' % nt], unwind=6, unwindset=['main.0:%d' % (nt + 2), 'main.1:%d' % (nt + 2), 'main.2:%d' % (nt + 2)], timeout=600, functions=GTF,
                      bounds='any strictly ascending table of n <= %d unsigned keys with arbitrary values, any probe key, any index for at()' % nt, desc='field-table lookups == linear membership scan'))
    hs.append(Harness('C12_table_string', G, defines=defs + T + ['KIND=1', 'NT=%d' % nts], unwind=6, unwindset=['main.0:%d' % (nts + 2), 'main.1:%d' % (nts + 2), 'main.2:%d' % (nts + 2)], timeout=900, functions=GTF, stubs=['strcmp := ISO C (models/base.c)'],
                      bounds='any strcmp-ascending table of n <= %d strings of <= 2 arbitrary bytes, any probe string of <= 2 bytes' % nts, desc='message-table lookups == linear membership scan'))
    hs.append(Harness('C12_table_find_ref', G, defines=defs + TC + ['KIND=2', 'NT=%d' % nt], unwind=6, unwindset=['main.0:%d' % (nt + 2), 'main.1:%d' % (nt + 2), 'main.2:%d' % (nt + 2)], timeout=600, functions=GTF + ['FIX8::GeneratedTable<unsigned,V>::find_ref'],
                      stubs=['InvalidMetadata<unsigned>::InvalidMetadata(key) := records the key (message formatting is not the subject)', 'exception runtime: models/c12_exc.c (pending flag + thrown typeinfo)'],
                      bounds='as C12_table_unsigned', desc='find_ref returns the entry or throws InvalidMetadata'))
    S = VERIF + '/harness/C12_set.c'
    ns = 3 if not thorough else 4
    for st, nm, fn in ((0, 'generic', SETF), (1, 'presence', PSF)):
        for op, onm in ((0, 'insert'), (1, 'find'), (2, 'clear'), (4, 'ctor')) + (((3, 'insert_range'),) if st == 1 else ()):
            hs.append(Harness('C12_set_%s_%s' % (nm, onm), S, defines=defs + T + ['SET=%d' % st, 'OP=%d' % op, 'NS=%d' % ns], unwind=(ns + 2 if op in (1, 2) else 2 * ns + 4), unwindset=['x__Znam.0:%d' % (2 * ns + 5), 'memcpy.0:%d' % (2 * ns + 4), 'memmove.0:%d' % (2 * ns + 4), 'memmove.1:%d' % (2 * ns + 4)], timeout=900 if not thorough else 2400, functions=fn, stubs=[NEWSTUB, MEMSTUB],
                              bounds='any state with size <= reserved size <= %d, reserved size >= 1, strictly ascending keys (all 16-bit values), reserve percentage 0..100, array allocated or (empty set) still deferred; any key' % ns,
                              desc='one step from any state satisfying the representation invariant', tier='thorough' if op == 3 else 'quick'))
    hs.append(Harness('C12_hash_array', VERIF + '/harness/C12_hash.c', defines=defs + T + ['NT=%d' % (4 if not thorough else 8), 'TAGMAX=%d' % (32 if not thorough else 64)], unwind=10, unwindset=['x__Znam.0:%d' % (34 if not thorough else 66), 'x__Znam.1:20', 'memcpy.0:%d' % (10 if not thorough else 18), 'memset.0:%d' % (34 if not thorough else 66)], timeout=900 if not thorough else 2400, functions=PSF, stubs=[NEWSTUB, MEMSTUB],
                      bounds='any strictly ascending trait table of 1 <= n <= %d tags below %d, every key 0..65535, arbitrary previous contents of the set object' % (4 if not thorough else 8, 32 if not thorough else 64),
                      desc='hash array contents, lookups through it, constructed state, copy'))
    for h in hs:
        h.drop_checks = ['--pointer-overflow-check']   # clang -O1 speculates address computations ahead of a select (idx < n ? tab + idx : 0); dereferences stay checked
        ctx.add(h)
    ctx.assumptions += ['operator new[] never fails', 'tables are strictly ascending (what f8c emits; not re-checked on the generated tables here)',
                        'forming (not dereferencing) an out-of-range address is not reported: the -O1 IR computes tab+idx before selecting on idx < n',
                        'hash-mode trait sets are lookup-only (class comment "no insert"): insert on a set that has a hash array is outside the claim',
                        'F8MetaCntx::find_be / reverse_find_* (std::map<string> reverse tables built by the generated context) are not encoded in this run']
    ctx.solve(jobs=4)
    ctx.handle_failures(replay, kf)
    announce_known(ctx, kf, replay)
    return ctx.finish()

def replay(ctx, cx, h=None):
    c = cx.get('cx', cx)
    exe = ctx.native('c12replay', ['replay/c12_replay.cpp'], flags=MEMFLAGS)
    env = dict(os.environ, ASAN_OPTIONS='detect_leaks=0')
    name = h.name if h else c.get('harness', '')
    def lst(k, n): v = c.get(k, []); v = v if isinstance(v, list) else []; return [str(int(x)) for x in (v + [0] * n)[:n]]
    if 'args' in c: args = [str(a) for a in c['args']]
    elif name.startswith('C12_table'):
        n = int(c.get('cx_n', 0)); kind = {'C12_table_unsigned': 0, 'C12_table_string': 1}.get(name, 2)
        if kind == 1: args = ['gts', str(n)] + lst('cx_pstr', 2) + lst('cx_strs', 3 * n)
        else: args = ['gtu', str(kind), str(n), str(int(c.get('cx_probe', 0))), str(int(c.get('cx_idx', 0)) & 0xffffffff)] + lst('cx_key', n)
    elif name.startswith('C12_set'):
        st = 0 if 'generic' in name else 1; op = {'insert': 0, 'find': 1, 'clear': 2, 'ctor': 4}.get(name.split('_', 3)[3], 3)
        sz = int(c.get('cx_sz', 0))
        args = ['set', str(st), str(op), str(sz), str(int(c.get('cx_rsz', 0))), str(int(c.get('cx_reserve', 0))), str(int(c.get('cx_null', 0))), str(int(c.get('cx_key', 0))), str(int(c.get('cx_key2', 0)))] + lst('cx_k', sz)
    else:
        n = int(c.get('cx_n', 1)); args = ['hash', str(n), str(int(c.get('cx_key', 0))), str(int(c.get('cx_fill', 0)))] + lst('cx_tag', n)
    r = sh([exe] + args, env=env)
    out = (r.stdout or '').strip()
    m = re.search(r'ERROR: AddressSanitizer: ([\w-]+)', out)
    txt = ('AddressSanitizer: %s; ' % m.group(1) if m else '') + ' | '.join([l for l in out.splitlines() if l.startswith(('C12', 'SUMMARY'))][-3:])
    return r.returncode not in (0, 2), txt[-400:]
