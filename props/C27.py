"""C27 file persister crash safety: the real FilePersister over the POSIX file model with a nondeterministic crash after each
completed write/lseek system call, reopen by a fresh FilePersister, further operations (harness/C27_crash.c)"""
import os
from vf.core import *
from props import C26

FUN = C26.FFUN
STUBS = C26.FSTUBS + ['crash model: after each completed write/lseek of process 1 the file images may freeze (models/posixfs.c, -DVF_FS_CRASH); writes are atomic (no torn writes), '
                      'data reaches the image in program order (process crash, not power failure)']

def run(ctx):
    kf = known_findings('C27'); defs = kf_defines(kf)
    C26.build_file(ctx, out='c26f.c')
    # (per-position op sets of process 1, kp operations of process 2 drawn from pops); the quick tier covers every 2-operation
    # history of process 1 by four harnesses that fix the kind of each position (solved in parallel)
    q = [((1, 1), 1, 0x03), ((1, 2), 1, 0x03), ((2, 1), 1, 0x03), ((2, 2), 1, 0x03)]
    # three process lifetimes: a history, crash, reopen, further stores (per-position sets pops), clean end, SECOND reopen, probe. The quick
    # variant is exactly: first put of a fresh store crashes at each of its system calls (or not), reopen, put, control put, reopen, probe
    q3 = [((1,), (1, 2))]
    t3 = q3 + [((3,), (3, 3)), ((3, 3), (3,))]
    # thorough: the quick four with pointer/overflow instrumentation, any 2 and any 3 stores before the crash. (Two further operations after
    # reopening, and gets inside process 1, were tried: their reachability twins alone exceed the 600 s cap of the runner - not listed.)
    t = q + [((3, 3), 1, 0x03), ((3, 3, 3), 1, 0x03)]
    for sets, kp, pops in (q if ctx.tier == 'quick' else t):
        if 'KF_FP_SLOT0' in defs and sets[0] == 1: continue     # that known finding excludes exactly the histories starting with a message put
        k = len(sets); nrec = k + kp + 1; ops = 0
        for s_ in sets: ops |= s_
        ctx.add(Harness('C27_crash_%s_kp%d_pops%02x' % ('_'.join('%x' % s_ for s_ in sets), kp, pops), VERIF + '/harness/C27_crash.c',
                        defines=defs + ['K=%d' % k, 'KP=%d' % kp, 'OPS=0x%x' % ops, 'POPS=0x%x' % pops, 'VF_MAXCOPY=8', 'VF_FS_CRASH=1', 'VF_FS_FSIZE=%d' % (16 * (nrec + 1))] + ['OPS%d=0x%x' % (i, s_) for i, s_ in enumerate(sets)],
                        unwind=nrec + 2, unwindset=C26.FUS + ['main.0:%d' % (k + 1), 'main.1:%d' % (kp + 1)],
                        timeout=1200 if ctx.tier == 'quick' else 3600, mem_gb=16, functions=FUN, stubs=STUBS, nochecks=(ctx.tier == 'quick'),   # pointer/overflow instrumentation (4x the formula) only in the thorough tier
                        bounds='process 1: initialise on an empty directory + up to %d operations, position i from op set %s {bit 0 message put, 1 control put, 2 get}, crash after any completed write/lseek or none; '
                               'process 2: initialise on the frozen files + %d operations from {message put, control put} with a symbolic probe get(1..6) + control get after reopen and after each operation; '
                               'seqnums 0..6, payloads 1-2 symbolic bytes, control values <= 1000; FIX8_MAX_MSG_LENGTH scaled to %d' % (k, [hex(s_) for s_ in sets], kp, C26.MSGLEN),
                        desc='real FilePersister: crash at every system-call boundary, reopen, oracle = reference built from the completed operations'))
    for sets, psets in (q3 if ctx.tier == 'quick' else t3):
        k = len(sets); kp = len(psets); nrec = k + kp + 1; ops = 0; pops = 0
        for s_ in sets: ops |= s_
        for s_ in psets: pops |= s_
        ctx.add(Harness('C27_crash3_%s_then_%s' % ('_'.join('%x' % s_ for s_ in sets), '_'.join('%x' % s_ for s_ in psets)), VERIF + '/harness/C27_crash.c',
                        defines=defs + ['K=%d' % k, 'KP=%d' % kp, 'OPS=0x%x' % ops, 'POPS=0x%x' % pops, 'STAGE3', 'VF_MAXCOPY=8', 'VF_FS_CRASH=1', 'VF_FS_FSIZE=%d' % (16 * (nrec + 1))]
                                + ['OPS%d=0x%x' % (i, s_) for i, s_ in enumerate(sets)] + ['POPS%d=0x%x' % (i, s_) for i, s_ in enumerate(psets)],
                        unwind=nrec + 2, unwindset=C26.FUS + ['main.0:%d' % (k + 1), 'main.1:%d' % (kp + 1)],
                        timeout=1200 if ctx.tier == 'quick' else 3600, mem_gb=16, functions=FUN, stubs=STUBS, nochecks=True,
                        bounds='process 1: initialise on an empty directory + up to %d operations (position i from %s), crash after any completed write/lseek or none; process 2: reopen + %d operations '
                               '(position j from %s; bit 0 message put, 1 control put) with probes; process 2 ends without crash; process 3: a fresh FilePersister reopens the files, symbolic probe get(1..6) + control get; '
                               'seqnums 0..6, payloads 1-2 symbolic bytes' % (k, [hex(s_) for s_ in sets], kp, [hex(s_) for s_ in psets]),
                        desc='real FilePersister through three process lifetimes: what the files say after a second reopen equals the reference'))
    ctx.assumptions += ['operator new never fails', 'rb-tree rebalancing replaced by an unbalanced BST with the same in-order sequence',
                        'POSIX calls follow models/posixfs.c: no I/O errors, a write is atomic (torn writes not modelled), what a completed write put into the file survives the process crash (no power failure)',
                        'the operation in flight at the crash may or may not have taken effect (atomically); completed = the call returned before the crash']
    ctx.solve(jobs=4)
    ctx.handle_failures(replay, kf)
    announce_known(ctx, kf, replay)
    return ctx.finish()

def replay(ctx, cx, h=None):
    c = cx.get('cx', cx)
    exe = ctx.native('c27replay', ['replay/c27_replay.cpp', REPO + '/runtime/filepersist.cpp'], flags=('-O1', '-fsanitize=address,undefined', '-fno-sanitize=vptr'),
                     libs=['-L' + REPO + '/runtime/.libs', '-lfix8', '-Wl,-rpath,' + REPO + '/runtime/.libs'])
    def lst(k):
        v = c.get(k, []); return v if isinstance(v, list) else [v]
    def g(k, i): v = lst(k); return int(v[i]) if i < len(v) else 0
    k = max(len(lst('cx_op')), int(c.get('k', 0))); kp = max(len(lst('cx_pop')), int(c.get('kp', 0)))
    args = [str(int(c.get('cx_crash_at', 0))), str(k)]
    for i in range(k): args += [str(g('cx_op', i)), str(g('cx_a', i)), str(g('cx_b', i)), str(g('cx_d0', i)), str(g('cx_d1', i)), str(max(1, g('cx_len', i)))]
    args += [str(kp)]
    for i in range(kp): args += [str(g('cx_pop', i)), str(g('cx_pa', i)), str(g('cx_pb', i)), str(g('cx_pd0', i)), str(g('cx_pd1', i)), str(max(1, g('cx_plen', i)))]
    for i in range(kp + 1): args += [str(max(1, g('cx_probe', i)))]
    if (h is not None and 'crash3' in h.name) or c.get('stage3'): args += [str(max(1, g('cx_probe', kp + 1)))]
    r = sh([exe] + args, env=dict(os.environ, ASAN_OPTIONS='detect_leaks=0'))
    return r.returncode == 1, ' '.join(args) + ' -> ' + r.stdout.strip()[-500:].replace('\n', ' | ')
