"""C05 permissive decoding passes unknown fields through: the C04 token-level driver with permissive_mode=true"""
from vf.core import *
from props import codec

def run(ctx):
    kf = codec.kfs('C05'); defs = kf_defines(kf)
    T = codec.tok_harness
    pm = ['VF_MAXCOPY=120']
    for pres in (1, 2, 4): T(ctx, 'C05_tok_x%d' % pres, perm=1, pres=pres, defs=defs, extra_defs=pm)
    T(ctx, 'C05_none', perm=1, pres=0, defs=defs, extra_defs=pm)
    # group as the last body field followed by group-element tags or a non-dictionary tag (unknown token directly behind the last element)
    T(ctx, 'C05_group_tail', perm=1, pres=0, ng=2, gpres=3, glast=True, defs=defs, extra_defs=pm + ['GMENUMASK0=0x800', 'GMENUMASK=0x1840', 'C05_FIELDS_ONLY'], timeout=1200)
    for pres in (3, 5, 6): T(ctx, 'C05_tok_x%d' % pres, perm=1, pres=pres, defs=defs, extra_defs=pm, tier='thorough', timeout=2400)
    T(ctx, 'C05_group2', perm=1, pres=0, ng=2, gpres=3, defs=defs, extra_defs=pm + ['C05_FIELDS_ONLY'], tier='thorough', timeout=2400)
    ctx.assumptions += codec.DECODE_ASSUMPTIONS + ['re-encoding is not executed: MessageBase::encode emits each component\'s fields followed by its _unknown string (runtime/message.cpp:368), so the pass-through strings of header, body and trailer determine the re-emitted unknown bytes',
                                                   'unknown tokens inside repeating groups: thorough tier only']
    ctx.solve(jobs=codec.JOBS)
    ctx.handle_failures(codec.replay, kf)
    announce_known(ctx, kf, codec.replay)
    return ctx.finish()

def replay(ctx, cx, h=None): return codec.replay(ctx, cx, h)
