"""C25 concurrent senders: FIXWriter::write / write_batch lock discipline under CBMC threads (all interleavings, SC)"""
import os, re
from vf.core import *
ROOTS = ['vf_w_init', 'vf_w_write', 'vf_w_write_ref', 'vf_w_write_batch', 'vf_w_execute', 'vf_tok_init', 'vf_vec_init2', 'vf_msg_eob']
FUN = ['FIX8::FIXWriter::write(Message*,bool)', 'FIX8::FIXWriter::write(Message&)', 'FIX8::FIXWriter::write_batch', 'FIX8::f8_scoped_lock_impl<f8_spin_lock>::acquire/release/ctor/dtor',
       'FIX8::f8_spin_lock::lock/unlock (pthread variant)', 'FIX8::Message::set_end_of_batch', 'std::vector<Message*> iteration (header code)']
STUBS = ['Session::send_process := critical-section witness: non-atomic read then write of a shared counter, occupancy flag, records the number each message took',
         'pthread_spin_lock/unlock := atomic test-and-set with blocking semantics (models/pthread_spin.c)', 'std::default_delete<Message> := no-op (messages are static harness objects; destroy=false is used)',
         'Session::is_shutdown := false; f8Exception(const char*) := no-op; GlobalLogger::is_loggable := false']

def build(ctx):
    shim = ctx.build_ir('c25.cpp', 'cut')
    info = ctx.translate(shim, ROOTS, 'c25.c', stubfiles=['common.stubs', 'c25.stubs'], models=['cxx.c', 'stubs.c', 'pthread_spin.c'])
    m = re.search(r'void vf_vec_init2\(struct (\S+?)\*', open(info['c']).read())
    if not m: raise Broken('C25: vector type not found in the translation')
    info['vec_t'] = m.group(1)
    return info

MODES = {0: 'write(Message*,false)', 1: 'write(Message&)', 2: 'write_batch of 2'}
def lock(ctx, name, modes, tier, info, timeout=600):
    defs = ['VF_THREADS', 'VEC_T=' + info['vec_t'], 'VF_MAXCOPY=4'] + ['MODE%d=%d' % (i, m) for i, m in enumerate(modes)]
    ctx.add(Harness(name, VERIF + '/harness/C25_lock.c', defines=defs, unwind=4, unwindset=['main.0:4', 'main.1:7', 'main.2:4', 'main.3:3', 'main.4:4'],
                    timeout=timeout, mem_gb=16, functions=FUN, stubs=STUBS, tier=tier,
                    bounds='%d threads: %s; all interleavings of their shared-memory accesses under sequential consistency' % (len([m for m in modes if m != 9]), ', '.join(MODES[m] for m in modes if m != 9)),
                    desc='mutual exclusion of send_process, unique consecutive numbers, contiguous batches, exactly-once'))

def run(ctx):
    kf = known_findings('C25'); defs = kf_defines(kf)
    info = build(ctx)
    lock(ctx, 'C25_lock_w_w', (0, 0, 9), 'quick', info)
    lock(ctx, 'C25_lock_w_b', (0, 2, 9), 'quick', info)
    lock(ctx, 'C25_lock_b_b', (2, 2, 9), 'quick', info)
    lock(ctx, 'C25_lock_r_b', (1, 2, 9), 'quick', info)
    lock(ctx, 'C25_lock_w_b_r', (0, 2, 1), 'thorough', info, 3000)
    lock(ctx, 'C25_lock_b_b_b', (2, 2, 2), 'thorough', info, 3000)
    ctx.assumptions += ['sequential consistency (no weak-memory effects)', 'send_process abstracted to the witness: its sequential correctness is C16/C17',
                        'data races on fields touched outside the guarded section and more than 3 threads are outside the claim']
    ctx.solve(jobs=4)
    ctx.handle_failures(replay, kf)
    announce_known(ctx, kf, replay)
    return ctx.finish()

def replay(ctx, cx, h=None):
    """native witness: N threads hammer the real FIXWriter::write/write_batch (libfix8, pm_thread) whose Session::send_process is interposed by the same
    non-atomic witness; a lost update / overlap observed natively reproduces the violation (schedule dependent: bounded retries, never a false alarm)"""
    exe = ctx.native('c25replay', ['replay/c25_replay.cpp'], flags=('-O1', '-g', '-fno-access-control'), libs=['-L' + REPO + '/runtime/.libs', '-lfix8', '-Wl,-rpath,' + REPO + '/runtime/.libs'])
    r = sh([exe])
    return r.returncode != 0, r.stdout.strip()[-400:].replace('\n', ' | ')
