"""C25 concurrent senders: FIXWriter::write / write_batch lock discipline under CBMC threads (all interleavings, SC)"""
import os, re
from vf.core import *
ROOTS = ['vf_w_init', 'vf_w_write', 'vf_w_write_ref', 'vf_w_write_batch2', 'vf_vec_init2', 'vf_msg_eob']
FUN = ['FIX8::FIXWriter::write(Message*,bool)', 'FIX8::FIXWriter::write(Message&)', 'FIX8::FIXWriter::write_batch', 'FIX8::f8_scoped_lock_impl<f8_spin_lock> ctor/acquire/release/dtor (inlined, leaf mode)',
       'FIX8::f8_spin_lock::lock/unlock (pthread variant)', 'FIX8::Message::set_end_of_batch', 'std::vector<Message*> iteration (header code)']
STUBS = ['f8Exception(const char*) := no-op (the "cannot send directly if pipelining" throw is not taken in the threaded model)', 'uMPMC_Ptr_Queue::push (pipelined branch of write) := asserted unreachable in the threaded model (_pmodel == pm_thread)', 'Session::send_process := critical-section witness: non-atomic read then write of a shared counter, occupancy flag, records the number each message took',
         'pthread_spin_lock/unlock := atomic test-and-set with blocking semantics (models/pthread_spin.c)', 'destroy=false is used (messages are static harness objects)', 'leaf-mode compile (-O1, inlining on): the lock guard and the vector iterators are inlined into write/write_batch']

def build(ctx):
    shim = ctx.build_ir('c25.cpp', 'leaf', extra=['-fno-access-control'])
    info = ctx.translate(shim, ROOTS, 'c25.c', stubs={'_ZN4FIX87Session12send_processEPNS_7MessageE': 'st_send_process', '_ZN2ff15uMPMC_Ptr_Queue4pushEPv': 'st_queue_push', '_ZN4FIX811f8ExceptionC2EPKcb': 'st_exc_txt'}, stubfiles=['common.stubs'], models=['cxx.c', 'stubs.c', 'pthread_spin.c'])
    m = re.search(r'void vf_vec_init2\(struct (\S+?)\*', open(info['c']).read())
    if not m: raise Broken('C25: vector type not found in the translation')
    info['vec_t'] = m.group(1)
    return info

MODES = {0: 'write(Message*,false)', 1: 'write(Message&)', 2: 'write_batch of 2'}
def lock(ctx, name, modes, tier, info, timeout=600):
    defs = ['VF_THREADS', 'VEC_T=' + info['vec_t'], 'VF_MAXCOPY=4', 'malloc=vf_static_alloc'] + ['MODE%d=%d' % (i, m) for i, m in enumerate(modes)]
    ctx.add(Harness(name, VERIF + '/harness/C25_lock.c', defines=defs, unwind=4, unwindset=['main.%d:8' % i for i in range(6)],
                    timeout=timeout, mem_gb=16, functions=FUN, stubs=STUBS, tier=tier,
                    bounds='%d threads: %s; all interleavings of their shared-memory accesses under sequential consistency' % (len([m for m in modes if m != 9]), ', '.join(MODES[m] for m in modes if m != 9)),
                    desc='mutual exclusion of send_process, unique consecutive numbers, contiguous batches, exactly-once'))

PROOTS = ['vf_pw_init', 'vf_tok_init', 'vf_pw_execute', 'vf_pw_write', 'vf_pw_write_batch', 'vf_pw_push_sentinel', 'vf_vec_init2', 'vf_msg_eob']
FUN_P = ['FIX8::FIXWriter::execute (pipelined writer loop)', 'FIX8::FIXWriter::write(Message*,bool) / write_batch in pm_pipeline', 'std::unique_ptr<Message> (header code)', 'f8_scoped_spin_lock (cut mode, real)']
STUBS_P = ['ff_unbounded_queue<Message*>::try_push/pop := abstract FIFO of message indices (C30 contract); pop blocks (assume) and is the scheduling point of the writer thread',
           'Session::send_process := recorder (order, use-after-delete)', 'std::default_delete<Message> := recorder', 'Session::is_shutdown := false', 'Session::is_loggable := false (scout_* logging off)', 'f8_mutex lock/unlock := no-op (sequential harness)',
           'pthread_spin_lock/unlock := test-and-set model (uncontended here)']
def build_pipe(ctx):
    shim = ctx.build_ir('c25p.cpp', 'cut')
    info = ctx.translate(shim, PROOTS, 'c25p.c', stubfiles=['common.stubs', 'c25p.stubs'], models=['cxx.c', 'stubs.c', 'pthread_spin.c', 'c28_env.c'])
    m = re.search(r'void vf_vec_init2\(struct (\S+?)\*', open(info['c']).read())
    if not m: raise Broken('C25: vector type not found in the pipelined translation')
    info['vec_t'] = m.group(1)
    return info

def pipe(ctx, name, nsingle, nbatch, tier, info, timeout=600):
    nmsg = nsingle + 2 * nbatch
    ctx.add(Harness(name, VERIF + '/harness/C25_pipe.c', defines=info.get('defs', []) + ['VEC_T=' + info['vec_t'], 'NSINGLE=%d' % nsingle, 'NBATCH=%d' % nbatch, 'VF_MAXCOPY=4'], unwind=4, object_bits=14,
                    unwindset=['main.%d:%d' % (i, nmsg + 4) for i in range(9)] + ['sched.0:%d' % (nmsg + 3), '_ZN4FIX89FIXWriter7executeERNS_28f8_thread_cancellation_tokenE.0:%d' % (nmsg + 3),
                               '_ZN4FIX89FIXWriter11write_batchERKSt6vectorIPNS_7MessageESaIS3_EEb.0:4', '_ZN4FIX89FIXWriter11write_batchERKSt6vectorIPNS_7MessageESaIS3_EEb.1:4'],
                    timeout=timeout, mem_gb=16, functions=FUN_P, stubs=STUBS_P, tier=tier,
                    bounds='%d single writes and %d two-message batch(es) by any producers, then the stop sentinel; every interleaving of the pushes with the writer thread pops at operation granularity' % (nsingle, nbatch),
                    desc='pipelined: every message queued before the sentinel is processed exactly once in queue order by the writer thread; ownership; per-producer order'))

def run(ctx):
    kf = known_findings('C25'); defs = kf_defines(kf)
    info = build(ctx)
    lock(ctx, 'C25_lock_w_w', (0, 0, 9), 'quick', info)
    lock(ctx, 'C25_lock_w_b', (0, 2, 9), 'quick', info)
    lock(ctx, 'C25_lock_b_b', (2, 2, 9), 'quick', info)
    lock(ctx, 'C25_lock_r_b', (1, 2, 9), 'quick', info)
    pinfo = build_pipe(ctx); pinfo['defs'] = defs + [d for d in os.environ.get('VF_EXTRA_DEFS', '').split() if d]
    pipe(ctx, 'C25_pipe_s1_b1', 1, 1, 'quick', pinfo)
    pipe(ctx, 'C25_pipe_s2_b1', 2, 1, 'thorough', pinfo, 3000)
    lock(ctx, 'C25_lock_w_b_r', (0, 2, 1), 'thorough', info, 3000)
    lock(ctx, 'C25_lock_b_b_b', (2, 2, 2), 'thorough', info, 3000)
    ctx.assumptions += ['sequential consistency (no weak-memory effects)', 'send_process abstracted to the witness: its sequential correctness is C16/C17',
                        'data races on fields touched outside the guarded section and more than 3 threads are outside the claim']
    ctx.solve(jobs=4)
    ctx.handle_failures(replay, kf)
    announce_known(ctx, kf, replay)
    return ctx.finish()

def replay(ctx, cx, h=None):
    """native witness: N threads hammer the real FIXWriter::write/write_batch (libfix8, pm_thread) whose Session::send_process is interposed by the same
    non-atomic witness; a lost update / overlap observed natively reproduces the violation (schedule dependent: bounded retries, never a false alarm)"""
    exe = ctx.native('c25replay', ['replay/c25_replay.cpp', REPO + '/runtime/connection.cpp'], flags=('-O1', '-g', '-fno-access-control'), libs=['-L' + REPO + '/runtime/.libs', '-lfix8', '-L' + REPO + '/utests/.libs', '-lutest', '-Wl,-rpath,' + REPO + '/runtime/.libs', '-Wl,-rpath,' + REPO + '/utests/.libs'])
    r = sh([exe] + (['pipe'] if (h is not None and 'pipe' in h.name) or int((cx.get('cx', cx) or {}).get('cx_null_pushed', 0) or 0) else []), cwd=ctx.work)
    return r.returncode != 0, r.stdout.strip()[-400:].replace('\n', ' | ')
