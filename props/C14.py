"""C14 distinct group definitions never share metadata: solver search for colliding sharing keys (real rothash, f8c's group_hash fold),
then the native replay through the current f8c: generated code must round-trip a message of each definition"""
import os, json, shutil, subprocess
from vf.core import *
FUN = ['FIX8::rothash (include/fix8/f8utils.hpp)', "f8c group_hash fold (compiler/f8c.cpp) as re-stated in the harness: fold over ascending member tags, then nested group keys",
       'replay: compiler/f8c (parse_groups, find_group, generate_group_bodies), generated classes, Message::factory/decode/encode']
LO = 200   # member tags start above the header/trailer/standard fields of the replay schema

def schema(A, B, An=None, Bn=None, cnt=10000, C=None):
    tags = sorted(set(A + B + (C or []) + (An[1] if An else []) + (Bn[1] if Bn else [])))
    def grp(M, N):
        s = "   <group name='NoG' required='N'>\n"
        for i, t in enumerate(M):
            if N and i == N[0]:
                s += "    <group name='F%d' required='N'>\n" % t + ''.join("     <field name='F%d' required='%s' />\n" % (u, 'Y' if j == 0 else 'N') for j, u in enumerate(N[1])) + "    </group>\n"
            else: s += "    <field name='F%d' required='%s' />\n" % (t, 'Y' if i == 0 else 'N')
        return s + "   </group>\n"
    x = "<?xml version='1.0' encoding='ISO-8859-1'?>\n<fix major='4' type='FIX' servicepack='0' minor='2'>\n <header>\n"
    for n in ('BeginString', 'BodyLength', 'MsgType', 'SenderCompID', 'TargetCompID', 'MsgSeqNum', 'SendingTime'): x += "  <field name='%s' required='Y' />\n" % n
    x += " </header>\n <messages>\n  <message name='Heartbeat' msgcat='admin' msgtype='0'>\n   <field name='TestReqID' required='N' />\n  </message>\n"
    x += "  <message name='MsgA' msgcat='app' msgtype='UA'>\n   <field name='Text' required='N' />\n" + grp(A, An) + "  </message>\n"
    if C: x += "  <message name='MsgC' msgcat='app' msgtype='UC'>\n   <field name='Text' required='N' />\n" + grp(C, None) + "  </message>\n"      # parsed between A and B
    x += "  <message name='MsgB' msgcat='app' msgtype='UB'>\n   <field name='Text' required='N' />\n" + grp(B, Bn) + "  </message>\n"
    x += " </messages>\n <trailer>\n  <field name='CheckSum' required='Y' />\n </trailer>\n <fields>\n"
    std = [(8, 'BeginString', 'STRING'), (9, 'BodyLength', 'LENGTH'), (10, 'CheckSum', 'STRING'), (34, 'MsgSeqNum', 'SEQNUM'), (35, 'MsgType', 'STRING'), (49, 'SenderCompID', 'STRING'),
           (52, 'SendingTime', 'UTCTIMESTAMP'), (56, 'TargetCompID', 'STRING'), (58, 'Text', 'STRING'), (112, 'TestReqID', 'STRING')]
    gtags = set(([A[An[0]]] if An else []) + ([B[Bn[0]]] if Bn else []))
    for n, nm, ty in std:
        if n == 35: x += "  <field number='35' name='MsgType' type='STRING'>\n   <value enum='0' description='HEARTBEAT' />\n   <value enum='UA' description='MSGA' />\n   <value enum='UB' description='MSGB' />\n   <value enum='UC' description='MSGC' />\n  </field>\n"
        else: x += "  <field number='%d' name='%s' type='%s' />\n" % (n, nm, ty)
    for t in tags: x += "  <field number='%d' name='F%d' type='%s' />\n" % (t, t, 'NUMINGROUP' if t in gtags else 'STRING')
    return x + "  <field number='%d' name='NoG' type='NUMINGROUP' />\n </fields>\n</fix>\n" % cnt

def defs_of(c):
    def one(p):
        n = int(c.get('cx_%sn' % p, 0)); t = [int(v) for v in (c.get('cx_%st' % p) or [])][:n]
        gi = int(c.get('cx_%sgi' % p, -1)); gn = int(c.get('cx_%sgn' % p, 0)); gt = [int(v) for v in (c.get('cx_%sgt' % p) or [])][:gn]
        return t, ((gi, gt) if gi >= 0 else None)
    return one('a'), one('b')

def run(ctx):
    kf = known_findings('C14'); defs = kf_defines(kf)
    ll = ctx.build_ir('c14.cpp', 'leaf')
    ctx.translate(ll, ['vf_rothash'], 'c14.c')
    ctx.translate(ll, ['vf_rothash'], 'c14gen.c', opts=['--prefix', 'gen_'])
    exe = ctx.native('c14diff', ['replay/c14_diff.c', ctx.work + '/c14gen.c', 'shims/c14.cpp'])
    r = sh([exe, str(ctx.seed)])
    if r.returncode != 0: raise Broken('translator validation failed: ' + r.stdout[-500:])
    ctx.validation.append(dict(kernels=['vf_rothash'], result=r.stdout.strip()))
    H = VERIF + '/harness/C14_hash.c'
    shapes = [('C14_key_2members', ['SHAPE_N=2'], 'quick', 'two definitions of exactly 2 member fields each'),
              ('C14_key_3members', ['SHAPE_N=3'], 'quick', 'two definitions of exactly 3 member fields each'),
              ('C14_key_any', [], 'quick', 'two definitions of 1..3 member fields each'),
              ('C14_key_nested', ['NEST=1'], 'quick', 'two definitions of 1..3 member fields, at most one of them a nested group of 1..3 member fields'),
              ('C14_key_chain', ['CHAIN'], 'quick', 'three definitions of 2 member fields: two with the same key h and a third with key h+2 (replayed in the parse order A, C, B)')]
    for nm, d, tier, b in shapes:
        ctx.add(Harness(nm, H, defines=defs + d + ['TLO=%d' % LO], unwind=5, timeout=600, functions=FUN[:2], tier=tier,
                        bounds=b + '; tags %d..9999; same count field' % LO, desc='injectivity of the sharing key (a counterexample is a pair of colliding definitions)'))
    ctx.assumptions += ['the fold order is that of MessageSpec::_fields (ascending tag) followed by the nested groups in ascending count tag, as in compiler/f8c.cpp group_hash',
                        'a key collision is only a candidate: the verdict comes from compiling the colliding schema with the current f8c and round-tripping one message of each type',
                        'if f8c does not share the colliding definitions (repaired tree) the claim rests on the replayed collisions, one per shape, not on a proof of f8c\'s decision code',
                        'member tags below %d are excluded so that they cannot clash with the header/trailer fields of the replay schema' % LO]
    ctx.solve(jobs=4)
    # custom verdict handling: a failing injectivity query yields a collision; only the native round trip decides
    nrep = 0
    for h in ctx.harnesses:
        for fl in (h.result or {}).get('failed', []):
            if 'sharing key' not in (fl.get('desc') or '') and 'sharing keys' not in (fl.get('desc') or ''):
                ctx.spurious.append(dict(harness=h.name, desc=fl['desc'], cx=fl['cx'], why='not a key collision')); ctx.say('INCONCLUSIVE %s: %s' % (h.name, fl['desc'])); continue
            if ctx.tier == 'quick' and nrep >= 1 and 'chain' not in h.name and not os.environ.get('C14_REPLAY_ALL'):
                ok, what = cached_only(ctx, fl['cx'])
                if ok is None: ctx.say('  (%s: collision %s not replayed in the quick tier)' % (h.name, defs_of(fl['cx']))); continue
            else:
                ok, what = replay(ctx, fl['cx'], h); nrep += 1
            (a, an), (b, bn) = defs_of(fl['cx'])
            if ok:
                cls = next((e for e in kf if e.get('status') == 'known' and e.get('classify') and core_classify(e['classify'], fl['cx'])), None)
                if cls: ctx.say('  (collision of %s falls in known finding: %s)' % (h.name, cls['what']))
                else: ctx.violation('%s: definitions %s%s and %s%s of one count field get the same key 0x%08x and are compiled to shared metadata [%s]' % (
                    h.name, a, an or '', b, bn or '', int(fl['cx'].get('cx_keyA', 0)), what), dict(cx=fl['cx'], harness=h.name))
            else:
                ctx.samples.append(dict(collision=[a, an, b, bn], key=fl['cx'].get('cx_keyA'), f8c='keeps the two definitions apart', round_trip=what))
                ctx.say('  %s: colliding definitions %s / %s are kept apart by this f8c: %s' % (h.name, a, b, what))
    announce_known(ctx, kf, replay)
    return ctx.finish()

def core_classify(expr, cx):
    from vf.core import _classify
    return _classify(expr, cx)

def _key(ctx, c):
    (a, an), (b, bn) = defs_of(c)
    return file_hash(repo_hash(), VERIF + '/replay/c14_rt.cpp', json.dumps([a, an, b, bn, c.get('cx_ct'), c.get('cx_cn')]))

def cached_only(ctx, cx):
    p = os.path.join(CACHE, 'c14_rt_%s.json' % _key(ctx, cx.get('cx', cx)))
    if os.path.exists(p):
        d = json.load(open(p)); return d['ok'], d['what'] + ' (cached)'
    return None, ''

def replay(ctx, cx, h=None):
    """schema with the two definitions under one count field -> current f8c -> g++ -> decode/encode one message of each type"""
    c = cx.get('cx', cx)
    ok, what = cached_only(ctx, c)
    if ok is not None: return ok, what
    (a, an), (b, bn) = defs_of(c)
    if not a or not b: return False, 'no definitions in counterexample'
    third = [int(v) for v in (c.get('cx_ct') or [])][:int(c.get('cx_cn', 0))] or None
    d = os.path.join(ctx.work, 'c14rt_%s' % _key(ctx, c)); os.makedirs(d, exist_ok=True)
    open(d + '/mini.xml', 'w').write(schema(a, b, an, bn, C=third))
    libd = repo_libs(ctx.say)       # f8c and libfix8 built from the CURRENT sources (never /repo's own build output)
    r = sh([libd + '/f8c', '-p', 'c14', '-n', 'C14', 'mini.xml'], cwd=d, env=dict(os.environ, LD_LIBRARY_PATH=libd + ':' + os.environ.get('LD_LIBRARY_PATH', '')))
    if r.returncode != 0 or not os.path.exists(d + '/c14_classes.cpp'): raise Broken('f8c failed on the replay schema: ' + r.stdout[-400:])
    shared = 'shares static data' in open(d + '/c14_classes.hpp').read()
    r = sh(['g++', '-std=gnu++17', '-O0', '-w', '-I' + REPO + '/include', '-I' + REPO, '-I.', VERIF + '/replay/c14_rt.cpp', 'c14_classes.cpp', 'c14_traits.cpp', 'c14_types.cpp', '-o', 'rt',
            '-L' + libd, '-lfix8', '-Wl,-rpath,' + libd, '-lPocoNet', '-lPocoUtil', '-lPocoFoundation', '-lpthread'], cwd=d)
    if r.returncode != 0: raise Broken('generated code does not compile: ' + r.stdout[-600:])
    def arg(t, n): return [','.join(map(str, t))], (['%d:%s' % (n[0], ','.join(map(str, n[1])))] if n else ['-'])
    (ta, na), (tb, nb) = arg(a, an), arg(b, bn)
    r = sh([d + '/rt'] + ta + tb + na + nb + ([','.join(map(str, third))] if third else []), cwd=d)
    ok = r.returncode == 1
    what = ('f8c: %s; ' % ('shares static data' if shared else 'separate metadata')) + ' | '.join(l for l in r.stdout.strip().splitlines() if l.startswith('C14'))[-350:]
    if r.returncode in (0, 1): json.dump(dict(ok=ok, what=what), open(os.path.join(CACHE, 'c14_rt_%s.json' % _key(ctx, c)), 'w'))
    return ok, what
