"""C16 outbound sequence numbers are consecutive and persisted (session world, outbound side)"""
import os
from vf.core import *
from props import sessb
US = ['x_memcmp.0:4', 'vf_copy.0:7', 'x_strlen.0:16', 'x__ZN4Poco3Net12StreamSocket9sendBytesEPKvii.0:14']

def run(ctx):
    kf = known_findings('C16'); defs = kf_defines(kf)
    sessb.build(ctx)
    def H(name, defines, **kw):
        ctx.add(Harness(name, VERIF + '/harness/C16_send.c', defines=defs + defines + ['VF_MAXCOPY=5'], unwind=5, unwindset=US, timeout=kw.pop('timeout', 600), mem_gb=12,
                        functions=sessb.FUN_SEND, stubs=sessb.STUBS_SEND, nochecks=False, **kw))
    H('C16_send_single', ['OPS=3', 'J=1', 'NMSG=1'], desc='one send (pointer or reference overload) of an arbitrary message from an arbitrary (n, r)',
      bounds='n, r in 1..2^32-16; message kind in {app, heartbeat, sequence reset, logout}; new or carrying an original number (with/without PossDupFlag); custom_seqnum, no_increment, destroy, always_seqnum_assign, persister present/absent symbolic')
    H('C16_send_batch', ['OPS=4', 'J=3', 'NMSG=3', 'NEW_ONLY'], desc='send_batch of 0..3 new messages from an arbitrary (n, r)',
      bounds='batch size 0..3; message kinds symbolic; n, r in 1..2^32-16; destroy, always_seqnum_assign, persister symbolic')
    ctx.assumptions += ['operator new never fails', 'the socket accepts every byte written', 'single caller (no concurrent sender; see C25)']
    ctx.solve(jobs=4)
    ctx.handle_failures(replay, kf)
    announce_known(ctx, kf, replay)
    return ctx.finish()

def replay(ctx, cx, h=None):
    return False, 'replay driver not written yet'
