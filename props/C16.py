"""C16 outbound sequence numbers are consecutive and persisted (session world, outbound side)"""
import os
from vf.core import *
from props import sessb
US = ['vf_ti_match.0:200', '__vf_landing.0:8', 'main.0:8', 'is_hdr.0:10', 'hidx.0:10', 'midx.0:10', 'x_memcmp.0:8', 'vf_copy.0:15', 'x_strlen.0:16', 'x__ZN4Poco3Net12StreamSocket9sendBytesEPKvii.0:14']
B_STATE = 'pre-state (_next_send_seq, _next_receive_seq) = (n, r) arbitrary in 1..2^32-16; always_seqnum_assign symbolic; encodings 2..4 symbolic non-NUL bytes'

def run(ctx):
    kf = known_findings('C16'); defs = kf_defines(kf)
    sessb.build(ctx)
    T = ctx.tier == 'thorough'
    def H(name, cfile, defines, desc, bounds, tier='quick', fun=None, **kw):
        ctx.add(Harness(name, VERIF + '/harness/' + cfile, defines=defs + defines + ['VF_MAXCOPY=13'], unwind=5, unwindset=US, timeout=900 if not T else 2400, mem_gb=12,
                        functions=fun or sessb.FUN_SEND, stubs=sessb.STUBS_SEND, nochecks=False, desc=desc, bounds=bounds + '; ' + B_STATE, tier=tier, **kw))
    one = 'one message of kind {app, heartbeat, sequence reset, logout}, new or carrying an original number (with/without PossDupFlag); custom_seqnum, no_increment, destroy symbolic'
    H('C16_send_ptr', 'C16_send.c', ['OP=0', 'J=1', 'NMSG=1'], 'Session::send(Message*, destroy, custom_seqnum, no_increment), inductive step', one)
    H('C16_send_ref', 'C16_send.c', ['OP=1', 'J=1', 'NMSG=1'], 'Session::send(Message&, custom_seqnum, no_increment), inductive step', one)
    for j in (2, 3):
        H('C16_batch_j%d' % j, 'C16_send.c', ['OP=2', 'J=3', 'NMSG=3', 'JFIX=%d' % j, 'NEW_ONLY'], 'Session::send_batch of %d new messages, inductive step' % j,
          'batch of %d new messages, kinds symbolic, destroy symbolic' % j)
    H('C16_first_send', 'C16_send.c', ['OP=0', 'J=1', 'NMSG=1', 'STALE_CTRL', 'NEW_ONLY'], 'first send of a new message over an arbitrary (stale or absent) control record', 'one new message; control record arbitrary', tier='thorough')
    H('C16_recover', 'C16_recover.c', [], 'recover_seqnums / update_persist_seqnums: recovered record becomes the session numbers and the first message carries the recovered number',
      'control record (a, b) arbitrary or absent; one new message afterwards', fun=sessb.FUN_SEND)
    FUNP = ['FIX8::Session::process', 'Session::handle_heartbeat', 'Session::handle_admin', 'Session::activation_check', 'Session::handle_outbound_reject', 'Session::generate_reject',
            'catch dispatch of process() through the typeinfo ancestry table'] + sessb.FUN_SEND
    pb = 'inbound message abstract (Message::factory cut): Heartbeat or application message, or a decoding failure that does not force a logout; enforce := accepted (C19)'
    H('C16_process_reject', 'C16_process.c', ['FAIL'], 'Session::process of a message that fails decoding (Reject sent, receive number advanced): control record afterwards', pb, fun=FUNP)
    H('C16_process_ok', 'C16_process.c', [], 'Session::process of a Heartbeat / application message: control record afterwards', pb, fun=FUNP, tier='thorough')
    # thorough: remaining batch sizes, batches containing retransmissions, no persister
    for j in (0, 1):
        H('C16_batch_j%d' % j, 'C16_send.c', ['OP=2', 'J=3', 'NMSG=3', 'JFIX=%d' % j, 'NEW_ONLY'], 'send_batch of %d messages' % j, 'batch of %d' % j, tier='thorough')
    for j in (2, 3):      # j=2 runs in the quick tier since a seeded change (control record written only with the last element of a batch) needed a batch ending in a retransmission
        H('C16_batch_mixed_j%d' % j, 'C16_send.c', ['OP=2', 'J=3', 'NMSG=3', 'JFIX=%d' % j], 'send_batch of %d messages, each new or a retransmission' % j, 'batch of %d, new/retransmitted symbolic per message' % j, tier='quick' if j == 2 else 'thorough')
    H('C16_send_ptr_nopersist', 'C16_send.c', ['OP=0', 'J=1', 'NMSG=1', 'NOPERSIST'], 'send without a persister', one, tier='thorough')
    H('C16_batch_nopersist_j3', 'C16_send.c', ['OP=2', 'J=3', 'NMSG=3', 'JFIX=3', 'NOPERSIST'], 'send_batch without a persister', 'batch of 3', tier='thorough')
    ctx.assumptions += ['operator new never fails', 'the socket accepts every byte written (no EAGAIN / reset)', 'single caller (concurrent senders: C25)',
                        'process model pm_thread (pipelined writer thread: C25/C30)',
                        'consecutive-numbering clause applies to sends without explicit custom_seqnum/no_increment override (caller-chosen numbers); the control-record clause applies to every send',
                        'the "after each processed inbound message" clause: one real Session::process call over an abstract inbound message (normal path and the reject path), inbound sequence/CompID checks accepted (C19)']
    ctx.solve(jobs=4)
    ctx.handle_failures(replay, kf)
    announce_known(ctx, kf, replay)
    return ctx.finish()

def replay(ctx, cx, h=None):
    c = cx.get('cx', cx)
    if 'cx_rec_valid' in c:      # C16_recover scenario: recovered record, then one new message
        return False, 'recover scenario has no native driver (no counterexample expected)'
    if 'cx_fail' in c: return sessb.replay_process(ctx, cx)
    return sessb.replay_send(ctx, cx, 1)
