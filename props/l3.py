"""L3 codec world over the mini schema (schemas/mini.xml compiled by the f8c of the tree under test): shared by C01, C11 and the
ordering harnesses of C02.  Concrete message shapes, symbolic values (tools/reports/C01.md)."""
import os, re, json, hashlib, shutil, subprocess
from vf.core import *

SCHEMA = os.path.join(VERIF, 'schemas', 'mini.xml')
FLD = 24                   # scaled FIX8_MAX_FLD_LENGTH (tag / value scratch buffers of the decoder): a UTCTimestamp value has 21 bytes
MAXCOPY = 200              # constant capacity of the string model (the encoded message, <= 160 bytes, is held in one std::string)
M_CTX = '_ZN4FIX810F8MetaCntxC2EjRKNS_14GeneratedTableIPKcNS_12BaseMsgEntryEEERKNS1_IjNS_9BaseEntryEEEPS3_RKNSt7__cxx1112basic_stringIcSt11char_traitsIcESaIcEEE'
M_BFENC = '_ZNK4FIX89BaseField6encodeEPc'
M_EXT = '_ZN4FIX811MessageBase15extract_elementEPKcjPcS3_jj'
M_EXTFW = '_ZN4FIX811MessageBase27extract_element_fixed_widthEPKcjjPcS3_j'
M_CHK = '_ZN4FIX87Message11calc_chksumEPKcmji'
M_DECODE = '_ZN4FIX811MessageBase6decodeERKNSt7__cxx1112basic_stringIcSt11char_traitsIcESaIcEEEjjb'
M_DGROUP = '_ZN4FIX811MessageBase12decode_groupEPNS_9GroupBaseEtRKNSt7__cxx1112basic_stringIcSt11char_traitsIcESaIcEEEjj'
GINIT = '_GLOBAL__sub_I_l3_world.cpp'
M_FNCALL = '_ZNKSt8functionIFPN4FIX87MessageEbEEclEb'
ROOTS = [GINIT, 'vf_ctx_ctor', 'vf_fn_which', 'vf_fn_check', 'vf_fn_make', 'vf_new_msg', 'vf_header', 'vf_trailer', 'vf_mk_int', 'vf_mk_str', 'vf_mk_char', 'vf_mk_bool', 'vf_mk_ts', 'vf_mk_float', 'vf_add',
         'vf_find_group', 'vf_group_new', 'vf_group_add', 'vf_group_size', 'vf_group_el', 'vf_encode', 'vf_mkstring', 'vf_string_data', 'vf_factory', 'vf_clone',
         'vf_copy_legal', 'vf_move_legal', 'vf_ctx', 'vf_pos_count', 'vf_pos_nth', 'vf_pos_key', 'vf_nfields', 'vf_get_field', 'vf_have', 'vf_tag', 'vf_val_int',
         'vf_val_char', 'vf_val_bool', 'vf_val_strlen', 'vf_val_str', 'vf_val_ticks', 'vf_val_float', 'vf_msgtype']
FUN_BUILD = ['f8c-generated MINI::Order / Heartbeat / header / trailer / Order::NoLines constructors, create_nested_group, create_group, static initialisers (trait tables, FieldTrait_Hash_Array, message and field tables, MINI::ctx())',
             'FIX8::Field<int|f8String|char|Boolean|UTCTimestamp|fp_type|Length, N> constructors', 'FIX8::MessageBase::add_field(BaseField*) / add_field(fnum, itr, pos, what, check)',
             'FIX8::FieldTraits::has/getPos/get/set, presorted_set<unsigned short, FieldTrait>::find (hash array)', 'std::map<unsigned short, BaseField*> / std::multimap<unsigned short, BaseField*> / std::map<unsigned short, GroupBase*> header code (_Rb_tree insert/find/iterate) as instantiated in the world',
             'FIX8::GroupBase::add, std::vector<MessageBase*>::push_back']
FUN_ENC = ['FIX8::Message::encode(char**)', 'FIX8::MessageBase::encode(char*)', 'FIX8::MessageBase::encode_group(fnum, char*)', 'FIX8::BaseField::encode(char*)',
           'Field<T,N>::print(char*) for int, f8String, char, Boolean, UTCTimestamp, Length', 'FIX8::itoa<int|unsigned|unsigned short>', 'FIX8::date_time_format, format0, Tickval::get_tm/msecs',
           'FIX8::Message::calc_chksum, fmt_chksum']
FUN_DEC = ['FIX8::Message::factory', 'FIX8::MessageBase::extract_header', 'FIX8::Message::decode', 'FIX8::MessageBase::decode', 'FIX8::MessageBase::decode_group', 'FIX8::MessageBase::extract_element', 'extract_element_fixed_width',
           'FIX8::fast_atoi<int|unsigned|unsigned short>', 'FIX8::F8MetaCntx::find_be', 'GeneratedTable<const char*, BaseMsgEntry>::find_ptr', 'Inst::_gen::_make<Field<T,N>> (real field instantiators)',
           'Field<T,N>(const char*) for int, f8String, char, Boolean, UTCTimestamp, Length', 'FIX8::date_time_parse, parse_decimal, time_to_epoch', 'MessageBase::add_field_decoder, find_add_group, has_group_count']
STUBS = ['F8MetaCntx::F8MetaCntx := shim vf_ctx_ctor: the same member initialisation without the two reverse-lookup (name -> entry) std::maps, which the codec never reads',
         'BaseField::encode(char*) call sites := the real BaseField::encode; for fields whose text length depends on a symbolic value (ints, floats) the real function runs into a scratch buffer, '
         'its result is ASSERTED to equal the length class of the shape and the bytes are copied (a checked lemma that keeps output offsets constant for the symbolic executor)',
         'MessageBase::extract_element(const char*, unsigned, char*, char*, unsigned, unsigned) call sites := the real tokenizer run into scratch buffers; result, terminators ASSERTED to match the token the encoder wrote at that offset, then copied (checked lemma, same purpose)',
         'std::function<Message*(bool)>::operator() (Minst::_do, F8MetaCntx::_mk_hdr/_mk_trl) := identifies the std::function object (message-table slot or context member), ASSERTS that the function pointer stored in it is '
         'the generated instantiator Minst::_gen::_make<T> of that slot and calls that instantiator directly (checked lemma; std::function keeps its target in a byte buffer)',
         'strlen := ISO C strlen; on the value buffer the tokenizer just filled its result is ASSERTED to be that value\'s length (checked lemma)',
         'gmtime_r := contract (proleptic Gregorian UTC): returns the calendar fields of the harness instant whose second count it is asked for; any other request fails the check',
         'std::string out-of-line members, operator new (never fails), _Rb_tree_insert_and_rebalance/increment/decrement (unbalanced BST, same in-order sequence), exception runtime: models/cxx.c; std::ios_base::Init, __cxa_atexit: no-ops (models/l3_env.c)',
         'constructors of the f8Exception family and f8Exception::format<> := no text formatting (the harness observes that an exception is pending; never reached when the properties hold)',
         'SingleLogger::is_loggable := false (logging off)']

def schema_hash(schema=None): return file_hash(schema or SCHEMA, repo_hash())

def gen(ctx, schema=None):
    """mini.xml (or the schema given) -> generated classes, by the f8c of the tree under test (cached by schema + tree hash)"""
    schema = schema or SCHEMA
    d = os.path.join(CACHE, 'l3gen_' + schema_hash(schema))
    if not os.path.exists(os.path.join(d, 'mini_classes.cpp')):
        tmp = d + '.tmp%d' % os.getpid(); shutil.rmtree(tmp, ignore_errors=True); os.makedirs(tmp)
        r = sh([os.path.join(REPO, 'compiler', 'f8c'), '-sp', 'mini', '-n', 'MINI', '-o', tmp, schema])
        if r.returncode != 0 or not os.path.exists(os.path.join(tmp, 'mini_classes.cpp')): raise Broken('f8c failed on schemas/%s:\n' % os.path.basename(schema) + r.stdout[-2000:])
        try: os.rename(tmp, d)
        except OSError: shutil.rmtree(tmp, ignore_errors=True)
        ctx.say('  [f8c] schemas/%s -> %s' % (os.path.basename(schema), d))
    return d

def world(ctx, wrap=True):
    if getattr(ctx, '_l3', None): return ctx._l3
    g = gen(ctx)
    ext = ['-I' + g, '-DVF_FLD_LEN=%d' % FLD, '-DVF_L3_CTX_TWIN', '-DVF_L3_SCHEMA=0x%s' % schema_hash()[:8]]
    shim = ctx.build_ir('l3_world.cpp', 'cut', extra=ext)
    msg = ctx.build_ir(REPO + '/runtime/message.cpp', 'cut', extra=['-DFIX8_MAX_FLD_LENGTH=%d' % FLD])
    ll = ctx.link_ir([shim, msg], 'l3all')
    opts = ['--typed-alloc', '--ptrcmp', '--ptrdiff', '--ptrdiff0']
    for w in (M_BFENC, M_EXT, M_EXTFW): opts += ['--wrap', w]
    info = ctx.translate(ll, ROOTS, 'l3w.c', stubs={M_CTX: 'st_ctx_ctor', 'strlen': 'st_strlen', M_FNCALL: 'st_fn_msg_call'}, stubfiles=['common.stubs', 'l3.stubs'], models=['cxx.c', 'stubs.c', 'l3_env.c'], opts=opts,
                         provided=['gmtime_r'])
    # second translation for the C02 ordering harnesses: Message::calc_chksum replaced by the byte-sum reference (assume-guarantee with C07, as in C02's
    # framing harness): the word-wise kernel against a byte-wise oracle is the adder-tree equivalence no back end decides (DESIGN.md section 3)
    ctx.translate(ll, ROOTS, 'l3w_cs.c', stubs={M_CTX: 'st_ctx_ctor', 'strlen': 'st_strlen', M_FNCALL: 'st_fn_msg_call', M_CHK: 'st_calc_chksum'}, stubfiles=['common.stubs', 'l3.stubs'],
                  models=['cxx.c', 'stubs.c', 'l3_env.c'], opts=opts, provided=['gmtime_r'])
    ctx._l3 = info; ctx._l3gen = g
    return info

# ------------------------------------------------------------------ nested groups (extension): second schema schemas/mini2.xml = mini.xml + message List 'E'
# {12 ListID, group 13 NoOrders {14 OrdNo int mandatory, 15 OrdText, group 16 NoAllocs {17 AllocNo int mandatory, 18 AllocText}}}, compiled by the tree's f8c
# like mini.xml (same prefix / namespace, its own cache directory) into a second translation l3w2.c; the mini world and its generated code are untouched
SCHEMA2 = os.path.join(VERIF, 'schemas', 'mini2.xml')
ROOTS2 = ROOTS + ['vf_group_new2']
FUN_NEST = ['f8c-generated MINI::List / List::NoOrders / List::NoOrders::NoAllocs constructors, create_group(deep | shallow), create_nested_group',
            'FIX8::MessageBase::decode_group recursion into the nested group (grp->decode_group(grpbase, ...)), find_add_group(fnum, parent group), GroupBase::create_nested_group']
def world2(ctx):
    if getattr(ctx, '_l3_2', None): return ctx._l3_2
    g = gen(ctx, SCHEMA2)
    ext = ['-I' + g, '-DVF_FLD_LEN=%d' % FLD, '-DVF_L3_CTX_TWIN', '-DVF_L3_MINI2', '-DVF_L3_SCHEMA=0x%s' % schema_hash(SCHEMA2)[:8]]
    shim = ctx.build_ir('l3_world.cpp', 'cut', extra=ext)
    msg = ctx.build_ir(REPO + '/runtime/message.cpp', 'cut', extra=['-DFIX8_MAX_FLD_LENGTH=%d' % FLD])
    ll = ctx.link_ir([shim, msg], 'l3all2')
    opts = ['--typed-alloc', '--ptrcmp', '--ptrdiff', '--ptrdiff0']
    for w in (M_BFENC, M_EXT, M_EXTFW): opts += ['--wrap', w]
    info = ctx.translate(ll, ROOTS2, 'l3w2.c', stubs={M_CTX: 'st_ctx_ctor', 'strlen': 'st_strlen', M_FNCALL: 'st_fn_msg_call'}, stubfiles=['common.stubs', 'l3.stubs'], models=['cxx.c', 'stubs.c', 'l3_env.c'], opts=opts,
                         provided=['gmtime_r'])
    ctx._l3_2 = info; ctx._l3gen2 = g
    return info

# ------------------------------------------------------------------ shapes
# field kinds of a shape entry: (component, tag, kind, arg, neg)
#   component: 'h' header, 'b' body, 'g0'/'g1' group element; kind: int (arg = decimal digits, neg), cint (arg = value), str (arg = length),
#   data (arg = length; any byte), char, bool, ts (arg: 0 symbolic in the window, 1 the constant 20130304-02:44:30.000), float (arg = precision)
KIND = dict(int=0, str=1, char=2, bool=3, ts=4, float=5, data=6, cint=7)
def comp_id(c):
    if c[0] == 'g' and 'n' in c: e, k = c[1:].split('n'); return 10 + 4 * int(e) + int(k)      # 'g1n0': nested element 0 of outer element 1
    return 0 if c == 'h' else 1 if c == 'b' else 2 + int(c[1:])

def shape_header(ctx, name, msg, fields, nel=0):
    """write shape_<name>.h into the scratch dir; fields in INSERTION order"""
    rows = ', '.join('{%d,%d,%d,%d,%d}' % (comp_id(c), tag, KIND[k], arg, 1 if neg else 0) for (c, tag, k, arg, neg) in fields)
    txt = '#define L3_MSG %d\n#define L3_NF %d\n#define L3_NEL %d\nstatic const struct l3_fd L3_F[L3_NF] = { %s };\n' % (msg, len(fields), nel, rows)
    if name in NEST:
        nn = NEST[name]; assert len(nn) == nel and max(nn) <= 2
        txt += '#define L3_NEST 1\n#define L3_GTAG 13\n#define L3_NTAG 16\nstatic const int L3_NN[L3_NEL] = { %s };\n' % ', '.join(str(x) for x in nn)
        if 0 in nn: txt += '#define L3_NN_HAS0 1\n'
    p = os.path.join(ctx.work, 'shape_%s.h' % name); open(p, 'w').write(txt)
    return p

def describe(fields, nel):
    def one(f):
        c, tag, k, arg, neg = f
        v = {'int': '%sint of %d digit(s)' % ('negative ' if neg else '', arg), 'cint': str(arg), 'str': '%d symbolic byte(s)' % arg, 'data': '%d arbitrary byte(s)' % arg, 'char': 'symbolic char',
             'bool': 'symbolic Boolean', 'ts': 'symbolic instant' if arg == 0 else 'fixed instant', 'float': 'symbolic float, precision %d' % arg}[k]
        return '%s:%d=%s' % (c, tag, v)
    return 'insertion order [%s]; %d group element(s)' % (', '.join(one(f) for f in fields), nel)
MSGNAME = {0: 'Heartbeat', 1: 'Order', 2: 'List (schemas/mini2.xml)'}

def unwindset(ntok=24, msglen=170):
    us = ['vf_copy.0:%d' % (MAXCOPY + 2), 'x_strlen.0:%d' % (FLD + 2), 'x_strcmp.0:12', 'vf_ti_match.0:80',
          '_ZN4FIX84itoaIiEEmT_Pci.0:12', '_ZN4FIX84itoaIiEEmT_Pci.1:12', '_ZN4FIX84itoaIjEEmT_Pci.0:12', '_ZN4FIX84itoaIjEEmT_Pci.1:12', '_ZN4FIX84itoaItEEmT_Pci.0:7', '_ZN4FIX84itoaItEEmT_Pci.1:7',
          '_ZN4FIX89fast_atoiIiEET_PKcc.0:%d' % (FLD + 1), '_ZN4FIX89fast_atoiIjEET_PKcc.0:%d' % (FLD + 1), '_ZN4FIX89fast_atoiItEET_PKcc.0:%d' % (FLD + 1),
          M_EXT + '.0:%d' % (msglen + 2)]
    return us

# ------------------------------------------------------------------ harness construction / replay shared by C01, C02 (ordering), C11
HDR = [('h', 34, 'int', 1, 0), ('h', 49, 'str', 1, 0), ('h', 56, 'str', 1, 0)]
def hdr(ts=1, seq=(1, 0), order=None):
    """the four mandatory header fields (34 MsgSeqNum, 49, 56, 52 SendingTime); ts: 1 fixed instant, 0 symbolic"""
    f = [('h', 34, 'int', seq[0], seq[1]), ('h', 49, 'str', 1, 0), ('h', 56, 'str', 1, 0), ('h', 52, 'ts', ts, 0)]
    return [f[i] for i in order] if order else f

SHAPES = {
    # name: (message 0 Heartbeat / 1 Order, fields in insertion order, group elements)
    'hb':      (0, hdr() + [('b', 63, 'str', 2, 0)], 0),
    'basic':   (1, hdr() + [('b', 11, 'str', 2, 0), ('b', 54, 'char', 0, 0), ('b', 38, 'int', 5, 1), ('b', 43, 'bool', 0, 0)], 0),
    'basic_r': (1, [('b', 43, 'bool', 0, 0), ('b', 38, 'int', 5, 1), ('b', 54, 'char', 0, 0), ('b', 11, 'str', 2, 0)] + hdr(order=[3, 2, 1, 0]), 0),
    'tsdata':  (1, hdr(ts=0) + [('b', 11, 'str', 1, 0), ('b', 61, 'cint', 2, 0), ('b', 62, 'data', 2, 0)], 0),
    'group1':  (1, hdr() + [('b', 11, 'str', 1, 0), ('b', 33, 'cint', 1, 0), ('g0', 36, 'int', 2, 0), ('g0', 58, 'str', 2, 0)], 1),
    'group2':  (1, hdr() + [('b', 33, 'cint', 2, 0), ('b', 11, 'str', 1, 0), ('g0', 58, 'str', 1, 0), ('g0', 36, 'int', 1, 0), ('g1', 36, 'int', 3, 1)], 2),
    'bigint':  (1, hdr(seq=(10, 0)) + [('b', 11, 'str', 3, 0), ('b', 38, 'int', 10, 1)], 0),
    'ts2':     (1, hdr(ts=0) + [('b', 11, 'str', 1, 0), ('b', 60, 'ts', 0, 0)], 0),
    # message 2 = List of schemas/mini2.xml; nested element counts per outer element in NEST; component 'g<e>n<k>' = nested element k of outer element e
    'nested1': (2, hdr() + [('b', 12, 'str', 1, 0), ('b', 13, 'cint', 2, 0), ('g0', 14, 'int', 1, 0), ('g1', 14, 'int', 2, 1), ('g1', 16, 'cint', 1, 0), ('g1n0', 17, 'int', 2, 0), ('g1n0', 18, 'str', 2, 0)], 2),
    'nested0': (2, hdr() + [('b', 12, 'str', 1, 0), ('b', 13, 'cint', 2, 0), ('g0', 14, 'int', 1, 0), ('g1', 14, 'int', 1, 0), ('g1', 16, 'cint', 1, 0), ('g1n0', 17, 'int', 2, 1)], 2),
    'nested2': (2, hdr() + [('b', 13, 'cint', 2, 0), ('b', 12, 'str', 2, 0), ('g0', 15, 'str', 1, 0), ('g0', 14, 'int', 3, 0), ('g1', 16, 'cint', 2, 0), ('g1', 14, 'int', 1, 0),
                            ('g1n1', 17, 'int', 3, 1), ('g1n0', 18, 'str', 1, 0), ('g1n0', 17, 'int', 1, 0)], 2),
    'nested_f': (2, hdr() + [('b', 12, 'str', 1, 0), ('b', 13, 'cint', 2, 0), ('g0', 14, 'int', 1, 0), ('g0', 16, 'cint', 1, 0), ('g0n0', 17, 'int', 1, 0), ('g1', 14, 'int', 2, 1), ('g1', 16, 'cint', 1, 0),
                             ('g1n0', 17, 'int', 2, 0), ('g1n0', 18, 'str', 2, 0)], 2),
    'all':     (1, [('b', 60, 'ts', 1, 0), ('b', 62, 'data', 1, 0), ('b', 61, 'cint', 1, 0), ('b', 43, 'bool', 0, 0), ('b', 38, 'int', 1, 0), ('b', 54, 'char', 0, 0), ('b', 11, 'str', 1, 0)] + hdr(order=[1, 3, 0, 2]), 0),
}
NEST = {'nested0': [0, 1], 'nested1': [0, 1], 'nested2': [0, 2], 'nested_f': [1, 1]}

def us_main(n=12, cap=170): return ['main.%d:%d' % (i, cap + 2) for i in range(n)] + ['same_bytes.0:%d' % (cap + 2), 'l3_check_wire.2:%d' % (cap + 2), 'st_calc_chksum.0:%d' % (cap + 2)]

def harness(ctx, name, cfile, shape, defs=(), *, functions=(), desc='', tier='quick', timeout=900, cap=170, extra_bounds=''):
    msg, fields, nel = SHAPES[shape]
    if any(f[2] == 'ts' and f[3] == 0 for f in fields):
        if ctx.tier == 'quick': defs = list(defs) + ['TS_NARROW']; extra_bounds += '; symbolic instants: 2013-03-04 02:44:ss.mmm with ss 0..59, mmm 0..999'
        else: extra_bounds += '; symbolic instants: any valid civil instant of 2013 at millisecond precision'
    shape_header(ctx, shape, msg, fields, nel)
    d = list(defs) + ['L3_SHAPE="shape_%s.h"' % shape, 'VF_GLOBAL_INIT=' + GINIT.replace('.', '_2e'), 'VF_MAXCOPY=%d' % FLD, 'L3_CAP=%d' % cap]
    h = Harness(name, VERIF + '/harness/' + cfile, defines=d, unwind=70, unwindset=unwindset(msglen=cap) + us_main(cap=cap), timeout=timeout, mem_gb=12, nochecks=True, backend='kissat', flags=['--max-field-sensitivity-array-size', '256'],
                functions=FUN_BUILD + list(functions), stubs=STUBS, tier=tier, desc=desc,
                bounds='message %s, %s; ints over their whole digit class (sign x number of decimal digits), string bytes any but SOH/NUL, data bytes any%s; FIX8_MAX_FLD_LENGTH scaled to %d; '
                       'CBMC memory-safety instrumentation off (memory safety of the codec is C03)%s'
                       % (MSGNAME[msg], describe(fields, nel) + ('; nested group elements per outer element %s' % NEST[shape] if shape in NEST else ''), '', FLD, extra_bounds))
    h.shape = shape
    return ctx.add(h)

def replay_exe(ctx):
    g = gen(ctx)
    # runtime/message.cpp of the tree under test is compiled into the driver (its definitions take precedence over libfix8.so's)
    return ctx.native('l3replay', ['replay/l3_replay.cpp', REPO + '/runtime/message.cpp'], flags=('-O1', '-g', '-fsanitize=address,undefined', '-fno-sanitize=alignment,vptr', '-fno-access-control', '-I' + g, '-DVF_L3_SCHEMA=0x%s' % schema_hash()[:8]),
                      libs=['-L' + REPO + '/runtime/.libs', '-lfix8', '-Wl,-rpath,' + REPO + '/runtime/.libs'])

def replay_exe2(ctx):
    """the same driver over the natively compiled f8c output for schemas/mini2.xml (nested shapes)"""
    g = gen(ctx, SCHEMA2)
    return ctx.native('l3replay2', ['replay/l3_replay.cpp', REPO + '/runtime/message.cpp'], flags=('-O1', '-g', '-fsanitize=address,undefined', '-fno-sanitize=alignment,vptr', '-fno-access-control', '-I' + g, '-DVF_L3_MINI2', '-DVF_L3_SCHEMA=0x%s' % schema_hash(SCHEMA2)[:8]),
                      libs=['-L' + REPO + '/runtime/.libs', '-lfix8', '-Wl,-rpath,' + REPO + '/runtime/.libs'])

def cx_args(c, shape):
    """command-line field list of the native replay from a counterexample (cx_* ghosts) of a harness over `shape`"""
    msg, fields, nel = SHAPES[shape]
    def arr(k, i, dflt=0):
        v = c.get(k) or []
        return v[i] if i < len(v) else dflt
    out = []
    for i, (comp, tag, kind, arg, neg) in enumerate(fields):
        ci = comp_id(comp)
        if kind in ('int',): out.append('%d:%d:i:%d' % (ci, tag, _s32(arr('cx_int', i))))
        elif kind == 'cint': out.append('%d:%d:i:%d' % (ci, tag, arg))
        elif kind in ('str', 'data'):
            row = arr('cx_str', i, []) or []
            def cell(k):     # 2-D ghosts arrive as 'cx_str[il][kl]' keys (trace order = last assignment) or as the nested initial array
                v = c.get('cx_str[%dl][%dl]' % (i, k), c.get('cx_str[%d][%d]' % (i, k)))
                return int(v) & 255 if v is not None else ((int(row[k]) & 255) if isinstance(row, list) and k < len(row) else 0)
            b = bytes(cell(k) for k in range(arg))
            out.append('%d:%d:s:%s' % (ci, tag, b.hex()))
        elif kind == 'char': out.append('%d:%d:c:%d' % (ci, tag, _s8(arr('cx_chr', i))))
        elif kind == 'bool': out.append('%d:%d:b:%d' % (ci, tag, int(arr('cx_bool', i)) & 1))
        elif kind == 'ts': out.append('%d:%d:t:%d' % (ci, tag, int(arr('cx_ticks', i)) if arg == 0 or arr('cx_ticks', i) else 1362365070000000000))
    return [str(msg), str(nel)] + out + (['N:%d:%d' % (e, n) for e, n in enumerate(NEST[shape])] if shape in NEST else [])
def _s32(v): v = int(v) & 0xffffffff; return v - (1 << 32) if v >> 31 else v
def _s8(v): v = int(v) & 0xff; return v - 256 if v >> 7 else v

def run_replay(ctx, mode, args, exe=None):
    r = sh([exe or replay_exe(ctx), mode] + list(args), env=dict(os.environ, ASAN_OPTIONS='detect_leaks=0:abort_on_error=0', UBSAN_OPTIONS='halt_on_error=1:print_stacktrace=0'))
    return r.returncode, r.stdout

def wire_problem(e1, shape, c):
    """independent (Python) check of the C02 clauses on the bytes the native encoder produced for the shape and the counterexample's values:
    8, 9, 35 first; BodyLength = bytes between the end of the BodyLength field and the start of 10=; CheckSum = byte sum mod 256, three digits;
    tags in schema position order: header, body, group = count then elements each starting with the group's first field (36), trailer"""
    msg, fields, nel = SHAPES[shape]
    if not e1.endswith(b'\x01'): return 'does not end with SOH'
    toks = [t.split(b'=', 1) for t in e1[:-1].split(b'\x01')]
    if any(len(t) != 2 or not t[0].isdigit() for t in toks):
        # a data value may contain SOH: re-split around the Length/data pair
        tags = None
    tags = []
    i = 0; raw = e1
    while i < len(raw):
        j = raw.find(b'=', i)
        if j < 0 or not raw[i:j].isdigit(): return 'malformed tag at offset %d' % i
        tag = int(raw[i:j])
        if tags and tags[-1][0] == 61 and tag == 62:
            n = int(tags[-1][1]); val = raw[j + 1:j + 1 + n]; k = j + 1 + n
            if raw[k:k + 1] != b'\x01': return 'data field not followed by SOH'
        else:
            k = raw.find(b'\x01', j)
            if k < 0: return 'unterminated field'
            val = raw[j + 1:k]
        tags.append((tag, val, i)); i = k + 1
    if [t for t, v, o in tags[:3]] != [8, 9, 35] or tags[0][1] != b'FIX.4.2': return 'does not start with BeginString, BodyLength, MsgType'
    if tags[-1][0] != 10 or len(tags[-1][1]) != 3 or not tags[-1][1].isdigit(): return 'does not end with a three-digit CheckSum'
    if not tags[1][1].isdigit() or int(tags[1][1]) != tags[-1][2] - tags[2][2]: return 'BodyLength %r is not the payload length %d' % (tags[1][1], tags[-1][2] - tags[2][2])
    if int(tags[-1][1]) != sum(raw[:tags[-1][2]]) & 255: return 'CheckSum %r is not the byte sum %d' % (tags[-1][1], sum(raw[:tags[-1][2]]) & 255)
    posh = [34, 49, 56, 52]; posb = [11, 54, 38, 44, 43, 60, 61, 62, 33] if msg else [63]; posg = [36, 58]
    want = []
    if shape in NEST:      # List of schemas/mini2.xml: 12, 13, outer element {14, 15, 16 {17, 18}*}*
        have = lambda comp, t: any(f[0] == comp and f[1] == t for f in fields)
        want = [t for t in posh if have('h', t)] + [t for t in (12, 13) if have('b', t)]
        for e in range(nel):
            want += [t for t in (14, 15, 16) if have('g%d' % e, t)]
            for k in range(NEST[shape][e]): want += [t for t in (17, 18) if have('g%dn%d' % (e, k), t)]
        posh = []; posb = []
    for comp, tab in (('h', posh), ('b', posb)):
        for t in tab:
            if any(f[0] == comp and f[1] == t for f in fields):
                want.append(t)
                if comp == 'b' and t == 33:
                    for e in range(nel): want += [g for g in posg if any(f[0] == 'g%d' % e and f[1] == g for f in fields)]
    got = [t for t, v, o in tags[3:-1]]
    if got != want: return 'field order %s, expected %s' % (got, want)
    return None

def short(out, n=400):
    keep = [l for l in out.splitlines() if l.startswith(('RESULT', '==', 'SUMMARY', 'COUNTS')) or 'runtime error' in l]
    return (' | '.join(keep) or out.strip()[-n:].replace('\n', ' | '))[:n]

# ------------------------------------------------------------------ C02: ordering clause (usable from props/C02.py)
ORDER_QUICK = ['basic_r', 'group1']
ORDER_THOROUGH = ORDER_QUICK + ['all', 'group2', 'tsdata', 'hb']
def add_order_harnesses(ctx, defs=()):
    """C02 "ordering" harnesses: the real encoder on one concrete shape (fields inserted in an order different from the schema's), symbolic values;
    oracle = independent renderer over the ghost values (harness/l3_expect.h).  Returns the harnesses added; replay with l3.order_replay."""
    world(ctx)
    out = []
    for shape in (ORDER_QUICK if ctx.tier == 'quick' else ORDER_THOROUGH):
        h = harness(ctx, 'C02_order_%s' % shape, 'C01_rt.c', shape, list(defs) + ['C02_ORDER', 'ENCODE_ONLY', 'L3_WORLD_C="l3w_cs.c"'], functions=[f for f in FUN_ENC if 'calc_chksum' not in f] + ['FIX8::Message::fmt_chksum'], timeout=900,
                           desc='wire format of encode(m): 8, 9, 35 first; BodyLength exact; CheckSum = byte sum mod 256, three digits; every field tag=value<SOH>; header < body < trailer; '
                                'schema position order regardless of insertion order; group = count then elements each starting with the group\'s first field')
        h.stubs = h.stubs + ['Message::calc_chksum(const char*, size_t, unsigned, int) := byte sum of the range it is given, modulo 256 (the contract C07 proves for the kernel); range checked against the encoder\'s buffer']
        out.append(h)
    ctx.assumptions += ['ordering harnesses: schemas/mini.xml compiled by the f8c of the tree under test; schema positions of the oracle are those of the mini schema (checked natively by the replay driver against the generated classes)']
    return out

def order_replay(ctx, cx, h=None):
    c = cx.get('cx', cx); shape = h.shape if h is not None else c.get('shape')
    rc, out = run_replay(ctx, 'rt', cx_args(c, shape))
    e1 = next((bytes.fromhex(l.split()[1]) for l in out.splitlines() if l.startswith('E1 ')), None)
    if e1 is None: return rc != 0, 'shape %s: %s' % (shape, short(out))
    w = wire_problem(e1, shape, c)
    return w is not None, 'shape %s: %s (%r)' % (shape, w or 'wire format as required', e1.replace(b'\x01', b'|'))

# ------------------------------------------------------------------ known findings (committed + proposals of this helper while not merged)
PROPOSED = os.path.join(VERIF, 'tools', 'reports', 'kf_l3.json')
def kfs(pid):
    """committed known findings; with VF_KF_PROPOSED=1 also the entries proposed in tools/reports/kf_l3.json"""
    out = known_findings(pid)
    if os.environ.get('VF_KF_PROPOSED') and os.path.exists(PROPOSED):
        have = set(e.get('define') for e in out)
        out += [e for e in json.load(open(PROPOSED)).get('findings', []) if e.get('property') == pid and e.get('define') not in have]
    return out

def data_has_nul(c, shape):
    msg, fields, nel = SHAPES[shape]
    args = cx_args(c, shape)[2:]
    return any(f[2] == 'data' and b'\x00' in bytes.fromhex(a.split(':')[3]) for f, a in zip(fields, args))
