"""C04 strict decoding accepts exactly schema-conforming messages: token-level driver over the real factory/decode code"""
from vf.core import *
from props import codec

def run(ctx):
    kf = codec.kfs('C04'); defs = kf_defines(kf)
    T = codec.tok_harness
    # quick: every single deviation (one symbolic token at each of three positions; each mandatory token missing) and a two-element group
    for pres in (1, 2, 4): T(ctx, 'C04_tok_x%d' % pres, pres=pres, defs=defs)
    T(ctx, 'C04_drop', pres=0, drop=0, defs=defs, extra_defs=['DROPALL'])        # each of the six mandatory tokens left out (case split, one concrete run each)
    for drop in range(1, 7): T(ctx, 'C04_drop%d' % drop, pres=0, drop=drop, defs=defs, tier='thorough')
    T(ctx, 'C04_group2', pres=0, ng=2, gpres=3, defs=defs, extra_defs=['GMENUMASK=0x1804'])     # group slots: 372, 385, 141
    T(ctx, 'C04_group3_elems', pres=0, ng=3, gpres=7, defs=defs, extra_defs=['GMENUMASK=0x1800'])   # three group tokens from {372, 385}: later elements must start with the first field
    T(ctx, 'C04_group2_full', pres=0, ng=2, gpres=3, defs=defs, tier='thorough', timeout=2400)
    # thorough: pairs and triples of symbolic tokens, a dropped mandatory token next to a symbolic one, three group tokens, and the real byte tokenizer
    for pres in (3, 5, 6): T(ctx, 'C04_tok_x%d' % pres, pres=pres, defs=defs, tier='thorough', timeout=2400)
    for drop in (1, 4, 5): T(ctx, 'C04_tok_x2_drop%d' % drop, pres=2, drop=drop, defs=defs, tier='thorough', timeout=1200)
    T(ctx, 'C04_group3', pres=0, ng=3, gpres=7, defs=defs, tier='thorough', timeout=2400)
    T(ctx, 'C04_group2_x4', pres=4, ng=2, gpres=3, defs=defs, tier='thorough', timeout=2400)
    T(ctx, 'C04_bytes_x2', pres=2, defs=defs, tokcut=False, tier='thorough', timeout=2400)
    ctx.assumptions += codec.DECODE_ASSUMPTIONS
    ctx.solve(jobs=codec.JOBS)
    ctx.handle_failures(codec.replay, kf)
    announce_known(ctx, kf, codec.replay)
    return ctx.finish()

def replay(ctx, cx, h=None): return codec.replay(ctx, cx, h)
