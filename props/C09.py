"""C09 date/time codecs"""
import os
from vf.core import *
FUN = ['FIX8::date_time_format', 'FIX8::date_time_parse', 'FIX8::time_parse', 'FIX8::date_parse', 'FIX8::time_to_epoch', 'FIX8::format0', 'FIX8::parse_decimal',
       'FIX8::Tickval::get_tm/as_tm/msecs']
NAMES = {5: 'UTCTimestamp', 1: 'UTCTimeOnly', 3: 'UTCDateOnly_LocalMktDate', 2: 'MonthYear'}

def run(ctx):
    kf = known_findings('C09'); defs = kf_defines(kf)
    ll = ctx.build_ir('c09.cpp', 'leaf')
    roots = ['vf_time_to_epoch', 'vf_dt_format', 'vf_dt_parse', 'vf_time_parse', 'vf_date_parse']
    ctx.translate(ll, roots, 'c09.c', provided=['gmtime_r'])
    ctx.translate(ll, roots, 'c09gen.c', opts=['--prefix', 'gen_'], provided=['gmtime_r'])
    exe = ctx.native('c09diff', ['replay/c09_diff.c', ctx.work + '/c09gen.c', 'shims/c09.cpp'])
    r = sh([exe, str(ctx.seed)])
    if r.returncode != 0: raise Broken('translator validation failed: ' + r.stdout[-500:])
    ctx.validation.append(dict(kernels=roots, result=r.stdout.strip()))
    # cut-mode translation: time_to_epoch stays a call and is replaced by its contract in the text harnesses
    llc = ctx.build_ir('c09.cpp', 'cut')
    ctx.translate(llc, roots, 'c09cut.c', provided=['gmtime_r'], stubs={'_ZN4FIX813time_to_epochERK2tmi': 'st_time_to_epoch'})
    wins = [(1970, 1999), (2000, 2037), (2038, 2069), (2070, 2099)]
    for lo, hi in wins:
        ctx.add(Harness('C09_epoch_%d_%d' % (lo, hi), VERIF + '/harness/C09_epoch.c', defines=defs + ['YLO=%d' % lo, 'YHI=%d' % hi], unwind=3, backend='kissat', timeout=600,
                        functions=['FIX8::time_to_epoch'], bounds='every valid (y,mo,d,h,mi,s) with year in [%d, %d]' % (lo, hi), desc='custom mktime == days_from_civil reference'))
    for ind in (5, 1, 3, 2):
        ctx.add(Harness('C09_%s' % NAMES[ind], VERIF + '/harness/C09_codec.c', defines=defs + ['IND=%d' % ind, 'YLO=1970', 'YHI=2099'] + (['EPOCH_STUB'] if ind != 1 else []), unwind=23,
                        backend='cvc5int', timeout=900, functions=FUN,
                        stubs=["gmtime_r := returns the harness's civil fields after checking the requested second (proleptic Gregorian contract)",
                               'time_to_epoch := contract (fields in -> reference seconds out), discharged by the C09_epoch_* harnesses'],
                        bounds='every valid civil instant 1970-01-01..2099-12-31, every h:m:s, every millisecond', desc='layout + parse-back'))
    ctx.assumptions += ['gmtime_r implements the proleptic Gregorian UTC calendar (libc trusted; its result is supplied by the harness for the checked second)',
                        'log timestamp renderer (GetTimeAsStringMS) is decided in harness C09_logts (ostream formatting model)']
    ctx.solve()
    ctx.handle_failures(replay, kf)
    announce_known(ctx, kf, replay)
    return ctx.finish()

def replay(ctx, cx, h=None):
    if (h is not None and h.name.startswith('C09_logts')) or 'cx_dplaces' in cx.get('cx', cx): return C09_logts.replay(ctx, cx, h)
    c = cx.get('cx', cx)
    exe = ctx.native('c09replay', ['replay/c09_replay.cpp'], flags=('-O1', '-fsanitize=address,undefined', '-fno-sanitize-recover=undefined'))
    r = sh([exe] + [str(int(c[k])) for k in ('cx_ind', 'cx_y', 'cx_mo', 'cx_d', 'cx_h', 'cx_mi', 'cx_s', 'cx_ms')], env=dict(os.environ, ASAN_OPTIONS='detect_leaks=0', TZ='UTC'))
    return r.returncode != 0, r.stdout.strip()[-300:].replace('\n', ' | ')
