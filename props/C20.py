"""C20 gap recovery with a conformant counterparty (session world, inbound side, k-step)"""
import os
from vf.core import *
from props import sessin
FUN = ['FIX8::Session::process', 'Session::enforce', 'Session::sequence_check', 'Session::compid_check', 'Session::handle_sequence_reset', 'Session::handle_heartbeat',
       'Session::handle_logon (C20_logon)', 'Session::do_state_change', 'Session::stop', 'catch clauses of Session::process', 'fast_atoi<unsigned>']

def run(ctx):
    kf, defs = sessin.kf_defs('C20')
    info = sessin.build(ctx)
    ctx.assumptions += sessin.ASSUME + ['counterparty model: replays application messages as PossDup resends (OrigSendingTime <= SendingTime), runs of administrative messages as one GapFill, answers before continuing',
                                        'CompIDs match; decoding succeeds; the session is active']
    ks = [(3, 1, 0)] if ctx.tier == 'quick' else [(3, 1, 0), (4, 1, 0), (4, 2, 0), (5, 1, 2), (7, 1, 2)]
    ks += [tuple(int(x) for x in e.split(',')) for e in os.environ.get('VF_C20_EXTRA', '').split() if e]
    for k, loss, fl in ks:
        w = k * (loss + 1) + 1
        ctx.add(Harness('C20_gap_k%d_l%d' % (k, loss) + ('_f%d' % fl if fl else ''), VERIF + '/harness/C20_gap.c', defines=defs + ['K=%d' % k, 'MAXLOSS=%d' % loss, 'MAXFLIGHT=%d' % fl, 'VF_MAXCOPY=40', 'VF_OUTMAX=%d' % (k + 1)], unwind=max(12, w + 2),
                        unwindset=sessin.US,
                        timeout=900 if ctx.tier == 'quick' else (2400 if k < 7 else 4200), object_bits=14 if k > 4 else 12, functions=FUN, stubs=sessin.STUBS,
                        bounds='%d process() steps from a continuous session in sync at an arbitrary number n in 1..2^31-257 (FIX SeqNum domain); at most %d own messages lost before each new message; '
                               'lost and new messages are application or administrative at the generator\'s choice%s' % (k, loss, '; up to %d messages already in flight between our ResendRequest and the start of the replay, at most 2 unanswered requests (answered one after the other)' % fl if fl else ''),
                        desc='k-step recovery against the conformant counterparty generator'))
    for role, rn in ((0, 'acceptor'), (1, 'initiator')):
        ctx.add(Harness('C20_logon_%s' % rn, VERIF + '/harness/C20_logon.c', defines=defs + ['ROLE=%d' % role, 'VF_MAXCOPY=40'], unwind=12,
                        unwindset=sessin.US, timeout=900, functions=FUN, stubs=sessin.STUBS + ['Timer::schedule := recorded'],
                        bounds='one Logon with matching CompIDs numbered expected+g <= 2^31-1, expected >= 1, %s role' % rn, desc='reconnect Logon above the expected number'))
    ctx.solve(jobs=4)
    ctx.handle_failures(replay, kf)
    announce_known(ctx, kf, replay)
    return ctx.finish()

def replay(ctx, cx, h=None):
    c = cx.get('cx', cx)
    if 'cx_g' in c:
        role = int(c.get('cx_role', 0)); exp = int(c['cx_expected']); g = int(c['cx_g'])
        init = 'init,conn=1,role=%s,sender=S,target=T,state=%d,recv=%d,send=5,enforce=1,active=1' % ('A' if role == 0 else 'I', 3 if role == 0 else 5, exp)
        steps, raw = sessin.run_steps(ctx, [init, 'msg,type=A,seq=%d,sci=T,tci=S,hbi=30' % (exp + g)])
        if not steps: return False, 'no output: ' + raw
        r = steps[-1]; lo = [s for s in r['sent'] if s['type'] == '5']; rr = [s for s in r['sent'] if s['type'] == '2']
        bad = r['thrown'] or lo or r['shutdown'] or r['state'] == 2 or (g > 0 and not (len(rr) == 1 and int(rr[0].get('7', -1)) == exp))
        return bool(bad), 'native: Logon %d while expecting %d (%s) -> %s' % (exp + g, exp, 'acceptor' if role == 0 else 'initiator', raw[-260:])
    # k-step history: re-run the generator's concrete choices natively and re-evaluate the oracle on the native observations
    n = int(c.get('cx_n', 1)); seqs = c.get('cx_seq', []); types = c.get('cx_type', [])
    def at(key, i): v = c.get(key, []); return int(v[i]) if i < len(v) else 0
    cmds = ['init,role=I,sender=S,target=T,state=1,recv=%d,send=7,enforce=1,active=1' % n]
    hist = []; app_sent = set(); cnext = n
    for i, (sq, ty) in enumerate(zip(seqs, types)):
        ty = chr(int(ty)) if int(ty) else 'D'; sq = int(sq)
        if not sq: break
        mode = at('cx_replaymode', i)
        if mode == 1: cmds.append('msg,type=D,seq=%d,pd=Y,st=%d,ost=%d' % (sq, 100 + i * 10, 99 + i * 10))
        elif mode == 2: cmds.append('msg,type=4,seq=%d,pd=Y,gapfill=Y,nsn=%d,st=%d,ost=%d' % (sq, at('cx_nsn', i) or sq + 1, 100 + i * 10, 99 + i * 10))
        else:
            for q, lost in enumerate(range(cnext, sq)):            # numbers the counterparty sent while we were not listening
                if (at('cx_lostapp', i) >> q) & 1: app_sent.add(lost)
            if ty == 'D': app_sent.add(sq)
            cnext = sq + 1
            cmds.append('msg,type=%s,seq=%d,st=%d' % (ty, sq, 100 + i * 10))
        hist.append((ty, sq, mode))
    steps, raw = sessin.run_steps(ctx, cmds)
    if len(steps) != len(hist): return False, 'no output: ' + raw
    bad = []; pend_from = pend_to = 0
    for (ty, sq, mode), s in zip(hist, steps):
        if s['thrown'] or s['shutdown'] or any(o['type'] == '5' for o in s['sent']): bad.append('session terminated at MsgSeqNum %d' % sq); break
        if mode == 1: pend_from = sq + 1
        if mode == 2: pend_from = int([x for x in cmds if ('seq=%d,' % sq) in x and 'nsn=' in x][0].split('nsn=')[1].split(',')[0])
        for o in s['sent']:
            if o['type'] == '2': pend_from, pend_to = int(o.get('7', 0)), cnext
    delivered = set(sum([s['delivered'] for s in steps], []))
    caught = at('cx_caught', len(hist) - 1) if 'cx_caught' in c else pend_from >= pend_to
    if not bad and caught:          # the counterparty has caught up (the generator's own bookkeeping of its replay queue)
        if steps[-1]['recv'] != cnext: bad.append('expected inbound number %d but the counterparty continues with %d' % (steps[-1]['recv'], cnext))
        if not app_sent <= delivered: bad.append('application messages %s never delivered' % sorted(app_sent - delivered))
    return bool(bad), 'native history (type, MsgSeqNum, 0 new/1 PossDup resend/2 GapFill) %s from expected %d: %s | delivered %s | %s' % (hist, n, '; '.join(bad) or 'conforms', sorted(delivered), raw[-160:])
