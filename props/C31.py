"""C31 timer: real Timer<T>::schedule / clear / operator() on a virtual clock with a recording monitor type"""
import os
from vf.core import *
ROOTS = ['vf_tm_ctor', 'vf_tm_schedule', 'vf_tm_clear', 'vf_tm_run', 'vf_tm_stop', 'vf_tm_pending', 'vf_tm_event']
NOW = '_ZNSt6chrono3_V212system_clock3nowEv'
FUN = ['FIX8::Timer<T>::Timer', 'FIX8::Timer<T>::schedule', 'FIX8::Timer<T>::clear', 'FIX8::Timer<T>::operator()', 'FIX8::TimerEvent<T>::operator< / set / copy', 'FIX8::Tickval ctor/get_tickval/operators',
       'FIX8::f8_scoped_spin_lock, f8_spin_lock', 'FIX8::f8_thread_cancellation_token',
       'std::priority_queue<TimerEvent<T>> push/pop/top, std::vector<TimerEvent<T>> growth, std::push_heap/pop_heap/__adjust_heap (header code as instantiated)']
STUBS = ['std::chrono::system_clock::now := arbitrary non-decreasing instants (virtual clock, step 0..400 ms)', 'hypersleep<h_milliseconds> := returns at once (scheduling point)',
         'f8_thread<Timer>::f8_thread := no effect (the thread is never started; the event loop is called directly)',
         'pthread_spin_lock/unlock := lock flag; acquisition is where another thread\'s clear() may take effect', 'operator new := fresh heap object of exactly the requested size (1..8 events; never fails)',
         'GlobalLogger::is_loggable := false (logging off)', 'exception runtime: models/c12_exc.c + models/c31_env.c']
US = ['_ZN4FIX85TimerI3MonEclEv.0:%d', 'x__Znwm.0:10', '_ZN4FIX85TimerI3MonE5clearEv.0:5']

def run(ctx):
    kf = known_findings('C31'); defs = kf_defines(kf)
    ll = ctx.build_ir('c31.cpp', 'cut')
    ctx.translate(ll, ROOTS, 'c31.c', stubfiles=['common.stubs', 'c31.stubs'], models=['c12_exc.c', 'stubs.c', 'c31_env.c'],
                  provided=['vf_cb', NOW, '_Znwm', 'pthread_spin_lock', 'pthread_spin_unlock'])
    H = VERIF + '/harness/C31_timer.c'
    thorough = ctx.tier == 'thorough'
    def add(name, defines, steps, bounds, desc, tier='quick', to=900):
        ctx.add(Harness(name, H, defines=defs + defines, unwind=5, unwindset=[u % (steps + 3) if '%d' in u else u for u in US], timeout=to, mem_gb=14, functions=FUN, stubs=STUBS, bounds=bounds, desc=desc, tier=tier))
    for n in (1, 2, 3):
        add('C31_step_n%d' % n, ['MODE=1', 'OP=0', 'NEV=%d' % n], 1,
            'any queue of %d events (every heap arrangement; due times = arbitrary reading + 1..200 ms; repeat flags, callback result symbolic), one pass of the event loop at an arbitrary later reading' % n,
            'inductive step of the event loop', tier='quick' if n < 3 else 'thorough', to=1200)
        add('C31_clear_n%d' % n, ['MODE=1', 'OP=1', 'NEV=%d' % n], 1, 'any queue of %d events, one clear()' % n, 'inductive step of clear()')
    # bounded histories from start-up (cross-check of the induction; the reachability twin of the variant with a concurrent clear()
    # at every lock acquisition did not finish in 600 s and is not registered)
    add('C31_run_n2_k2', ['MODE=0', 'NEV=2', 'STEPS=2', 'CLEAR=0'], 2, '2 events scheduled at start, the loop runs for 2 clock readings/sleeps', 'bounded history from start-up', tier='thorough', to=1800)
    add('C31_run_n2_k3', ['MODE=0', 'NEV=2', 'STEPS=3', 'CLEAR=0'], 3, '2 events, 3 readings/sleeps', 'bounded history from start-up', tier='thorough', to=2400)
    ctx.assumptions += ['operator new never fails', 'the event loop and clear() are interleaved at lock acquisitions only (both hold the timer\'s spin lock for their whole critical section)',
                        'schedule(.., 0) (empty due time, dropped by the loop) is outside the statement\'s 1..200 ms range', 'real sleeping and thread start/stop are not modelled']
    ctx.solve(jobs=4)
    ctx.handle_failures(replay, kf)
    announce_known(ctx, kf, replay)
    return ctx.finish()

def replay(ctx, cx, h=None):
    c = cx.get('cx', cx)
    exe = ctx.native('c31replay', ['replay/c31_replay.cpp'], flags=('-O1', '-fsanitize=address,undefined', '-fno-sanitize-recover=undefined', '-fno-access-control'),
                     libs=['-L' + REPO + '/runtime/.libs', '-lfix8', '-Wl,-rpath,' + REPO + '/runtime/.libs'])
    d = h.defines if h else c.get('defines', [])
    def dv(k, dflt): return next((int(x.split('=')[1]) for x in d if x.startswith(k + '=')), dflt)
    nev = dv('NEV', 2); mode = dv('MODE', 0); op = dv('OP', 0); steps = 1 if mode == 1 else dv('STEPS', 3)
    def lst(k, n): v = c.get(k, []); v = v if isinstance(v, list) else []; return [str(int(x)) for x in (v + [0] * n)[:n]]
    args = [str(mode), str(op), str(nev), str(steps), str(int(c.get('cx_clear_at', -1)))] + lst('cx_ms', 3) + lst('cx_rep', 3) + lst('cx_res', steps + 1) + lst('cx_read', steps + nev + 2)
    env = dict(os.environ, ASAN_OPTIONS='detect_leaks=0')
    r = sh([exe] + args, env=env)
    if r.returncode not in (0, 2): return True, (r.stdout or '').strip()[-400:].replace('\n', ' | ')
    # the scripted single-thread replay is clean: try the two-thread demonstration of the critical-section premise
    r2 = sh([exe, 'conc'], env=env)
    return r2.returncode == 1, ((r.stdout or '').strip()[-200:] + ' | ' + (r2.stdout or '').strip()[-200:]).replace('\n', ' | ')
