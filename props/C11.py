"""C11 clone / copy_legal / move_legal: the real Message::clone, MessageBase::copy_legal, move_legal over the f8c-generated mini schema
(L3 codec world, props/l3.py): one concrete message shape per query, symbolic values, compared through the real encoder"""
from vf.core import *
from props import l3
FUN = ['FIX8::Message::clone', 'FIX8::MessageBase::copy_legal', 'FIX8::MessageBase::move_legal', 'FIX8::MessageBase::replace(fnum, GroupBase*)', 'FIX8::MessageBase::get_field / find_group / clear_positions',
       'Field<T,N>::copy (copy constructors)', 'GroupBase::~GroupBase / clear (replaced group of the move target)'] + l3.FUN_ENC
MODES = {0: 'clone', 1: 'copy', 2: 'move'}

def run(ctx):
    kf = l3.kfs('C11'); defs = kf_defines(kf)
    l3.world(ctx)
    quick = [('basic', 0), ('group1', 1), ('group1', 2)]
    thorough = quick + [('group1', 0), ('basic', 1), ('basic', 2), ('group2', 0), ('group2', 1), ('group2', 2), ('tsdata', 0), ('tsdata', 1), ('tsdata', 2), ('all', 0), ('all', 1), ('bigint', 0)]
    for shape, mode in (quick if ctx.tier == 'quick' else thorough):
        l3.harness(ctx, 'C11_%s_%s' % (MODES[mode], shape), 'C11_xfer.c', shape, defs + ['MODE=%d' % mode], functions=FUN, timeout=900 if ctx.tier == 'quick' else 2400,
                   desc={0: 'encode(clone(m)) == encode(m); clone and original hold the shape',
                         1: 'copy_legal of body, header, trailer into an empty deep-constructed message of the same type: counts, target holds the shape, encode equality, source unchanged',
                         2: 'move_legal of body, header, trailer into an empty deep-constructed message: counts, target holds the shape, encode(target) == encode(original source)'}[mode])
    add_nested(ctx, defs)
    ctx.assumptions += ['targets of copy_legal / move_legal are empty, deep-constructed messages of the source\'s type (the property\'s premise); force=true is not exercised',
                        'operator new never fails', 'rb-tree rebalancing replaced by an unbalanced BST with the same in-order sequence',
                        'gmtime_r follows its contract (proleptic Gregorian UTC) for the instants the message carries',
                        'schema: schemas/mini.xml compiled by the f8c of the tree under test on every run; nesting depth 1 (the mini schema has no nested group)']
    ctx.solve(jobs=4)
    ctx.handle_failures(replay, kf)
    announce_known(ctx, kf, replay)
    return ctx.finish()

# ---------------------------------------------------------------- nested groups (extension; tools/reports/C11.md "Nested groups")
# shapes over schemas/mini2.xml (message List: outer group NoOrders, nested group NoAllocs), the SOURCE of clone / copy_legal / move_legal is the
# message Message::factory decoded from encode(m): its group elements are shallow-constructed (nested group instance only if one was on the wire)
NESTED_QUICK = [('nested0', 1)]
NESTED_THOROUGH = NESTED_QUICK + [('nested1', 1), ('nested1', 0), ('nested1', 2), ('nested2', 0), ('nested2', 1), ('nested_f', 1)]
def add_nested(ctx, defs):
    todo = [(sh_, mo) for sh_, mo in (NESTED_QUICK if ctx.tier == 'quick' else NESTED_THOROUGH)
            if not getattr(ctx, 'only', None) or any(o in 'C11_%s_%s' % (MODES[mo], sh_) for o in ctx.only)]
    if not todo: return
    l3.world2(ctx)
    for shape, mode in todo:
        h = l3.harness(ctx, 'C11_%s_%s' % (MODES[mode], shape), 'C11_nested.c', shape, defs + ['MODE=%d' % mode, 'L3_WORLD_C="l3w2.c"'], functions=FUN + l3.FUN_DEC + l3.FUN_NEST,
                       timeout=900 if ctx.tier == 'quick' else 2400,
                       desc='source d = factory(encode(m)) (decoded: shallow group elements, checked to hold the shape); ' +
                            {0: 'encode(clone(d)) == encode(d); clone and original hold the shape incl. nested group elements',
                             1: 'copy_legal of body, header, trailer of d into an empty deep-constructed List: counts, target holds the shape incl. nested group elements, encode equality, source unchanged',
                             2: 'move_legal of body, header, trailer of d into an empty deep-constructed List: counts, target holds the shape incl. nested group elements, encode(target) == encode(d before the move)'}[mode])
        h.nested = True; h.object_bits = 13
    ctx.assumptions += ['nested shapes: schemas/mini2.xml (mini.xml + message List with a group nested in a group) compiled by the f8c of the tree under test on every run; nesting depth 2']

def replay(ctx, cx, h=None):
    hn = h.name if h is not None else str(cx.get('harness', ''))          # replay files carry the harness name: C11_<mode>_<shape>
    if len(hn.split('_', 2)) == 3 and hn.split('_', 2)[2] in l3.NEST:
        c = cx.get('cx', cx); _, mo, shape = hn.split('_', 2)
        rc, out = l3.run_replay(ctx, 'd' + mo, l3.cx_args(c, shape), exe=l3.replay_exe2(ctx))
        return rc != 0, '%s (source decoded by Message::factory) on shape %s: %s' % (mo, shape, l3.short(out))
    c = cx.get('cx', cx)
    shape = h.shape if h is not None else c.get('shape'); mode = MODES[int(next((d.split('=')[1] for d in h.defines if d.startswith('MODE=')), 0))] if h is not None else c.get('mode', 'clone')
    rc, out = l3.run_replay(ctx, mode, l3.cx_args(c, shape))
    return rc != 0, '%s on shape %s: %s' % (mode, shape, l3.short(out))
