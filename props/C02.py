"""C02 encoded messages are well-formed: framing harness over the real Message::encode(char**)"""
from vf.core import *
from props import codec
FUN = ['FIX8::Message::encode(char**)', 'FIX8::BaseField::encode(char*)', 'FIX8::Field<f8String,8>::print / Field<Length,9>::print / Field<f8String,10>::print', 'FIX8::itoa<int>', 'FIX8::itoa<unsigned short>',
       'FIX8::FieldTraits::clear(field, suppress)', 'FIX8::presorted_set<unsigned short, FieldTrait>::find']

def run(ctx):
    kf = codec.kfs('C02'); defs = kf_defines(kf)
    codec.world(ctx)
    # windows of payload lengths around every digit-count boundary of the hlen expression plus interior values; inside a window every length is
    # one concrete-layout run of the real encoder (case split in the harness), the byte sum is symbolic
    QUICK = [(5, 40), (95, 105), (995, 1005), (9995, 10004), (500, 507), (5000, 5007)]
    wins = QUICK + ([(41, 94), (85, 115), (985, 1015), (9985, 10015), (99985, 100015), (999985, 1000015), (50000, 50015)] if ctx.tier == 'thorough' else [])
    for lo, hi in wins:
        ctx.add(Harness('C02_frame_%d_%d' % (lo, hi), VERIF + '/harness/C02_frame.c', defines=defs + codec.WORLD_DEFS + ['LO=%d' % lo, 'HI=%d' % hi, 'VF_MAXCOPY=%d' % codec.FLD], unwind=14,
                        unwindset=codec.us_decode(6), flags=['-I', VERIF + '/shims', '--max-field-sensitivity-array-size', str(hi + 64)], object_bits=13, timeout=900, functions=FUN,
                        stubs=['MessageBase::encode(char*) const (header, body, trailer sub-encoders) := reports a constant number of bytes n1, n2, n3 at the position it is given (two splits per length: 5/T-5/0 and 7/T-13/6); layout checked',
                               'Message::calc_chksum := a sum chosen by the harness; start pointer and length checked (kernel == byte sum: C07)',
                               'Message::fmt_chksum := the three zero-padded decimal digits of its argument (the real function is checked for every value 0..255 by C02_fmtsum)', 'std::string, operator new: models/cxx.c; logging off'],
                        bounds='every payload size in [%d, %d] (one concrete-layout run per size and split), every checksum 0..255; output buffer with canaries before the preamble and behind the NUL; BeginString FIX.4.2' % (lo, hi),
                        desc='preamble width, BodyLength digits, CheckSum field, return value', backend='default', tier='quick' if (lo, hi) in QUICK else 'thorough'))
    ctx.add(Harness('C02_fmtsum', VERIF + '/harness/C02_fmtsum.c', defines=defs + codec.WORLD_DEFS + ['VF_MAXCOPY=%d' % codec.FLD], unwind=14, unwindset=codec.us_decode(6, extra=['main.0:260']),
                    flags=['-I', VERIF + '/shims'], object_bits=13, timeout=600, functions=['FIX8::Message::fmt_chksum', 'FIX8::itoa<unsigned>'], stubs=['std::string: models/cxx.c'],
                    bounds='every value 0..255 (one concrete run each)', desc='three zero-padded decimal digits'))
    ctx.assumptions += ['position ordering of fields inside a component (the _pos multimap) and group layout are not part of this harness (ordering harness: not built, see tools/reports/C02.md)',
                        'Message::encode(f8String&) only adds a stack buffer of FIX8_MAX_MSG_LENGTH + 32 bytes around the same code: capacity is C03\'s subject']
    ctx.solve(jobs=codec.JOBS)
    ctx.handle_failures(replay, kf)
    announce_known(ctx, kf, replay)
    return ctx.finish()

def replay(ctx, cx, h=None):
    """native: a real FIX42UTEST message whose encoded payload has the counterexample's total length; the framing is recomputed independently"""
    c = cx.get('cx', cx); T = int(c.get('cx_T', 0)) or int(c.get('cx_n1', 0)) + int(c.get('cx_n2', 0)) + int(c.get('cx_n3', 0))
    rc, out = codec.run_replay(ctx, 'frame', T)
    return rc != 0, codec._short(out)
