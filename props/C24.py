"""C24 schedule: real Schedule::test against the window predicate (symbolic clock), decode_dow over all short strings"""
import os
from vf.core import *
FUN = ['FIX8::Schedule::test', 'FIX8::Schedule::Schedule(start,end,duration,utc_offset,start_day,end_day)', 'FIX8::Tickval::Tickval(bool)/adjust/in_range/get_tm/as_tm/get_ticks/is_errorval, operator+ <= >']
NOW = '_ZNSt6chrono3_V212system_clock3nowEv'
STUBS = ['std::chrono::system_clock::now := the harness-chosen instant (symbolic clock)',
         'gmtime_r := tm_wday = (floor(secs/86400)+4) mod 7 for the second it is asked for (calendar contract), all other fields arbitrary']

LIBS = ['-L' + REPO + '/runtime/.libs', '-lfix8', '-Wl,-rpath,' + REPO + '/runtime/.libs']
DOWFUN = ['FIX8::decode_dow', 'FIX8::StrToLower', 'FIX8::InPlaceStrToLower', 'static initialiser of runtime/f8utils.cpp (day_names, days, daymap)',
          'std::multimap<char,int> header code (range constructor/_M_insert_equal, equal_range, lower/upper bound), std::distance']
DOWSTUBS = ['std::string out-of-line members, operator new/delete, _Rb_tree_insert_and_rebalance/_Rb_tree_increment: models/cxx.c (+ operator[], begin, end: models/c24_env.c)',
            'isupper/tolower/isdigit := "C" locale (ISO C)', '__cxa_atexit, std::ios_base::Init := no effect']

def run(ctx):
    kf = known_findings('C24'); defs = kf_defines(kf)
    ll = ctx.build_ir('c24.cpp', 'leaf')
    ctx.translate(ll, ['vf_sched_test'], 'c24.c', provided=['gmtime_r', NOW])
    ctx.translate(ll, ['vf_sched_test'], 'c24gen.c', opts=['--prefix', 'gen_'], provided=['gmtime_r', NOW])
    exe = ctx.native('c24diff', ['replay/c24_diff.c', 'replay/c24_clock.cpp', ctx.work + '/c24gen.c', 'shims/c24.cpp'], libs=LIBS)
    r = sh([exe, str(ctx.seed)], env=dict(os.environ, TZ='UTC'))
    if r.returncode != 0: raise Broken('translator validation failed: ' + r.stdout[-500:])
    ctx.validation.append(dict(kernels=['vf_sched_test'], result=r.stdout.strip()))
    H = VERIF + '/harness/C24_sched.c'
    bnd = 'every start < end within a day (nanosecond resolution), utc offset -720..840 min, every instant from 1970-01-03 to about 2201'
    ctx.add(Harness('C24_daily', H, defines=defs + ['MODE=0'], unwind=3, backend='cvc5int', timeout=600, functions=FUN, stubs=STUBS,
                    bounds=bnd + ', both values of the previous state', desc='daily: test(prev) == [start <= local time of day <= end]'))
    ctx.add(Harness('C24_weekly_base', H, defines=defs + ['MODE=1'], unwind=3, backend='cvc5int', timeout=600, functions=FUN, stubs=STUBS,
                    bounds=bnd + ', all 49 (start day, end day) pairs, previous state = true (start-up value)', desc='weekly: first test after start-up == window predicate'))
    ctx.add(Harness('C24_weekly_step', H, defines=defs + ['MODE=2'], unwind=3, backend='cvc5int', timeout=600, functions=FUN, stubs=STUBS,
                    bounds=bnd + ', all 49 day pairs, previous instant at most 60 s earlier with the previous state equal to the window predicate there',
                    desc='weekly: inductive step over polls <= 60 s apart'))
    # thorough: the same three queries over a wider clock range (pinning the start day made cvc5 slower, not faster: > 15 min per query)
    for mode, nm in ((0, 'daily'), (1, 'weekly_base'), (2, 'weekly_step')):
        ctx.add(Harness('C24_%s_wide' % nm, H, defines=defs + ['MODE=%d' % mode, 'DMAX=100000'], unwind=3, backend='cvc5int', timeout=1800, functions=FUN, stubs=STUBS, tier='thorough',
                        bounds=bnd.replace('about 2201', 'about 2243'), desc='as the quick query, day numbers up to 100000'))
    # decode_dow: cut mode, the shim linked with runtime/f8utils.cpp; the TU's own static initialiser builds day_names/daymap
    dll = ctx.link_ir([ctx.build_ir('c24.cpp', 'cut'), ctx.build_ir(REPO + '/runtime/f8utils.cpp', 'cut')], 'c24dow_all')
    ctx.translate(dll, ['vf_decode_dow', '_GLOBAL__sub_I_f8utils.cpp'], 'c24dow.c', stubfiles=['common.stubs'], models=['cxx.c', 'stubs.c', 'c24_env.c'])
    for n in range(0, 4):
        ctx.add(Harness('C24_dow_len%d' % n, VERIF + '/harness/C24_dow.c', defines=defs + ['LEN=%d' % n, 'VF_GLOBAL_INIT=_GLOBAL__sub_I_f8utils_2ecpp', 'VF_MAXCOPY=4'], unwind=9,
                        unwindset=['vf_copy.0:6'], timeout=600, functions=DOWFUN, stubs=DOWSTUBS,
                        bounds='every string of %d bytes (all 256 values per byte)' % n, desc='decode_dow == unique-prefix table'))
    ctx.assumptions += ['gmtime_r implements the proleptic Gregorian UTC calendar (only tm_wday is constrained; the code reads nothing else)',
                        'schedules as Configuration::create_schedule produces them with both times given: 0 <= start < end < 24 h']
    ctx.solve(jobs=4)
    ctx.handle_failures(replay, kf)
    announce_known(ctx, kf, replay)
    return ctx.finish()

def _exe(ctx):
    return ctx.native('c24replay', ['replay/c24_replay.cpp'], flags=('-O1', '-fsanitize=address,undefined', '-fno-sanitize-recover=undefined'),
                      libs=LIBS)

def replay(ctx, cx, h=None):
    c = cx.get('cx', cx)
    env = dict(os.environ, ASAN_OPTIONS='detect_leaks=0', TZ='UTC')
    if 'cx_s' in c or 'dow' in c:
        b = c.get('dow') or c['cx_s'][:int(c['cx_len'])]
        r = sh([_exe(ctx), 'dow'] + [str(int(v) - 256 if int(v) > 127 else int(v)) for v in b], env=env)
    elif 'walk' in c:
        r = sh([_exe(ctx), 'walk'] + [str(v) for v in c['walk']], env=env)
    else:
        mode = c.get('cx_mode')
        if mode is None: mode = {'C24_daily': 0, 'C24_weekly_base': 1}.get(h.name if h else '', 2)
        sd = c.get('cx_sd', -1 if int(mode) == 0 else 0); ed = c.get('cx_ed', -1 if int(mode) == 0 else 0)
        r = sh([_exe(ctx), 'sched', str(int(mode))] + [str(int(c.get(k, 0))) for k in ('cx_t0', 'cx_t1', 'cx_start', 'cx_end', 'cx_off')] + [str(int(sd)), str(int(ed)), str(int(c.get('cx_prev', 0)))], env=env)
    return r.returncode == 1, r.stdout.strip()[-400:].replace('\n', ' | ')
