"""C08 numeric text conversions"""
import os
from vf.core import *

def run(ctx):
    kf = known_findings('C08'); defs = kf_defines(kf)
    ll = ctx.build_ir('c08.cpp', 'leaf')
    roots = ['vf_itoa_int', 'vf_itoa_uint', 'vf_atoi_int', 'vf_atoi_uint']
    ctx.translate(ll, roots, 'c08.c')
    ctx.translate(ll, roots, 'c08gen.c', opts=['--prefix', 'gen_'])
    exe = ctx.native('c08diff', ['replay/c08_diff.c', ctx.work + '/c08gen.c', 'shims/c08.cpp'])
    r = sh([exe, str(ctx.seed)])
    if r.returncode != 0: raise Broken('translator validation failed: ' + r.stdout[-500:])
    ctx.validation.append(dict(kernels=roots, result=r.stdout.strip()))
    H = VERIF + '/harness'
    # integers: split the int32 range by sign and digit count so that every query is small
    cuts = [0, 9, 99, 999, 9999, 99999, 999999, 9999999, 99999999, 999999999, 2147483647]
    rng = []
    for i in range(1, len(cuts)):
        rng.append((cuts[i - 1] + (1 if i > 1 else 0), cuts[i]))
        rng.append((-cuts[i] - (1 if i == len(cuts) - 1 else 0), -cuts[i - 1] - 1))
    for lo, hi in rng:
        big = max(abs(lo), abs(hi)) > 999999
        ctx.add(Harness('C08_int_%d_%d' % (lo, hi), H + '/C08_int.c', defines=['LO=(%d)' % lo if lo > -2147483648 else 'LO=(-2147483647-1)', 'HI=(%d)' % hi], unwind=13, backend='kissat',
                        timeout=600 if not big else 6000, tier='thorough' if big else 'quick',
                        functions=['FIX8::itoa<int>', 'FIX8::fast_atoi<int>'], bounds='every int32 v in [%d, %d]' % (lo, hi), desc='canonical text + parse-back'))
    ctx.add(Harness('C08_int_edges', H + '/C08_int.c', defines=['EDGES'], unwind=27, timeout=300, functions=['FIX8::itoa<int>', 'FIX8::fast_atoi<int>'],
                    bounds='52 boundary values: +-10^k, +-(10^k - 1), INT_MAX, INT_MIN and neighbours (the 7..10-digit ranges are exhaustive only in the thorough tier)', desc='canonical text + parse-back'))
    precs = range(0, 10) if ctx.tier == 'thorough' else (2,)
    for p in precs:
        ctx.add(Harness('C08_dtoa_p%d' % p, H + '/C08_dtoa.c', defines=defs + ['PREC=%d' % p, 'MODP_C="%s/runtime/modp_numtoa.c"' % REPO], unwind=26, cover_defines=['CX_V=1234.5678'],
                        flags=['-I', REPO + '/include', '--stop-on-fail'], backend='default', timeout=600 if ctx.tier == 'quick' else 3000, mem_gb=16,
                        functions=['modp_dtoa (runtime/modp_numtoa.c, compiled by CBMC\'s C front end)'],
                        bounds='every finite double |v| < 2^31, precision %d' % p, desc='exact correct-rounding oracle in 128-bit integers'))
    # boundary values of the magnitude bound and of the whole/fraction split: concrete v and precision (solver-side constant folding)
    edges = ['2147483647.0', '-2147483647.0', '2147483646.75', '-2147483646.25', '1073741824.0', '999999999.0', '1000000000.0', '0.0', '-1.0', '9.0', '0.5', '2.5', '0.125', '65536.0']
    for i, e in enumerate(edges):
        for p in ((0, 1, 2, 9) if ctx.tier == 'quick' else range(10)):
            ctx.add(Harness('C08_dtoa_edge%02d_p%d' % (i, p), H + '/C08_dtoa.c', defines=defs + ['PREC=%d' % p, 'CX_V=%s' % e, 'MODP_C="%s/runtime/modp_numtoa.c"' % REPO], unwind=26, cover=(i == 0 and p == 2),
                            flags=['-I', REPO + '/include', '--stop-on-fail'], timeout=120, mem_gb=4, functions=['modp_dtoa (runtime/modp_numtoa.c)'],
                            bounds='v = %s (exactly representable), precision %d' % (e, p), desc='boundary value against the exact correct-rounding oracle'))
    ctx.assumptions += ['round-to-nearest-even FPU mode', 'sprintf("%e") path of modp_dtoa (|v| > 2^31-1) is outside the magnitude bound',
                        'fast_atof is exercised by the native differential run only in this tier (symbolic double division chains did not return verdicts inside the budget)']
    ctx.solve()
    ctx.handle_failures(replay, kf, classifier=classify)
    announce_known(ctx, kf, replay)
    return ctx.finish()

def classify(cx, h=None):
    """which committed known finding (if any) covers this replayed float counterexample"""
    c = cx.get('cx', cx)
    if 'cx_prec' not in c or not isinstance(c.get('cx_v'), dict): return None
    import struct
    from fractions import Fraction
    v = abs(struct.unpack('<d', struct.pack('<Q', c['cx_v']['bits']))[0]); p = max(0, min(9, int(c['cx_prec'])))
    if v > 2147483647.0: return 'dtoa-eband'
    whole = int(v); f = Fraction(v) - whole; x = f * 10**p              # exact scaled fraction
    dist = abs((x - int(x)) - Fraction(1, 2))                            # distance to the rounding tie
    thr = x / 2**51 + Fraction(1, 2**51)                                 # rounding error bound of the double product
    return 'dtoa-near-tie' if dist <= thr else None

def replay(ctx, cx, h=None):
    c = cx.get('cx', cx)
    exe = ctx.native('c08replay', ['replay/c08_replay.cpp', REPO + '/runtime/modp_numtoa.c'], flags=('-O1', '-fsanitize=address,undefined'))
    if 'cx_prec' in c:
        v = c['cx_v']; arg = ('0x%016x' % v['bits']) if isinstance(v, dict) else str(v)
        r = sh([exe, 'dtoa', arg, str(int(c['cx_prec']))], env=dict(os.environ, ASAN_OPTIONS='detect_leaks=0'))
    else:
        v = int(c['cx_v']);  v = v - 2**32 if v >= 2**31 else v
        r = sh([exe, 'int', str(v)], env=dict(os.environ, ASAN_OPTIONS='detect_leaks=0'))
    return r.returncode != 0, r.stdout.strip()[-300:].replace('\n', ' | ')
