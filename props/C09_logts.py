"""C09, log-timestamp clause: the real FIX8::GetTimeAsStringMS (runtime/f8utils.cpp) rendered through the ostream formatting
model; for every instant and 1..9 decimal places the seconds field of the text is in 00..59.
To merge into props/C09.py:   from props import C09_logts
                              ... in run(): C09_logts.add_harnesses(ctx, defs)   (before ctx.solve())
                              ... replay: route harnesses whose name starts with 'C09_logts' to C09_logts.replay
This module can also be run on its own (./check C09_logts) for development."""
import os
from vf.core import *

FUN = ['FIX8::GetTimeAsStringMS', 'FIX8::Tickval::Tickval(time_t,long)', 'FIX8::Tickval::secs', 'FIX8::Tickval::nsecs', 'std::setw/setfill/setprecision, ios_base::setf (header code)']
STUBS = ['std::ostringstream, operator<<(int|char|double|_Setw|_Setfill|_Setprecision): models/ostream_fmt.c (double: floatfield fixed, exact integer arithmetic, round-half-even = glibc printf); '
         'validated against glibc on 300000 vectors per run (replay/c09_logts_diff.c)',
         'gmtime_r := fixed valid date/hour/minute fields, tm_sec = s mod 60 (the date part of the stamp is not the subject of this clause)',
         'std::string: models/cxx.c']

GTS = '_ZN4FIX817GetTimeAsStringMSERNSt7__cxx1112basic_stringIcSt11char_traitsIcESaIcEEEPKNS_7TickvalEjb'

def build(ctx):
    shim = ctx.build_ir('c09_logts.cpp', 'cut'); ut = ctx.build_ir(REPO + '/runtime/f8utils.cpp', 'cut')
    ll = ctx.link_ir([shim, ut], 'c09lall')
    ctx.translate(ll, ['vf_logts', 'vf_fmt_fixed'], 'c09l.c', stubfiles=['common.stubs'], models=['cxx.c', 'stubs.c', 'ostream_fmt.c'], provided=['gmtime_r'])
    # model + translator validation: the generated C (real GetTimeAsStringMS + formatting model), compiled with gcc, against glibc's printf
    exe = ctx.native('c09logtsdiff', ['replay/c09_logts_diff.c'], flags=('-O1',), defines=['VF_MAXCOPY=40'])
    r = sh([exe])
    if r.returncode != 0: raise Broken('ostream formatting model disagrees with glibc: ' + r.stdout[-500:])
    ctx.validation.append(dict(kernels=['models/ostream_fmt.c (setw/setfill/setprecision/fixed double, int, char through a translated std::ostringstream user) vs glibc snprintf'], result=r.stdout.strip()))

def add_harnesses(ctx, defs=()):
    build(ctx)
    places = (1, 6, 9) if ctx.tier == 'quick' else range(1, 10)
    for d in places:
        ctx.add(Harness('C09_logts_d%d' % d, VERIF + '/harness/C09_logts.c', defines=list(defs) + ['DPLACES=%d' % d, 'VF_MAXCOPY=40'], unwind=3,
                        unwindset=['vf_logts.0:41', 'vf_logts.1:41', 'vf_logts.2:41', 'vf_copy.0:42'] + ['%s.%d:10' % (GTS, i) for i in range(12)],   # a digit-scaling loop in the renderer runs <= 9 times timeout=900, functions=FUN, stubs=STUBS,
                        bounds='every instant with 0 <= seconds < 2^32 and 0 <= nanoseconds < 10^9, %d decimal place(s), UTC' % d,
                        desc='GetTimeAsStringMS text: layout and seconds field in 00..59'))
    ctx.assumptions += ['log timestamp: local-time rendering (localtime_r, TZ database) and dplaces = 0 or > 9 are outside the claim']

def replay(ctx, cx, h=None):
    c = cx.get('cx', cx)
    exe = ctx.native('c09logtsreplay', ['replay/c09_logts_replay.cpp', REPO + '/runtime/f8utils.cpp'], flags=('-O1',),
                     libs=['-L' + REPO + '/runtime/.libs', '-lfix8', '-Wl,-rpath,' + REPO + '/runtime/.libs'])
    r = sh([exe, str(int(c['cx_secs'])), str(int(c['cx_nsecs'])), str(int(c['cx_dplaces']))], env=dict(os.environ, TZ='UTC'))
    return r.returncode == 1, r.stdout.strip()[-300:].replace('\n', ' | ')

def run(ctx):
    kf = [e for e in known_findings('C09') if 'logts' in (e.get('define') or '').lower() or 'GetTimeAsStringMS' in e.get('what', '')]
    add_harnesses(ctx, kf_defines(kf))
    ctx.solve(jobs=4)
    ctx.handle_failures(replay, kf)
    announce_known(ctx, kf, replay)
    return ctx.finish()
