"""session world, inbound side: shared build for C19, C20, C22, C23 (shims/sess_in.cpp includes runtime/session.cpp)"""
from vf.core import *
ROOTS = ['vf_world_init', 'vf_session_init', 'vf_header_init', 'vf_message_init', 'vf_set_bool_field', 'vf_set_time_field', 'vf_set_int_field',
         'vf_set_hbi_field', 'vf_set_str_field', 'vf_msg_set_compids', 'vf_msg_set_reset', 'vf_msg_sci', 'vf_msg_tci', 'vf_msg_reset', 'vf_process', 'vf_seqcheck', 'vf_hb_service', 'vf_handle_logon',
         'vf_sid_init', 'vf_sid_eq', 'vf_sid_ne', 'vf_sid_same_sender', 'vf_sid_same_target', 'vf_sid_same_side_sender', 'vf_sid_same_side_target', 'vf_throw_decode',
         'vf_sess_set_seq', 'vf_sess_set_state', 'vf_sess_set_active', 'vf_sess_set_req_seq', 'vf_sess_set_ptrs', 'vf_sess_next_send', 'vf_sess_next_recv',
         'vf_sess_state', 'vf_sess_is_shutdown_flag', 'vf_sess_clear_control', 'vf_sess_set_flags', 'vf_sess_set_sid', 'vf_sess_set_sci', 'vf_sess_sid_sender', 'vf_sess_sid_target',
         'vf_sess_set_times', 'vf_sess_last_sent', 'vf_sess_last_received', 'vf_conn_set', 'vf_conn_hb']
PROVIDED = ['vf_gen', 'vf_rec_send', 'vf_deliver', 'vf_is_admin', 'vf_authenticate']
STUBS = ['fast_atoi<unsigned> on the inbound bytes := MsgSeqNum attribute of the abstract message (any unsigned 32-bit value); real parser: C19_scan and C08',
         'Message::factory := abstract message (models/sess_msg.c): yields the harness message, raises a decoding failure (InvalidMessage / InvalidVersion[force_logoff] / MissingMandatoryField / BadCheckSum / std::exception) or returns null',
         'MessageBase::get<T>/have := symbolic header/body attributes of the abstract message (43,52,122,36,7,16,112,108,141,49,56)',
         'VSession::send / generate_* (shim overrides) := record (kind, arguments, custom seqnum, no_increment); message construction and transmission are outside',
         'f8Exception::format<..>, ostringstream := no text produced (what() == "")', 'GlobalLogger/SingleLogger::is_loggable := false; session loggers absent (null)',
         'std::chrono::system_clock::now := arbitrary non-decreasing instants', 'pthread_spin_* := uncontended; clock_nanosleep := returns at once; Connection::stop := recorded',
         'std::string out-of-line members, operator new, exceptions (typeinfo ancestry): models/cxx.c']
# loops of the models and of the real code that every harness of this world can reach (bounds: typeinfo table rows, catch clauses, literal/string lengths, digits)
US = ['vf_copy.0:42', 'vf_ti_match.0:140', '__vf_landing.0:6', 'x_strlen.0:64', 'x_memcmp.0:4', '_ZL4slenPKc.0:4', '_ZN4FIX89fast_atoiIjEET_PKcc.0:12',
      'x__ZNKSt7__cxx1112basic_stringIcSt11char_traitsIcESaIcEE4findEPKcmm.0:20', 'x__ZNKSt7__cxx1112basic_stringIcSt11char_traitsIcESaIcEE4findEPKcmm.1:20']
ASSUME = ['operator new never fails', 'the session has no persister, no loggers and no SessionConfig (_persist, _logger, _plogger, _sf null) unless a harness says otherwise',
          'Session/Connection objects are not constructed (constructors start threads): typed static storage with exactly the members read by the code under test set through compiled setters',
          'print/printnohb console paths are off (_control bits clear)']

def kf_defs(pid):
    """committed known findings of a property + their harness defines (VF_KF_EXTRA: extra defines for trying a proposed entry before it is committed)"""
    import os as _os
    kf = known_findings(pid)
    return kf, kf_defines(kf) + _os.environ.get('VF_KF_EXTRA', '').split()

def build(ctx, name='sess_in.c', roots=None, real_atoi=False, light=False):
    # sess_in.cpp #includes runtime/session.cpp and shims/sess_common.cpp: the latter's content enters the cache key through a define
    ll = ctx.build_ir('sess_in.cpp', 'cut', extra=['-DVF_DEP_HASH=0x' + file_hash(VERIF + '/shims/sess_common.cpp')])
    # abstract-message harnesses: MsgSeqNum is an attribute of the abstract message (cut point fast_atoi<unsigned> := m_seq; the parser itself is C08's
    # subject and runs for real in the raw-bytes harness C19_scan, built with real_atoi=True); a decimal parser/printer round trip is a hard SAT problem
    info = ctx.translate(ll, roots or ROOTS, name, stubs=({} if real_atoi else {'_ZN4FIX89fast_atoiIjEET_PKcc': 'st_atoi_seq'}), stubfiles=['common.stubs'] + ([] if light else ['sess.stubs']), models=['cxx.c', 'stubs.c'] + ([] if light else ['sess_env.c', 'sess_msg.c']), provided=PROVIDED + ['vf_gen_token'], opts=['--rpo', '--vdispatch'])
    # guard of the exception model (st_exc_throw): f8Exception::what is the only what() of the fix8 exception hierarchy in this translation
    whats = set(re.findall(r'_ZNK4FIX8\w*?4whatEv', open(info['c']).read()))
    if whats - {'_ZNK4FIX811f8Exception4whatEv'}: raise Broken('an exception class overrides what(): %s (exception model of models/sess_env.c no longer valid)' % sorted(whats))
    return info

# ---------------------------------------------------------------- native replay (real Session over libfix8.so + the repo's FIX4.2 unit-test schema)
def replay_exe(ctx):
    return ctx.native('sess_replay', ['replay/sess_replay.cpp'], flags=('-O1', '-I' + REPO + '/utests'),
                      libs=['-L' + REPO + '/runtime/.libs', '-lfix8', '-L' + REPO + '/utests/.libs', '-lutest',
                            '-Wl,-rpath,' + REPO + '/runtime/.libs', '-Wl,-rpath,' + REPO + '/utests/.libs'])

def run_steps(ctx, steps):
    """runs the native driver; returns (list of parsed step dicts, raw text)"""
    import re as _re
    r = sh([replay_exe(ctx)] + steps, cwd=ctx.work, timeout=60)
    out = []
    for line in r.stdout.splitlines():
        if line.startswith('SID '):
            out.append(dict(op='sid', **{k: int(v) for k, v in _re.findall(r'(\w+)=(\d+)', line)})); continue
        m = _re.match(r'STEP (\w+) ret=(\d) thrown=(\d) events:(.*?) \| state=(\d+) recv=(\d+) send=(\d+) shutdown=(\d) sid=(.*?)>(.*?) delivered=(\d+)', line)
        if not m: continue
        ev = m.group(4)
        sent = [dict(type=t, **dict(kv.split('=', 1) for kv in f.split(',') if '=' in kv)) for t, f in _re.findall(r'send:(\w+)\[(.*?)\]', ev)]
        out.append(dict(op=m.group(1), ret=int(m.group(2)), thrown=int(m.group(3)), delivered=[int(x) for x in _re.findall(r'deliver:(\d+)', ev)], sent=sent,
                        state=int(m.group(5)), recv=int(m.group(6)), send=int(m.group(7)), shutdown=int(m.group(8)), sid=(m.group(9), m.group(10)), ndelivered=int(m.group(11))))
    return out, r.stdout.strip()[-600:].replace('\n', ' | ')

def cstr(cx, key, n):
    """counterexample bytes -> a CompID usable on the wire and on a command line (printable, no SOH/'='/','): bytes are mapped injectively per position"""
    v = cx.get(key, [0, 0])
    if not isinstance(v, list): v = [v]
    v = (list(v) + [0, 0])[:n]
    return ''.join(chr(ord('A') + (int(b) % 26)) if not (48 <= int(b) <= 57 or 65 <= int(b) <= 90 or 97 <= int(b) <= 122) else chr(int(b)) for b in v)

def compids(cx, keys, lens):
    """map the counterexample's CompID byte strings to wire strings preserving exactly their equality pattern"""
    vals = []
    for k, n in zip(keys, lens):
        v = cx.get(k, [0, 0]); v = (list(v) + [0, 0])[:n]; vals.append(tuple(int(b) for b in v))
    names = {}; out = []
    for v in vals:
        if v not in names: names[v] = 'ABCDEFGH'[len(names)] * len(v) if len(v) else ''
        out.append(names[v])
    return out
