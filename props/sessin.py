"""session world, inbound side: shared build for C19, C20, C22, C23 (shims/sess_in.cpp includes runtime/session.cpp)"""
from vf.core import *
ROOTS = ['vf_world_init', 'vf_session_init', 'vf_header_init', 'vf_message_init', 'vf_set_bool_field', 'vf_set_time_field', 'vf_set_int_field',
         'vf_set_hbi_field', 'vf_set_str_field', 'vf_msg_set_compids', 'vf_msg_set_reset', 'vf_msg_sci', 'vf_msg_tci', 'vf_msg_reset', 'vf_process', 'vf_seqcheck', 'vf_hb_service', 'vf_handle_logon',
         'vf_sid_init', 'vf_sid_eq', 'vf_sid_ne', 'vf_sid_same_sender', 'vf_sid_same_target', 'vf_sid_same_side_sender', 'vf_sid_same_side_target', 'vf_throw_decode',
         'vf_sess_set_seq', 'vf_sess_set_state', 'vf_sess_set_active', 'vf_sess_set_req_seq', 'vf_sess_set_ptrs', 'vf_sess_next_send', 'vf_sess_next_recv',
         'vf_sess_state', 'vf_sess_is_shutdown_flag', 'vf_sess_clear_control', 'vf_sess_set_flags', 'vf_sess_set_sid', 'vf_sess_set_sci', 'vf_sess_sid_sender', 'vf_sess_sid_target',
         'vf_sess_set_times', 'vf_sess_last_sent', 'vf_sess_last_received', 'vf_conn_set', 'vf_conn_hb']
PROVIDED = ['vf_gen', 'vf_rec_send', 'vf_deliver', 'vf_is_admin', 'vf_authenticate', 'vf_msg_deleted']
STUBS = ['Message::factory := abstract message (models/sess_msg.c): yields the harness message, raises a decoding failure (InvalidMessage / InvalidVersion[force_logoff] / MissingMandatoryField / BadCheckSum / std::exception) or returns null',
         'MessageBase::get<T>/have := symbolic header/body attributes of the abstract message (43,52,122,36,7,16,112,108,141,49,56)',
         'VSession::send / generate_* (shim overrides) := record (kind, arguments, custom seqnum, no_increment); message construction and transmission are outside',
         'f8Exception::format<..>, ostringstream := no text produced (what() == "")', 'GlobalLogger/SingleLogger::is_loggable := false; session loggers absent (null)',
         'std::chrono::system_clock::now := arbitrary non-decreasing instants', 'pthread_spin_* := uncontended; clock_nanosleep := returns at once; Connection::stop := recorded',
         'std::string out-of-line members, operator new, exceptions (typeinfo ancestry): models/cxx.c']
ASSUME = ['operator new never fails', 'the session has no persister, no loggers and no SessionConfig (_persist, _logger, _plogger, _sf null) unless a harness says otherwise',
          'Session/Connection objects are not constructed (constructors start threads): typed static storage with exactly the members read by the code under test set through compiled setters',
          'print/printnohb console paths are off (_control bits clear)']

def build(ctx, name='sess_in.c'):
    # sess_in.cpp #includes runtime/session.cpp and shims/sess_common.cpp: the latter's content enters the cache key through a define
    ll = ctx.build_ir('sess_in.cpp', 'cut', extra=['-DVF_DEP_HASH=0x' + file_hash(VERIF + '/shims/sess_common.cpp')])
    return ctx.translate(ll, ROOTS, name, stubfiles=['common.stubs', 'sess.stubs'], models=['cxx.c', 'stubs.c', 'sess_env.c', 'sess_msg.c'], provided=PROVIDED + ['vf_gen_token'])
