"""C01 encode/decode round trip: the real encoder and decoder (Message::encode, Message::factory, decode, decode_group, the generated field
instantiators, std::map code as instantiated) over the f8c-generated mini schema (L3 codec world, props/l3.py): one concrete message shape
per query, symbolic values"""
from vf.core import *
from props import l3
FUN = l3.FUN_ENC + l3.FUN_DEC

def run(ctx):
    kf = l3.kfs('C01'); defs = kf_defines(kf)
    l3.world(ctx)
    quick = ['hb', 'basic', 'tsdata', 'group1']
    thorough = quick + ['basic_r', 'group2', 'bigint', 'ts2', 'all']
    for shape in (quick if ctx.tier == 'quick' else thorough):
        l3.harness(ctx, 'C01_rt_%s' % shape, 'C01_rt.c', shape, defs, functions=FUN, timeout=1200 if ctx.tier == 'quick' else 3000,
                   desc='d = factory(encode(m)) succeeds, holds the fields/values/group shape of m; encode(d) is byte-identical')
    # nested groups (extension, thorough tier): message List of schemas/mini2.xml, harness/C11_nested.c MODE=3 (tools/reports/C11.md "Nested groups")
    nested = [sh_ for sh_ in (['nested1', 'nested2'] if ctx.tier == 'thorough' else []) if not getattr(ctx, 'only', None) or any(o in 'C01_rt_' + sh_ for o in ctx.only)]
    if nested: l3.world2(ctx)
    for shape in nested:
        h = l3.harness(ctx, 'C01_rt_%s' % shape, 'C11_nested.c', shape, defs + ['MODE=3', 'L3_WORLD_C="l3w2.c"'], functions=FUN + l3.FUN_NEST, timeout=3000,
                       desc='d = factory(encode(m)) succeeds, holds the fields/values/group and nested group shape of m; encode(d) is byte-identical')
        h.object_bits = 13; h.nested = True
    ctx.assumptions += ['operator new never fails', 'rb-tree rebalancing replaced by an unbalanced BST with the same in-order sequence',
                        'gmtime_r follows its contract (proleptic Gregorian UTC) for the instants the message carries',
                        'schema: schemas/mini.xml compiled by the f8c of the tree under test on every run; floats (C08 finding) are not part of the shapes; nesting depth 1']
    ctx.solve(jobs=4)
    ctx.handle_failures(replay, kf, classifier=classify)
    announce_known(ctx, kf, replay)
    return ctx.finish()

def classify(cx, h):
    """known-finding id of a reproduced counterexample, or None"""
    c = cx.get('cx', cx); shape = h.shape if h is not None else c.get('shape')
    return 'C01-data-nul' if shape and l3.data_has_nul(c, shape) else None

def replay(ctx, cx, h=None):
    c = cx.get('cx', cx)
    shape = h.shape if h is not None else c.get('shape')
    rc, out = l3.run_replay(ctx, 'rt', l3.cx_args(c, shape), exe=l3.replay_exe2(ctx) if shape in l3.NEST else None)
    bad = rc != 0; what = l3.short(out)
    e1 = next((bytes.fromhex(l.split()[1]) for l in out.splitlines() if l.startswith('E1 ')), None)
    if not bad and e1 is not None:
        w = l3.wire_problem(e1, shape, c)
        if w: bad = True; what = 'wire format: %s (%r)' % (w, e1.replace(b'\x01', b'|'))
    return bad, 'round trip of shape %s: %s' % (shape, what)
