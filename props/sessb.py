"""session world, outbound side: shared build/translate step of C16, C17, C18"""
from vf.core import *
ROOTS = ['vf_sb_globals', 'vf_sb_conn_init', 'vf_sb_init', 'vf_sb_batchbuf_len', 'vf_sb_msg_init', 'vf_sb_msg_custom', 'vf_sb_msg_noinc',
         'vf_sb_msg_eob', 'vf_sb_msg_type', 'vf_fld_num', 'vf_fld_uint', 'vf_fld_bool', 'vf_fld_time', 'vf_fld_set_time',
         'vf_sb_send_p', 'vf_sb_send_r', 'vf_sb_send_batch', 'vf_sb_vec_set', 'vf_sb_update_persist', 'vf_sb_recover', 'vf_sb_process', 'vf_sb_throw_invalid', 'vf_sess_set_active', 'vf_sb_resend_request', 'vf_sb_retrans', 'vf_sb_rctx_init', 'vf_sb_rctx_nomore', 'vf_sb_get_next_send', 'vf_fld_set_int', 'vf_fld_int',
         # shims/sess_common.cpp
         'vf_sess_set_seq', 'vf_sess_set_state', 'vf_sess_set_ptrs', 'vf_sess_set_flags', 'vf_sess_set_sid', 'vf_sess_next_send', 'vf_sess_next_recv', 'vf_sess_state']
PROVIDED = ['_ZN4FIX87Message7factoryERKNS_10F8MetaCntxERKNSt7__cxx1112basic_stringIcSt11char_traitsIcESaIcEEEbb', 'vf_rec_range', '_ZNK4FIX87Message6encodeEPPc', '_ZN4FIX811MessageBase6removeEt', 'vf_rec_put', 'vf_rec_putc', 'vf_rec_getc', 'vf_msg_is_admin']
FUN_SEND = ['FIX8::Session::send(Message*,bool,unsigned,bool)', 'Session::send(Message&,unsigned,bool)', 'Session::send_batch', 'Session::send_process',
            'Session::update_persist_seqnums', 'Session::recover_seqnums', 'Session::modify_header', 'Session::modify_outbound',
            'Connection::write(Message*,bool)', 'Connection::write(Message&)', 'Connection::write_batch', 'Connection::send',
            'FIXWriter::write(Message*,bool)', 'FIXWriter::write(Message&)', 'FIXWriter::write_batch', 'FIXWriter::send', 'f8_scoped_spin_lock', 'Field<T,N> constructors', 'Tickval']
STUBS_SEND = ['MessageBase::have / add_field<T> / remove / get<sending_time> := abstract header attribute record (presence + value of 34,43,49,52,56,122)',
              'Message::encode(char**) := abstract encoder: 2..4 symbolic non-NUL bytes + NUL written inside the caller buffer, header attributes snapshotted (= wire header)',
              'Persister := recording subclass VPers (put(seq,bytes), control put/get)', 'Message::is_admin := attribute of the abstract message; message kinds D(app) 0 4 5',
              'Poco StreamSocket::sendBytes := accepts all bytes, appends to the wire capture (models/sessb_env.c)', 'pthread_spin_* := sequential lock with discipline assertions',
              'system_clock::now := arbitrary non-decreasing instant', 'VMsg deleting destructor := recorded, not executed',
              'FIXWriter ctor: ff_unbounded_queue/f8_mutex/f8_thread member constructors := no-ops (unused in pm_thread)', 'logging off (common.stubs)',
              'std::string / operator new / exceptions: models/cxx.c']

def build(ctx, name='sessb', extra_roots=(), extra_provided=(), defines=()):
    shim = ctx.build_ir('sessb.cpp', 'cut', extra=['-D' + d for d in defines]); com = ctx.build_ir('sess_common.cpp', 'cut')
    ll = ctx.link_ir([shim, com], name + '_all')
    info = ctx.translate(ll, ROOTS + list(extra_roots), 'sessb.c', stubfiles=['common.stubs', 'sessb.stubs'], models=['cxx.c', 'stubs.c', 'sessb_env.c'],
                         provided=PROVIDED + list(extra_provided))
    return info

# ---------------------------------------------------------------- native replay (real Session + ClientConnection over loopback TCP, libfix8.so + libutest.so)
def native_driver(ctx):
    return ctx.native('sessb_replay', ['replay/sessb_replay.cpp'], flags=('-O1', '-fno-access-control', '-I' + REPO + '/utests'),
                      libs=['-L' + REPO + '/runtime/.libs', '-lfix8', '-L' + REPO + '/utests/.libs', '-lutest',
                            '-Wl,-rpath,' + REPO + '/runtime/.libs', '-Wl,-rpath,' + REPO + '/utests/.libs'])

def _lst(c, k, n):
    v = c.get(k, [])
    if not isinstance(v, list): v = [v]
    return [int(x) for x in v] + [0] * (n - len(v))

def replay_send(ctx, cx, bit):
    """replays a C16/C17 send scenario; bit 1 = C16 oracle, 2 = C17 oracle"""
    c = cx.get('cx', cx); exe = native_driver(ctx)
    j = int(c.get('cx_j', 1)); kind = _lst(c, 'cx_kind', j); p34 = _lst(c, 'cx_pre34', j); p43 = _lst(c, 'cx_pre43', j); orig = _lst(c, 'cx_orig', j)
    args = [exe, 'send'] + [str(int(c.get(k, 0))) for k in ('cx_n', 'cx_r', 'cx_always', 'cx_persist', 'cx_op', 'cx_j', 'cx_destroy', 'cx_custom', 'cx_noinc')]
    for i in range(j): args += [str(kind[i]), str(p34[i]), str(p43[i]), str(orig[i] if orig[i] else 1)]
    if 'cx_put_ok' in c or 'cx_putc_ok' in c:      # results the recording persister gave to the k-th message put / control put
        args += ['P' + ''.join(str(x & 1) for x in _lst(c, 'cx_put_ok', 0)), 'C' + ''.join(str(x & 1) for x in _lst(c, 'cx_putc_ok', 0))]
    r = sh(args, timeout=60)
    if r.returncode >= 64 or r.returncode < 0: return False, 'driver problem rc=%s: %s' % (r.returncode, r.stdout.strip()[-300:])
    return bool(r.returncode & bit), r.stdout.strip()[-400:].replace('\n', ' | ')

def replay_resend(ctx, cx):
    c = cx.get('cx', cx); exe = native_driver(ctx)
    has = _lst(c, 'cx_has', 0)[1:]
    while has and len(has) > 1 and has[-1] == 0 and len(has) > int(c.get('cx_n', 1)): has.pop()
    args = [exe, 'resend'] + [str(int(c.get(k, 0))) for k in ('cx_n', 'cx_B', 'cx_E', 'cx_persist')] + [str(h) for h in has]
    r = sh(args, timeout=60)
    if r.returncode >= 64 or r.returncode < 0: return False, 'driver problem rc=%s: %s' % (r.returncode, r.stdout.strip()[-300:])
    return bool(r.returncode & 4), r.stdout.strip()[-400:].replace('\n', ' | ')

def replay_process(ctx, cx):
    c = cx.get('cx', cx); exe = native_driver(ctx)
    r = sh([exe, 'reject', str(int(c.get('cx_n', 1))), str(int(c.get('cx_r', 1))), str(int(c.get('cx_fail', 1))), str(int(c.get('cx_kind', 0)))], timeout=60)
    if r.returncode >= 64 or r.returncode < 0: return False, 'driver problem rc=%s: %s' % (r.returncode, r.stdout.strip()[-300:])
    return bool(r.returncode & 1), r.stdout.strip()[-400:].replace('\n', ' | ')
