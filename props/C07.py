"""C07 checksum: real Message::calc_chksum, loop-invariant (base/step/exit) on the ir2c loop cut + bounded tier"""
import os, json
from vf.core import *

FUN = ['FIX8::Message::calc_chksum(const char*, size_t, unsigned, int) [64-bit branch]', 'FIX8::fix8pro_collapse_int32']

def run(ctx):
    kf = known_findings('C07')
    defs = [e['define'] for e in kf if e.get('status') == 'known' and e.get('define')]
    ll = ctx.build_ir('c07.cpp', 'leaf', debug=True)
    ctx.translate(ll, ['vf_calc_chksum'], 'c07.c')
    try:
        ctx.translate(ll, ['vf_calc_chksum'], 'c07cut.c', opts=['--loopcut', 'vf_calc_chksum:vf_lc:ret,overflow,overflowtmp,ii'])
        cut_ok = True
    except Broken as e:
        cut_ok = False; ctx.notes.append('loop cut not applicable to the current loop shape: %s' % e)
        ctx.say('  loop shape changed: inductive tier not applicable, bounded tier only')
    validate(ctx, ll)
    H = os.path.join(VERIF, 'harness')
    ind = None
    if cut_ok:
        ind = ctx.add(Harness('C07_inductive', H + '/C07_ind.c', defines=defs + ['NMAX=65536'], unwind=13, backend='cadical', timeout=900, functions=FUN,
                        bounds='every buffer size sz <= 65536, every offset and len, contents fully symbolic; word loop by invariant (no bound on its trip count), tail loop <= 7 iterations',
                        desc='base + step + exit of the lane-wise word-loop invariant on the ir2c loop cut, tail loop, pointer/bounds checks on an object that ends where the requested range ends'))
    nb = 9 if ctx.tier == 'thorough' else 7
    ctx.add(Harness('C07_bounded', H + '/C07_bnd.c', defines=defs + ['NB=%d' % nb], unwind=nb + 2, backend='kissat' if ctx.tier == 'quick' else 'z3new', timeout=300 if ctx.tier == 'quick' else 2400, functions=FUN,
                    bounds='all contents of all buffers with sz <= %d, every offset/len' % nb, desc='uncut real function against the byte-sum reference'))
    ctx.assumptions += ['x86-64: unaligned 32-bit loads are defined (alignment UB outside the claim); the non-64-bit #else branch is not compiled here and not covered',
                        'malloc never fails; the buffer object is exactly offset+range bytes long so any read outside the requested range is a bounds violation',
                        'loop-cut: the loop-carried variables are bound through -g debug names (ret, overflow, overflowtmp, ii); if the loop shape no longer matches, the inductive harness is reported not applicable',
                        'translator validated on this run by differential execution (see translator_validation)']
    ctx.solve()
    skip = []
    if ind and ind.result and ind.result['status'] == 'fail':
        # an invariant failure has no concrete buffer: look for one with the structured bounded harness; only that can be a violation
        skip = [ind]
        ctx.say('  inductive harness failed (%s): searching for a concrete buffer' % '; '.join(sorted(set(f['desc'] for f in ind.result['failed']))))
        for bg in (255, 0, 128):
            for ns in (1100, 2300, 4400, 8192):
                ctx.add(Harness('C07_struct_bg%d_n%d' % (bg, ns), H + '/C07_struct.c', defines=defs + ['BG=%d' % bg, 'NS=%d' % ns], unwind=ns + 2, timeout=300, functions=FUN, cover=False,
                                bounds='buffer of length %d filled with byte %d except 3 symbolic bytes (first, middle, last); offset 0' % (ns, bg)))
        ctx.solve()
        if not any(h.result and h.result['status'] == 'fail' for h in ctx.harnesses if h.name.startswith('C07_struct')):
            ctx.spurious.append(dict(harness=ind.name, why='invariant not established for the current loop, and no concrete failing buffer found by the structured search', failed=[f['desc'] for f in ind.result['failed']]))
            ctx.say('INCONCLUSIVE C07_inductive: the invariant does not fit the current code and no concrete counterexample was found')
    ctx.handle_failures(replay, kf, skip=skip)
    for e in kf:
        if e.get('status') == 'known':
            ok, what = replay(ctx, e['witness'], None)
            if ok: ctx.known_finding(e['what'])
            else: ctx.say('note: known finding no longer reproduces: %s' % e['what'])
    return ctx.finish()

def validate(ctx, ll):
    """translator validation: generated C (gcc) vs the g++ build of the real function"""
    ctx.translate(ll, ['vf_calc_chksum'], 'c07gen.c', opts=['--prefix', 'gen_'])
    exe = ctx.native('c07diff', ['replay/c07_diff.c', ctx.work + '/c07gen.c', 'shims/c07.cpp'], defines=['VF_NATIVE'])
    r = sh([exe, str(ctx.seed)])
    if r.returncode != 0: raise Broken('translator validation failed: ' + r.stdout[-500:])
    ctx.validation.append(dict(kernel='vf_calc_chksum', result=r.stdout.strip()))

def replay(ctx, cx, h=None):
    """run the real function natively (ASan) on the concrete buffer; violation = wrong sum or sanitizer report"""
    exe = ctx.native('c07replay', ['replay/c07_replay.cpp'], flags=('-O1', '-fsanitize=address,undefined', '-fno-sanitize=alignment', '-fno-sanitize-recover=undefined'))
    sz, off, ln = int(cx.get('cx_sz', 0)), int(cx.get('cx_off', 0)), int(cx.get('cx_len', -1))
    if ln >= 2**31: ln -= 2**32
    elen = sz - off if ln == -1 else ln
    buf = list(cx.get('cx_buf') or [])
    if 'cx_bg' in cx:     # structured buffer: background byte + three free bytes
        n = off + elen; buf = [int(cx['cx_bg']) & 0xff] * n
        for pos, key in ((0, 'cx_b0'), (n // 2, 'cx_b1'), (n - 1, 'cx_b2')):
            if n: buf[pos] = int(cx.get(key, 0)) & 0xff
    buf = (buf + [(i * 37 + 11) & 0xff for i in range(off + elen)])[:off + elen]
    r = sh([exe, str(sz), str(off), str(ln), ','.join(str(b & 0xff) for b in buf) or '-'], env=dict(os.environ, ASAN_OPTIONS='detect_leaks=0'))
    return (r.returncode != 0), r.stdout.strip()[-300:].replace('\n', ' | ')
