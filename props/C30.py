"""C30 inter-thread queue (bundled FastFlow uMPMC_Ptr_Queue / uSWSR_Ptr_Buffer / SWSR_Ptr_Buffer)"""
import os, re
from vf.core import *
ROOTS = ['vf_q_ctor', 'vf_q_init', 'vf_q_push', 'vf_q_pop', 'vf_u_ctor', 'vf_u_init', 'vf_u_push', 'vf_u_pop', 'vf_s_ctor', 'vf_s_init', 'vf_s_push', 'vf_s_pop']
FUN = ['ff::uMPMC_Ptr_Queue::init/push/pop', 'abstraction_cas (IR cmpxchg)', 'ff::atomic_long_read/atomic_long_set', 'ff::uSWSR_Ptr_Buffer::uSWSR_Ptr_Buffer/init/push/pop/available',
       'ff::BufferPool::BufferPool/next_w/next_r/release', 'ff::dynqueue::dynqueue/push/pop/allocnode', 'ff::SWSR_Ptr_Buffer::SWSR_Ptr_Buffer/init/reset/push/pop/inc/empty/available',
       'getAlignedMemory/freeAlignedMemory, isPowerOf2/nextPowerOf2']
STUBS = ['malloc/posix_memalign/aligned operator new := typed static pools (models/ff_alloc.c): never fail, zero-filled, never reused after free',
         '__assert_fail := check failure (an assert() of the code under test must not fire)']
PUSHQ = '_ZN2ff15uMPMC_Ptr_Queue4pushEPv'; POPQ = '_ZN2ff15uMPMC_Ptr_Queue3popEPPv'

def build(ctx):
    shim = ctx.build_ir('c30.cpp', 'cut')
    return ctx.translate(shim, ROOTS, 'c30.c', stubfiles=['common.stubs'], models=['stubs.c', 'ff_alloc.c'])

TROOTS = ['vf_ts_setup', 'vf_ts_push', 'vf_ts_pop', 'vf_tq_setup', 'vf_tq_push', 'vf_tq_pop']
def build_thr(ctx):
    """translation for the threaded harnesses: same real functions, every data pointer type (LLVM i8*, here 'uint8_t*') replaced by the
    integer type PAY in the generated part (payloads travel as integers; the functions only store, load and compare them with null)"""
    shim = ctx.build_ir('c30t.cpp', 'cut')
    info = ctx.translate(shim, TROOTS, 'c30t_ptr.c', stubfiles=['common.stubs', 'c30t.stubs'], models=['stubs.c', 'ff_alloc.c'])
    txt = open(info['c']).read()
    cut = txt.index('/* ---- model ')
    gen = re.sub(r'uint8_t\s*\*', 'PAY ', txt[:cut])
    gen = gen.replace('void st_atomic_long_set(void*, uint64_t);', 'void st_atomic_long_set(void*, uint64_t);').replace('uint8_t st_usw_push(void*, void*);', 'uint8_t st_usw_push(void*, PAY);').replace('uint8_t st_usw_pop(void*, void*);', 'uint8_t st_usw_pop(void*, PAY*);')
    gen = re.sub(r'st_usw_push\(\(void\*\)(\w+), \(void\*\)(\w+)\)', r'st_usw_push((void*)\1, \2)', gen)
    gen = re.sub(r'st_usw_pop\(\(void\*\)(\w+), \(void\*\)(\w+)\)', r'st_usw_pop((void*)\1, \2)', gen)
    models = txt[cut:]
    # the allocation model is not reachable here (set-up without allocation); its prototypes in the generated part changed type, so drop the models
    # that mention data pointers and keep base.c's runtime only
    keep = models[:models.index('/* ---- model ', 5)] if models.count('/* ---- model ') > 1 else models
    keep = re.sub(r'^uint\d+_t\s*\*?\s*x_(strlen|strcmp|memcmp|bcmp|memchr)\(.*$', '', keep, flags=re.M)
    out = os.path.join(ctx.work, 'c30t.c')
    open(out, 'w').write('#include <stdint.h>\ntypedef uint64_t PAY;\n' + gen + keep +
                         '\nvoid x___assert_fail(PAY a, PAY b, uint32_t c, PAY d) { __CPROVER_assert(0, "assert() inside the code under test failed"); __CPROVER_assume(0); }\n')
    return info

SPIN = ('_ZN2ff15uMPMC_Ptr_Queue4pushEPv', '_ZN2ff15uMPMC_Ptr_Queue3popEPPv')
def thr(ctx, name, what, defs, tier, bounds, timeout=600):
    ctx.add(Harness(name, VERIF + '/harness/C30_thr.c', defines=['VF_THREADS', 'WHAT=%d' % what] + defs, unwind=2, nochecks=True,
                    unwindset=['main.0:9', 'main.1:9', 'main.2:10', 'main.3:10', 'producer.0:6', 'producer.1:4', 'consumer.0:6', '_ZN2ff15SWSR_Ptr_Buffer5resetEb.0:6', 'vf_tq_setup.0:4'],
                    timeout=timeout, mem_gb=16, functions=FUN_T, stubs=STUBS_T, tier=tier, bounds=bounds,
                    desc='exactly-once, per-producer order, empty/full only when justified, under every interleaving (SC)'))
FUN_T = ['ff::SWSR_Ptr_Buffer::push/pop/inc/empty/available/reset', 'ff::uMPMC_Ptr_Queue::push/pop', 'abstraction_cas (cmpxchg as an atomic section)', 'ff::atomic_long_read/atomic_long_set']
STUBS_T = ['atomic_long_set := the same store inside an atomic section (CBMC encodes an element store into an array of structs as a whole-array read-modify-write)', 'CBMC standard pointer checks off in the threaded harnesses (dead-object bookkeeping is a pointer-typed shared write); memory safety of the same functions is checked by C30_seq', 'data pointers translated as 64-bit integers (PAY)', 'uSWSR_Ptr_Buffer::push/pop below uMPMC_Ptr_Queue := atomic ring per sub-queue', 'queue set-up by shim code mirroring init without allocation',
           'spin iterations beyond the unwinding bound are cut (stuttering steps); their unwinding assertions are not counted']

def build_stall(ctx):
    """same translation as build(), with the queue's plain (volatile) shared accesses atomic_long_read/atomic_long_set bound to harness functions that
    perform the access and then call the scheduling hook: the stalled consumer can be descheduled after any of its shared accesses, not only after its CAS"""
    shim = ctx.build_ir('c30.cpp', 'cut')
    return ctx.translate(shim, ROOTS, 'c30s.c', stubs={'_ZN2ffL16atomic_long_readEPNS_10atomic64_tE': 'st_alr', '_ZN2ffL15atomic_long_setEPNS_10atomic64_tEl': 'st_als'},
                         stubfiles=['common.stubs'], models=['stubs.c', 'ff_alloc.c'])

def stall(ctx, name, ne, nops, with_push, tier, timeout=600):
    defs = ['NE=%d' % ne, 'NOPS=%d' % nops, 'WITH_PUSH=%d' % with_push, 'NQ=2', 'SZ=2', 'VF_SEQ_LEN=2', 'VF_MA_SEQ_MASK=6', 'VF_NSWSR=16', 'VF_NNODE=24', 'VF_NPTRARR=24']
    ctx.add(Harness(name, VERIF + '/harness/C30_stall.c', defines=defs, unwind=3, flags=['--paths', 'lifo'],
                    unwindset=['main.0:%d' % (ne + 1), 'main.1:%d' % (ne + nops + 3), 'main.2:%d' % (ne + nops + 3), 'vf_yield.0:%d' % (nops + 1), '_ZN2ff15uMPMC_Ptr_Queue3popEPPv.1:131', '_ZN2ff15uMPMC_Ptr_Queue4pushEPv.1:131',   # back-off loop after a failed CAS (BACKOFF_MIN = 128)
                                'x_llvm_2ectpop_2ei32.0:33',
                               '_ZN2ff15SWSR_Ptr_Buffer5resetEb.0:33', '_ZN2ff15uMPMC_Ptr_Queue4initEmm.0:3', '_ZN2ff10BufferPoolC2Eibm.0:34', '_ZN2ffL12nextPowerOf2Em.0:8'],
                    timeout=timeout, mem_gb=16, functions=FUN, stubs=STUBS + ['VF_YIELD (ir2c hook after every cmpxchg/atomicrmw/atomic store) := scheduling point of the stalled consumer', 'atomic_long_read / atomic_long_set := the same load / store followed by the scheduling hook'], tier=tier,
                    bounds='%d elements pushed, then consumer C1 pops and is stalled at one of its atomic steps while consumer C2%s runs 0..%d complete real operations; then the queue is drained; uMPMC_Ptr_Queue init(2,2)' % (
                        ne, ' / the producer' if with_push else '', nops),
                    desc='two consumers, stalled-thread schedules: exactly-once, per-consumer ticket order, empty only if justified'))

def seq(ctx, name, layer, k, nq, sz, tier, timeout=600):
    lname = ['uMPMC_Ptr_Queue init(%d,%d)' % (nq, sz), 'uSWSR_Ptr_Buffer(%d)' % sz, 'SWSR_Ptr_Buffer(%d)' % sz][layer]
    defs = ['K=%d' % k, 'LAYER=%d' % layer, 'NQ=%d' % nq, 'SZ=%d' % sz, 'VF_SEQ_LEN=%d' % max(nq, 2)] + (['VF_MA_SEQ_MASK=6'] if layer == 0 else [])
    ctx.add(Harness(name, VERIF + '/harness/C30_seq.c', defines=defs, unwind=3, flags=['--paths', 'lifo'],
                    unwindset=['main.0:%d' % (k + 1), 'x_llvm_2ectpop_2ei32.0:33', '_ZN2ff15SWSR_Ptr_Buffer5resetEb.0:33', '_ZN2ff15uMPMC_Ptr_Queue4initEmm.0:%d' % (nq + 1),
                               '_ZN2ff10BufferPoolC2Eibm.0:34', '_ZN2ffL12nextPowerOf2Em.0:8'],
                    timeout=timeout, mem_gb=16, functions=FUN, stubs=STUBS, tier=tier,
                    bounds='every sequence of %d push/pop operations on %s, sequential (one thread); payloads = addresses of distinct static cells' % (k, lname),
                    desc='FIFO, no loss/duplication, pop reports empty iff empty (sequential exhaustive; CBMC path-wise symbolic execution: one solver query per operation sequence)'))

def run(ctx):
    kf = known_findings('C30'); defs = kf_defines(kf)
    info = build(ctx)
    seq(ctx, 'C30_seq_q_k6', 0, 6, 2, 2, 'quick')
    seq(ctx, 'C30_seq_u_k6', 1, 6, 2, 2, 'quick')
    seq(ctx, 'C30_seq_s_k6', 2, 6, 2, 2, 'quick')
    seq(ctx, 'C30_seq_q_k8', 0, 8, 2, 2, 'thorough', 3000)
    seq(ctx, 'C30_seq_u_k8', 1, 8, 2, 2, 'thorough', 3000)
    seq(ctx, 'C30_seq_s_k8', 2, 8, 2, 3, 'thorough', 3000)
    ctx.assumptions += ['allocation never fails; freed memory is not reused (ABA through address reuse outside the claim); fresh memory reads as zero',
                        'sequential consistency; weak-memory effects (x86-TSO store buffering, the WMB() fences) outside the claim']
    build_stall(ctx)
    stall(ctx, 'C30_stall_e4_o3', 4, 3, 0, 'quick')
    stall(ctx, 'C30_stall_e5_o3p', 5, 3, 1, 'thorough', 3000)
    build_thr(ctx)
    thr(ctx, 'C30_thr_swsr_2x2', 0, ['SZ=2', 'NPUSH=2', 'NPOP=2', 'TRIES=1'], 'quick', 'real SWSR_Ptr_Buffer ring of 2 slots: 1 producer x 2 pushes, 1 consumer x 2 pop attempts, all interleavings (SC)')
    thr(ctx, 'C30_thr_mpmc_1_1_2', 1, ['NQ=2', 'P1PUSH=1', 'P2PUSH=1', 'NPOP=2'], 'quick', 'real uMPMC_Ptr_Queue push/pop over 2 sub-queues (atomic rings): 2 producers x 1 push, 1 consumer x 2 pop attempts, all interleavings (SC)')
    thr(ctx, 'C30_thr_swsr_3x3', 0, ['SZ=2', 'NPUSH=3', 'NPOP=3', 'TRIES=2'], 'thorough', 'real SWSR_Ptr_Buffer ring of 2 slots: 1 producer x 3 pushes (2 tries each), 1 consumer x 3 pop attempts', 3000)
    thr(ctx, 'C30_thr_mpmc_2_1_3', 1, ['NQ=2', 'P1PUSH=2', 'P2PUSH=1', 'NPOP=3'], 'thorough', 'real uMPMC_Ptr_Queue: producers 2 + 1 pushes, 1 consumer x 3 pop attempts', 3000)
    thr(ctx, 'C30_thr_mpmc_2_2_4', 1, ['NQ=2', 'P1PUSH=2', 'P2PUSH=2', 'NPOP=4'], 'thorough', 'real uMPMC_Ptr_Queue: producers 2 + 2 pushes, 1 consumer x 4 pop attempts', 3000)
    ctx.solve(jobs=4)
    for h in ctx.harnesses:                 # spin loops: iterations beyond the bound are stuttering steps, their unwinding assertions are expected to fail
        r = h.result or {}
        if ('C30_thr' in h.name or 'C30_stall' in h.name) and r.get('failed'):
            spin = [f for f in r['failed'] if 'unwinding assertion' in (f.get('desc') or '') and (f.get('function') in SPIN) and not (('C30_stall' in h.name) and str(f.get('name', '')).endswith('.unwind.1'))]   # (.unwind.1 = the bounded back-off loop, which must complete in the stall harness)
            if spin:
                r['failed'] = [f for f in r['failed'] if f not in spin]; r['spin_cut'] = len(spin)
                if not r['failed']: r['status'] = 'pass'; r['discharged'] = r.get('discharged', 0) + len(spin)
                ctx.say('  [spin] %-34s %d spin-loop unwinding assertion(s) cut as stuttering steps -> %s' % (h.name, len(spin), r['status']))
    ctx.handle_failures(replay, kf)
    announce_known(ctx, kf, replay)
    return ctx.finish()

def replay(ctx, cx, h=None):
    c = cx.get('cx', cx)
    exe = ctx.native('c30replay', ['replay/c30_replay.cpp'], flags=('-O1', '-g'), libs=['-L' + REPO + '/runtime/.libs', '-lfix8', '-Wl,-rpath,' + REPO + '/runtime/.libs'])
    if h is not None and 'C30_stall' in h.name:
        exe2 = ctx.native('c30stall', ['replay/c30_stall_replay.cpp'], flags=('-O1', '-g'), libs=[])
        ne = next((int(d[3:]) for d in h.defines if d.startswith('NE=')), 4)
        n2 = len([a for a in (c.get('cx_nested') or []) if int(a) == 1]) or 3
        r = sh([exe2, str(ne), str(n2)], cwd=ctx.work)
        return r.returncode != 0, r.stdout.strip()[-400:].replace('\n', ' | ')
    if h is not None and 'C30_thr' in h.name:
        r = sh([exe, 'thr-mpmc' if 'mpmc' in h.name else 'thr-swsr'], env=dict(os.environ, ASAN_OPTIONS='detect_leaks=0'), cwd=ctx.work)
        return r.returncode != 0, r.stdout.strip()[-400:].replace('\n', ' | ')
    layer = 0; nq = 2; sz = 2
    if h is not None:
        for d in h.defines:
            if d.startswith('LAYER='): layer = int(d[6:])
            if d.startswith('NQ='): nq = int(d[3:])
            if d.startswith('SZ='): sz = int(d[3:])
    ops = [str(int(o)) for o in c.get('cx_op', [])]
    r = sh([exe, str(layer), str(nq), str(sz)] + ops, env=dict(os.environ, ASAN_OPTIONS='detect_leaks=0'), cwd=ctx.work)
    return r.returncode != 0, r.stdout.strip()[-500:].replace('\n', ' | ')
