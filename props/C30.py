"""C30 inter-thread queue (bundled FastFlow uMPMC_Ptr_Queue / uSWSR_Ptr_Buffer / SWSR_Ptr_Buffer)"""
import os
from vf.core import *
ROOTS = ['vf_q_ctor', 'vf_q_init', 'vf_q_push', 'vf_q_pop', 'vf_u_ctor', 'vf_u_init', 'vf_u_push', 'vf_u_pop', 'vf_s_ctor', 'vf_s_init', 'vf_s_push', 'vf_s_pop']
FUN = ['ff::uMPMC_Ptr_Queue::init/push/pop', 'abstraction_cas (IR cmpxchg)', 'ff::atomic_long_read/atomic_long_set', 'ff::uSWSR_Ptr_Buffer::uSWSR_Ptr_Buffer/init/push/pop/available',
       'ff::BufferPool::BufferPool/next_w/next_r/release', 'ff::dynqueue::dynqueue/push/pop/allocnode', 'ff::SWSR_Ptr_Buffer::SWSR_Ptr_Buffer/init/reset/push/pop/inc/empty/available',
       'getAlignedMemory/freeAlignedMemory, isPowerOf2/nextPowerOf2']
STUBS = ['malloc/posix_memalign/aligned operator new := typed static pools (models/ff_alloc.c): never fail, zero-filled, never reused after free',
         '__assert_fail := check failure (an assert() of the code under test must not fire)']
PUSHQ = '_ZN2ff15uMPMC_Ptr_Queue4pushEPv'; POPQ = '_ZN2ff15uMPMC_Ptr_Queue3popEPPv'

def build(ctx):
    shim = ctx.build_ir('c30.cpp', 'cut')
    return ctx.translate(shim, ROOTS, 'c30.c', stubfiles=['common.stubs'], models=['stubs.c', 'ff_alloc.c'])

def seq(ctx, name, layer, k, nq, sz, tier, timeout=600):
    lname = ['uMPMC_Ptr_Queue init(%d,%d)' % (nq, sz), 'uSWSR_Ptr_Buffer(%d)' % sz, 'SWSR_Ptr_Buffer(%d)' % sz][layer]
    defs = ['K=%d' % k, 'LAYER=%d' % layer, 'NQ=%d' % nq, 'SZ=%d' % sz, 'VF_SEQ_LEN=%d' % max(nq, 2)] + (['VF_MA_SEQ_MASK=6'] if layer == 0 else [])
    ctx.add(Harness(name, VERIF + '/harness/C30_seq.c', defines=defs, unwind=3, flags=['--paths', 'lifo'],
                    unwindset=['main.0:%d' % (k + 1), 'x_llvm_2ectpop_2ei32.0:33', '_ZN2ff15SWSR_Ptr_Buffer5resetEb.0:33', '_ZN2ff15uMPMC_Ptr_Queue4initEmm.0:%d' % (nq + 1),
                               '_ZN2ff10BufferPoolC2Eibm.0:34', '_ZN2ffL12nextPowerOf2Em.0:8'],
                    timeout=timeout, mem_gb=16, functions=FUN, stubs=STUBS, tier=tier,
                    bounds='every sequence of %d push/pop operations on %s, sequential (one thread); payloads = addresses of distinct static cells' % (k, lname),
                    desc='FIFO, no loss/duplication, pop reports empty iff empty (sequential exhaustive; CBMC path-wise symbolic execution: one solver query per operation sequence)'))

def run(ctx):
    kf = known_findings('C30'); defs = kf_defines(kf)
    info = build(ctx)
    seq(ctx, 'C30_seq_q_k6', 0, 6, 2, 2, 'quick')
    seq(ctx, 'C30_seq_u_k6', 1, 6, 2, 2, 'quick')
    seq(ctx, 'C30_seq_s_k6', 2, 6, 2, 2, 'quick')
    seq(ctx, 'C30_seq_q_k8', 0, 8, 2, 2, 'thorough', 3000)
    seq(ctx, 'C30_seq_u_k8', 1, 8, 2, 2, 'thorough', 3000)
    seq(ctx, 'C30_seq_s_k8', 2, 8, 2, 3, 'thorough', 3000)
    ctx.assumptions += ['allocation never fails; freed memory is not reused (ABA through address reuse outside the claim); fresh memory reads as zero',
                        'sequential consistency; weak-memory effects (x86-TSO store buffering, the WMB() fences) outside the claim']
    ctx.solve(jobs=4)
    ctx.handle_failures(replay, kf)
    announce_known(ctx, kf, replay)
    return ctx.finish()

def replay(ctx, cx, h=None):
    c = cx.get('cx', cx)
    exe = ctx.native('c30replay', ['replay/c30_replay.cpp'], flags=('-O1', '-g', '-fsanitize=address,undefined'), libs=['-L' + REPO + '/runtime/.libs', '-lfix8', '-Wl,-rpath,' + REPO + '/runtime/.libs'])
    layer = 0; nq = 2; sz = 2
    if h is not None:
        for d in h.defines:
            if d.startswith('LAYER='): layer = int(d[6:])
            if d.startswith('NQ='): nq = int(d[3:])
            if d.startswith('SZ='): sz = int(d[3:])
    ops = [str(int(o)) for o in c.get('cx_op', [])]
    r = sh([exe, str(layer), str(nq), str(sz)] + ops, env=dict(os.environ, ASAN_OPTIONS='detect_leaks=0'))
    return r.returncode != 0, r.stdout.strip()[-500:].replace('\n', ' | ')
