"""C19 inbound messages reach the application only when in sequence (session world, inbound side)"""
import os
from vf.core import *
from props import sessin
FUN = ['FIX8::Session::process', 'Session::enforce', 'Session::sequence_check', 'Session::compid_check', 'Session::handle_heartbeat', 'Session::handle_test_request',
       'Session::handle_resend_request (no persister)', 'Session::handle_logout', 'Session::handle_sequence_reset', 'Session::handle_outbound_reject', 'Session::stop',
       'Session::do_state_change', 'catch clauses of Session::process (f8Exception/force_logoff, std::exception)', 'SessionID::same_sender_comp_id/same_target_comp_id',
       'fast_atoi<unsigned>', 'exception constructors InvalidMsgSequence/MsgSequenceTooLow/BadSendingTime/BadCompidId/InvalidMessage/InvalidVersion/MissingMandatoryField/BadCheckSum']

def run(ctx):
    kf, defs = sessin.kf_defs('C19')
    info = sessin.build(ctx)
    sessin.build(ctx, 'sess_scan.c', real_atoi=True)
    ctx.assumptions += sessin.ASSUME
    common = dict(functions=FUN, stubs=sessin.STUBS)
    ctx.add(Harness('C19_seq', VERIF + '/harness/C19_seq.c', defines=defs + ['VF_MAXCOPY=40'], unwind=12, unwindset=sessin.US, timeout=900,
                    bounds='one sequence_check() call; every established state except the transient st_logon_received; expected number 1..2^32-1 and MsgSeqNum 0..2^32-1 (whole unsigned range); PossDupFlag absent/N/Y; '
                           'SendingTime/OrigSendingTime arbitrary instants', desc='sequence clause over the real Session::sequence_check', **common))
    lens = [0x2222, 0x1221] if ctx.tier == 'quick' else [a << 12 | b << 8 | c << 4 | d for a in (1, 2) for b in (1, 2) for c in (1, 2) for d in (1, 2)]
    for tlen in (1, 2):
        for ln in (lens if tlen == 2 else lens[:1] if ctx.tier == 'quick' else lens):
            ctx.add(Harness('C19_step_t%d_%04x' % (tlen, ln), VERIF + '/harness/C19_step.c', defines=defs + ['TLEN=%d' % tlen, 'LENS=0x%04x' % ln, 'VF_MAXCOPY=40'], unwind=12, unwindset=sessin.US, timeout=900, mem_gb=12,
                        bounds='one process() step; pre-state: any established state except the transient st_logon_received, expected and next-send numbers 1..2^32-1 (whole range), enforce_compids/silent_disconnect/reliable/active arbitrary, '
                               'own and inbound CompIDs of lengths 0x%04x with arbitrary bytes; message: type %s, MsgSeqNum 0..2^32-1, PossDupFlag absent/N/Y, '
                               'SendingTime/OrigSendingTime arbitrary, NewSeqNo/BeginSeqNo/EndSeqNo 0..9999999, decoding outcome in {ok, 5 failure kinds}' %
                               (ln, '1 character other than A (Logon: C23) and 3 (Reject hook)' if tlen == 1 else '2 arbitrary characters (application message)'),
                        desc='inductive step of the C19 statement over the real Session::process', **common))
    ctx.add(Harness('C19_step_null', VERIF + '/harness/C19_step.c', defines=defs + ['TLEN=2', 'FACTORY_NULL=1', 'VF_MAXCOPY=40'], unwind=12, unwindset=sessin.US, timeout=900,
                    bounds='as C19_step_t2 with Message::factory returning null (no message object)', desc='factory returns null: nothing delivered', **common))
    ctx.add(Harness('C19_scan', VERIF + '/harness/C19_scan.c', defines=defs + ['VF_MAXCOPY=40'], unwind=12, unwindset=sessin.US + ['_ZN4FIX89fast_atoiIjEET_PKcc.0:4'], timeout=900,
                    functions=FUN + ['header scan from.find("34=") + fast_atoi<unsigned> on real bytes'], stubs=[s for s in sessin.STUBS if not s.startswith('fast_atoi')],
                    bounds='raw message 8=F|49=<4 arbitrary non-SOH bytes>|34=<d>| with d in 1..9, continuous session expecting d, CompID enforcement off',
                    desc='MsgSeqNum is taken from the real tag 34, not from header values that contain the text "34="'))
    ctx.solve(jobs=4)
    ctx.handle_failures(replay, kf)
    announce_known(ctx, kf, replay)
    return ctx.finish()

def replay(ctx, cx, h=None):
    c = cx.get('cx', cx)
    if 'cx_v' in c:      # header scan on real bytes
        v = ''.join(chr(int(b)) for b in c['cx_v']); d = int(c.get('cx_d', 53)) - 48
        if any(ch in v for ch in ',|\x01') or not all(32 < ord(ch) < 127 for ch in v): v = '34=9'       # same class, printable witness
        steps, raw = sessin.run_steps(ctx, ['init,role=I,sender=S,target=T,state=1,recv=%d,send=7,enforce=0,active=1' % d, 'msg,type=D,seq=%d,sci=%s,tci=S' % (d, v)])
        if not steps: return False, 'no output: ' + raw
        r = steps[-1]; bad = r['delivered'] != [d] or r['sent'] or r['recv'] != d + 1 or r['shutdown']
        return bool(bad), 'native: SenderCompID value "%s" before 34=%d, expected %d -> delivered %s, sent %s, next expected %d' % (v, d, d, r['delivered'], [s['type'] for s in r['sent']], r['recv'])
    lens = 0x2222
    if h is not None:
        for dfn in h.defines:
            if dfn.startswith('LENS='): lens = int(dfn[5:], 16)
    L = [lens >> 12 & 15, lens >> 8 & 15, lens >> 4 & 15, lens & 15]
    if 'cx_sid_s' in c: own_s, own_t, msg_s, msg_t = sessin.compids(c, ['cx_sid_s', 'cx_sid_t', 'cx_msg_s', 'cx_msg_t'], L)
    else: own_s, own_t, msg_s, msg_t = 'S', 'T', 'T', 'S'
    state = int(c.get('cx_state', 1)); exp = int(c.get('cx_expected', 1)); seq = int(c.get('cx_seq', 1))
    enforce = int(c.get('cx_enforce', 1)); silent = int(c.get('cx_silent', 0)); reliable = int(c.get('cx_reliable', 0)); active = int(c.get('cx_active', 1))
    t0 = int(c.get('cx_type0', 68)); t1 = int(c.get('cx_type1', 0))
    typ = chr(t0) if (not t1 and chr(t0) in '01245') else 'D'
    has_pd = int(c.get('cx_has_pd', 0)); pd = 'Y' if c.get('cx_pd') else 'N'
    has_ost = int(c.get('cx_has_ost', 0)); later = int(c.get('cx_ost', 0)) > int(c.get('cx_st', 0))
    fail = {0: 0, 1: 1, 2: 2, 3: 1, 4: 4, 5: 0}[int(c.get('cx_decode_fail', 0))]
    if int(c.get('cx_decode_fail', 0)) == 5 or c.get('cx_factory_null'): return False, 'abstract failure kind without a wire-level counterpart'
    init = 'init,role=I,sender=%s,target=%s,state=%d,recv=%d,send=7,enforce=%d,silent=%d,reliable=%d,active=%d' % (own_s, own_t, state, exp, enforce, silent, reliable, active)
    msg = 'msg,type=%s,seq=%d,sci=%s,tci=%s,pd=%s,st=100,ost=%s,fail=%d,trid=Q,begin=1,end=0,nsn=%d' % (typ, seq, msg_s, msg_t, pd if has_pd else '-', ('110' if later else '90') if has_ost else '-', fail, seq + 1)
    steps, raw = sessin.run_steps(ctx, [init, msg])
    if not steps: return False, 'no output: ' + raw
    r = steps[-1]
    logout = len([s for s in r['sent'] if s['type'] == '5']); resend = [s for s in r['sent'] if s['type'] == '2']; reject = len([s for s in r['sent'] if s['type'] == '3'])
    stopped = r['shutdown'] or r['thrown']; ndel = len(r['delivered'])
    compid_ok = msg_t == own_s and msg_s == own_t; compid_bad = enforce and not compid_ok
    valid_dup = has_pd and pd == 'Y' and not (has_ost and later)
    in_seq = seq == exp or (seq < exp and valid_dup)
    is_app = typ == 'D'; seqreset = typ == '4'; decoded = fail == 0
    bad = []
    if r['thrown'] and not reliable: bad.append('exception escaped')
    if ndel and not (decoded and is_app and in_seq and not compid_bad): bad.append('delivered out of sequence / with wrong CompIDs')
    if decoded and not seqreset and not compid_bad and (active or not is_app):
        if seq > exp:
            if ndel: bad.append('delivered although above expected')
            if state != 12 and not (len(resend) == 1 and int(resend[0].get('7', -1)) == exp): bad.append('no ResendRequest(%d) for MsgSeqNum %d above expected in state %d' % (exp, seq, state))
        if seq < exp and not valid_dup:
            if ndel or not stopped: bad.append('too-low message delivered or session not ended')
            if logout != 1 and not silent: bad.append('no Logout for MsgSeqNum %d below expected %d without PossDup' % (seq, exp))
    if decoded and compid_bad and not seqreset and (active or not is_app):
        if ndel or not stopped: bad.append('wrong CompIDs: delivered or session not ended')
        if logout != 1 and not silent: bad.append('no Logout for wrong CompIDs with enforcement on')
    if fail in (1, 4) and (ndel or reject != 1 or stopped): bad.append('decoding failure not answered with exactly one Reject')
    return bool(bad), 'native: %s %s => %s [%s]' % (init, msg, '; '.join(bad) or 'conforms', raw[-220:])
