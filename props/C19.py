"""C19 inbound messages reach the application only when in sequence (session world, inbound side)"""
import os
from vf.core import *
from props import sessin
FUN = ['FIX8::Session::process', 'Session::enforce', 'Session::sequence_check', 'Session::compid_check', 'Session::handle_heartbeat', 'Session::handle_test_request',
       'Session::handle_resend_request (no persister)', 'Session::handle_logout', 'Session::handle_sequence_reset', 'Session::handle_outbound_reject', 'Session::stop',
       'Session::do_state_change', 'catch clauses of Session::process (f8Exception/force_logoff, std::exception)', 'SessionID::same_sender_comp_id/same_target_comp_id',
       'fast_atoi<unsigned>', 'exception constructors InvalidMsgSequence/MsgSequenceTooLow/BadSendingTime/BadCompidId/InvalidMessage/InvalidVersion/MissingMandatoryField/BadCheckSum']

def run(ctx):
    kf = known_findings('C19'); defs = kf_defines(kf)
    info = sessin.build(ctx)
    ctx.assumptions += sessin.ASSUME
    common = dict(functions=FUN, stubs=sessin.STUBS)
    for tlen in (1, 2):
        ctx.add(Harness('C19_step_t%d' % tlen, VERIF + '/harness/C19_step.c', defines=defs + ['TLEN=%d' % tlen, 'VF_MAXCOPY=40'], unwind=12, unwindset=sessin.US, timeout=900, mem_gb=12,
                        bounds='one process() step; pre-state: any established state except the transient st_logon_received, expected/next-send in 1..9999999, enforce_compids/silent_disconnect/reliable/active arbitrary, '
                               'own and inbound CompIDs 1-2 arbitrary bytes; message: type %s, MsgSeqNum 0..9999999 (7 digits through the real scan + fast_atoi), PossDupFlag absent/N/Y, '
                               'SendingTime/OrigSendingTime arbitrary, NewSeqNo/BeginSeqNo/EndSeqNo arbitrary, decoding outcome in {ok, null, 5 failure kinds}' %
                               ('1 character other than A (Logon: C23) and 3 (Reject hook)' if tlen == 1 else '2 arbitrary characters (application message)'),
                        desc='inductive step of the C19 statement over the real Session::process', **common))
    ctx.solve(jobs=4)
    ctx.handle_failures(replay, kf)
    announce_known(ctx, kf, replay)
    return ctx.finish()

def replay(ctx, cx, h=None):
    return False, 'replay driver not built yet'
