"""C06 length-prefixed data fields (decode side): the ft_Length branch of MessageBase::decode with the real
extract_element_fixed_width, in header, body and trailer position; kernel harness for the separator after the value"""
from vf.core import *
from props import codec
FUN = codec.FUN_DECODE + ['FIX8::MessageBase::extract_element_fixed_width', 'MessageBase::decode: ft_Length branch (runtime/message.cpp:136-152)']

def run(ctx):
    kf = codec.kfs('C06'); defs = kf_defines(kf)
    codec.world(ctx)
    nd = 3 if ctx.tier == 'quick' else 4
    # the message buffer has 96 bytes: above CBMC's default field-sensitivity limit (64 elements) its bytes are not constant-propagated, and the real
    # fixed-width extractor, which reads the buffer, then forks on every byte (no result in 15 min); with the limit raised the layout is concrete
    for place, nm in ((0, 'header_90_91'), (1, 'body_95_96'), (2, 'trailer_93_89')):
        ctx.add(Harness('C06_data_%s' % nm, VERIF + '/harness/C06_data.c', defines=defs + codec.WORLD_DEFS + ['PLACE=%d' % place, 'NDATA=%d' % nd, 'VF_MAXCOPY=%d' % codec.FLD], unwind=14,
                        unwindset=codec.us_decode(14), flags=['-I', VERIF + '/shims', '--max-field-sensitivity-array-size', '128'], object_bits=14, timeout=1200, functions=FUN,
                        stubs=codec.STUBS_DECODE + [codec.STUB_TOK + ' (never applied to the data token: asserted)', codec.STUB_NOGRP],
                        bounds='Logon message with the pair in the %s; data length n = 0..%d (each length one concrete-layout run), the n data bytes arbitrary (SOH, \'=\', NUL included); checksum verification off' % (nm.split('_')[0], nd),
                        desc='decoded data bytes == message bytes; following field decodes'))
    # kernel: the fixed-width extractor and the separator it charges for
    ll = ctx.build_ir('codec_c03.cpp', 'leaf', extra=['-DFIX8_MAX_FLD_LENGTH=24']); ctx.translate(ll, ['vf_extract_element', 'vf_extract_element_fw'], 'c03k_24.c')
    for n in ((6, 12) if ctx.tier == 'quick' else (4, 6, 9, 12, 16)):
        ctx.add(Harness('C06_fw_sep_n%d' % n, VERIF + '/harness/C03_ext.c', defines=defs + ['NIN=%d' % n, 'CAPT=24', 'CAPV=24', 'MODE=1', 'C06_SEP', 'KFILE="c03k_24.c"'], unwind=26, timeout=900,
                        functions=['FIX8::MessageBase::extract_element_fixed_width'], bounds='every byte string of %d bytes, every val_sz <= 23' % n,
                        desc='a recognised fixed-width token ends inside the input with the field separator'))
    ctx.assumptions += codec.DECODE_ASSUMPTIONS + ['encode side of data fields (Field<f8String>::print) and data pairs inside repeating groups (FIX42UTEST: LinesOfText 354/355 - decode_group has no length handling) are outside these harnesses',
                                                   'the creator hook receives the value as a NUL-terminated char* (that is the real interface: be->_create._do(const char*, ...))']
    ctx.solve(jobs=codec.JOBS)
    ctx.handle_failures(codec.replay, kf)
    announce_known(ctx, kf, codec.replay)
    return ctx.finish()

def replay(ctx, cx, h=None): return codec.replay(ctx, cx, h)
