"""C23 logon acceptance and CompID identity (session world, inbound side)"""
import os
from vf.core import *
from props import sessin
FUN_SID = ['FIX8::SessionID::operator==', 'SessionID::operator!=', 'SessionID::same_sender_comp_id', 'same_target_comp_id', 'same_side_sender_comp_id', 'same_side_target_comp_id',
           'std::operator==(string,string) / operator!= as instantiated in the session translation unit']
FUN_LOGON = ['FIX8::Session::process', 'Session::handle_logon (acceptor and initiator arms)', 'Session::enforce', 'Session::sequence_check', 'Session::recover_seqnums', 'Session::stop',
             'Session::do_state_change', 'SessionID(const f8String&, const f8String&, const f8String&)', 'SessionID::operator!=', 'Connection::set_hb_interval/get_role', 'catch clauses of Session::process']

def lens_list(tier):
    return [0x2222, 0x1221, 0x2112] if tier == 'quick' else [a << 12 | b << 8 | c << 4 | d for a in (1, 2) for b in (1, 2) for c in (1, 2) for d in (1, 2)]

def run(ctx):
    kf, defs = sessin.kf_defs('C23')
    info = sessin.build(ctx)
    sessin.build(ctx, 'sess_sid.c', roots=['vf_sid_init', 'vf_sid_eq', 'vf_sid_ne', 'vf_sid_same_sender', 'vf_sid_same_target', 'vf_sid_same_side_sender', 'vf_sid_same_side_target',
                                            'vf_msg_set_compids', 'vf_msg_sci', 'vf_msg_tci'], light=True)
    ctx.assumptions += sessin.ASSUME + ['no client list configured (LoginParameters::_clients empty); client-list membership and IP matching are outside this run',
                                        'no SessionConfig (_sf null): loggers/persister are not created at logon; no login schedule']
    for lens in lens_list(ctx.tier):
        ctx.add(Harness('C23_sid_%04x' % lens, VERIF + '/harness/C23_sid.c', defines=defs + ['LENS=0x%04x' % lens, 'VF_MAXCOPY=40'], unwind=12, unwindset=sessin.US,
                        timeout=600, functions=FUN_SID, stubs=['std::string out-of-line members: models/cxx.c', 'SessionID::make_id (log text) not run'],
                        bounds='all pairs of identities whose SenderCompID/TargetCompID have lengths %d,%d / %d,%d and arbitrary bytes' % (lens >> 12 & 15, lens >> 8 & 15, lens >> 4 & 15, lens & 15),
                        desc='SessionID comparison operators against byte-wise equality'))
    for role, rn in ((0, 'acceptor'), (1, 'initiator')):
        for lens in lens_list(ctx.tier)[:2 if ctx.tier == 'quick' else None]:
            ctx.add(Harness('C23_logon_%s_%04x' % (rn, lens), VERIF + '/harness/C23_logon.c', defines=defs + ['ROLE=%d' % role, 'LENS=0x%04x' % lens, 'VF_MAXCOPY=40'], unwind=12,
                            unwindset=sessin.US, timeout=900, functions=FUN_LOGON, stubs=sessin.STUBS + ['Timer::schedule := recorded'],
                            bounds='one Logon processed by a %s in its pre-logon state; own/inbound CompIDs of lengths 0x%04x with arbitrary bytes; enforce_compids, silent_disconnect, reliable, authentication result, '
                                   'ResetSeqNumFlag absent/N/Y, HeartBtInt 1..3600, MsgSeqNum 0..9999999, pre-logon sequence numbers 1..9999999' % (rn, lens),
                            desc='logon acceptance oracle over the real handle_logon'))
    ctx.solve(jobs=4)
    ctx.handle_failures(replay, kf)
    announce_known(ctx, kf, replay)
    return ctx.finish()

def replay(ctx, cx, h=None):
    c = cx.get('cx', cx)
    if 'cx_as' in c:        # SessionID comparison
        lens = int(c.get('cx_lens', 0x2222)); L = [lens >> 12 & 15, lens >> 8 & 15, lens >> 4 & 15, lens & 15]
        a_s, a_t, b_s, b_t = sessin.compids(c, ['cx_as', 'cx_at', 'cx_bs', 'cx_bt'], L)
        # equality pattern per component (sender with sender, target with target) is what matters
        sv = sessin.compids(c, ['cx_as', 'cx_bs'], [L[0], L[2]]); tv = sessin.compids(c, ['cx_at', 'cx_bt'], [L[1], L[3]])
        steps, raw = sessin.run_steps(ctx, ['sid,as=%s,at=%s,bs=%s,bt=%s' % (sv[0], 'x' + tv[0], sv[1], 'x' + tv[1])])
        if not steps: return False, 'no output: ' + raw
        r = steps[0]; equal = sv[0] == sv[1] and tv[0] == tv[1]
        bad = (r['eq'] != int(equal)) or (r['ne'] != int(not equal))
        return bad, 'SessionID(%s,%s) vs (%s,%s): operator== -> %d, operator!= -> %d (identities %s)' % (sv[0], tv[0], sv[1], tv[1], r['eq'], r['ne'], 'equal' if equal else 'differ')
    # logon
    lens = int(c.get('cx_lens', 0x2222)); L = [lens >> 12 & 15, lens >> 8 & 15, lens >> 4 & 15, lens & 15]
    own_s, own_t, msg_s, msg_t = sessin.compids(c, ['cx_own_s', 'cx_own_t', 'cx_msg_s', 'cx_msg_t'], L)
    role = int(c.get('cx_role', 0)); enforce = int(c.get('cx_enforce', 1)); auth = int(c.get('cx_auth', 1))
    reset = 'Y' if c.get('cx_has_reset') and c.get('cx_reset') else ('N' if c.get('cx_has_reset') else '-')
    init = 'init,conn=1,role=%s,sender=%s,target=%s,state=%d,recv=%d,send=%d,enforce=%d,silent=%d,reliable=%d,active=1,auth=%d' % (
        'A' if role == 0 else 'I', own_s, own_t or 'T', 3 if role == 0 else 5, int(c.get('cx_pre_recv', 1)), int(c.get('cx_pre_send', 1)), enforce, int(c.get('cx_silent', 0)), int(c.get('cx_reliable', 0)), auth)
    if int(c.get('cx_req_s', 0)) or int(c.get('cx_req_r', 0)): init += ',reqsend=%d,reqrecv=%d' % (int(c.get('cx_req_s', 0)), int(c.get('cx_req_r', 0)))
    msg = 'msg,type=A,seq=%d,sci=%s,tci=%s,hbi=%d,reset141=%s' % (int(c.get('cx_seq', 1)), msg_s, msg_t, int(c.get('cx_hbi', 30)), reset)
    steps, raw = sessin.run_steps(ctx, [init, msg])
    if not steps: return False, 'no output: ' + raw
    r = steps[-1]; logon_replies = [s for s in r['sent'] if s['type'] == 'A']
    if role == 0:
        tci_ok = msg_t == own_s; completed = r['state'] == 1
        bad = (completed and enforce and not tci_ok) or (completed and not auth) or (completed and (len(logon_replies) != 1 or int(logon_replies[0].get('108', -1)) != int(c.get('cx_hbi', 30)))) \
              or (completed and reset == 'Y' and (r['send'] != 1 or r['recv'] != 2)) or (enforce and not tci_ok and (r['state'] != 2 or not r['shutdown'] or logon_replies))
        eff = 1 if reset == 'Y' else (int(c.get('cx_req_r', 0)) or int(c.get('cx_pre_recv', 1)))
        bad = bad or ((not enforce or tci_ok) and auth and int(c.get('cx_seq', 1)) == eff and not completed)
    else:
        mirror = msg_t == own_s and msg_s == own_t
        bad = (enforce and not mirror and (r['state'] != 2 or not r['shutdown'])) or (r['state'] == 1 and enforce and not mirror)
    return bool(bad), 'native: %s %s => %s' % (init, msg, raw[-300:])
