"""C18 resend requests are answered with a complete, faithful replay (session world, outbound side)"""
import os
from vf.core import *
from props import sessb
from props.C16 import US
FUN = ['FIX8::Session::handle_resend_request', 'Session::retrans_callback', 'Session::generate_sequence_reset', 'Session::do_state_change'] + sessb.FUN_SEND
STUBS = sessb.STUBS_SEND + ['Session::enforce := accepted (inbound checks: C19)', 'MessageBase::get<BeginSeqNo>/get<EndSeqNo> := the symbolic request range',
                            'Session::create_msg := abstract SequenceReset object from a fixed pool; body fields NewSeqNo/GapFillFlag recorded at add_field',
                            'Message::factory(stored bytes) := abstract message with 34 = its key, 52 = its original SendingTime, encoding = the stored bytes',
                            'Persister::get(from,to,session,callback) := the documented range protocol (persist.cpp:322-361) over a symbolic store (real persisters: C26)']

def run(ctx):
    kf = known_findings('C18'); defs = kf_defines(kf)
    sessb.build(ctx)
    T = ctx.tier == 'thorough'
    def H(name, defines, maxs, desc, tier='quick'):
        ctx.add(Harness(name, VERIF + '/harness/C18_resend.c', defines=defs + defines + ['MAXS=%d' % maxs, 'VF_MAXCOPY=5'], unwind=maxs + 2, unwindset=[u for u in US if not u.startswith(('is_hdr', 'hidx', 'midx', 'main.'))] + ['is_hdr.0:%d' % (2 * maxs + 4), 'hidx.0:%d' % (2 * maxs + 4), 'midx.0:%d' % (2 * maxs + 4)],
                        timeout=900 if not T else 3000, mem_gb=12, functions=FUN, stubs=STUBS, nochecks=False, desc=desc, tier=tier,
                        bounds='store = any subset of the sent numbers within {1..%d} (bodies 1-2 symbolic bytes, original SendingTime symbolic); _next_send_seq n in 1..%d; request 1 <= B <= n-1, E = 0 or B <= E <= n-1; always_seqnum_assign off' % (maxs, maxs + 2)))
    H('C18_resend_s3', [], 3, 'ResendRequest over a persister with up to 3 stored numbers')
    H('C18_resend_nopersist', ['NOPERSIST'], 3, 'ResendRequest without a persister (single gap fill)')
    H('C18_resend_s5', [], 5, 'ResendRequest over a persister with up to 5 stored numbers', tier='thorough')
    ctx.assumptions += ['operator new never fails', 'the socket accepts every byte written', 'requests for numbers that were actually sent (B <= n-1, E <= n-1); requests beyond the last sent number (scenarios #5/#6/#8) are outside the statement',
                        'a closing SequenceReset-GapFill that starts right after the requested range is tolerated (the statement constrains the range only); the session must continue from the last NewSeqNo it announced']
    ctx.solve(jobs=4)
    ctx.handle_failures(replay, kf)
    announce_known(ctx, kf, replay)
    return ctx.finish()

def replay(ctx, cx, h=None):
    return sessb.replay_resend(ctx, cx)
