"""C03 codec memory safety and totality.  Kernel part: the real tokenizers extract_element / extract_element_fixed_width
(leaf wrappers) on fully symbolic input with output buffers of exactly the callers' capacity; object part (codec.add_c03_objects):
Message::factory's message-table lookup (C03_mtype) and termination of decode_group's element loop (C03_gloop) over the token-level decoder world."""
import os
from vf.core import *
from props import codec
FUNK = ['FIX8::MessageBase::extract_element(const char*, unsigned, char*, char*)', 'FIX8::MessageBase::extract_element_fixed_width']

def run(ctx):
    kf = codec.kfs('C03'); defs = kf_defines(kf)
    roots = ['vf_extract_element', 'vf_extract_element_fw']
    # the wrappers call the extractors the way decode/decode_group do (no explicit capacity): the verification build scales
    # FIX8_MAX_FLD_LENGTH to the harness capacity, so a capacity-aware extractor (default = FIX8_MAX_FLD_LENGTH) sees the real bound
    for cap in (24, 32):
        llc = ctx.build_ir('codec_c03.cpp', 'leaf', extra=['-DFIX8_MAX_FLD_LENGTH=%d' % cap])
        ctx.translate(llc, roots, 'c03k_%d.c' % cap)
    ll = ctx.build_ir('codec_c03.cpp', 'leaf')
    ctx.translate(ll, roots, 'c03kgen.c', opts=['--prefix', 'gen_'])
    exe = ctx.native('codecdiff', ['replay/codec_diff.c', ctx.work + '/c03kgen.c', 'shims/codec_c03.cpp'])
    r = sh([exe, str(ctx.seed)])
    if r.returncode != 0: raise Broken('translator validation failed: ' + r.stdout[-500:])
    ctx.validation.append(dict(kernels=roots, result=r.stdout.strip()))
    # (input length, tag capacity, value capacity): 24 = scaled FIX8_MAX_FLD_LENGTH (decode/decode_group buffers);
    # 32 = the real MAX_MSGTYPE_FIELD_LEN of extract_header's tag/len/mtype and FIXReader::read's tag (unscaled)
    quick = [(0, 24, 24, 3), (1, 24, 24, 3), (2, 24, 24, 3), (3, 24, 24, 3), (12, 24, 24, 3), (28, 24, 24, 2), (32, 24, 24, 1), (40, 32, 32, 1)]
    full = [(n, 24, 24, 3) for n in range(0, 41)] + [(n, 32, 32, 3) for n in (33, 34, 36, 40, 44)]
    for n, ct, cv, modes in (full if ctx.tier == 'thorough' else quick):
        for mode, nm in ((0, 'ext'), (1, 'fw')):
            if not (modes >> mode) & 1: continue
            ctx.add(Harness('C03_%s_n%d_c%d' % (nm, n, ct), VERIF + '/harness/C03_ext.c', defines=defs + ['NIN=%d' % n, 'CAPT=%d' % ct, 'CAPV=%d' % cv, 'MODE=%d' % mode, 'KFILE="c03k_%d.c"' % ct],
                            unwind=max(n, ct, cv) + 2, timeout=900, functions=[FUNK[mode]],
                            bounds='every byte string of exactly %d bytes (object ends with the input); tag buffer %d bytes, value buffer %d bytes%s' % (
                                n, ct, cv, '; every val_sz <= %d' % (cv - 1) if mode else '') + (' (24 = FIX8_MAX_FLD_LENGTH scaled from 2048)' if ct == 24 else ' (real MAX_MSGTYPE_FIELD_LEN)'),
                            desc='CBMC pointer/bounds/overflow checks + token grammar oracle', tier='quick'))
    codec.add_c03_objects(ctx, defs)
    codec.add_c03_databound(ctx, defs)
    ctx.assumptions += ['buffer capacities: callers pass char[FIX8_MAX_FLD_LENGTH] (scaled 2048 -> 24) or char[MAX_MSGTYPE_FIELD_LEN=32]; inputs longer than the capacity are part of the space',
                        'isdigit is the "C" locale classification', 'allocation never fails']
    ctx.solve(jobs=codec.JOBS)
    ctx.handle_failures(replay, kf)
    announce_known(ctx, kf, replay)
    return ctx.finish()

def replay(ctx, cx, h=None):
    return codec.replay(ctx, cx, h)
