"""C15 socket reader framing: real FIXReader::read / sockRead / set_preamble_sz + extract_element + fast_atoi<unsigned> over the socket model"""
import os
from vf.core import *
ROOTS = ['vf_ctx_init', 'vf_reader_init', 'vf_str_ctor', 'vf_max_msg_len', 'vf_max_fld_len', 'vf_bg_sz', 'vf_read']
FUN = ['FIX8::FIXReader::read(f8String&)', 'FIX8::FIXReader::sockRead(char*,size_t)', 'FIX8::FIXReader::set_preamble_sz()',
       'FIX8::MessageBase::extract_element(const char*,unsigned,char*,char*[,capacities])', 'FIX8::fast_atoi<unsigned>',
       'std::string header code instantiated in runtime/connection.cpp (_M_construct<const char*>, basic_string(const char*))']
STUBS = ['Poco::Net::StreamSocket::receiveBytes := models/poco_sock.c (returns an arbitrary 1..min(n,available) next bytes of the symbolic stream, 0 at stream end; no EAGAIN/negative returns)',
         'Session::get_ctx := the harness context object (only _beginStr = "FIX.4.2" is read)', 'Session::update_received := counting witness',
         'IllegalMessage/InvalidVersion/InvalidBodyLength/PeerResetConnection constructors := no-op (message text formatting only; thrown type kept)',
         'GlobalLogger::is_loggable := false', 'std::string out-of-line members, operator new, __cxa_*: models/cxx.c']
RD = '_ZN4FIX89FIXReader4readERNSt7__cxx1112basic_stringIcSt11char_traitsIcESaIcEEE'
SR = '_ZN4FIX89FIXReader8sockReadEPcm'
RB = 'x__ZN4Poco3Net12StreamSocket12receiveBytesEPvii'
EE = '_ZN4FIX811MessageBase15extract_elementEPKcjPcS3_'
EE2 = '_ZN4FIX811MessageBase15extract_elementEPKcjPcS3_jj'     # capacity-aware signature (after the C03 repair); both are listed, CBMC ignores the absent one
AT = '_ZN4FIX89fast_atoiIjEET_PKcc'
CMP = 'x__ZNKSt7__cxx1112basic_stringIcSt11char_traitsIcESaIcEE7compareEPKc'
SCALE = 'scaled build: _max_msg_len=96 (real 8192), FIX8_MAX_FLD_LENGTH=24 (real 2048), tag buffer 32 (unscaled); BeginString FIX.4.2'

def build(ctx):
    shim = ctx.build_ir('c15.cpp', 'cut')
    return ctx.translate(shim, ROOTS, 'c15.c', stubfiles=['common.stubs', 'c15.stubs'], models=['cxx.c', 'stubs.c', 'poco_sock.c'])

def us(mainb, digits, sock, chunk, ee, copy, strlen=97):
    return ['main.%d:%d' % (i, mainb) for i in range(0, 10)] + [RD + '.0:%d' % digits, RD + '.1:%d' % digits, RD + '.2:%d' % digits, SR + '.0:%d' % sock, RB + '.0:%d' % chunk, EE + '.0:%d' % ee, EE2 + '.0:%d' % ee,
            AT + '.0:%d' % digits, CMP + '.0:9', 'vf_copy.0:%d' % copy, 'x_strlen.0:%d' % max(strlen, 28)]   # (strlen also runs over the 25-character literal of PeerResetConnection)

def valid(ctx, name, m, dig, minb, maxb, split, tier, timeout):
    """split: True = one split point per request, 2 = two split points, False = every chunking"""
    stream = m * (14 + dig + maxb + 7); chunk = max(13, maxb)
    defs = ['M=%d' % m, 'DIG=%d' % dig, 'MINBODY=%d' % minb, 'MAXBODY=%d' % maxb, 'STREAM_MAX=%d' % stream, 'VF_CHUNK_MAX=%d' % chunk, 'VF_MAXCOPY=%d' % (stream // m + 1)] + (['VF_SPLIT2'] if split == 2 else ['VF_SPLIT1'] if split else [])
    ctx.add(Harness(name, VERIF + '/harness/C15_valid.c', defines=defs, unwind=4,
                    unwindset=us(stream + 2, dig + 2, 4 if split == 2 else 3 if split else chunk + 2, chunk + 1, 14 + dig + 2, stream // m + 3),
                    timeout=timeout, mem_gb=16, functions=FUN, stubs=STUBS, tier=tier,
                    bounds='%d valid message(s), BodyLength %d..%d (%d digit(s)), body and the 7 trailer bytes symbolic; %s; %s' % (
                        m, max(minb, 10 ** (dig - 1)), min(maxb, 10 ** dig - 1), dig, 'every sockRead request delivered in at most three chunks (two arbitrary split points)' if split == 2 else 'every sockRead request delivered in at most two chunks with an arbitrary split point' if split else 'every receiveBytes call returns an arbitrary 1..n bytes (all chunkings)', SCALE),
                    desc='valid stream is returned byte-identical, in order, consuming exactly its bytes'))

def corrupt(ctx, name, L, fixp, mode, tier, timeout, kfdefs, lenc=None, tpl=0, backend='default', fldw=10):
    """mode: 'all' = every chunking, 'split' = one arbitrary split point per request, 'whole' = one chunk per request"""
    chunk = max(13, L - 13)
    defs = kfdefs + ['L=%d' % L, 'FIXP=%d' % fixp, 'TPL=%d' % tpl, 'FLDW=%d' % fldw, 'STREAM_MAX=%d' % L, 'VF_CHUNK_MAX=%d' % chunk, 'VF_MAXCOPY=%d' % max(L + 1, 26)] + {'all': [], 'split': ['VF_SPLIT1'], 'whole': ['VF_WHOLE']}[mode] + (['LENC=%d' % lenc] if lenc else [])
    shape = {0: 'arbitrary bytes', 1: 'bytes of the shape "8=FIX.4.2|9=" <1 arbitrary byte> SOH <arbitrary bytes>', 2: 'bytes of the shape "8=FIX.4.2|9=" <%d arbitrary bytes> SOH <arbitrary bytes> (BodyLength text of every digit count 0..%d, every digit symbolic: all values incl. 2^32-20..2^32-1 and those wrapping unsigned)' % (fldw, fldw),
             3: 'bytes of the shape <13 arbitrary bytes> "1"* SOH', 4: 'bytes of the shape "8=FIX.4.2|9" <3 arbitrary bytes> SOH <arbitrary bytes>', 5: 'bytes of the shape "8=FIX.4.2" <1 arbitrary byte> SOH "9=" <arbitrary bytes>'}[tpl]
    ctx.add(Harness(name, VERIF + '/harness/C15_corrupt.c', defines=defs, unwind=4, backend=backend,
                    unwindset=us(L + 2, L - 13 + 2, {'all': chunk + 2, 'split': 4, 'whole': 3}[mode], chunk + 1, L + 2, max(L + 1, 26) + 2, strlen=L + 2),
                    timeout=timeout, mem_gb=16, functions=FUN, stubs=STUBS, tier=tier,
                    bounds='stream of %s %s%s; %s; %s' % (('exactly %d' % lenc) if lenc else ('0..%d' % L), shape, (' after the fixed text "8=FIX.4.2|9="' if fixp and not tpl else ''),
                        {'all': 'all chunkings', 'split': 'at most two chunks per request (arbitrary split point)', 'whole': 'one chunk per request'}[mode], SCALE),
                    desc='a message is returned only for (and for every) well-formed preamble; otherwise error, no message; memory safety of read/extract_element'))

def run(ctx):
    kf = known_findings('C15'); defs = kf_defines(kf) + [d for d in os.environ.get('VF_EXTRA_DEFS', '').split() if d]
    info = build(ctx)
    q = 'quick'; t = 'thorough'
    valid(ctx, 'C15_valid_m1_d1_split', 1, 1, 1, 9, True, q, 600)
    corrupt(ctx, 'C15_len_L24_split', 24, 12, 'split', q, 600, defs)                       # BodyLength field and body arbitrary, any length up to 24
    corrupt(ctx, 'C15_any_L16_split', 16, 0, 'split', q, 600, defs)                        # whole preamble arbitrary
    corrupt(ctx, 'C15_tag2_L27_whole', 27, 11, 'whole', q, 600, defs, lenc=27, tpl=4)       # second field's tag arbitrary
    corrupt(ctx, 'C15_bs_L26_whole', 26, 9, 'whole', q, 600, defs, lenc=26, tpl=5)          # BeginString value one byte longer (embedded NUL)
    corrupt(ctx, 'C15_len1_L32_whole', 32, 12, 'whole', q, 600, defs, lenc=32, tpl=1)      # one-byte BodyLength field (non-numeric lengths)
    corrupt(ctx, 'C15_len10_L36_whole', 36, 12, 'whole', q, 600, defs, lenc=36, tpl=2)     # ten-byte BodyLength field (wrap-around of unsigned)
    corrupt(ctx, 'C15_longfield_L35_whole', 35, 0, 'whole', q, 600, defs, lenc=35, tpl=3)  # long first field / digits-only garbage (tag[32], val[FLD])
    valid(ctx, 'C15_valid_m1_d1_split2', 1, 1, 1, 9, 2, t, 3000)
    valid(ctx, 'C15_valid_m1_d2_split2', 1, 2, 10, 12, 2, t, 3000)
    valid(ctx, 'C15_valid_m1_d1_all', 1, 1, 1, 9, False, t, 3000)
    valid(ctx, 'C15_valid_m2_d1_split', 2, 1, 1, 9, True, t, 3000)
    valid(ctx, 'C15_valid_m1_d2_all', 1, 2, 10, 12, False, t, 3000)
    valid(ctx, 'C15_valid_m2_d2_all', 2, 2, 10, 11, False, t, 3000)
    corrupt(ctx, 'C15_len12_L38_whole', 38, 12, 'whole', t, 3000, defs, lenc=38, tpl=2, fldw=12)   # twelve-byte BodyLength field
    corrupt(ctx, 'C15_len_L34_split', 34, 12, 'split', t, 3000, defs)
    corrupt(ctx, 'C15_any_L20_split', 20, 0, 'split', t, 3000, defs)
    corrupt(ctx, 'C15_any_L24_all', 24, 0, 'all', t, 3000, defs)
    corrupt(ctx, 'C15_any_L36_split', 36, 0, 'split', t, 3000, defs)
    ctx.assumptions += ['socket model: receiveBytes never returns a negative value (EAGAIN spinning and socket errors outside the claim); stream end = 0 = peer closed',
                        'buffered-read variant (FIX8_EXPERIMENTAL_BUFFERED_SOCKET_READ) and SSL not compiled', SCALE,
                        'the Session behind the reader is an opaque handle: get_ctx/update_received are cut points']
    ctx.solve(jobs=4)
    ctx.handle_failures(replay, kf)
    announce_known(ctx, kf, replay)
    return ctx.finish()

def _exe(ctx):
    return ctx.native('c15replay', ['replay/c15_replay.cpp', REPO + '/runtime/connection.cpp'], flags=('-O1', '-g', '-fsanitize=address,undefined', '-fno-access-control'),
                      libs=['-L' + REPO + '/runtime/.libs', '-lfix8', '-L' + REPO + '/utests/.libs', '-lutest', '-Wl,-rpath,' + REPO + '/runtime/.libs', '-Wl,-rpath,' + REPO + '/utests/.libs'])

def _run(exe, st, nmsg, chunks):
    hexs = ''.join('%02x' % (int(b) & 255) for b in st)
    import subprocess
    r = subprocess.run([exe, hexs or '-', str(nmsg)] + [str(int(k)) for k in chunks], stdout=subprocess.PIPE, stderr=subprocess.STDOUT, text=True, errors='replace', cwd=os.environ.get('VF_TMP', '/tmp'),
                       env=dict(os.environ, ASAN_OPTIONS='detect_leaks=0'))          # (exception texts echo raw stream bytes)
    out = ''.join(ch if 32 <= ord(ch) < 127 or ch == '\n' else '.' for ch in r.stdout.strip())
    m = re.search(r'ERROR: AddressSanitizer: (\S+).*?(?:WRITE|READ) of size \d+', out, re.S)
    tail = ' | '.join(l for l in out.splitlines() if l.startswith(('read#', '  VIOLATED', 'VIOLATED', 'ok')))[-500:]
    if not tail: tail = out[-300:].replace('\n', ' | ')
    if m:
        fr = re.findall(r'#\d+ 0x[0-9a-f]+ in (\S+)', out)[:3]
        tail = 'AddressSanitizer: %s in %s' % (m.group(1), ' <- '.join(f.split('(')[0] for f in fr))
    return r.returncode != 0, tail

def replay(ctx, cx, h=None):
    """replays the stream (and the chunk sizes the solver chose) on the real FIXReader::read built natively with ASan/UBSan at the real
    buffer sizes; a counterexample that depends on the scaled FIX8_MAX_FLD_LENGTH is re-scaled (digit run extended by 2048-24) and replayed again"""
    c = cx.get('cx', cx)
    exe = _exe(ctx)
    st = [int(b) & 255 for b in c.get('cx_stream', [])]; n = int(c.get('cx_stream_len', len(st))); st = st[:n]
    nmsg = len(c['cx_len']) if isinstance(c.get('cx_len'), list) else 1
    chunks = c.get('cx_chunk', []) if isinstance(c.get('cx_chunk', []), list) else []
    bad, what = _run(exe, st, nmsg, chunks)
    if bad: return True, what
    run_ = 0; best = 0
    for b in st:
        run_ = 0 if b == 1 else run_ + 1; best = max(best, run_)
    if best >= 24 and len(st) > 14 and 48 <= st[13] <= 57:
        st2 = st[:13] + [st[13]] * (2048 - 24) + st[13:]
        bad, what2 = _run(exe, st2, nmsg, [])
        if bad: return True, 're-scaled to the real FIX8_MAX_FLD_LENGTH=2048 (digit run extended by 2024 bytes): ' + what2
    # a counterexample that depends on the scaled message buffer (96 bytes): re-scale the BodyLength value to the real FIX8_MAX_MSG_LENGTH,
    # keeping the number of digits of the BodyLength text, and let the peer send that many bytes plus a trailer
    try:
        txt = bytes(st)
        m_ = re.match(rb'8=([^\x01]*)\x019=([0-9]+)\x01', txt)
        if m_:
            digits = m_.group(2); v = int(digits); real = v + (8192 - 96)
            if v <= 96 and len(str(real)) <= len(digits):
                st4 = list(b'8=' + m_.group(1) + b'\x019=' + str(real).zfill(len(digits)).encode() + b'\x01') + [120] * real + list(b'10=000\x01')
                bad, what4 = _run(exe, st4, nmsg, [])
                if bad: return True, 're-scaled to the real FIX8_MAX_MSG_LENGTH=8192 (BodyLength %s -> %d, same digit count): %s' % (digits.decode(), real, what4)
    except Exception: pass
    # the solver's stream is short: a reader that accepted an oversized length only overruns its buffer if the peer keeps sending
    bad, what3 = _run(exe, st + [120] * 9000, nmsg, [])
    if bad: return True, 'stream continued with 9000 filler bytes (peer keeps sending): ' + what3
    return False, what
