// native replay of the tokenizer kernels at the harness capacities: built with -DFIX8_MAX_FLD_LENGTH=<capacity> (like the verification
// build), the extractors are called the way decode/decode_group call them (no explicit capacity) on heap buffers of exactly that size
//   <ext|fw> <hexinput> <valsz> <capt> <capv>     exit 5: consumed more than the input / separator charged but absent; ASan aborts on overflow
#include <fix8/f8includes.hpp>
#include <cstdio>
#include <cstdlib>
#include <cstring>
using namespace FIX8;
int main(int argc, char **argv)
{
  if (argc < 6) return 9;
  std::string h(argv[2]), in; for (size_t i = 0; i + 1 < h.size(); i += 2) in += char(strtoul(h.substr(i, 2).c_str(), 0, 16));
  bool fw = !strcmp(argv[1], "fw"); unsigned vs = atoi(argv[3]), capt = atoi(argv[4]), capv = atoi(argv[5]);
  char *src = new char[in.size() ? in.size() : 1]; memcpy(src, in.data(), in.size());
  char *tag = new char[capt], *val = new char[capv];
  unsigned r = fw ? MessageBase::extract_element_fixed_width(src, in.size(), vs, tag, val) : MessageBase::extract_element(src, in.size(), tag, val);
  printf("RESULT %u of %zu (FIX8_MAX_FLD_LENGTH=%d)\n", r, in.size(), int(FIX8_MAX_FLD_LENGTH));
  return r > in.size() || (fw && r > 0 && in[r - 1] != 1) ? 5 : 0;
}
