// native replay for C07: real Message::calc_chksum on a heap buffer that ends where the requested range ends (ASan)
#include <fix8/f8includes.hpp>
#include <cstdio>
#include <cstdlib>
#include <cstring>
int main(int argc, char **argv)
{
  size_t sz = strtoull(argv[1], 0, 10); unsigned off = strtoul(argv[2], 0, 10); int len = atoi(argv[3]);
  size_t elen = len == -1 ? sz - off : size_t(len), objsz = off + elen;
  char *buf = static_cast<char*>(malloc(objsz ? objsz : 1));
  size_t i = 0;
  if (strcmp(argv[4], "-")) for (char *p = strtok(argv[4], ","); p && i < objsz; p = strtok(0, ",")) buf[i++] = char(atoi(p));
  unsigned sum = 0; for (size_t k = off; k < objsz; ++k) sum += static_cast<unsigned char>(buf[k]);
  unsigned r = FIX8::Message::calc_chksum(buf, sz, off, len);
  printf("sz=%zu off=%u len=%d result=%u expected=%u\n", sz, off, len, r, sum & 0xff);
  return r == (sum & 0xff) ? 0 : 1;
}
