// native replay for C15: the real FIXReader::read (runtime/connection.cpp compiled here with ASan/UBSan, real buffer sizes)
// reading from an interposed Poco::Net::StreamSocket::receiveBytes that serves a given byte stream in given chunk sizes.
// usage: c15replay <hex stream | -> <number of read calls> [chunk sizes ...]
#include <fix8/f8includes.hpp>
#include <cstdio>
#include <cstdlib>
#include <cstring>
#include <string>
#include <vector>
#include <utests/utest_types.hpp>
#include <utests/utest_router.hpp>
#include <utests/utest_classes.hpp>
using namespace FIX8;
static std::string g_stream; static size_t g_pos; static std::vector<int> g_chunks; static size_t g_call;
int Poco::Net::StreamSocket::receiveBytes(void *buffer, int length, int)
{
  if (g_pos >= g_stream.size()) return 0;
  size_t k = g_call < g_chunks.size() && g_chunks[g_call] > 0 ? g_chunks[g_call] : length; ++g_call;
  k = std::min(k, std::min(size_t(length), g_stream.size() - g_pos));
  memcpy(buffer, g_stream.data() + g_pos, k); g_pos += k; return int(k);
}
struct RSession : Session
{
  RSession(const F8MetaCntx& c) : Session(c) {}
  bool handle_application(const unsigned, const Message *&) override { return true; }
};
int main(int argc, char **argv)
{
  if (argc < 3) return 2;
  if (strcmp(argv[1], "-")) for (const char *p = argv[1]; p[0] && p[1]; p += 2) { unsigned b; sscanf(p, "%2x", &b); g_stream += char(b); }
  const int calls = atoi(argv[2]);
  for (int i = 3; i < argc; ++i) g_chunks.push_back(atoi(argv[i]));
  RSession *sess = new RSession(UTEST::ctx());                 // BeginString FIX.4.2
  Poco::Net::StreamSocket *sock = new Poco::Net::StreamSocket;   // never connected: receiveBytes is interposed above
  FIXReader *rd = new FIXReader(sock, *sess, pm_thread);
  const unsigned maxlen = FIXReader::_max_msg_len; const size_t bg = rd->_bg_sz;
  int bad = 0; size_t start = 0;
  for (int c = 0; c < calls; ++c)
  {
    // reference parse of the stream at 'start'
    const std::string s = g_stream.substr(start);
    static const char pre[] = "8=FIX.4.2\001" "9=";
    bool pre_ok = s.size() >= 12 && !memcmp(s.data(), pre, 12);
    size_t q = 12, nd = 0; unsigned long long v = 0;
    for (; q < s.size() && isdigit((unsigned char)s[q]); ++q, ++nd) { v = v * 10 + (s[q] - '0'); if (v > 100000000ULL) v = 100000000ULL; }
    bool term_ok = q < s.size() && s[q] == 1 && nd >= 1;
    unsigned long long total = 12 + nd + 1 + v + 7;
    bool wellformed = pre_ok && term_ok && v >= 1 && v <= maxlen && total <= s.size();
    bool must_accept = wellformed && v <= maxlen - bg - 7 && nd <= 9;
    f8String to; bool ret = false; const char *exc = nullptr; std::string what;
    try { ret = rd->read(to); }
    catch (const f8Exception& e) { exc = "f8Exception"; what = e.what(); }
    catch (const std::exception& e) { exc = "std::exception"; what = e.what(); }
    printf("read#%d: %s%s%s; reference: preamble %s, BodyLength %s (digits=%zu value=%llu), %s\n", c, ret ? "returned a message" : exc ? "threw " : "returned false",
      exc ? exc : "", exc ? (" (" + what.substr(0, 60) + ")").c_str() : "", pre_ok ? "ok" : "bad", term_ok ? "numeric" : "not numeric/terminated", nd, v, wellformed ? "well-formed" : "not well-formed");
    if (ret && !wellformed) { ++bad; printf("  VIOLATED: a message of %zu bytes was handed on although the stream is not a well-formed message\n", to.size()); }
    if (ret && wellformed && (to != s.substr(0, total) || g_pos != start + total)) { ++bad; printf("  VIOLATED: returned bytes/consumption differ from the framed message (returned %zu bytes, consumed to %zu, expected %llu)\n", to.size(), g_pos, start + total); }
    if (!ret && must_accept) { ++bad; printf("  VIOLATED: a well-formed message within the limit was not returned\n"); }
    if (ret && wellformed) start += total; else break;
  }
  printf("%s\n", bad ? "VIOLATED" : "ok");
  fflush(stdout);
  _exit(bad ? 1 : 0);
}
