// native replay for C26: run an operation sequence on the real persister against a std::map reference
#include <fix8/f8includes.hpp>
#include <cstdio>
#include <cstdlib>
#include <cstring>
#include <unistd.h>
#include <map>
#include <vector>
using namespace FIX8;
static std::vector<std::pair<unsigned, std::string>> cb_recs; static int cb_done;
struct RSession : Session
{
  RSession(const F8MetaCntx& c, const SessionID& sid) : Session(c, sid) {}
  bool handle_application(const unsigned, const Message *&) override { return true; }
  bool rec_cb(const SequencePair& with, RetransmissionContext& rctx) { if (rctx._no_more_records) ++cb_done; else cb_recs.push_back({with.first, with.second}); return true; }
};
int main(int argc, char **argv)
{
  Persister *p; std::string tmpdir;
  const bool hv(argc > 1 && !strcmp(argv[1], "fileh"));   // fileh: each operation is preceded by (hd, hi) = file positions left by earlier calls
  FilePersister *fpp = nullptr; std::map<unsigned, unsigned> rend; unsigned dlen = 0;
  if (argc > 1 && (!strcmp(argv[1], "file") || hv))   // real FilePersister on a fresh temporary directory
  {
    char tmpl[] = "/tmp/vf_c26_XXXXXX"; const char *dir = mkdtemp(tmpl); if (!dir) { perror("mkdtemp"); return 3; }
    FilePersister *fp = new FilePersister; if (!fp->initialise(dir, "s")) { printf("initialise failed\n"); return 3; } p = fp; fpp = fp; tmpdir = dir;
  }
  else p = new MemoryPersister;
  std::map<unsigned, std::string> ref; bool hasc = false; unsigned ca = 0, cb = 0; int bad = 0;
  alignas(16) static char sess_raw[sizeof(RSession) + 64]; Session *sess = reinterpret_cast<Session*>(sess_raw);   // opaque handle, as in the harness
  // positions: data descriptor after stored record hd (what get(hd) leaves; realised by that very call), index descriptor after the
  // control slot (hi == 1, realised by re-putting the current control record) or at the end of the index file (hi == 2, lseek)
  auto havoc = [&](unsigned hd, unsigned hi) {
    if (!fpp) return;
    if (hd && ref.count(hd)) { std::string t; fpp->get(hd, t); }
    if (hi == 1 && hasc) fpp->put(ca, cb); else if (hi == 2) lseek(fpp->_iod, 0, SEEK_END);
  };
  const int step(hv ? 8 : 6);
  int i = 2;
  for (; i + step - 1 < argc; i += step)
  {
    if (hv) havoc(strtoul(argv[i + 6], 0, 10), strtoul(argv[i + 7], 0, 10));
    unsigned op = atoi(argv[i]), a = strtoul(argv[i + 1], 0, 10), b = strtoul(argv[i + 2], 0, 10); char d[2] = { char(atoi(argv[i + 3])), char(atoi(argv[i + 4])) }; unsigned len = atoi(argv[i + 5]);
    unsigned last = ref.empty() ? 0 : ref.rbegin()->first;
    if (op == 0) { bool ok = p->put(a, std::string(d, len)); bool exp = a != 0 && !ref.count(a); if (ok != exp) { ++bad; printf("op%d put(%u) returned %d expected %d\n", (i - 2) / step, a, ok, exp); } if (exp) { ref[a] = std::string(d, len); dlen += len; rend[a] = dlen; } }
    else if (op == 1) { p->put(a, b); hasc = true; ca = a; cb = b; }
    else if (op == 2) { std::string to; bool ok = p->get(a, to); bool exp = a != 0 && ref.count(a); if (ok != exp || (exp && to != ref[a])) { ++bad; printf("op%d get(%u) hit=%d expected=%d bytes %s\n", (i - 2) / step, a, ok, exp, exp && to == ref[a] ? "equal" : "differ"); } }
    else if (op == 3) { unsigned ga = 0, gb = 0; bool ok = p->get(ga, gb); if (ok != hasc || (hasc && (ga != ca || gb != cb))) { ++bad; printf("op%d control get ok=%d got (%u,%u) expected stored=%d (%u,%u)\n", (i - 2) / step, ok, ga, gb, hasc, ca, cb); } }
    else if (op == 4) { unsigned s; unsigned r = p->get_last_seqnum(s); if (r != last) { ++bad; printf("op%d last=%u expected %u\n", (i - 2) / step, r, last); } }
    else if (op == 5) { unsigned exp = 0; for (auto it = ref.rbegin(); it != ref.rend(); ++it) if (it->first >= a && it->first <= last) exp = it->first; unsigned r = p->find_nearest_highest_seqnum(a, last); if (r != exp) { ++bad; printf("op%d nearest(%u,%u)=%u expected %u\n", (i - 2) / step, a, last, r, exp); } }
    else { cb_recs.clear(); cb_done = 0; std::vector<std::pair<unsigned, std::string>> exp; for (auto& e : ref) if (e.first >= a && (b == 0 || e.first <= b)) exp.push_back(e);
           unsigned got = p->get(a, b, *sess, static_cast<bool (Session::*)(const Session::SequencePair&, Session::RetransmissionContext&)>(&RSession::rec_cb));
           if (cb_recs != exp || got != exp.size() || cb_done != 1) { ++bad; printf("op%d range[%u,%u] visited %zu records (expected %zu), returned %u, completion signals %d\n", (i - 2) / step, a, b, cb_recs.size(), exp.size(), got, cb_done); } }
  }
  if (hv && i + 2 < argc)   // read-back probe after the last operation
  {
    havoc(strtoul(argv[i], 0, 10), strtoul(argv[i + 1], 0, 10)); const unsigned s(strtoul(argv[i + 2], 0, 10));
    std::string to; bool ok = p->get(s, to); bool exp = ref.count(s);
    if (ok != exp || (exp && to != ref[s])) { ++bad; printf("probe get(%u) hit=%d expected=%d bytes %s\n", s, ok, exp, exp && to == ref[s] ? "equal" : "differ"); }
    unsigned ga = 0, gb = 0; bool okc = p->get(ga, gb); if (okc != hasc || (hasc && (ga != ca || gb != cb))) { ++bad; printf("probe control get ok=%d (%u,%u) expected stored=%d (%u,%u)\n", okc, ga, gb, hasc, ca, cb); }
    off_t fl = lseek(fpp->_fod, 0, SEEK_END); if (fl != off_t(dlen)) { ++bad; printf("data file holds %ld bytes, stored records need %u\n", long(fl), dlen); }
  }
  if (!tmpdir.empty()) { delete p; unlink((tmpdir + "/s").c_str()); unlink((tmpdir + "/s.idx").c_str()); rmdir(tmpdir.c_str()); }
  printf("%s\n", bad ? "VIOLATED" : "ok");
  return bad ? 1 : 0;
}
