// Native replay driver of the session world, outbound side (C16, C17, C18): a real FIX8::Session (libfix8.so) over the repo's own
// FIX4.2 unit-test schema (libutest.so), a real ClientConnection/FIXWriter over a loopback TCP socket pair (the bytes are read back
// from the accepted peer socket), real messages and the real encoder.  Public API only: Session::send (both overloads), send_batch,
// handle_resend_request; the persister is a recording Persister subclass (C16/C17) or the real MemoryPersister (C18).
// usage: sessb_replay send  n r always persist op j destroy custom noinc  {kind pre34 pre43 orig}*j [P<0/1 per message put>] [C<0/1 per control put>]
//        sessb_replay resend n B E persist  has1 has2 ... hasK
//        sessb_replay reject n r [fail kind]   (inbound message, by default with a bad checksum, through Session::process)
// exit code: bit0 = C16 oracle violated, bit1 = C17 oracle violated, bit2 = C18 oracle violated; 64 = driver problem
#include <fix8/f8includes.hpp>
#include "utest_types.hpp"
#include "utest_router.hpp"
#include "utest_classes.hpp"
#include <Poco/Net/ServerSocket.h>
#include <Poco/Net/StreamSocket.h>
#include <iostream>
#include <sstream>
#include <vector>
#include <map>
using namespace FIX8;

struct RecPersister : Persister
{
   std::vector<std::pair<unsigned, f8String>> puts; unsigned cs = 0, cr = 0, cn = 0;
   // scripted results (contract of Persister::put: may refuse, e.g. occupied number): k-th call answers script[k], default accept
   std::string pscript, cscript; unsigned att_s = 0, att_r = 0, att_n = 0; bool att_ok = true;
   bool put(const unsigned seqnum, const f8String& what) override
   { const bool ok(puts.size() >= pscript.size() || pscript[puts.size()] != '0'); puts.push_back({seqnum, what}); return ok; }
   bool put(const unsigned s, const unsigned r) override
   { const bool ok(att_n >= cscript.size() || cscript[att_n] != '0'); att_s = s; att_r = r; att_ok = ok; ++att_n; if (ok) { cs = s; cr = r; ++cn; } return ok; }
   bool ctl_matches(unsigned ns, unsigned nr) const
   { return att_n == 0 ? (cn && cs == ns && cr == nr) : (att_s == ns && att_r == nr && (!att_ok || (cs == ns && cr == nr))); }
   bool get(const unsigned seqnum, f8String& to) const override { return false; }
   unsigned get(const unsigned, const unsigned, Session&, bool (Session::*)(const Session::SequencePair&, Session::RetransmissionContext&)) const override { return 0; }
   unsigned get_last_seqnum(unsigned& to) const override { return to = 0; }
   bool get(unsigned& s, unsigned& r) const override { if (!cn) return false; s = cs; r = cr; return true; }
   unsigned find_nearest_highest_seqnum(const unsigned, const unsigned) const override { return 0; }
};

struct RSession : Session
{
   RSession(const F8MetaCntx& c, const SessionID& sid, Persister *p) : Session(c, sid, p) { _timer.clear(); _timer.stop(); _timer.join(); }
   bool handle_application(const unsigned seqnum, const Message *&msg) override { return true; }
   void prime(unsigned n, unsigned r, bool always, Connection *c)
   { _next_send_seq = n; _next_receive_seq = r; _loginParameters._always_seqnum_assign = always; _state = States::st_continuous; _connection = c; }
   unsigned ns() const { return _next_send_seq; }
   unsigned nr() const { return _next_receive_seq; }
   void detach() { _connection = nullptr; }
};

struct Wire
{
   Poco::Net::ServerSocket srv; Poco::Net::StreamSocket *cli = nullptr; Poco::Net::StreamSocket peer; Poco::Net::SocketAddress addr;
   Wire() : srv(Poco::Net::SocketAddress("127.0.0.1", 0)), addr("127.0.0.1", srv.address().port())
   { cli = new Poco::Net::StreamSocket; cli->connect(addr); peer = srv.acceptConnection(); }
   std::string drain()
   {
      std::string out; char buf[65536];
      while (peer.poll(Poco::Timespan(0, 200000), Poco::Net::Socket::SELECT_READ)) { int k(peer.receiveBytes(buf, sizeof buf)); if (k <= 0) break; out.append(buf, k); }
      return out;
   }
};

static std::vector<std::string> split_msgs(const std::string& w)
{
   std::vector<std::string> v; size_t p(0);
   while (p < w.size()) { size_t q(w.find("\00110=", p)); if (q == std::string::npos) { v.push_back(w.substr(p)); break; } q = w.find('\001', q + 1); v.push_back(w.substr(p, q + 1 - p)); p = q + 1; }
   return v;
}
static bool tag(const std::string& m, const char *t, std::string& val)
{
   std::string k(std::string("\001") + t + "="); size_t p(m.find(k));
   if (p == std::string::npos) { if (m.compare(0, strlen(t) + 1, std::string(t) + "=") == 0) p = 0; else return false; } else ++p;
   p += strlen(t) + 1; size_t q(m.find('\001', p)); val = m.substr(p, q - p); return true;
}
static unsigned utag(const std::string& m, const char *t) { std::string v; return tag(m, t, v) ? unsigned(std::stoul(v)) : 0; }
static std::string show(const std::string& m) { std::string s(m); for (auto& c : s) if (c == '\001') c = '|'; return s; }

static Message *make(int kind)
{
   using namespace FIX8::UTEST;
   switch (kind)
   {
   case 0: { NewOrderSingle *m(new NewOrderSingle); *m << new ClOrdID("ord") << new Symbol("BHP") << new HandlInst(HandlInst_AUTOMATED_EXECUTION_ORDER_PRIVATE_NO_BROKER_INTERVENTION)
                << new OrdType(OrdType_LIMIT) << new Side(Side_BUY) << new TransactTime << new OrderQty(100) << new Price(1.5); return m; }
   case 1: return new Heartbeat;
   case 2: { SequenceReset *m(new SequenceReset); *m << new NewSeqNo(9); return m; }
   default: return new Logout;
   }
}

static int run_send(int argc, char **argv)
{
   if (argc < 11) return 64;
   unsigned n(std::stoul(argv[2])), r(std::stoul(argv[3])); bool always(atoi(argv[4])), persist(atoi(argv[5])); int op(atoi(argv[6])), j(atoi(argv[7])); bool destroy(atoi(argv[8]));
   unsigned custom(std::stoul(argv[9])); bool noinc(atoi(argv[10]));
   if (argc < 11 + 4 * j) return 64;
   Wire w; RecPersister per;
   for (int a(11 + 4 * j); a < argc; ++a) { if (argv[a][0] == 'P') per.pscript = argv[a] + 1; else if (argv[a][0] == 'C') per.cscript = argv[a] + 1; } SessionID sid(f8String("FIX.4.2"), f8String("S"), f8String("T"));
   RSession *ss(new RSession(UTEST::ctx(), sid, persist ? &per : nullptr));
   ClientConnection *conn(new ClientConnection(w.cli, w.addr, *ss, 10, pm_thread));
   ss->prime(n, r, always, conn);
   per.cs = n; per.cr = r; per.cn = 1;       // invariant before the operation
   std::vector<Message *> msgs; std::vector<int> kind, pre34, pre43; std::vector<unsigned> orig;
   for (int i(0); i < j; ++i)
   {
      kind.push_back(atoi(argv[11 + 4 * i])); pre34.push_back(atoi(argv[12 + 4 * i])); pre43.push_back(atoi(argv[13 + 4 * i])); orig.push_back(std::stoul(argv[14 + 4 * i]));
      Message *m(make(kind[i]));
      if (pre34[i]) { *m->Header() << new msg_seq_num(orig[i]) << new sending_time << new sender_comp_id("S") << new target_comp_id("T"); if (pre43[i]) *m->Header() << new poss_dup_flag(true); }
      msgs.push_back(m);
   }
   bool okret(true);
   if (op == 0) okret = ss->send(msgs[0], destroy, custom, noinc);
   else if (op == 1) okret = ss->send(*msgs[0], custom, noinc);
   else okret = ss->send_batch(msgs, destroy) == size_t(j);
   const std::string wire(w.drain()); const std::vector<std::string> out(split_msgs(wire));
   int bad(0); std::ostringstream why;
   why << "ret=" << okret << " sent=" << out.size() << " next_send=" << ss->ns() << " next_recv=" << ss->nr() << " ctl=(" << per.cs << "," << per.cr << ") puts=" << per.puts.size();
   for (auto& m : out) why << " wire[34=" << utag(m, "34") << ",35=" << [&]{ std::string v; tag(m, "35", v); return v; }() << ",len=" << m.size() << "]";
   for (auto& p : per.puts) why << " put[" << p.first << ",len=" << p.second.size() << "]";
   if (int(out.size()) != j) { std::cout << "driver: " << out.size() << " messages on the wire for " << j << " sent; " << why.str() << std::endl; return 64; }
   // ---- C16 oracle
   unsigned run(n);
   for (int i(0); i < j; ++i)
   {
      const bool retrans(pre34[i] && (!always || pre43[i])), gapfill(kind[i] == 2), ovr(custom || noinc);
      std::string pd; const bool flagged(tag(out[i], "43", pd) && pd == "Y");
      if (!retrans && !gapfill && !ovr) { if (utag(out[i], "34") != run || flagged) bad |= 1; ++run; }
      if (retrans && !always && (utag(out[i], "34") != orig[i] || !flagged)) bad |= 1;
      if (!flagged && !gapfill && !ovr && !(utag(out[i], "34") < ss->ns())) bad |= 1;       // number of an unflagged message handed out again
   }
   if (ss->ns() != run || ss->nr() != r) bad |= 1;
   if (persist && !per.ctl_matches(ss->ns(), ss->nr())) bad |= 1;
   // ---- C17 oracle
   size_t k(0);
   for (int i(0); i < j; ++i)
   {
      const bool retrans(pre34[i] && (!always || pre43[i]));
      if (persist && !retrans && kind[i] == 0)
      {
         if (k >= per.puts.size()) { bad |= 2; break; }
         if (per.puts[k].first != utag(out[i], "34") || per.puts[k].second != out[i]) bad |= 2;
         ++k;
      }
   }
   if (per.puts.size() != k) bad |= 2;
   std::cout << (bad ? "violated" : "holds") << " c16=" << (bad & 1) << " c17=" << ((bad >> 1) & 1) << " " << why.str() << std::endl;
   ss->detach(); fflush(stdout); _exit(bad);
}

static int run_resend(int argc, char **argv)
{
   if (argc < 6) return 64;
   unsigned n(std::stoul(argv[2])), B(std::stoul(argv[3])), E(std::stoul(argv[4])); bool persist(atoi(argv[5]));
   std::map<unsigned, bool> has; unsigned maxs(0); for (int a(6); a < argc; ++a) { has[++maxs] = atoi(argv[a]) && maxs < n && persist; }
   Wire w; MemoryPersister *per(persist ? new MemoryPersister : nullptr); SessionID sid(f8String("FIX.4.2"), f8String("S"), f8String("T"));
   RSession *ss(new RSession(UTEST::ctx(), sid, per));
   ClientConnection *conn(new ClientConnection(w.cli, w.addr, *ss, 10, pm_thread));
   std::map<unsigned, std::string> orig_time, stored;
   for (unsigned s(1); s <= maxs; ++s) if (has[s])
   {  // what an earlier send of number s stored: encode a real application message with 34 = s
      Message *m(make(0)); *m->Header() << new msg_seq_num(s) << new sending_time << new sender_comp_id("S") << new target_comp_id("T");
      f8String enc; m->encode(enc); per->put(s, enc); stored[s] = enc; tag(enc, "52", orig_time[s]); delete m;
   }
   ss->prime(n, 7, false, conn);
   UTEST::ResendRequest *rq(new UTEST::ResendRequest);
   *rq->Header() << new msg_seq_num(7) << new sender_comp_id("T") << new target_comp_id("S") << new sending_time;
   *rq << new begin_seq_num(B) << new end_seq_num(E);
   const Message *crq(rq);
   ss->handle_resend_request(7, crq);
   const std::string wire(w.drain()); const std::vector<std::string> out(split_msgs(wire));
   std::ostringstream why; why << "n=" << n << " [" << B << "," << E << "] next_send=" << ss->ns() << " out:";
   for (auto& m : out) { std::string t, pd; tag(m, "35", t); why << " {35=" << t << ",34=" << utag(m, "34"); if (t == "4") why << ",36=" << utag(m, "36"); if (tag(m, "43", pd)) why << ",43=" << pd; why << "}"; }
   // ---- C18 oracle: transcription of the statement
   int bad(0); const unsigned H(E ? E : n - 1); unsigned s(B), prev(0), announced(0); size_t k(0); bool ended_with_gapfill(false);
   while (s <= H)
   {
      if (k >= out.size()) { bad = 4; break; }
      const std::string& m(out[k]); std::string t, v; tag(m, "35", t);
      if (utag(m, "34") <= prev) bad = 4; prev = utag(m, "34");
      if (s <= maxs && has[s])
      {
         if (t == "4" || utag(m, "34") != s || !tag(m, "43", v) || v != "Y" || !tag(m, "122", v) || v != orig_time[s]) bad = 4;
         std::string c1, c2; if (!tag(m, "11", c1) || !tag(stored[s], "11", c2) || c1 != c2) bad = 4;      // body kept
         ++s; ended_with_gapfill = false;
      }
      else
      {
         const unsigned g(s); while (s <= H && !(s <= maxs && has[s])) ++s;
         if (t != "4" || !tag(m, "123", v) || v != "Y" || utag(m, "34") != g || utag(m, "36") != s) bad = 4;
         announced = utag(m, "36"); ended_with_gapfill = true;
      }
      ++k;
   }
   if (k < out.size())
   {  // a closing gap fill that starts right after the range is outside the statement's range clause; anything else is not
      std::string t; tag(out[k], "35", t);
      if (out.size() - k > 1 || t != "4" || utag(out[k], "34") != H + 1 || utag(out[k], "34") <= prev) bad = 4;
      else { announced = utag(out[k], "36"); ended_with_gapfill = true; }
   }
   if (ss->ns() != (ended_with_gapfill && announced > n ? announced : n)) bad = 4;      // continue from the last NewSeqNo announced, never below the numbers already used
   std::cout << (bad ? "violated " : "holds ") << why.str() << std::endl;
   ss->detach(); fflush(stdout); _exit(bad);
}

// an inbound message that fails decoding without forcing a logout (bad CheckSum): Session::process answers with a Reject
static int run_reject(int argc, char **argv)
{
   if (argc < 4) return 64;
   unsigned n(std::stoul(argv[2])), r(std::stoul(argv[3])); const bool fail(argc < 5 || atoi(argv[4])); const int kind(argc > 5 ? atoi(argv[5]) : 0);
   Wire w; RecPersister per; SessionID sid(f8String("FIX.4.2"), f8String("S"), f8String("T"));
   RSession *ss(new RSession(UTEST::ctx(), sid, &per));
   ClientConnection *conn(new ClientConnection(w.cli, w.addr, *ss, 10, pm_thread));
   ss->prime(n, r, false, conn); per.cs = n; per.cr = r; per.cn = 1;
   Message *m(make(kind)); *m->Header() << new msg_seq_num(r) << new sending_time << new sender_comp_id("T") << new target_comp_id("S");
   f8String enc; m->encode(enc); delete m;
   if (fail) enc.replace(enc.size() - 4, 3, enc.substr(enc.size() - 4, 3) == "000" ? "001" : "000");      // corrupt the checksum value
   const bool ret(ss->process(enc));
   const std::string wire(w.drain()); const std::vector<std::string> out(split_msgs(wire));
   const int bad(per.cs != ss->ns() || per.cr != ss->nr());
   std::cout << (bad ? "violated" : "holds") << " process=" << ret << " next_send=" << ss->ns() << " next_recv=" << ss->nr() << " ctl=(" << per.cs << "," << per.cr << ") out=" << out.size();
   for (auto& o : out) { std::string t; tag(o, "35", t); std::cout << " {35=" << t << ",34=" << utag(o, "34") << "}"; }
   std::cout << std::endl; ss->detach(); fflush(stdout); _exit(bad);
}

int main(int argc, char **argv)
{
   try
   {
      if (argc > 1 && !strcmp(argv[1], "send")) return run_send(argc, argv);
      if (argc > 1 && !strcmp(argv[1], "resend")) return run_resend(argc, argv);
      if (argc > 1 && !strcmp(argv[1], "reject")) return run_reject(argc, argv);
   }
   catch (std::exception& e) { std::cout << "driver exception: " << e.what() << std::endl; }
   return 64;
}
