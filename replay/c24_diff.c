/* translator validation for C24: ir2c output of Schedule::test vs the g++ build of the same function, on a virtual
   clock (gmtime_r is libc's on both sides); vectors: weekly/daily schedules around every window edge plus random ones */
#include <stdio.h>
#include <stdint.h>
#include <stdlib.h>
#include <time.h>
extern long long vf_clock_now;
_Bool vf_sched_test(long start, long end, int off, int sd, int ed, _Bool prev);
uint8_t gen_vf_sched_test(uint64_t, uint64_t, uint32_t, uint32_t, uint32_t, uint8_t);
void *x_gmtime_r(int64_t *t, void *res) { return gmtime_r((time_t*)t, (struct tm*)res); }
uint64_t x__ZNSt6chrono3_V212system_clock3nowEv(void) { return (uint64_t)vf_clock_now; }
#define SEC 1000000000LL
int main(int argc, char **argv)
{
  srand(argc > 1 ? atoi(argv[1]) + 24 : 24); int bad = 0, nv = 0;
  for (int it = 0; it < 200000; it++) {
    long start = (long)(rand() % 86399) * SEC, end = start + (1 + rand() % (86399 - start / SEC)) * SEC;
    int off = rand() % 1561 - 720, weekly = rand() % 4 != 0, sd = weekly ? rand() % 7 : -1, ed = weekly ? rand() % 7 : -1, prev = rand() & 1;
    long long day = 19000 + rand() % 3000, tod;
    switch (rand() % 4) { case 0: tod = start + (rand() % 3 - 1); break; case 1: tod = end + (rand() % 3 - 1); break; case 2: tod = (rand() % 2) * (86400 * SEC - 1); break; default: tod = (long long)(rand() % 86400) * SEC + rand() % SEC; }
    vf_clock_now = day * 86400 * SEC + tod - off * 60 * SEC;
    nv++; bad += (vf_sched_test(start, end, off, sd, ed, prev) & 1) != (gen_vf_sched_test(start, end, off, sd, ed, prev) & 1);
  }
  printf("vectors=%d disagreements=%d\n", nv, bad); return bad != 0;
}
