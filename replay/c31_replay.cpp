// native replay for C31: the real Timer<Mon> event loop on a scripted clock (this program defines
// std::chrono::system_clock::now(); hypersleep really sleeps its few milliseconds).
//   <mode> <op> <nev> <steps> <clear_at> <ms0 ms1 ms2> <rep0 rep1 rep2> <res[0..steps]> <readings...>
//   conc        deterministic two-thread demonstration of the critical-section premise: one repeating event (10 ms) whose
//               first callback sleeps 60 ms; a second thread calls clear() 20 ms after that callback started; the loop runs
//               on for 300 ms of real time.  Counts callbacks that START after clear() returned (real code: 0, because
//               clear() waits for the lock the loop holds across callback and re-queue).
// The same monitor as the harness: a callback may run only when pending, at a reading >= its due time, and only if no
// other pending event is due earlier.  exit 1 when the monitor is violated, 2 when the scenario cannot be replayed
// (clear() from another thread at a chosen lock acquisition is not reproducible without a scheduler).
#include <fix8/f8includes.hpp>
#include <cstdio>
#include <cstdlib>
#include <cstring>
#include <vector>
#include <thread>
#include <atomic>
#include <time.h>
using namespace FIX8;
static bool real_clock;
static std::vector<long long> reads; static size_t nread; static long long g_now; static int steps, nticks;
struct Mon;
static Timer<Mon> *the_timer;
static bool in_run;
namespace std { namespace chrono { inline namespace _V2 {
system_clock::time_point system_clock::now() noexcept
{
  if (real_clock) { timespec ts; clock_gettime(CLOCK_REALTIME, &ts); return time_point(duration(ts.tv_sec * 1000000000LL + ts.tv_nsec)); }
  if (nread < reads.size()) g_now = reads[nread]; ++nread;
  if (in_run && ++nticks >= steps && the_timer) the_timer->stop(), the_timer->cancellation_token().request_stop();
  return time_point(duration(g_now));
}
} } }
static bool pending[3], rep[3]; static long long due[3]; static unsigned ms[3]; static std::vector<int> res; static int nruns, bad, nev;
static bool cb(int id)
{
  const bool r(nruns < int(res.size()) ? res[nruns] != 0 : false);
  if (!pending[id]) { ++bad; printf("C31 event %d ran although it was not pending\n", id); }
  else
  {
    if (g_now < due[id]) { ++bad; printf("C31 event %d ran at %lld, before its due time %lld\n", id, g_now, due[id]); }
    for (int j = 0; j < nev; ++j) if (j != id && pending[j] && due[j] < due[id]) { ++bad; printf("C31 event %d ran before event %d which was due earlier\n", id, j); }
  }
  ++nruns;
  if (r && rep[id]) { pending[id] = true; due[id] = g_now + ms[id] * 1000000LL; } else pending[id] = false;
  return r;
}
static std::atomic<int> c_started(0), c_after_clear(0); static std::atomic<bool> c_clear_done(false), c_mode(false);
static bool conc_cb()
{
  if (c_clear_done) ++c_after_clear;
  if (++c_started == 1) hypersleep<h_milliseconds>(60);
  return true;
}
struct Mon { bool cb0() { return c_mode ? conc_cb() : cb(0); } bool cb1() { return cb(1); } bool cb2() { return cb(2); } };
static int conc()
{
  real_clock = true; c_mode = true;
  Mon mon; Timer<Mon> timer(mon, 1);
  timer.schedule(TimerEvent<Mon>(&Mon::cb0, true), 10);
  std::thread loop([&timer]() { timer(); });
  std::thread clearer([&timer]() { while (!c_started) hypersleep<h_milliseconds>(1); hypersleep<h_milliseconds>(20); timer.clear(); c_clear_done = true; });
  hypersleep<h_milliseconds>(300);
  timer.cancellation_token().request_stop(); loop.join(); clearer.join();
  printf("C31 conc: callbacks started=%d, started after clear() returned=%d -> %s\n", int(c_started), int(c_after_clear), c_after_clear ? "VIOLATED" : "ok");
  timer.clear();
  return c_after_clear ? 1 : 0;
}
int main(int argc, char **argv)
{
  if (argc > 1 && !strcmp(argv[1], "conc")) return conc();
  if (argc < 12) return 2;
  const int mode(atoi(argv[1])), op(atoi(argv[2])); nev = atoi(argv[3]); steps = atoi(argv[4]); const int clear_at(atoi(argv[5]));
  for (int i = 0; i < 3; ++i) { ms[i] = atoi(argv[6 + i]); rep[i] = atoi(argv[9 + i]) != 0; }
  int a(12); for (int i = 0; i <= steps && a < argc; ++i, ++a) res.push_back(atoi(argv[a]));
  for (; a < argc; ++a) reads.push_back(atoll(argv[a]));
  if (clear_at >= 0 && mode == 0) { printf("C31 scenario with a concurrent clear() is not replayed natively\n"); return 2; }
  Mon mon; Timer<Mon> timer(mon, 1); the_timer = &timer;
  for (int i = 0; i < nev; ++i)
  {
    switch (i) { case 0: timer.schedule(TimerEvent<Mon>(&Mon::cb0, rep[0]), ms[0]); break; case 1: timer.schedule(TimerEvent<Mon>(&Mon::cb1, rep[1]), ms[1]); break;
      default: timer.schedule(TimerEvent<Mon>(&Mon::cb2, rep[2]), ms[2]); }
    pending[i] = true; due[i] = g_now + ms[i] * 1000000LL;
  }
  if (mode == 1 && op == 1) { const size_t k(timer.clear()); if (int(k) != nev) { ++bad; printf("C31 clear() returned %zu, %d were waiting\n", k, nev); } for (auto& p : pending) p = false; }
  else { in_run = true; timer(); in_run = false; }
  int np(0); for (int j = 0; j < nev; ++j) np += pending[j];
  if (int(timer._event_queue.size()) != np) { ++bad; printf("C31 queue holds %zu events, %d are pending\n", timer._event_queue.size(), np); }
  printf("C31 runs=%d %s\n", nruns, bad ? "VIOLATED" : "ok");
  timer.clear();
  return bad ? 1 : 0;
}
