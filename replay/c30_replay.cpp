// native replay for C30 (sequential): run an operation sequence (0 = push, 1 = pop) on the real FastFlow queue layers
// usage: c30replay <layer 0|1|2> <nq> <sz> <op>...
#include <fix8/f8includes.hpp>
#include <cstdio>
#include <cstdlib>
#include <vector>
int main(int argc, char **argv)
{
  if (argc < 4) return 2;
  const int layer = atoi(argv[1]); const unsigned long nq = atoi(argv[2]), sz = atoi(argv[3]);
  ff::uMPMC_Ptr_Queue q; ff::uSWSR_Ptr_Buffer u(sz); ff::SWSR_Ptr_Buffer s(sz);
  bool ok = layer == 0 ? q.init(nq, sz) : layer == 1 ? u.init() : s.init();
  if (!ok) { printf("init failed\nVIOLATED\n"); return 1; }
  static long cell[64]; unsigned npush = 0, npop = 0; int bad = 0;
  for (int i = 4; i < argc && npush < 63; ++i)
  {
    if (atoi(argv[i]) == 0)
    {
      bool r = layer == 0 ? q.push(&cell[npush]) : layer == 1 ? u.push(&cell[npush]) : s.push(&cell[npush]);
      bool exp = layer == 2 ? (npush - npop < sz) : true;
      if (r != exp) { ++bad; printf("op%d push returned %d expected %d (queued %u)\n", i - 4, r, exp, npush - npop); }
      if (r) ++npush;
    }
    else
    {
      void *got = nullptr; bool r = layer == 0 ? q.pop(&got) : layer == 1 ? u.pop(&got) : s.pop(&got);
      bool exp = npop < npush;
      if (r != exp) { ++bad; printf("op%d pop returned %d expected %d (queued %u)\n", i - 4, r, exp, npush - npop); }
      if (r) { if (got != &cell[npop]) { ++bad; printf("op%d pop returned cell %ld expected %u\n", i - 4, long((long*)got - cell), npop); } if (exp) ++npop; }
    }
  }
  printf("%s\n", bad ? "VIOLATED" : "ok");
  return bad ? 1 : 0;
}
