// native replay for C30 (sequential): run an operation sequence (0 = push, 1 = pop) on the real FastFlow queue layers
// usage: c30replay <layer 0|1|2> <nq> <sz> <op>...
#include <fix8/f8includes.hpp>
#include <cstdio>
#include <cstdlib>
#include <vector>
#include <thread>
#include <chrono>
#include <unistd.h>
#include <atomic>
#include <cstring>
// threaded stress witness (schedule dependent; an observed loss/duplicate/reorder is a violation, a clean run proves nothing)
static int stress(bool mpmc)
{
  const long N = 200000; int bad = 0;
  // watchdog: a lost or duplicated ticket leaves producers/consumer spinning for ever
  std::thread([]{ std::this_thread::sleep_for(std::chrono::seconds(30)); printf("threads still spinning after 30 s (element lost or slot never released)\nVIOLATED\n"); fflush(stdout); _exit(1); }).detach();
  for (int round = 0; round < 3 && !bad; ++round)
  {
    static long cells[2][200001]; std::vector<unsigned char> seen0(N + 1), seen1(N + 1); long last0 = 0, last1 = 0, got_n = 0;
    if (mpmc)
    {
      ff::uMPMC_Ptr_Queue q; q.init(2, 2);
      auto prod = [&](int w) { for (long i = 1; i <= N; ++i) { cells[w][i] = i; q.push(&cells[w][i]); } };
      std::thread a(prod, 0), b(prod, 1);
      std::thread c([&]{ long spins = 0; while (got_n < 2 * N && spins < 2000000000L) { void *p = nullptr; if (!q.pop(&p)) { ++spins; continue; }
          int w = (long*)p >= cells[1] ? 1 : 0; long v = (long*)p - cells[w]; ++got_n;
          if (v < 1 || v > N) { ++bad; continue; }
          unsigned char& s = w ? seen1[v] : seen0[v]; if (s++) ++bad; long& last = w ? last1 : last0; if (v <= last) ++bad; last = v; } });
      a.join(); b.join(); c.join();
      if (got_n != 2 * N) ++bad;
      printf("round %d: uMPMC 2 producers x %ld, popped %ld, anomalies %d\n", round, N, got_n, bad);
    }
    else
    {
      ff::SWSR_Ptr_Buffer s(2); s.init();
      std::thread a([&]{ for (long i = 1; i <= N; ++i) { cells[0][i] = i; while (!s.push(&cells[0][i])) ; } });
      std::thread c([&]{ long spins = 0; while (got_n < N && spins < 2000000000L) { void *p = nullptr; if (!s.pop(&p)) { ++spins; continue; } long v = (long*)p - cells[0]; ++got_n; if (v != last0 + 1) ++bad; last0 = v; } });
      a.join(); c.join();
      if (got_n != N) ++bad;
      printf("round %d: SWSR 1 producer x %ld, popped %ld, anomalies %d\n", round, N, got_n, bad);
    }
  }
  printf("%s\n", bad ? "VIOLATED" : "ok");
  fflush(stdout); _exit(bad ? 1 : 0);
}
int main(int argc, char **argv)
{
  if (argc >= 2 && !strcmp(argv[1], "thr-mpmc")) return stress(true);
  if (argc >= 2 && !strcmp(argv[1], "thr-swsr")) return stress(false);
  if (argc < 4) return 2;
  const int layer = atoi(argv[1]); const unsigned long nq = atoi(argv[2]), sz = atoi(argv[3]);
  ff::uMPMC_Ptr_Queue q; ff::uSWSR_Ptr_Buffer u(sz); ff::SWSR_Ptr_Buffer s(sz);
  bool ok = layer == 0 ? q.init(nq, sz) : layer == 1 ? u.init() : s.init();
  if (!ok) { printf("init failed\nVIOLATED\n"); return 1; }
  static long cell[64]; unsigned npush = 0, npop = 0; int bad = 0;
  for (int i = 4; i < argc && npush < 63; ++i)
  {
    if (atoi(argv[i]) == 0)
    {
      bool r = layer == 0 ? q.push(&cell[npush]) : layer == 1 ? u.push(&cell[npush]) : s.push(&cell[npush]);
      bool exp = layer == 2 ? (npush - npop < sz) : true;
      if (r != exp) { ++bad; printf("op%d push returned %d expected %d (queued %u)\n", i - 4, r, exp, npush - npop); }
      if (r) ++npush;
    }
    else
    {
      void *got = nullptr; bool r = layer == 0 ? q.pop(&got) : layer == 1 ? u.pop(&got) : s.pop(&got);
      bool exp = npop < npush;
      if (r != exp) { ++bad; printf("op%d pop returned %d expected %d (queued %u)\n", i - 4, r, exp, npush - npop); }
      if (r) { if (got != &cell[npop]) { ++bad; printf("op%d pop returned cell %ld expected %u\n", i - 4, long((long*)got - cell), npop); } if (exp) ++npop; }
    }
  }
  printf("%s\n", bad ? "VIOLATED" : "ok");
  return bad ? 1 : 0;
}
