// native replay for C12 (g++ -fno-access-control, ASan+UBSan): the real lookup tables / sorted sets on concrete values.
//   gtu <kind 0|2> <n> <probe> <idx> <keys...>          GeneratedTable<unsigned,Val>: find_pair_ptr/find_ptr/at (kind 0), find_ref (kind 2)
//   gts <n> <p0> <p1> <3 bytes per string ...>          GeneratedTable<const char*,Val>
//   set <0 generic|1 Presence> <op> <sz> <rsz> <reserve> <isnull> <key> <key2> <keys...>    one operation from an installed state
//   hash <n> <key> <fill> <tags...>                     FieldTrait_Hash_Array + Presence(hash ctor, storage prefilled with <fill>) + copy
// exit 1 (or a sanitizer abort) when the behaviour differs from a sorted map / set of unique keys
#include <fix8/f8includes.hpp>
#include <cstdio>
#include <cstdlib>
#include <cstring>
#include <vector>
#include <algorithm>
using namespace FIX8;
struct Val { unsigned _v; };
struct Elem { unsigned short _k, _v; Elem() = default; Elem(unsigned short k) : _k(k), _v() {} };
struct ElemLess { bool operator()(const Elem& a, const Elem& b) const { return a._k < b._k; } };
using GSet = presorted_set<unsigned short, Elem, ElemLess>;
static unsigned short& K(Elem& e) { return e._k; }
static unsigned short& P(Elem& e) { return e._v; }
static unsigned short& K(FieldTrait& e) { return e._fnum; }
static unsigned short& P(FieldTrait& e) { return e._pos; }
static Elem mk(unsigned short k, Elem *) { return Elem(k); }
static FieldTrait mk(unsigned short k, FieldTrait *) { return FieldTrait(k, FieldTrait::ft_int, 0); }     // every member defined (the key-only ctor leaves _ftype indeterminate)
static int bad;
#define CHECK(c, ...) do { if (!(c)) { ++bad; printf("C12 " __VA_ARGS__); printf("\n"); fflush(stdout); } } while (0)

template<typename Set, typename T> int run_set(int op, size_t sz, size_t rsz, size_t reserve, bool isnull, unsigned short key, unsigned short key2, const std::vector<unsigned short>& k)
{
  if (op == 4)
  {
    // base case: the real constructors; isnull selects the empty constructor
    T *tab(new T[sz ? sz : 1]); for (size_t i = 0; i < sz; ++i) { tab[i] = mk(k[i], (T*)0); P(tab[i]) = (unsigned short)(100 + i); }
    Set *c(isnull ? new Set(size_t(0), reserve) : new Set(tab, sz, reserve));
    CHECK(c->size() == (isnull ? 0 : sz) && c->size() <= c->rsize() && c->rsize() >= 1, "constructed set: size()=%zu rsize()=%zu (reserve argument %zu)", c->size(), c->rsize(), reserve);
    printf("C12 inserting one element into the constructed set\n"); fflush(stdout);
    T what(mk(key, (T*)0)); auto r(c->insert(&what));
    CHECK(r.second == (isnull || std::find(k.begin(), k.end(), key) == k.end()), "insert after construction returned %d", int(r.second));
    printf("C12 set %s\n", bad ? "VIOLATED" : "ok");
    return bad ? 1 : 0;
  }
  Set s(size_t(0), reserve);
  const_cast<size_t&>(s._reserve) = reserve; s._sz = sz; s._rsz = rsz; s._arr = isnull ? nullptr : new T[rsz];
  for (size_t i = 0; i < sz; ++i) { s._arr[i] = mk(k[i], (T*)0); P(s._arr[i]) = (unsigned short)(100 + i); }
  const bool present(std::find(k.begin(), k.end(), key) != k.end());
  const size_t pos(std::count_if(k.begin(), k.end(), [key](unsigned short x) { return x < key; }));
  if (op == 0)
  {
    T what(mk(key, (T*)0)); P(what) = 777;
    auto r(s.insert(&what));
    CHECK(r.second == !present, "insert(%u) returned %d, key %s present", key, int(r.second), present ? "was" : "was not");
    CHECK(s.size() == sz + !present && s.size() <= s.rsize(), "after insert size=%zu rsize=%zu (was %zu)", s.size(), s.rsize(), sz);
    std::vector<unsigned short> exp(k); if (!present) exp.insert(exp.begin() + pos, key);
    for (size_t i = 0; i < exp.size() && i < s.size(); ++i) CHECK(K(s.begin()[i]) == exp[i], "element %zu has key %u, expected %u", i, K(s.begin()[i]), exp[i]);
    if (!present)
    {
      CHECK(r.first == s.begin() + pos, "insert(%u): returned iterator is not begin()+%zu (it points %s the live array)", key, pos,
        r.first >= s.begin() && r.first < s.begin() + s.rsize() ? "elsewhere into" : "outside");
      printf("C12 dereferencing the iterator returned by insert\n"); fflush(stdout);
      CHECK(K(*r.first) == key, "the returned iterator carries key %u, not %u", K(*r.first), key);
    }
    else CHECK(r.first == s.end(), "refused insert did not return end()");
  }
  else if (op == 1)
  {
    bool ans(!present);
    T *r1(s.find(key)); const T *r2(const_cast<const Set&>(s).find(key)); T *r3(s.find(key, ans));
    CHECK(r1 == (present ? s.begin() + pos : s.end()) && r2 == r1, "find(%u) returned offset %td, key %s present at %zu", key, r1 - s.begin(), present ? "is" : "is not", pos);
    CHECK(ans == present && r3 == s.begin() + pos, "find(%u, answer) returned offset %td answer %d", key, r3 - s.begin(), int(ans));
  }
  else if (op == 2)
  {
    s.clear(); bool ans(true); s.find(key, ans);
    CHECK(s.size() == 0 && s.rsize() == rsz && !ans, "clear left size=%zu rsize=%zu", s.size(), s.rsize());
  }
  else
  {
    T two[2] = { mk(key, (T*)0), mk(key2, (T*)0) };
    s.insert(two, two + 2);
    std::vector<unsigned short> exp(k);
    if (!present) { exp.insert(exp.begin() + pos, key); if (std::find(exp.begin(), exp.end(), key2) == exp.end()) exp.insert(std::lower_bound(exp.begin(), exp.end(), key2), key2); }
    CHECK(s.size() == exp.size() && s.size() <= s.rsize(), "after range insert size=%zu rsize=%zu expected %zu", s.size(), s.rsize(), exp.size());
    for (size_t i = 0; i < exp.size() && i < s.size(); ++i) CHECK(K(s.begin()[i]) == exp[i], "element %zu has key %u, expected %u", i, K(s.begin()[i]), exp[i]);
  }
  printf("C12 set %s\n", bad ? "VIOLATED" : "ok");
  return bad ? 1 : 0;
}

int main(int argc, char **argv)
{
  if (argc < 3) return 2;
  if (!strcmp(argv[1], "gtu") && argc >= 6)
  {
    using T = GeneratedTable<unsigned, Val>;
    const int kind(atoi(argv[2])); const size_t n(atoi(argv[3])); const unsigned probe(strtoul(argv[4], 0, 10)); const size_t idx(strtoul(argv[5], 0, 10));
    T::Pair *tab(new T::Pair[n]); long pos(-1);
    for (size_t i = 0; i < n; ++i) { tab[i]._key = strtoul(argv[6 + i], 0, 10); tab[i]._value._v = 1000 + i; if (tab[i]._key == probe) pos = i; }
    const T t(tab, n);
    if (kind == 0)
    {
      const T::Pair *p(t.find_pair_ptr(probe)); const Val *v(t.find_ptr(probe)); const T::Pair *a(t.at(idx));
      CHECK((p ? p - tab : -1) == pos, "find_pair_ptr(%u) -> %ld expected %ld", probe, p ? long(p - tab) : -1L, pos);
      CHECK(v == (pos < 0 ? nullptr : &tab[pos]._value), "find_ptr(%u) does not return entry %ld", probe, pos);
      CHECK(a == (idx < n ? tab + idx : nullptr), "at(%zu) wrong", idx);
    }
    else
    {
      try { const Val& v(t.find_ref(probe)); CHECK(pos >= 0 && &v == &tab[pos]._value, "find_ref(%u) returned an entry, expected %ld", probe, pos); }
      catch (InvalidMetadata<unsigned>& e) { CHECK(pos < 0 && e._tagid == probe, "find_ref(%u) threw although present at %ld", probe, pos); }
    }
    printf("C12 table %s\n", bad ? "VIOLATED" : "ok"); return bad ? 1 : 0;
  }
  if (!strcmp(argv[1], "gts") && argc >= 5)
  {
    using T = GeneratedTable<const char *, Val>;
    const size_t n(atoi(argv[2])); char probe[3] = { char(atoi(argv[3])), char(atoi(argv[4])), 0 };
    T::Pair *tab(new T::Pair[n]); long pos(-1);
    for (size_t i = 0; i < n; ++i)
    {
      char *s(new char[3]); for (int j = 0; j < 3; ++j) s[j] = char(atoi(argv[5 + 3 * i + j])); s[2] = 0;
      tab[i]._key = s; tab[i]._value._v = 1000 + i; if (!strcmp(s, probe)) pos = i;
    }
    const T t(tab, n);
    const T::Pair *p(t.find_pair_ptr(probe)); const Val *v(t.find_ptr(probe));
    CHECK((p ? p - tab : -1) == pos, "find_pair_ptr(string) -> %ld expected %ld", p ? long(p - tab) : -1L, pos);
    CHECK(v == (pos < 0 ? nullptr : &tab[pos]._value), "find_ptr(string) does not return entry %ld", pos);
    printf("C12 table %s\n", bad ? "VIOLATED" : "ok"); return bad ? 1 : 0;
  }
  if (!strcmp(argv[1], "set") && argc >= 10)
  {
    const int st(atoi(argv[2])), op(atoi(argv[3])); const size_t sz(atoi(argv[4])), rsz(atoi(argv[5])), reserve(atoi(argv[6])); const bool isnull(atoi(argv[7]) != 0);
    const unsigned short key(atoi(argv[8])), key2(atoi(argv[9]));
    std::vector<unsigned short> k; for (size_t i = 0; i < sz && 10 + int(i) < argc; ++i) k.push_back(atoi(argv[10 + i]));
    if (k.size() != sz) return 2;
    return st == 0 ? run_set<GSet, Elem>(op, sz, rsz, reserve, isnull, key, key2, k) : run_set<Presence, FieldTrait>(op, sz, rsz, reserve, isnull, key, key2, k);
  }
  if (!strcmp(argv[1], "hash") && argc >= 6)
  {
    const size_t n(atoi(argv[2])); const unsigned short key(atoi(argv[3])); const unsigned long long fill(strtoull(argv[4], 0, 10));
    FieldTrait *tab(new FieldTrait[n]); long pos(-1);
    for (size_t i = 0; i < n; ++i) { tab[i] = FieldTrait((unsigned short)atoi(argv[5 + i]), FieldTrait::ft_int, (unsigned short)(i + 1)); if (tab[i]._fnum == key) pos = i; }
    const FieldTrait_Hash_Array ha(tab, n);
    CHECK(ha._els == n && ha._sz == unsigned(tab[n - 1]._fnum) + 1, "hash array els=%u sz=%u", ha._els, ha._sz);
    alignas(16) static unsigned long long raw[(sizeof(Presence) + 7) / 8 + 2];
    for (auto& w : raw) w = fill;                           // previous contents of the storage the set is constructed in
    Presence *p(new (raw) Presence(tab, n, &ha));
    const FieldTrait *r(const_cast<const Presence *>(p)->find(key));
    CHECK(r == (pos >= 0 ? p->begin() + pos : p->end()), "hash lookup of %u returned offset %td, expected %ld", key, r - p->begin(), pos);
    CHECK(p->rsize() >= p->size(), "after the hash-array constructor rsize()=%zu is whatever the storage held, size()=%zu", p->rsize(), p->size());
    printf("C12 copy-constructing the set\n"); fflush(stdout);
    Presence c(*p);
    CHECK(c.size() == n && c.find(key) == (pos >= 0 ? c.begin() + pos : c.end()), "copy differs");
    printf("C12 hash %s\n", bad ? "VIOLATED" : "ok"); return bad ? 1 : 0;
  }
  return 2;
}
