// native replay for C27: process 1 (forked child) runs the store operations on the real FIX8::FilePersister and is killed
// (_exit, nothing flushed or closed) right after its N-th completed write/lseek system call; the parent then reopens the
// same files with a fresh FilePersister and evaluates the oracle of harness/C27_crash.c on the real code.
// usage: c27_replay <crash_at> <k> {op a b d0 d1 len}*k <kp> {op a b d0 d1 len}*kp {probe}*(kp+1) [probe3]
//        (probe3 present: process 2 ends, a third FilePersister reopens the files and is probed with that number)
#include <fix8/f8includes.hpp>
#include <cstdio>
#include <cstdlib>
#include <cstring>
#include <map>
#include <string>
#include <unistd.h>
#include <sys/syscall.h>
#include <sys/wait.h>
using namespace FIX8;
static volatile int counting; static volatile unsigned calls, crash_at;
static void crashpoint() { if (counting && ++calls == crash_at) _exit(42); }
// interpose the two system call wrappers the persister uses (a definition in the executable wins over libc's)
extern "C" ssize_t write(int fd, const void *b, size_t n) { ssize_t r = syscall(SYS_write, fd, b, n); if (r >= 0 && fd > 2) crashpoint(); return r; }
extern "C" off_t lseek(int fd, off_t o, int w) { off_t r = syscall(SYS_lseek, fd, o, w); if (r >= 0 && fd > 2) crashpoint(); return r; }
extern "C" off_t lseek64(int fd, off_t o, int w) { return lseek(fd, o, w); }
struct Op { unsigned op, a, b; char d[2]; unsigned len; };
static int bad;
static std::map<unsigned, std::string> ref; static bool hasc; static unsigned ca, cb;
static void probe(Persister *p, unsigned s, const char *when)
{
  std::string to; bool hit = p->get(s, to);
  if (ref.count(s)) { if (!hit) { ++bad; printf("%s: get(%u) misses although its store completed\n", when, s); } else if (to != ref[s]) { ++bad; printf("%s: get(%u) returns other bytes than stored\n", when, s); } }
  else if (hit) { ++bad; printf("%s: get(%u) returns %zu byte(s) never stored for it\n", when, s, to.size()); }
  unsigned ga = 0, gb = 0; bool ok = p->get(ga, gb);
  if (ok != hasc) { ++bad; printf("%s: control get ok=%d but a control record was %sstored\n", when, ok, hasc ? "" : "not "); }
  else if (hasc && (ga != ca || gb != cb)) { ++bad; printf("%s: control get (%u,%u), last completed control store (%u,%u)\n", when, ga, gb, ca, cb); }
}
int main(int argc, char **argv)
{
  if (argc < 3) return 3;
  int ai = 1; crash_at = strtoul(argv[ai++], 0, 10); int k = atoi(argv[ai++]);
  auto rdop = [&](Op& o) { o.op = atoi(argv[ai]); o.a = strtoul(argv[ai + 1], 0, 10); o.b = strtoul(argv[ai + 2], 0, 10); o.d[0] = char(atoi(argv[ai + 3])); o.d[1] = char(atoi(argv[ai + 4])); o.len = atoi(argv[ai + 5]); ai += 6; };
  std::vector<Op> pre(k); for (auto& o : pre) rdop(o);
  int kp = atoi(argv[ai++]); std::vector<Op> post(kp); for (auto& o : post) rdop(o);
  std::vector<unsigned> probes; for (int i = 0; i <= kp && ai < argc; ++i) probes.push_back(strtoul(argv[ai++], 0, 10));
  const unsigned probe3(ai < argc ? strtoul(argv[ai++], 0, 10) : 0);
  char tmpl[] = "/tmp/vf_c27_XXXXXX"; const char *dir = mkdtemp(tmpl); if (!dir) { perror("mkdtemp"); return 3; }
  int pfd[2]; if (pipe(pfd)) return 3;
  pid_t pid = fork();
  if (pid == 0)
  {  // process 1
    close(pfd[0]);
    FilePersister *fp = new FilePersister; if (!fp->initialise(dir, "s")) _exit(3);
    counting = 1;
    for (int i = 0; i < k; ++i)
    {
      const Op& o = pre[i]; unsigned char res = 0;
      if (o.op == 0) res = fp->put(o.a, std::string(o.d, o.len)); else if (o.op == 1) res = fp->put(o.a, o.b); else { std::string to; res = fp->get(o.a, to); }
      counting = 0; unsigned char msg[2] = { (unsigned char)i, res }; syscall(SYS_write, pfd[1], msg, 2); counting = 1;   // report completion
    }
    _exit(0);    // no crash point hit: the process ends without closing anything
  }
  close(pfd[1]);
  std::vector<int> result(k, -1); unsigned char msg[2]; while (read(pfd[0], msg, 2) == 2) result[msg[0]] = msg[1];
  int st = 0; waitpid(pid, &st, 0);
  int done = 0; while (done < k && result[done] >= 0) ++done;
  if (WIFEXITED(st) && WEXITSTATUS(st) == 3) { printf("process 1 could not initialise\n"); return 3; }
  printf("process 1: %d of %d operations completed, %s\n", done, k, WIFEXITED(st) && WEXITSTATUS(st) == 42 ? "crashed at the requested system call" : "ended without crash");
  // reference from the completed operations; the next one (if any) was in flight
  for (int i = 0; i < done; ++i)
  {
    const Op& o = pre[i];
    if (o.op == 0) { bool exp = o.a != 0 && !ref.count(o.a); if (bool(result[i]) != exp) { ++bad; printf("op%d put(%u) returned %d expected %d\n", i, o.a, result[i], exp); } if (exp) ref[o.a] = std::string(o.d, o.len); }
    else if (o.op == 1) { hasc = true; ca = o.a; cb = o.b; }
  }
  FilePersister *fp2 = new FilePersister;
  if (!fp2->initialise(dir, "s")) { ++bad; printf("reopen failed\n"); }
  else
  {
    if (done < k)
    {
      const Op& o = pre[done];
      if (o.op == 0 && o.a != 0 && !ref.count(o.a))
      {
        std::string to; if (fp2->get(o.a, to)) { if (to != std::string(o.d, o.len)) { ++bad; printf("in-flight put(%u): get returns bytes that were never stored for it\n", o.a); } else ref[o.a] = to; }
      }
      else if (o.op == 1) { unsigned ga = 0, gb = 0; if (fp2->get(ga, gb) && ga == o.a && gb == o.b) { hasc = true; ca = ga; cb = gb; } }
    }
    if (!probes.empty()) probe(fp2, probes[0], "after reopen");
    for (int j = 0; j < kp; ++j)
    {
      const Op& o = post[j]; char when[64]; snprintf(when, sizeof when, "after reopen + %d further op(s)", j + 1);
      if (o.op == 0) { bool ok = fp2->put(o.a, std::string(o.d, o.len)); bool exp = o.a != 0 && !ref.count(o.a); if (ok != exp) { ++bad; printf("%s: put(%u) returned %d expected %d\n", when, o.a, ok, exp); } if (exp) ref[o.a] = std::string(o.d, o.len); }
      else { if (!fp2->put(o.a, o.b)) { ++bad; printf("%s: control put failed\n", when); } hasc = true; ca = o.a; cb = o.b; }
      if (j + 1 < (int)probes.size()) probe(fp2, probes[j + 1], when);
    }
  }
  delete fp2;
  if (probe3)
  {
    FilePersister *fp3 = new FilePersister;
    if (!fp3->initialise(dir, "s")) { ++bad; printf("second reopen failed\n"); }
    else probe(fp3, probe3, "after the second reopen");
    delete fp3;
  }
  unlink((std::string(dir) + "/s").c_str()); unlink((std::string(dir) + "/s.idx").c_str()); rmdir(dir);
  printf("%s\n", bad ? "VIOLATED" : "ok");
  return bad ? 1 : 0;
}
