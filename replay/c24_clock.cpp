// virtual clock for native builds: this definition of std::chrono::system_clock::now() pre-empts libstdc++'s
#include <chrono>
extern "C" { long long vf_clock_now; }
namespace std { namespace chrono { inline namespace _V2 {
system_clock::time_point system_clock::now() noexcept { return time_point(duration(vf_clock_now)); }
} } }
