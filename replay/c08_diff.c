/* translator validation for C08 integer kernels */
#include <stdio.h>
#include <stdint.h>
#include <stdlib.h>
#include <string.h>
size_t vf_itoa_int(int, char*); uint64_t gen_vf_itoa_int(uint32_t, uint8_t*);
size_t vf_itoa_uint(unsigned, char*); uint64_t gen_vf_itoa_uint(uint32_t, uint8_t*);
int vf_atoi_int(const char*); uint32_t gen_vf_atoi_int(uint8_t*);
unsigned vf_atoi_uint(const char*); uint32_t gen_vf_atoi_uint(uint8_t*);
int main(int argc, char **argv)
{
  srand(argc > 1 ? atoi(argv[1]) + 3 : 3); int bad = 0, nv = 0;
  int fixed[] = { 0, 1, -1, 9, 10, -10, 99, 100, 2147483647, -2147483647 - 1, 1000000000, -999999999, 35, 108, 30 };
  for (int it = 0; it < 200000; it++) {
    int v = it < 15 ? fixed[it] : (int)(((unsigned)rand() << 16) ^ (unsigned)rand()); if (it % 5 == 0 && it >= 15) v = v % 100000;
    char a[16], b[16]; memset(a, 0, 16); memset(b, 0, 16);
    size_t la = vf_itoa_int(v, a), lb = gen_vf_itoa_int((uint32_t)v, (uint8_t*)b); nv += 4;
    bad += la != lb || strcmp(a, b);
    bad += (uint32_t)vf_atoi_int(a) != gen_vf_atoi_int((uint8_t*)a);
    la = vf_itoa_uint((unsigned)v, a); lb = gen_vf_itoa_uint((uint32_t)v, (uint8_t*)b);
    bad += la != lb || strcmp(a, b);
    bad += vf_atoi_uint(a) != gen_vf_atoi_uint((uint8_t*)a);
  }
  printf("vectors=%d disagreements=%d\n", nv, bad); return bad != 0;
}
