/* translator validation for C14: ir2c output of rothash vs the g++ build, random and structured vectors */
#include <stdio.h>
#include <stdint.h>
#include <stdlib.h>
unsigned vf_rothash(unsigned, unsigned); uint32_t gen_vf_rothash(uint32_t, uint32_t);
int main(int argc, char **argv)
{
  srand(argc > 1 ? atoi(argv[1]) + 14 : 14); int bad = 0, nv = 0;
  for (uint32_t t = 0; t < 10000; t++) { nv += 2; bad += vf_rothash(0, t) != gen_vf_rothash(0, t); bad += vf_rothash(0x80001801u ^ t, t + 1) != gen_vf_rothash(0x80001801u ^ t, t + 1); }
  for (int i = 0; i < 32; i++) for (int j = 0; j < 32; j++) { nv++; bad += vf_rothash(1u << i, 1u << j) != gen_vf_rothash(1u << i, 1u << j); }
  for (int it = 0; it < 200000; it++) { uint32_t a = (uint32_t)rand() * 2654435761u + rand(), b = (uint32_t)rand() * 40503u + rand(); nv++; bad += vf_rothash(a, b) != gen_vf_rothash(a, b); }
  printf("vectors=%d disagreements=%d\n", nv, bad); return bad != 0;
}
