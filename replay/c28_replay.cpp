// native replay for C28: the real threaded Logger (libfix8) writing into a string stream.
// usage: c28replay <lines> <ret|drop|retdrop|any>
//  ret : an enabled-level line is submitted; violated if send() reports failure although the line is written
//  drop: <lines> lines are submitted and stop() is called at once; violated if a line accepted before stop is missing
//        when stop() has returned (schedule dependent: retried up to 200 times, a miss is never reported as a violation)
#include <fix8/f8includes.hpp>
#include <sstream>
#include <cstdio>
#include <cstring>
using namespace FIX8;
#include <atomic>
#include <vector>
#include <string>
struct SLogger : Logger
{
  mutable std::ostringstream _os; std::atomic<int> _written{0};
  SLogger() : Logger(LogFlags(), Levels(Logger::All & ~(1 << Logger::Debug))) {}
  std::ostream& get_stream() const override { return _os; }
  std::vector<std::string> _texts;
  void process_logline(LogElement *le) override { _texts.push_back(le->_str); Logger::process_logline(le); ++_written; }      // the real writer, counted; the text it was handed is kept
};
static std::vector<std::string> g_texts;          // texts of the counterexample (optional), in submission order
static const std::string& text_of(int i) { static const std::string dflt("line"); return i < int(g_texts.size()) ? g_texts[i] : dflt; }
static int count_lines(const SLogger& l) { return l._written.load(); }
int main(int argc, char **argv)
{
  const int lines = argc > 1 ? atoi(argv[1]) : 2; const char *want = argc > 2 ? argv[2] : "any";
  for (int i = 3; i < argc; ++i) { std::string t; if (strcmp(argv[i], "-")) for (const char *p = argv[i]; p[0] && p[1]; p += 2) { unsigned b; sscanf(p, "%2x", &b); t += char(b); } g_texts.push_back(t); }
  int bad = 0;
  if (strstr(want, "ret") || !strcmp(want, "any"))
  {
    SLogger *l = new SLogger; bool r = l->send(text_of(0), Logger::Info);
    for (int i = 0; i < 2000 && count_lines(*l) < 1; ++i) hypersleep<h_milliseconds>(1);
    int w = count_lines(*l);
    printf("send() returned %s, lines written %d\n", r ? "true" : "false", w);
    if (!r && w == 1) { ++bad; printf("VIOLATED: submit reported failure for a line that was accepted and written\n"); }
    bool r2 = l->send("dbg", Logger::Debug); printf("send() at a disabled level returned %s\n", r2 ? "true" : "false");
  }
  if (strstr(want, "drop") || !strcmp(want, "any"))
  {
    for (int att = 0; att < 200; ++att)
    {
      SLogger *l = new SLogger; hypersleep<h_milliseconds>(1);
      for (int i = 0; i < lines; ++i) l->send(text_of(i), Logger::Info);
      if (att & 1) hypersleep<h_milliseconds>(5);          // odd attempts: give the thread time to write before stop (a line must not end the thread)
      l->stop();
      int w = count_lines(*l);
      if (w != lines) { ++bad; printf("attempt %d: %d lines accepted before stop(), %d written when stop() returned\nVIOLATED: accepted lines lost on stop\n", att, lines, w); break; }
    }
  }
  if (strstr(want, "text"))
  {
    SLogger *l = new SLogger; hypersleep<h_milliseconds>(1);
    for (int i = 0; i < lines; ++i) l->send(text_of(i), Logger::Info);
    hypersleep<h_milliseconds>(20);
    l->stop();
    for (int i = 0; i < lines && i < int(l->_texts.size()); ++i)
      if (l->_texts[i] != text_of(i)) { ++bad; printf("line %d: submitted %zu byte(s), the writer was handed %zu byte(s)\nVIOLATED: the line written is not the submitted line\n", i, text_of(i).size(), l->_texts[i].size()); break; }
  }
  printf("%s\n", bad ? "VIOLATED" : "ok");
  fflush(stdout); _exit(bad ? 1 : 0);
}
