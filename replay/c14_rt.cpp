// native round trip for C14, compiled against the classes the current f8c generated for a schema in which messages
// MsgA (35=UA) and MsgB (35=UB) use the same repeating-group count field (10000) with two different definitions.
//   usage: c14_rt <tagsA comma list> <tagsB comma list> [<nestA idx:tags> <nestB idx:tags>]
// For each message: build the wire text with one group element carrying every member field, decode it with the real
// Message::factory, check that the element holds every member with its value, re-encode and compare with the wire.
// exit 1 when a message is not decoded/encoded according to its own definition.
#include <fix8/f8includes.hpp>
#include "c14_types.hpp"
#include "c14_router.hpp"
#include "c14_classes.hpp"
#include <cstdio>
#include <cstdlib>
#include <cstring>
#include <sstream>
#include <vector>
using namespace FIX8;
static std::vector<unsigned> split(const char *s) { std::vector<unsigned> v; std::istringstream is(s); std::string t; while (std::getline(is, t, ',')) if (!t.empty()) v.push_back(atoi(t.c_str())); return v; }
static std::string wire(const char *mt, const std::vector<unsigned>& tags, int nidx, const std::vector<unsigned>& ntags)
{
  std::ostringstream b;
  b << "35=" << mt << "\00149=SND\00156=TGT\00134=1\00152=20240108-10:00:00.000\001" << "10000=1\001";
  for (size_t i = 0; i < tags.size(); ++i)
  {
    if (int(i) == nidx) { b << tags[i] << "=1\001"; for (auto t : ntags) b << t << "=n" << t << '\001'; }
    else b << tags[i] << "=v" << tags[i] << '\001';
  }
  const std::string body(b.str()); std::ostringstream m; m << "8=FIX.4.2\0019=" << body.size() << '\001' << body;
  std::string s(m.str()); unsigned cs(0); for (unsigned char c : s) cs += c;
  char t[16]; snprintf(t, sizeof t, "10=%03u\001", cs % 256); return s + t;
}
static int one(const char *nm, const char *mt, const std::vector<unsigned>& tags, int nidx, const std::vector<unsigned>& ntags)
{
  const std::string w(wire(mt, tags, nidx, ntags)); int bad(0);
  try
  {
    std::unique_ptr<Message> msg(Message::factory(C14::ctx(), w));
    if (!msg) { printf("C14 %s: factory returned null\n", nm); return 1; }
    GroupBase *g(msg->find_group(10000));
    if (!g || g->size() != 1) { printf("C14 %s: decoded group has %zu elements, 1 was sent\n", nm, g ? g->size() : size_t(0)); ++bad; }
    else
    {
      MessageBase *e(g->get_element(0));
      for (size_t i = 0; i < tags.size(); ++i)
      {
        if (int(i) == nidx)
        {
          GroupBase *ng(e->find_group(tags[i]));
          if (!ng || ng->size() != 1) { printf("C14 %s: nested group %u has %zu elements, 1 was sent\n", nm, tags[i], ng ? ng->size() : size_t(0)); ++bad; continue; }
          for (auto t : ntags) if (!ng->get_element(0)->get_field(t)) { printf("C14 %s: nested member %u missing from the decoded element\n", nm, t); ++bad; }
        }
        else if (!e->get_field(tags[i])) { printf("C14 %s: member field %u missing from the decoded group element\n", nm, tags[i]); ++bad; }
      }
    }
    f8String out; msg->encode(out);
    if (out != w) { std::string a(out), b(w); for (auto& c : a) if (c == 1) c = '|'; for (auto& c : b) if (c == 1) c = '|'; printf("C14 %s: re-encoded message differs\n  sent    %s\n  encoded %s\n", nm, b.c_str(), a.c_str()); ++bad; }
  }
  catch (f8Exception& ex) { printf("C14 %s: decode/encode threw: %s\n", nm, ex.what()); ++bad; }
  catch (std::exception& ex) { printf("C14 %s: decode/encode threw: %s\n", nm, ex.what()); ++bad; }
  return bad;
}
int main(int argc, char **argv)
{
  if (argc < 3) return 2;
  std::vector<unsigned> a(split(argv[1])), b(split(argv[2])), na, nb; int ia(-1), ib(-1);
  if (argc > 3 && strchr(argv[3], ':')) { ia = atoi(argv[3]); na = split(strchr(argv[3], ':') + 1); }
  if (argc > 4 && strchr(argv[4], ':')) { ib = atoi(argv[4]); nb = split(strchr(argv[4], ':') + 1); }
  int bad(one("MsgA", "UA", a, ia, na) + one("MsgB", "UB", b, ib, nb));
  if (argc > 5) { std::vector<unsigned> c(split(argv[5])), nc; bad += one("MsgC", "UC", c, -1, nc); }      // third definition of a chained-key schema
  printf("C14 round trip %s\n", bad ? "VIOLATED" : "ok");
  return bad ? 1 : 0;
}
