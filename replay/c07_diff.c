/* translator validation for C07: ir2c output (gen_*) vs the real function, including the repo's own test vectors */
#include <stdio.h>
#include <stdint.h>
#include <stdlib.h>
#include <string.h>
unsigned vf_calc_chksum(const char*, size_t, unsigned, int); uint32_t gen_vf_calc_chksum(uint8_t*, uint64_t, uint32_t, uint32_t);
int main(int argc, char **argv)
{
  srand(argc > 1 ? atoi(argv[1]) + 1 : 1); int bad = 0, n_vec = 0;
  /* vectors of utests/message_test.cpp (calc_chksum test) */
  const char *tv[] = { "8=FIX.4.2\0019=12\00135=0\00134=1\001", "ABC", "", "8=FIX.4.4\0019=100\00135=D\001", 0 };
  for (int i = 0; tv[i]; i++) { n_vec++; if (vf_calc_chksum(tv[i], strlen(tv[i]), 0, -1) != gen_vf_calc_chksum((uint8_t*)tv[i], strlen(tv[i]), 0, -1)) bad++; }
  for (int it = 0; it < 100000; it++) {
    static char buf[1400]; int n = rand() % 1300; int mode = rand() % 4;
    for (int i = 0; i < n; i++) buf[i] = mode == 0 ? rand() : mode == 1 ? 0xff : mode == 2 ? 0x80 | (rand() & 1) : (rand() % 3 ? 0xff : 0);
    int off = 0, len = -1;
    if (it % 3 == 1) { off = n ? rand() % n : 0; len = rand() % (n - off + 1); }
    n_vec++;
    if (vf_calc_chksum(buf, n, off, len) != gen_vf_calc_chksum((uint8_t*)buf, n, off, (uint32_t)len)) bad++;
  }
  printf("vectors=%d disagreements=%d\n", n_vec, bad); return bad != 0;
}
