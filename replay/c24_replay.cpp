// native replay for C24: the real Schedule::test / decode_dow on concrete values.  The clock is virtual: this program
// defines std::chrono::system_clock::now() itself (the executable's definition pre-empts libstdc++'s), gmtime_r is libc's.
//   sched <mode> <t0> <t1> <start> <end> <off> <sd> <ed> <prev>     one step, as in the harness (mode 0 daily, 1 base, 2 step)
//   walk  <tstart> <secs> <poll_s> <start> <end> <off> <sd> <ed>    start a session-like poll loop (state true at start-up) and
//                                                                  report the first instant at which state != window predicate
//   dow   <byte values...>                                         decode_dow on the given bytes
#include <fix8/f8includes.hpp>
#include <cstdio>
#include <cstdlib>
#include <cstring>
using namespace FIX8;
static long long g_now;
namespace std { namespace chrono { inline namespace _V2 {
system_clock::time_point system_clock::now() noexcept { return time_point(duration(g_now)); }
} } }
static const long long SEC = 1000000000LL, MIN = 60 * SEC, DAY = 86400 * SEC;
static bool W(long long t, int off, long long start, long long end, int sd, int ed)
{
  long long local = t + off * MIN, tod = local % DAY;
  if (sd < 0) return start <= tod && tod <= end;
  time_t secs = local / SEC; struct tm tmv; gmtime_r(&secs, &tmv);      // libc's calendar
  long long p = tmv.tm_wday * DAY + tod, S = sd * DAY + start, E = ed * DAY + end;
  return S <= E ? (S <= p && p <= E) : (p >= S || p <= E);
}
static const char *dn[] = { "Sun", "Mon", "Tue", "Wed", "Thu", "Fri", "Sat" };
static void show(const char *tag, long long t, int off)
{
  time_t secs = (t + off * MIN) / SEC; struct tm tmv; gmtime_r(&secs, &tmv);
  printf("%s=%s %04d-%02d-%02d %02d:%02d:%02d.%09lld local ", tag, dn[tmv.tm_wday], tmv.tm_year + 1900, tmv.tm_mon + 1, tmv.tm_mday, tmv.tm_hour, tmv.tm_min, tmv.tm_sec, (t + off * MIN) % SEC);
}
static int ref_dow(const std::string& s)
{
  auto lc = [](char c) { return (c >= 'A' && c <= 'Z') ? char(c + 32) : c; };
  if (s.empty()) return -1;
  const char a = lc(s[0]), b = s.size() > 1 ? lc(s[1]) : 0;
  if (s.size() == 1 && a >= '0' && a <= '6') return a - '0';
  if (a == 'm') return 1; if (a == 'w') return 3; if (a == 'f') return 5;
  if (s.size() < 2) return -1;
  if (a == 's') return b == 'u' ? 0 : b == 'a' ? 6 : -1;
  if (a == 't') return b == 'u' ? 2 : b == 'h' ? 4 : -1;
  return -1;
}
int main(int argc, char **argv)
{
  if (argc < 2) return 2;
  if (!strcmp(argv[1], "dow"))
  {
    std::string s; for (int i = 2; i < argc; ++i) s += char(atoi(argv[i]));
    int got = decode_dow(s), want = ref_dow(s);
    printf("decode_dow(len %zu) = %d expected %d -> %s\n", s.size(), got, want, got != want ? "VIOLATED" : "ok");
    return got != want;
  }
  if (!strcmp(argv[1], "sched") && argc >= 11)
  {
    int mode = atoi(argv[2]); long long t0 = atoll(argv[3]), t1 = atoll(argv[4]), start = atoll(argv[5]), end = atoll(argv[6]);
    int off = atoi(argv[7]), sd = atoi(argv[8]), ed = atoi(argv[9]); bool prev = atoi(argv[10]) != 0;
    if (mode == 1) prev = true;
    if (mode == 2) prev = W(t0, off, start, end, sd, ed);
    const Schedule sch(Tickval(static_cast<Tickval::ticks>(start)), Tickval(static_cast<Tickval::ticks>(end)), Tickval(), off, sd, ed);
    g_now = t1;
    bool got = sch.test(prev), want = W(t1, off, start, end, sd, ed);
    if (mode == 2) show("t0", t0, off);
    show("t", t1, off);
    printf("start=%llds end=%llds days %d..%d prev=%d -> test=%d window=%d -> %s\n", start / SEC, end / SEC, sd, ed, int(prev), int(got), int(want), got != want ? "VIOLATED" : "ok");
    return got != want;
  }
  if (!strcmp(argv[1], "walk") && argc >= 10)
  {
    long long t = atoll(argv[2]), secs = atoll(argv[3]), poll = atoll(argv[4]), start = atoll(argv[5]), end = atoll(argv[6]);
    int off = atoi(argv[7]), sd = atoi(argv[8]), ed = atoi(argv[9]);
    const Schedule sch(Tickval(static_cast<Tickval::ticks>(start)), Tickval(static_cast<Tickval::ticks>(end)), Tickval(), off, sd, ed);
    bool active = true; long long bad = 0, first = -1, n = 0;
    for (long long e = t + secs * SEC; t <= e; t += poll * SEC, ++n)
    {
      g_now = t; active = sch.test(active);
      if (active != W(t, off, start, end, sd, ed)) { if (first < 0) first = t; ++bad; }
    }
    if (first >= 0) show("first", first, off);
    printf("polls=%lld wrong=%lld -> %s\n", n, bad, bad ? "VIOLATED" : "ok");
    return bad != 0;
  }
  return 2;
}
