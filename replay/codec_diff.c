/* translator validation for the codec kernels: ir2c output (gen_*) vs the g++ build of the same real functions
   (shims/codec_c03.cpp) on the repo's unit-test inputs plus random token-shaped and random byte vectors */
#include <stdio.h>
#include <stdint.h>
#include <stdlib.h>
#include <string.h>
unsigned vf_extract_element(const char*, unsigned, char*, char*); uint32_t gen_vf_extract_element(uint8_t*, uint32_t, uint8_t*, uint8_t*);
unsigned vf_extract_element_fw(const char*, unsigned, unsigned, char*, char*); uint32_t gen_vf_extract_element_fw(uint8_t*, uint32_t, uint32_t, uint8_t*, uint8_t*);
static int bad, nv;
static void one(const char *in, unsigned n, unsigned vs)
{
  char t1[128], v1[128]; uint8_t t2[128], v2[128];
  memset(t1, 0x55, 128); memset(v1, 0x55, 128); memset(t2, 0x55, 128); memset(v2, 0x55, 128);
  unsigned a = vf_extract_element(in, n, t1, v1), b = gen_vf_extract_element((uint8_t*)in, n, t2, v2);
  nv++; if (a != b || memcmp(t1, t2, 128) || memcmp(v1, v2, 128)) bad++;
  if (vs <= 100) {
    memset(t1, 0x55, 128); memset(v1, 0x55, 128); memset(t2, 0x55, 128); memset(v2, 0x55, 128);
    a = vf_extract_element_fw(in, n, vs, t1, v1); b = gen_vf_extract_element_fw((uint8_t*)in, n, vs, t2, v2);
    nv++; if (a != b || memcmp(t1, t2, 128) || memcmp(v1, v2, 128)) bad++;
  }
}
int main(int argc, char **argv)
{
  srand(argc > 1 ? atoi(argv[1]) + 11 : 11);
  const char *ut[] = { "8=FIX.4.2", "8=", "=FIX.4.2", "", "8=FIX.4.2\0019=12\00135=A\001", "35=A\00134=1\00149=CLIENT\001", "10=185\001", "1234=blah\00198=0\001", "95=3\00196=a\001b\001" };
  for (unsigned i = 0; i < sizeof ut / sizeof *ut; i++) for (unsigned vs = 0; vs < 6; vs++) one(ut[i], (unsigned)strlen(ut[i]), vs);
  for (int it = 0; it < 200000; it++) {
    char in[100]; unsigned n = 0, nd = rand() % 8, nvv = rand() % 20;
    if (rand() % 4 == 0) { n = rand() % 90; for (unsigned i = 0; i < n; i++) in[i] = (char)rand(); }
    else {
      for (unsigned i = 0; i < nd; i++) in[n++] = '0' + rand() % 10;
      if (rand() % 8) in[n++] = '='; else in[n++] = (char)rand();
      for (unsigned i = 0; i < nvv; i++) in[n++] = rand() % 6 ? (char)(32 + rand() % 90) : (char)rand();
      if (rand() % 4) in[n++] = 1;
      unsigned extra = rand() % 6; for (unsigned i = 0; i < extra; i++) in[n++] = (char)rand();
    }
    one(in, n, rand() % 24);
  }
  printf("vectors=%d disagreements=%d\n", nv, bad); return bad != 0;
}
