// native replay for C08: real itoa/fast_atoi and modp_dtoa/fast_atof against exact references
#include <fix8/f8includes.hpp>
#include <cstdio>
#include <cstdlib>
#include <cstring>
#include <string>
using namespace FIX8;
typedef unsigned __int128 u128;
static int do_int(int v)
{
  char *buf = static_cast<char*>(malloc(12));
  size_t n = itoa<int>(v, buf, 10);
  std::string ref(std::to_string(v));
  int back = fast_atoi<int>(buf);
  bool bad = n != ref.size() || ref != buf || back != v;
  printf("v=%d itoa=\"%s\" n=%zu reference=\"%s\" fast_atoi=%d -> %s\n", v, buf, n, ref.c_str(), back, bad ? "VIOLATED" : "ok");
  free(buf); return bad;
}
static int do_dtoa(double v, int prec)
{
  char *buf = static_cast<char*>(malloc(24));
  size_t n = modp_dtoa(v, buf, prec);
  // exact check: |a*10^p - T| <= 1/2 with a = |v| split exactly
  double a = v < 0 ? -v : v; unsigned whole = unsigned(a); double f = a - whole;
  const char *s = buf; bool tneg = false; if (*s == '-') { tneg = true; ++s; }
  unsigned long long tw = 0, tf = 0; int nd = 0; bool ok = true;
  for (; *s && *s != '.'; ++s) { ok = ok && isdigit(*s); tw = tw * 10 + (*s - '0'); }
  if (*s == '.') for (++s; *s; ++s) { ok = ok && isdigit(*s); tf = tf * 10 + (*s - '0'); ++nd; }
  ok = ok && nd <= prec && n == strlen(buf);
  unsigned long long P10 = 1; for (int j = 0; j < prec; ++j) P10 *= 10; for (int j = nd; j < prec; ++j) tf *= 10;
  double hi = f * 0x1p42; unsigned long long hi_i = (unsigned long long)hi; double lo = (hi - double(hi_i)) * 0x1p42; unsigned long long lo_i = (unsigned long long)lo;
  bool tiny = (lo - double(lo_i)) != 0.0;
  u128 F = (u128(hi_i) << 42) | lo_i, X = ((u128(whole) * P10) << 84) + F * P10, T = (u128(tw) * P10 + tf) << 84, half = u128(1) << 83;
  u128 d = X > T ? X - T : T - X;
  bool rounded = d <= half + (tiny ? 1 : 0);
  double back = fast_atof(buf);
  bool bad = !ok || !rounded;
  printf("v=%.17g (0x%016llx) prec=%d modp_dtoa=\"%s\" printf=\"%.*f\" fast_atof=%.17g -> %s\n", v, *reinterpret_cast<unsigned long long*>(&v), prec, buf, prec, v, back,
         bad ? "VIOLATED (not the correctly rounded decimal)" : "ok");
  free(buf); return bad;
}
int main(int argc, char **argv)
{
  if (!strcmp(argv[1], "int")) return do_int(atoi(argv[2]));
  double v; if (argv[2][0] == '0' && argv[2][1] == 'x') { unsigned long long b = strtoull(argv[2], 0, 16); memcpy(&v, &b, 8); } else v = atof(argv[2]);
  return do_dtoa(v, atoi(argv[3]));
}
