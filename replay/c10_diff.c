/* translator validation for C10: ir2c output vs the real templates */
#include <stdio.h>
#include <stdint.h>
#include <stdlib.h>
int vf_rlm_idx_char(const char*, int, int, char); uint32_t gen_vf_rlm_idx_char(uint8_t*, uint32_t, uint32_t, uint8_t);
int vf_rlm_valid_char(const char*, int, int, char); uint32_t gen_vf_rlm_valid_char(uint8_t*, uint32_t, uint32_t, uint8_t);
int vf_rlm_idx_int(const int*, int, int, int); uint32_t gen_vf_rlm_idx_int(uint32_t*, uint32_t, uint32_t, uint32_t);
int vf_rlm_valid_int(const int*, int, int, int); uint32_t gen_vf_rlm_valid_int(uint32_t*, uint32_t, uint32_t, uint32_t);
int vf_rlm_idx_double(const double*, int, int, double); uint32_t gen_vf_rlm_idx_double(double*, uint32_t, uint32_t, double);
int vf_rlm_valid_double(const double*, int, int, double); uint32_t gen_vf_rlm_valid_double(double*, uint32_t, uint32_t, double);
int main(int argc, char **argv)
{
  srand(argc > 1 ? atoi(argv[1]) + 7 : 7); int bad = 0, nv = 0;
  for (int it = 0; it < 50000; it++) {
    int n = 1 + rand() % 12, dt = rand() % 4 ? 1 : 0; if (!dt) n = 2;
    char c[12]; int v[12]; double d[12]; int base = rand() % 40 - 20;
    for (int i = 0; i < n; i++) { base += 1 + rand() % 5; c[i] = (char)(base + 40); v[i] = base * 1000 + i; d[i] = base * 0.5; }
    int k = rand() % n; char wc = rand() % 2 ? c[k] : (char)(rand()); int wv = rand() % 2 ? v[k] : v[k] + rand() % 3 - 1; double wd = rand() % 2 ? d[k] : d[k] + (rand() % 3 - 1) * 0.25;
    nv += 6;
    bad += (uint32_t)vf_rlm_idx_char(c, n, dt, wc) != gen_vf_rlm_idx_char((uint8_t*)c, n, dt, (uint8_t)wc);
    bad += (vf_rlm_valid_char(c, n, dt, wc) & 1) != (gen_vf_rlm_valid_char((uint8_t*)c, n, dt, (uint8_t)wc) & 1);
    bad += (uint32_t)vf_rlm_idx_int(v, n, dt, wv) != gen_vf_rlm_idx_int((uint32_t*)v, n, dt, wv);
    bad += (vf_rlm_valid_int(v, n, dt, wv) & 1) != (gen_vf_rlm_valid_int((uint32_t*)v, n, dt, wv) & 1);
    bad += (uint32_t)vf_rlm_idx_double(d, n, dt, wd) != gen_vf_rlm_idx_double(d, n, dt, wd);
    bad += (vf_rlm_valid_double(d, n, dt, wd) & 1) != (gen_vf_rlm_valid_double(d, n, dt, wd) & 1);
  }
  printf("vectors=%d disagreements=%d\n", nv, bad); return bad != 0;
}
