// native replay for the C09 log-timestamp clause: real FIX8::GetTimeAsStringMS (libstdc++ iostreams, glibc) on one instant
// usage: c09_logts_replay <secs> <nsecs> <dplaces>
#include <fix8/f8includes.hpp>
#include <cstdio>
#include <cstdlib>
using namespace FIX8;
int main(int argc, char **argv)
{
  if (argc < 4) return 3;
  const Tickval tv(static_cast<time_t>(strtoll(argv[1], 0, 10)), strtol(argv[2], 0, 10));
  std::string res; GetTimeAsStringMS(res, &tv, unsigned(atoi(argv[3])), true);
  const size_t c(res.rfind(':'));
  bool ok = c != std::string::npos && c + 2 < res.size() && isdigit(res[c + 1]) && isdigit(res[c + 2]) && (res[c + 1] - '0') * 10 + (res[c + 2] - '0') <= 59;
  printf("GetTimeAsStringMS(%s s, %s ns, %s places) = \"%s\" -> seconds field %s\n", argv[1], argv[2], argv[3], res.c_str(), ok ? "in 00..59" : "NOT in 00..59");
  printf("%s\n", ok ? "ok" : "VIOLATED");
  return ok ? 0 : 1;
}
