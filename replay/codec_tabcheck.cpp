// compares shims/codec_tables.h (the hand copy used by the codec-world shim and harnesses) with the f8c-generated
// FIX42UTEST tables inside libutest.so; exit 0 when identical
#include <fix8/f8includes.hpp>
#include "utest_types.hpp"
#include "utest_router.hpp"
#include "utest_classes.hpp"
#include <cstdio>
using namespace FIX8;
struct FT { unsigned short fnum; unsigned ftype; unsigned short pos, comp, traits; };
#define VF_TAB static const
#include "codec_tables.h"
static int cmp(const char *name, const FieldTrait *real, unsigned nreal, const FT *mine, unsigned n)
{
  int bad = nreal != n;
  for (unsigned i = 0; i < n && i < nreal; ++i)
    if (real[i]._fnum != mine[i].fnum || unsigned(real[i]._ftype) != mine[i].ftype || real[i]._pos != mine[i].pos || real[i]._component != mine[i].comp || real[i]._field_traits.get() != mine[i].traits) bad++;
  printf("%s: %u entries, %d differences; ", name, n, bad); return bad;
}
int main()
{
  int bad = 0;
  bad += cmp("header", UTEST::header::_traits, UTEST::header::_fieldcnt, vf_hdr_traits, VF_N_HDR);
  bad += cmp("Logon", UTEST::Logon::_traits, UTEST::Logon::_fieldcnt, vf_body_traits, VF_N_BODY);
  bad += cmp("Logon::NoMsgTypes", UTEST::Logon::NoMsgTypes::_traits, UTEST::Logon::NoMsgTypes::_fieldcnt, vf_grp_traits, VF_N_GRP);
  bad += cmp("trailer", UTEST::trailer::_traits, UTEST::trailer::_fieldcnt, vf_trl_traits, VF_N_TRL);
  const F8MetaCntx& c = UTEST::ctx();
  if (c._flu_sz != VF_FLU_SZ) { printf("field table size %u != %u; ", c._flu_sz, VF_FLU_SZ); bad++; }
  for (unsigned short k : vf_known_tags) if (!c.find_be(k)) { printf("tag %u not in the generated field table; ", k); bad++; }
  const unsigned menu_unknown[] = { 5000 };      /* harness menu tags that must have no field-table entry */
  for (unsigned t : menu_unknown) if (c.find_be(t)) { printf("tag %u unexpectedly in the generated field table; ", t); bad++; }
  if (!c._bme.find_ptr("A") || !c._bme.find_ptr("header") || !c._bme.find_ptr("trailer")) { printf("message table keys missing; "); bad++; }
  printf("%s\n", bad ? "MISMATCH" : "identical"); return bad != 0;
}
