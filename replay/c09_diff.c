/* translator validation for C09 kernels (gmtime_r is the libc one on both sides) */
#include <stdio.h>
#include <stdint.h>
#include <stdlib.h>
#include <string.h>
#include <time.h>
long vf_time_to_epoch(const struct tm*); uint64_t gen_vf_time_to_epoch(void*);
size_t vf_dt_format(long, char*, int); uint64_t gen_vf_dt_format(uint64_t, uint8_t*, uint32_t);
long vf_dt_parse(const char*, size_t); uint64_t gen_vf_dt_parse(uint8_t*, uint64_t);
long vf_time_parse(const char*, size_t, int); uint64_t gen_vf_time_parse(uint8_t*, uint64_t, uint32_t);
long vf_date_parse(const char*, size_t); uint64_t gen_vf_date_parse(uint8_t*, uint64_t);
void *x_gmtime_r(int64_t *t, void *res) { return gmtime_r((time_t*)t, (struct tm*)res); }
int main(int argc, char **argv)
{
  srand(argc > 1 ? atoi(argv[1]) + 5 : 5); int bad = 0, nv = 0;
  const char *tv[] = { "20090326-23:09:19.000", "20140702-23:15:51.514", "19981231-23:59:59.123", "20380119-03:14:07.999", "20991231-23:59:59.999", 0 };
  for (int i = 0; tv[i]; i++) { nv++; bad += (uint64_t)vf_dt_parse(tv[i], 21) != gen_vf_dt_parse((uint8_t*)tv[i], 21); }
  for (int it = 0; it < 100000; it++) {
    struct tm tm; memset(&tm, 0, sizeof tm); tm.tm_year = 70 + rand() % 130; tm.tm_mon = rand() % 12; tm.tm_mday = 1 + rand() % 28; tm.tm_hour = rand() % 24; tm.tm_min = rand() % 60; tm.tm_sec = rand() % 60;
    nv += 5;
    bad += (uint64_t)vf_time_to_epoch(&tm) != gen_vf_time_to_epoch(&tm);
    long ticks = ((long)(rand() % 4102444) * 1000 + rand() % 1000) * 1000000000L + (long)(rand() % 1000) * 1000000L;
    int ind = rand() % 6; char a[32], b[32]; memset(a, 0, 32); memset(b, 0, 32);
    size_t la = vf_dt_format(ticks, a, ind), lb = gen_vf_dt_format(ticks, (uint8_t*)b, ind);
    bad += la != lb || memcmp(a, b, 32);
    char full[32]; vf_dt_format(ticks, full, 5);
    bad += (uint64_t)vf_dt_parse(full, 21) != gen_vf_dt_parse((uint8_t*)full, 21);
    bad += (uint64_t)vf_time_parse(full + 9, 12, it & 1) != gen_vf_time_parse((uint8_t*)full + 9, 12, it & 1);
    bad += (uint64_t)vf_date_parse(full, 8) != gen_vf_date_parse((uint8_t*)full, 8);
  }
  printf("vectors=%d disagreements=%d\n", nv, bad); return bad != 0;
}
