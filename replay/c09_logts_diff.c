#include <stdio.h>
#include <string.h>
#include "c09l.c"
struct S_struct_2etm *x_gmtime_r(uint64_t *t, struct S_struct_2etm *r)
{ r->f0 = (uint32_t)(*t % 60); r->f1 = 15; r->f2 = 23; r->f3 = 2; r->f4 = 6; r->f5 = 114; r->f6 = 3; r->f7 = 182; r->f8 = 0; return r; }
static uint64_t rs = 88172645463325252ull; static uint64_t rnd(void) { rs ^= rs << 13; rs ^= rs >> 7; rs ^= rs << 17; return rs; }
int main(void)
{
  long bad = 0, tot = 0;
  for (long it = 0; it < 300000; it++) {
    long secs = rnd() % 4294967296ull, ns; unsigned dp = 1 + rnd() % 9; int m = rnd() % 4;
    if (m == 0) ns = rnd() % 1000000000ull; else if (m == 1) ns = 1000000000 - 1 - rnd() % 1000; else if (m == 2) { long p = 1; for (unsigned k = dp; k < 9; k++) p *= 10; ns = (rnd() % 1000) * p + p / 2 + (long)(rnd() % 3) - 1; if (ns < 0) ns = 0; ns %= 1000000000; } else ns = rnd() % 1000;
    /* the formatting model (translated vf_fmt_fixed on models/ostream_fmt.c) against glibc, on the doubles the log renderer can produce */
    uint8_t out[41]; memset(out, 0, sizeof out);
    double x = (double)(secs % 60) + (double)ns / 1e9;
    int n = (int)vf_fmt_fixed(out, x, 3 + dp, dp);
    char ref[64]; snprintf(ref, sizeof ref, "%0*.*f %04d|  c", 3 + dp, dp, x, (int)dp);
    tot++;
    if (strcmp(ref, (char*)out) || n != (int)strlen(ref)) { if (bad++ < 5) printf("DIFF secs=%ld ns=%ld dp=%u model=[%s] libc=[%s]\n", secs, ns, dp, out, ref); }
  }
  printf("%ld vectors, %ld differences\n", tot, bad);
  return bad != 0;
}
