/* translator validation for C12: ir2c output (gen_*) vs the g++ build of the same wrappers (shims/c12.cpp), on random
   sorted tables / set states and random operation sequences; positions are compared relative to each side's own arrays */
#include <stdio.h>
#include <stdint.h>
#include <stdlib.h>
#include <string.h>
typedef struct { uint32_t k, v; } upair; typedef struct { const char *k; uint32_t v; uint32_t pad; } spair;
long vf_gt_pair_u(const void*, size_t, unsigned); long vf_gt_ptr_u(const void*, size_t, unsigned); long vf_gt_at_u(const void*, size_t, size_t);
long vf_gt_pair_s(const void*, size_t, const char*); long vf_gt_ptr_s(const void*, size_t, const char*);
uint64_t gen_vf_gt_pair_u(void*, uint64_t, uint32_t); uint64_t gen_vf_gt_ptr_u(void*, uint64_t, uint32_t); uint64_t gen_vf_gt_at_u(void*, uint64_t, uint64_t);
uint64_t gen_vf_gt_pair_s(void*, uint64_t, uint8_t*); uint64_t gen_vf_gt_ptr_s(void*, uint64_t, uint8_t*);
void vf_gs_setup(void*, void*, size_t, size_t, size_t); void *vf_gs_arr(void*); size_t vf_gs_sz(void*); size_t vf_gs_rsz(void*);
void *vf_gs_find_k(void*, unsigned short); void *vf_gs_find_ka(void*, unsigned short, _Bool*); void *vf_gs_insert(void*, const void*, _Bool*); void vf_gs_clear(void*);
void gen_vf_gs_setup(void*, void*, uint64_t, uint64_t, uint64_t); void *gen_vf_gs_arr(void*); uint64_t gen_vf_gs_sz(void*); uint64_t gen_vf_gs_rsz(void*);
void *gen_vf_gs_find_k(void*, uint16_t); void *gen_vf_gs_find_ka(void*, uint16_t, uint8_t*); void *gen_vf_gs_insert(void*, void*, uint8_t*); void gen_vf_gs_clear(void*);
void vf_ps_setup(void*, void*, size_t, size_t, size_t, const void*); void *vf_ps_arr(void*); size_t vf_ps_sz(void*); size_t vf_ps_rsz(void*);
void *vf_ps_find_k(void*, unsigned short); void *vf_ps_find_ka(void*, unsigned short, _Bool*); void *vf_ps_insert(void*, const void*, _Bool*); void vf_ps_clear(void*);
void vf_ps_ctor_ftha(void*, const void*, size_t, const void*); void vf_ha_ctor(void*, const void*, size_t); unsigned vf_ha_sz(const void*); const void *vf_ps_find_kc(const void*, unsigned short);
void gen_vf_ps_setup(void*, void*, uint64_t, uint64_t, uint64_t, void*); void *gen_vf_ps_arr(void*); uint64_t gen_vf_ps_sz(void*); uint64_t gen_vf_ps_rsz(void*);
void *gen_vf_ps_find_k(void*, uint16_t); void *gen_vf_ps_find_ka(void*, uint16_t, uint8_t*); void *gen_vf_ps_insert(void*, void*, uint8_t*); void gen_vf_ps_clear(void*);
void gen_vf_ps_ctor_ftha(void*, void*, uint64_t, void*); void gen_vf_ha_ctor(void*, void*, uint64_t); uint32_t gen_vf_ha_sz(void*); void *gen_vf_ps_find_kc(void*, uint16_t);
/* operator new[] / delete[] of the generated side */
uint8_t *x__Znam(uint64_t n) { return malloc(n ? n : 1); }
void x__ZdaPv(uint8_t *p) { free(p); }
void *vf_new_array(size_t n);          /* the native side's arrays must come from the C++ operator new[] (delete[] frees them) */
#define ES 4
#define FS 16
static int bad, nv;
#define EQ(a, b) do { nv++; if ((a) != (b)) { if (bad < 5) printf("mismatch line %d\n", __LINE__); bad++; } } while (0)
static void set_world(int pres, int seed)
{
  size_t es = pres ? FS : ES;
  uint64_t a_obj[8] = {0}, b_obj[8] = {0};
  size_t sz = rand() % 5, rsz = sz + rand() % 3, reserve = rand() % 101; if (rsz == 0) rsz = 1;
  uint8_t *a = vf_new_array(rsz * es), *b = malloc(rsz * es); uint16_t k = 0;
  memset(a, 0, rsz * es); memset(b, 0, rsz * es);
  for (size_t i = 0; i < sz; i++) { k += 1 + rand() % 4; memcpy(a + i * es, &k, 2); memcpy(b + i * es, &k, 2); }
  if (pres) { vf_ps_setup(a_obj, a, sz, rsz, reserve, 0); gen_vf_ps_setup(b_obj, b, sz, rsz, reserve, 0); }
  else { vf_gs_setup(a_obj, a, sz, rsz, reserve); gen_vf_gs_setup(b_obj, b, sz, rsz, reserve); }
  for (int step = 0; step < 6; step++) {
    uint16_t key = rand() % 24; uint8_t elt[FS] = {0}; memcpy(elt, &key, 2); int op = rand() % 8;
    uint8_t *aa = pres ? vf_ps_arr(a_obj) : vf_gs_arr(a_obj), *bb = pres ? gen_vf_ps_arr(b_obj) : gen_vf_gs_arr(b_obj);
    size_t asz = pres ? vf_ps_sz(a_obj) : vf_gs_sz(a_obj);
    if (op < 4) {
      _Bool ia = 0; uint8_t ib = 0; uint8_t *ra = pres ? vf_ps_insert(a_obj, elt, &ia) : vf_gs_insert(a_obj, elt, &ia), *rb = pres ? gen_vf_ps_insert(b_obj, elt, &ib) : gen_vf_gs_insert(b_obj, elt, &ib);
      EQ((int)ia, (int)(ib & 1));
      { /* position of the returned iterator: relative to the live array when it points into it, else relative to the array the search ran on */
        uint8_t *na = pres ? vf_ps_arr(a_obj) : vf_gs_arr(a_obj), *nb = pres ? gen_vf_ps_arr(b_obj) : gen_vf_gs_arr(b_obj);
        long oa = (ra >= na && ra <= na + 32 * es) ? ra - na : 100000 + (ra - aa), ob = (rb >= nb && rb <= nb + 32 * es) ? rb - nb : 100000 + (rb - bb);
        EQ(oa, ob);
      }
    } else if (op < 6) {
      uint8_t *ra = pres ? vf_ps_find_k(a_obj, key) : vf_gs_find_k(a_obj, key), *rb = pres ? gen_vf_ps_find_k(b_obj, key) : gen_vf_gs_find_k(b_obj, key); EQ(ra - aa, rb - bb);
    } else if (op < 7) {
      _Bool fa = 0; uint8_t fb = 0; uint8_t *ra = pres ? vf_ps_find_ka(a_obj, key, &fa) : vf_gs_find_ka(a_obj, key, &fa), *rb = pres ? gen_vf_ps_find_ka(b_obj, key, &fb) : gen_vf_gs_find_ka(b_obj, key, &fb);
      EQ(ra - aa, rb - bb); EQ((int)fa, (int)(fb & 1));
    } else if (asz > 3) { if (pres) { vf_ps_clear(a_obj); gen_vf_ps_clear(b_obj); } else { vf_gs_clear(a_obj); gen_vf_gs_clear(b_obj); } }
    aa = pres ? vf_ps_arr(a_obj) : vf_gs_arr(a_obj); bb = pres ? gen_vf_ps_arr(b_obj) : gen_vf_gs_arr(b_obj);
    asz = pres ? vf_ps_sz(a_obj) : vf_gs_sz(a_obj);
    EQ(asz, (size_t)(pres ? gen_vf_ps_sz(b_obj) : gen_vf_gs_sz(b_obj))); EQ((size_t)(pres ? vf_ps_rsz(a_obj) : vf_gs_rsz(a_obj)), (size_t)(pres ? gen_vf_ps_rsz(b_obj) : gen_vf_gs_rsz(b_obj)));
    for (size_t i = 0; i < asz; i++) EQ(memcmp(aa + i * es, bb + i * es, 2), 0);
  }
}
int main(int argc, char **argv)
{
  srand(argc > 1 ? atoi(argv[1]) + 12 : 12);
  for (int it = 0; it < 20000; it++) {
    int n = rand() % 10; upair u[10]; spair s[10]; char str[10][3]; unsigned k = rand() % 5; char c = 'A';
    for (int i = 0; i < n; i++) { u[i].k = k; u[i].v = i; k += 1 + rand() % 3; str[i][0] = c; str[i][1] = rand() % 2 ? 'a' + rand() % 3 : 0; str[i][2] = 0; c += 1 + rand() % 2; s[i].k = str[i]; s[i].v = i; }
    unsigned pk = rand() % (k + 2); char ps[3] = { 'A' + rand() % 14, rand() % 2 ? 'a' + rand() % 3 : 0, 0 }; size_t idx = rand() % 12;
    EQ((uint64_t)vf_gt_pair_u(u, n, pk), gen_vf_gt_pair_u(u, n, pk)); EQ((uint64_t)vf_gt_ptr_u(u, n, pk), gen_vf_gt_ptr_u(u, n, pk)); EQ((uint64_t)vf_gt_at_u(u, n, idx), gen_vf_gt_at_u(u, n, idx));
    EQ((uint64_t)vf_gt_pair_s(s, n, ps), gen_vf_gt_pair_s(s, n, (uint8_t*)ps)); EQ((uint64_t)vf_gt_ptr_s(s, n, ps), gen_vf_gt_ptr_s(s, n, (uint8_t*)ps));
    set_world(it & 1, it);
    if (it % 8 == 0 && n > 0) {       /* hash array + hash-mode lookups */
      uint8_t tab[10][FS]; memset(tab, 0, sizeof tab); uint16_t t = rand() % 3;
      for (int i = 0; i < n; i++) { memcpy(tab[i], &t, 2); t += 1 + rand() % 5; }
      uint64_t ha_a[4] = {0}, ha_b[4] = {0}, pa[8] = {0}, pb[8] = {0};
      vf_ha_ctor(ha_a, tab, n); gen_vf_ha_ctor(ha_b, tab, n); EQ(vf_ha_sz(ha_a), gen_vf_ha_sz(ha_b));
      vf_ps_ctor_ftha(pa, tab, n, ha_a); gen_vf_ps_ctor_ftha(pb, tab, n, ha_b);
      for (uint16_t q = 0; q < t + 3; q++) EQ((uint8_t*)vf_ps_find_kc(pa, q) - (uint8_t*)vf_ps_arr(pa), (uint8_t*)gen_vf_ps_find_kc(pb, q) - (uint8_t*)gen_vf_ps_arr(pb));
    }
  }
  printf("vectors=%d disagreements=%d\n", nv, bad); return bad != 0;
}
