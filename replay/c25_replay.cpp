// native witness for C25: threads call the real FIXWriter::write / write_batch (header code, pm_thread) on one writer; Session::send_process
// is interposed by the same non-atomic witness as in the harness. Schedule dependent: many rounds; an observed overlap/lost update is a violation.
#include <fix8/f8includes.hpp>
#include <utests/utest_types.hpp>
#include <utests/utest_router.hpp>
#include <utests/utest_classes.hpp>
#include <thread>
#include <atomic>
#include <cstdio>
#include <cstring>
#include <vector>
using namespace FIX8;
static volatile unsigned counter; static volatile int in_cs; static std::atomic<int> overlap{0};
static bool pipe_mode; static std::vector<Message*> processed_seq;
bool FIX8::Session::send_process(Message *msg)
{
  if (pipe_mode) { processed_seq.push_back(msg); return true; }
  if (in_cs) overlap = 1;
  in_cs = 1; unsigned t = counter; for (volatile int i = 0; i < 20; ++i) ; counter = t + 1; in_cs = 0;
  return true;
}
struct RSession : Session { RSession(const F8MetaCntx& c) : Session(c) {} bool handle_application(const unsigned, const Message *&) override { return true; } };
// pipelined model: the real writer loop in its own thread, real queue; producers write single messages and 2-message batches, then the sentinel
static int pipe_run(RSession *sess, Poco::Net::StreamSocket *sock)
{
  pipe_mode = true;
  FIXWriter *w = new FIXWriter(sock, *sess, pm_pipeline);
  f8_thread_cancellation_token tok;
  std::thread wr([&]{ w->execute(tok); });
  const int N = 20000; std::vector<Message*> a_msgs, b_msgs;
  for (int i = 0; i < N; ++i) { a_msgs.push_back(new UTEST::Heartbeat); b_msgs.push_back(new UTEST::Heartbeat); }
  std::thread a([&]{ for (int i = 0; i < N; ++i) w->write(a_msgs[i], true); });
  std::thread b([&]{ for (int i = 0; i + 1 < N; i += 2) { std::vector<Message*> v{b_msgs[i], b_msgs[i + 1]}; w->write_batch(v, true); } });
  a.join(); b.join();
  w->_started = true; w->stop();                   // the real stop(): pushes the sentinel
  wr.join();
  size_t ia = 0, ib = 0; int bad = 0;
  for (Message *m : processed_seq) { if (ia < a_msgs.size() && m == a_msgs[ia]) ++ia; else if (ib < b_msgs.size() && m == b_msgs[ib]) ++ib; else ++bad; }
  printf("pipelined: pushed %d, processed %zu, out-of-order/unknown %d\n", 2 * N, processed_seq.size(), bad);
  bool v = bad || processed_seq.size() != size_t(2 * N);
  printf("%s\n", v ? "VIOLATED: messages queued before the sentinel were not all processed exactly once in order" : "ok");
  fflush(stdout); _exit(v ? 1 : 0);
}
int main(int argc, char **argv)
{
  RSession *sess = new RSession(UTEST::ctx());
  Poco::Net::StreamSocket *sock = new Poco::Net::StreamSocket;
  if (argc > 1 && !strcmp(argv[1], "pipe")) return pipe_run(sess, sock);
  FIXWriter *w = new FIXWriter(sock, *sess, pm_thread);
  const int rounds = 200000; alignas(16) static char raw[4][sizeof(Message)];
  Message *m[4]; for (int i = 0; i < 4; ++i) m[i] = reinterpret_cast<Message*>(raw[i]);
  std::vector<Message*> batch{m[2], m[3]};
  std::thread a([&]{ for (int i = 0; i < rounds; ++i) w->write(m[0], false); });
  std::thread b([&]{ for (int i = 0; i < rounds; ++i) w->write_batch(batch, false); });
  std::thread c([&]{ for (int i = 0; i < rounds; ++i) w->write(*m[1]); });
  a.join(); b.join(); c.join();
  const unsigned expect = rounds * 4u;
  printf("messages %u, counter %u, overlap %d\n", expect, counter, int(overlap));
  bool bad = overlap || counter != expect;
  printf("%s\n", bad ? "VIOLATED: senders overlapped inside send_process / lost update" : "ok");
  fflush(stdout); _exit(bad ? 1 : 0);
}
