// native witness for C25: threads call the real FIXWriter::write / write_batch (header code, pm_thread) on one writer; Session::send_process
// is interposed by the same non-atomic witness as in the harness. Schedule dependent: many rounds; an observed overlap/lost update is a violation.
#include <fix8/f8includes.hpp>
#include <utests/utest_types.hpp>
#include <utests/utest_router.hpp>
#include <utests/utest_classes.hpp>
#include <thread>
#include <atomic>
#include <cstdio>
using namespace FIX8;
static volatile unsigned counter; static volatile int in_cs; static std::atomic<int> overlap{0};
bool FIX8::Session::send_process(Message *msg)
{
  if (in_cs) overlap = 1;
  in_cs = 1; unsigned t = counter; for (volatile int i = 0; i < 20; ++i) ; counter = t + 1; in_cs = 0;
  return true;
}
struct RSession : Session { RSession(const F8MetaCntx& c) : Session(c) {} bool handle_application(const unsigned, const Message *&) override { return true; } };
int main()
{
  RSession *sess = new RSession(UTEST::ctx());
  Poco::Net::StreamSocket *sock = new Poco::Net::StreamSocket;
  FIXWriter *w = new FIXWriter(sock, *sess, pm_thread);
  const int rounds = 200000; alignas(16) static char raw[4][sizeof(Message)];
  Message *m[4]; for (int i = 0; i < 4; ++i) m[i] = reinterpret_cast<Message*>(raw[i]);
  std::vector<Message*> batch{m[2], m[3]};
  std::thread a([&]{ for (int i = 0; i < rounds; ++i) w->write(m[0], false); });
  std::thread b([&]{ for (int i = 0; i < rounds; ++i) w->write_batch(batch, false); });
  std::thread c([&]{ for (int i = 0; i < rounds; ++i) w->write(*m[1]); });
  a.join(); b.join(); c.join();
  const unsigned expect = rounds * 4u;
  printf("messages %u, counter %u, overlap %d\n", expect, counter, int(overlap));
  bool bad = overlap || counter != expect;
  printf("%s\n", bad ? "VIOLATED: senders overlapped inside send_process / lost update" : "ok");
  fflush(stdout); _exit(bad ? 1 : 0);
}
