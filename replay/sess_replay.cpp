// Native replay driver of the session world, inbound side (C19, C20, C22, C23): a real FIX8::Session (libfix8.so) over the repo's own
// FIX4.2 unit-test schema (libutest.so), real Message::factory decoding of real message bytes, real handlers and real message builders.
// Only Session::send is overridden (there is no socket): it records the outbound message's type and key fields.
// usage: sess_replay step... ; a step is one argv word of comma-separated k=v pairs starting with init / msg / raw / tick / sid
#include <fix8/f8includes.hpp>
#include "utest_types.hpp"
#include "utest_router.hpp"
#include "utest_classes.hpp"
#include <map>
#include <sstream>
#include <iostream>
using namespace FIX8;
using KV = std::map<std::string, std::string>;
static KV parse(const std::string& s)
{
   KV kv; std::istringstream is(s); std::string tok;
   while (std::getline(is, tok, ',')) { auto p(tok.find('=')); if (p == std::string::npos) kv[tok] = "1"; else kv[tok.substr(0, p)] = tok.substr(p + 1); }
   return kv;
}
static long num(const KV& kv, const char *k, long dflt = 0) { auto i(kv.find(k)); return i == kv.end() || i->second.empty() || i->second == "-" ? dflt : std::stol(i->second); }
static std::string str(const KV& kv, const char *k, const char *dflt = "") { auto i(kv.find(k)); return i == kv.end() ? dflt : i->second; }
static bool has(const KV& kv, const char *k) { auto i(kv.find(k)); return i != kv.end() && i->second != "-"; }

struct RSession : Session
{
   std::ostringstream events; unsigned delivered = 0;
   RSession(const F8MetaCntx& c, const SessionID& sid) : Session(c, sid) { quiet(); }
   RSession(const F8MetaCntx& c, const sender_comp_id& sci) : Session(c, sci) { quiet(); }
   void quiet() { _timer.clear(); _timer.stop(); _timer.join(); }
   bool handle_application(const unsigned seqnum, const Message *&msg) override
   {
      if (enforce(seqnum, msg)) return true;
      ++delivered; events << " deliver:" << seqnum; return true;
   }
   bool send(Message *m, bool destroy, const unsigned custom_seqnum, const bool no_increment) override
   {
      events << " send:" << m->get_msgtype() << "[custom=" << custom_seqnum << ",noinc=" << no_increment;
      begin_seq_num b; end_seq_num e; new_seq_num n; test_request_id t; heartbeat_interval h; ref_seq_num r; gap_fill_flag g;
      if (m->get(b)) events << ",7=" << b();
      if (m->get(e)) events << ",16=" << e();
      if (m->get(n)) events << ",36=" << n();
      if (m->get(g)) events << ",123=" << (g() ? 'Y' : 'N');
      if (m->get(t)) events << ",112=" << t();
      if (m->get(h)) events << ",108=" << h();
      if (m->get(r)) events << ",45=" << r();
      if (m->have(Common_ResetSeqNumFlag)) events << ",141=Y";
      events << "]";
      if (destroy) delete m;
      return true;
   }
   bool send(Message& m, const unsigned custom_seqnum, const bool no_increment) override { return send(&m, false, custom_seqnum, no_increment); }
   bool auth = true;
   bool authenticate(SessionID& id, const Message *msg) override { return auth; }
   // pre-state
   void set(const KV& kv)
   {
      if (has(kv, "state")) _state = States::SessionStates(num(kv, "state"));
      if (has(kv, "recv")) _next_receive_seq = unsigned(num(kv, "recv"));
      if (has(kv, "send")) _next_send_seq = unsigned(num(kv, "send"));
      if (has(kv, "reqsend")) _req_next_send_seq = unsigned(num(kv, "reqsend"));
      if (has(kv, "reqrecv")) _req_next_receive_seq = unsigned(num(kv, "reqrecv"));
      if (has(kv, "active")) _active = num(kv, "active") != 0;
      if (has(kv, "enforce")) _loginParameters._enforce_compids = num(kv, "enforce") != 0;
      if (has(kv, "silent")) _loginParameters._silent_disconnect = num(kv, "silent") != 0;
      if (has(kv, "reliable")) _loginParameters._reliable = num(kv, "reliable") != 0;
      if (has(kv, "reset")) _loginParameters._reset_sequence_numbers = num(kv, "reset") != 0;
      if (has(kv, "auth")) auth = num(kv, "auth") != 0;
      if (has(kv, "client")) _loginParameters._clients.insert({ str(kv, "client"), Client(str(kv, "client"), Poco::Net::IPAddress()) });
      Tickval now(true);
      if (has(kv, "sent_ago_ms")) _last_sent = Tickval(Tickval::ticks(now.get_ticks() - num(kv, "sent_ago_ms") * 1000000LL));
      if (has(kv, "recv_ago_ms")) _last_received = Tickval(Tickval::ticks(now.get_ticks() - num(kv, "recv_ago_ms") * 1000000LL));
      _control.clear(shutdown);
   }
   void set_connection(Connection *c) { _connection = c; }
   bool tick() { return heartbeat_service(); }
   std::string status()
   {
      std::ostringstream o;
      o << " state=" << int(_state.load()) << " recv=" << _next_receive_seq << " send=" << _next_send_seq << " shutdown=" << _control.has(shutdown)
        << " sid=" << _sid.get_senderCompID()() << ">" << _sid.get_targetCompID()() << " delivered=" << delivered;
      return o.str();
   }
};

static std::string ts(long off_s)
{
   time_t t(1700000000 + off_s); struct tm tmv; gmtime_r(&t, &tmv); char buf[32];
   strftime(buf, sizeof buf, "%Y%m%d-%H:%M:%S", &tmv); return buf;
}
// a complete FIX4.2 message: header fields from kv, a type-specific body, correct BodyLength and CheckSum
static std::string build(const KV& kv)
{
   const std::string type(str(kv, "type", "D")), soh("\x01");
   std::string body("35=" + type + soh);
   const std::string pre(str(kv, "pre34"));     // text placed in a header *value* before the real tag 34 (e.g. "34=9")
   body += "49=" + str(kv, "sci", "T") + pre + soh + "56=" + str(kv, "tci", "S") + soh;
   body += "34=" + std::to_string(num(kv, "seq", 1)) + soh;
   if (has(kv, "pd")) body += "43=" + str(kv, "pd") + soh;
   body += "52=" + ts(num(kv, "st", 0)) + soh;
   if (has(kv, "ost")) body += "122=" + ts(num(kv, "ost", 0)) + soh;
   if (type == "D") body += "11=X" + soh + "21=1" + soh + "55=IBM" + soh + "54=1" + soh + "60=" + ts(0) + soh + "40=1" + soh;
   else if (type == "0") { if (has(kv, "trid")) body += "112=" + str(kv, "trid") + soh; }
   else if (type == "1") body += "112=" + str(kv, "trid", "T") + soh;
   else if (type == "2") body += "7=" + std::to_string(num(kv, "begin", 1)) + soh + "16=" + std::to_string(num(kv, "end", 0)) + soh;
   else if (type == "4") { if (has(kv, "gapfill")) body += "123=" + str(kv, "gapfill") + soh; if (has(kv, "nsn")) body += "36=" + std::to_string(num(kv, "nsn")) + soh; }
   else if (type == "A") { body += "98=0" + soh + "108=" + std::to_string(num(kv, "hbi", 30)) + soh; if (has(kv, "reset141")) body += "141=" + str(kv, "reset141") + soh; }
   const long fail(num(kv, "fail"));
   std::string msg((fail == 2 ? "8=FIX.9.9" : "8=FIX.4.2") + soh + "9=" + std::to_string(body.size()) + soh + body);
   if (fail == 1) msg = "8=FIX.4.2" + soh + "34=" + std::to_string(num(kv, "seq", 1)) + soh;        // no BodyLength/MsgType: malformed
   if (fail == 3) { auto p(msg.find(soh + "52=")); msg = msg.substr(0, p + 1) + "52=BADTIME" + soh + msg.substr(msg.find(soh, p + 1) + 1); }
   unsigned sum(0); for (unsigned char c : msg) sum += c;
   if (fail == 4) sum += 7;
   char cs[8]; snprintf(cs, sizeof cs, "%03u", sum % 256);
   return msg + "10=" + cs + soh;
}

int main(int argc, char **argv)
{
   RSession *s(nullptr); Connection *conn(nullptr); Poco::Net::SocketAddress addr;
   for (int i = 1; i < argc; ++i)
   {
      const std::string step(argv[i]); const auto c(step.find(',')); const std::string op(step.substr(0, c)); const KV kv(parse(c == std::string::npos ? "" : step.substr(c + 1)));
      if (op == "sid")       // SessionID comparisons (C23): sid,as=..,at=..,bs=..,bt=..
      {
         SessionID a("FIX.4.2", str(kv, "as"), str(kv, "at")), b("FIX.4.2", str(kv, "bs"), str(kv, "bt"));
         std::cout << "SID eq=" << (a == b) << " ne=" << (a != b) << " same_sender=" << a.same_sender_comp_id(target_comp_id(str(kv, "bs")))
                   << " same_target=" << a.same_target_comp_id(sender_comp_id(str(kv, "bt"))) << std::endl;
         continue;
      }
      if (op == "init")
      {
         const bool acceptor(str(kv, "role", "I") == "A");
         if (acceptor) s = new RSession(UTEST::ctx(), sender_comp_id(str(kv, "sender", "S")));
         else s = new RSession(UTEST::ctx(), SessionID("FIX.4.2", str(kv, "sender", "S"), str(kv, "target", "T")));
         if (has(kv, "conn"))
         {
            conn = new Connection(nullptr, addr, *s, acceptor ? Connection::cn_acceptor : Connection::cn_initiator, pm_thread, unsigned(num(kv, "hb", 30)), false);
            s->set_connection(conn);
         }
         s->set(kv);
         std::cout << "INIT" << s->status() << std::endl;
         continue;
      }
      if (!s) { std::cerr << "no session" << std::endl; return 2; }
      s->events.str("");
      bool ret(false), thrown(false);
      try
      {
         if (op == "msg") ret = s->process(build(kv));
         else if (op == "raw") { std::string r(str(kv, "bytes")); for (auto& ch : r) if (ch == '|') ch = '\x01'; ret = s->process(r); }
         else if (op == "tick") { s->set(kv); ret = s->tick(); }
         else if (op == "set") { s->set(kv); ret = true; }
      }
      catch (f8Exception& e) { thrown = true; s->events << " thrown:f8Exception"; }
      catch (std::exception& e) { thrown = true; s->events << " thrown:exception"; }
      std::cout << "STEP " << op << " ret=" << ret << " thrown=" << thrown << " events:" << s->events.str() << " |" << s->status() << std::endl;
   }
   std::cout.flush();
   _exit(0);     // no destructors: the session's service threads were never started and sockets do not exist
}
