// native replay for C09: render the instant with the real codec, compare with timegm/strftime, parse back
#include <fix8/f8includes.hpp>
#include <cstdio>
#include <cstdlib>
#include <cstring>
#include <ctime>
using namespace FIX8;
int main(int argc, char **argv)
{
  int ind = atoi(argv[1]); tm t {}; t.tm_year = atoi(argv[2]) - 1900; t.tm_mon = atoi(argv[3]) - 1; t.tm_mday = atoi(argv[4]);
  t.tm_hour = atoi(argv[5]); t.tm_min = atoi(argv[6]); t.tm_sec = atoi(argv[7]); int ms = atoi(argv[8]);
  long long secs = timegm(&t); long long ticks = secs * 1000000000LL + ms * 1000000LL;
  char *buf = static_cast<char*>(malloc(22)); memset(buf, 0, 22);
  size_t n = date_time_format(Tickval(static_cast<Tickval::ticks>(ticks)), buf, TimeIndicator(ind));
  char ref[32]; tm g; time_t ts = secs; gmtime_r(&ts, &g);
  if (ind == 5) snprintf(ref, sizeof ref, "%04d%02d%02d-%02d:%02d:%02d.%03d", g.tm_year + 1900, g.tm_mon + 1, g.tm_mday, g.tm_hour, g.tm_min, g.tm_sec, ms);
  else if (ind == 1) snprintf(ref, sizeof ref, "%02d:%02d:%02d.%03d", g.tm_hour, g.tm_min, g.tm_sec, ms);
  else if (ind == 3) snprintf(ref, sizeof ref, "%04d%02d%02d", g.tm_year + 1900, g.tm_mon + 1, g.tm_mday);
  else snprintf(ref, sizeof ref, "%04d%02d", g.tm_year + 1900, g.tm_mon + 1);
  long long back = ind == 5 ? date_time_parse(buf, n) : ind == 1 ? time_parse(buf, n, true) : date_parse(buf, n);
  bool bad = n != strlen(ref) || memcmp(buf, ref, n) || back != ticks;
  printf("ind=%d ticks=%lld text=\"%.*s\" reference=\"%s\" parsed=%lld -> %s\n", ind, ticks, int(n), buf, ref, back, bad ? "VIOLATED" : "ok");
  return bad;
}
