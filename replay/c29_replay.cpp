// native replay for C29 (ASan + UBSan + libstdc++ vector annotations): real FileLogger::rotate / FilePersister::initialise(purge)
// with a given rotation count on a temporary directory holding generations 0..n with distinct contents.
// usage: c29_replay log <rotnum> <flags> <force> [existmask]      |      c29_replay fp <rotnum> <unused> <purge> [existmask] [existmask_idx]
#include <fix8/f8includes.hpp>
#include <cstdio>
#include <cstdlib>
#include <cstring>
#include <fstream>
#include <sstream>
#include <map>
#include <unistd.h>
#include <dirent.h>
#include <sys/stat.h>
using namespace FIX8;
static std::string slurp(const std::string& p) { std::ifstream f(p); std::stringstream s; s << f.rdbuf(); return s.str(); }
static bool exists(const std::string& p) { return access(p.c_str(), F_OK) == 0; }
static void spit(const std::string& p, const std::string& what) { std::ofstream f(p); f << what; }
static int bad;
// generation name: base[.k][sfx]
static std::string gen(const std::string& base, unsigned k, const std::string& sfx, bool sfx0) { std::ostringstream o; o << base; if (k) o << '.' << k; if (k || sfx0) o << sfx; return o.str(); }
struct Fam { std::string base, sfx; bool sfx0; unsigned mask; std::map<unsigned, std::string> before; };
static void populate(Fam& f, unsigned n) { for (unsigned k = 0; k <= n; ++k) if (k >= 32 || ((f.mask >> k) & 1)) { std::ostringstream c; c << "content of " << gen(f.base, k, f.sfx, f.sfx0); spit(gen(f.base, k, f.sfx, f.sfx0), c.str()); f.before[k] = c.str(); } }
static void check(Fam& f, unsigned n, unsigned c, bool due, const char *what)
{
  for (unsigned k = 1; k <= n; ++k)
  {
    const std::string p(gen(f.base, k, f.sfx, f.sfx0));
    if (due && k <= c) { if (f.before.count(k - 1) && (!exists(p) || slurp(p) != f.before[k - 1])) { ++bad; printf("%s: %s does not hold what generation %u held\n", what, p.c_str(), k - 1); } }
    else if (exists(p) != bool(f.before.count(k)) || (exists(p) && slurp(p) != f.before[k])) { ++bad; printf("%s: %s beyond the configured count / without rotation was touched\n", what, p.c_str()); }
  }
}
int main(int argc, char **argv)
{
  if (argc < 5) return 3;
  const std::string which(argv[1]); const unsigned rot(strtoul(argv[2], 0, 10)), flags(strtoul(argv[3], 0, 10)), fp(atoi(argv[4]));
  const unsigned cap(Logger::max_rotation), c(rot < cap ? rot : cap), n(c + 2);   // every generation up to two past the effective count exists (1026 small files at the cap)
  char tmpl[] = "/tmp/vf_c29_XXXXXX"; const char *dir = getenv("VF_C29_DIR") ? getenv("VF_C29_DIR") : mkdtemp(tmpl);   // the caller removes VF_C29_DIR (a sanitizer abort skips the cleanup below)
  if (!dir) { perror("mkdtemp"); return 3; }
  const std::string d(dir);
  if (which == "log")
  {
    const bool comp(flags & (1u << Logger::compress)), app(flags & (1u << Logger::append)), due(rot > 0 && (!app || fp));
    Fam f { d + "/l", comp ? ".gz" : "", !comp, argc > 5 ? unsigned(strtoul(argv[5], 0, 10)) : ~0u };
    {
      // the constructor itself rotates once: build the logger on an empty directory with count 0, then set the count under test
      FileLogger lg(d + "/l", Logger::LogFlags(flags), Logger::Levels(Logger::All), " ", Logger::LogPositions(), 0);
      populate(f, n);
      lg._rotnum = rot;
      lg.rotate(fp);
      lg.stop();
    }
    check(f, n, c, due, "log rotation");
  }
  else
  {
    Fam f0 { d + "/s", "", true, argc > 5 ? unsigned(strtoul(argv[5], 0, 10)) : ~0u }, f1 { d + "/s", ".idx", true, argc > 6 ? unsigned(strtoul(argv[6], 0, 10)) : ~0u };
    populate(f0, n); populate(f1, n);
    if (f0.before.count(0)) { spit(gen(f0.base, 0, "", true), ""); spit(gen(f1.base, 0, ".idx", true), ""); f0.before[0] = f1.before[0] = ""; }   // an (empty) valid live store
    {
      FilePersister p(rot);
      if (!p.initialise(d, "s", fp)) { ++bad; printf("initialise failed\n"); }
    }
    check(f0, n, c, fp && rot > 0, "store rotation (data)"); check(f1, n, c, fp && rot > 0, "store rotation (index)");
  }
  std::string cmd("rm -rf " + d); if (system(cmd.c_str())) {}
  printf("%s\n", bad ? "VIOLATED" : "ok");
  fflush(stdout);
  _exit(bad ? 1 : 0);   // logger.cpp is linked into this program and into libfix8.so: skip the duplicated static destructors
}
