// native replay for the codec world (C02..C06, C11, C03): real Message::factory / encode over the repo's FIX42UTEST
// schema classes (libutest.so), runtime/message.cpp compiled into this program so sanitizers see the codec's frames.
//   factory <hexmsg> <no_chksum> <permissive> [fixsum]
//       prints "RESULT accepted|exception <type>: <what>" then, when accepted, one line per decoded field
//       "F <component> <tag> <hexvalue>" (component h/b/t, group elements g<tag>.<idx>), "U <component> <hex>" for the
//       pass-through strings and "E <hex>" for the re-encoding; exit 0 accepted, 3 fix8 exception, 4 other exception.
//   fixsum=1: the three checksum digits of the message are replaced by the correct ones first (and BodyLength left alone)
//   extract <hexinput> <capt> <capv>      extract_element with heap buffers of exactly those capacities (ASan)
//   extractfw <hexinput> <valsz> <capt> <capv>
//   trailer <hexinput>                    extract_trailer on a string of exactly that size
#include <fix8/f8includes.hpp>
#include "utest_types.hpp"
#include "utest_router.hpp"
#include "utest_classes.hpp"
#include <cstdio>
#include <cstdlib>
#include <cstring>
#include <typeinfo>
#include <cxxabi.h>
using namespace FIX8;
static std::string unhex(const char *h) { std::string s; for (; h[0] && h[1]; h += 2) { char b[3] = { h[0], h[1], 0 }; s += char(strtoul(b, 0, 16)); } return s; }
static std::string hex(const std::string& s) { static const char *d = "0123456789abcdef"; std::string o; for (unsigned char c : s) { o += d[c >> 4]; o += d[c & 15]; } return o; }
static std::string fval(const BaseField *f) { char buf[FIX8_MAX_FLD_LENGTH * 2] = {}; size_t n = f->print(buf); return std::string(buf, n); }
struct Peek : MessageBase { static const Fields& fields(const MessageBase *m) { return static_cast<const Peek*>(m)->_fields; }
                            static const Groups& groups(const MessageBase *m) { return static_cast<const Peek*>(m)->_groups; } };
static void dump(const MessageBase *m, const std::string& comp)
{
  for (const auto& pp : m->get_positions()) printf("F %s %u %s\n", comp.c_str(), pp.second->get_tag(), hex(fval(pp.second)).c_str());
  if (m->get_unknown().size()) printf("U %s %s\n", comp.c_str(), hex(m->get_unknown()).c_str());
  for (const auto& g : Peek::groups(m)) if (g.second)
    for (unsigned i = 0; i < g.second->size(); ++i) { char nm[64]; snprintf(nm, sizeof nm, "%s/g%u.%u", comp.c_str(), g.first, i); dump(g.second->get_element(i), nm); }
}
static const char *tname(const std::exception& e) { int st; const char *n = abi::__cxa_demangle(typeid(e).name(), 0, 0, &st); return n ? n : typeid(e).name(); }
int main(int argc, char **argv)
{
  if (argc < 3) return 9;
  std::string mode(argv[1]);
  if (mode == "extract" || mode == "extractfw") {
    std::string in = unhex(argv[2]); int k = mode == "extractfw" ? 4 : 3;
    unsigned vs = mode == "extractfw" ? atoi(argv[3]) : 0, capt = atoi(argv[k]), capv = atoi(argv[k + 1]);
    char *src = new char[in.size() ? in.size() : 1]; memcpy(src, in.data(), in.size());
    char *tag = new char[capt], *val = new char[capv];
    unsigned r = mode == "extractfw" ? MessageBase::extract_element_fixed_width(src, in.size(), vs, tag, val) : MessageBase::extract_element(src, in.size(), tag, val);
    printf("RESULT %u of %zu\n", r, in.size());
    // 5: consumed more than the input, or (fixed width) the byte charged as field separator is not SOH
    return r > in.size() || (mode == "extractfw" && r > 0 && in[r - 1] != 1) ? 5 : 0;
  }
  if (mode == "trailer") {
    std::string in = unhex(argv[2]); f8String s(in.data(), in.size()); s.shrink_to_fit(); f8String cs;
    struct P : MessageBase { static unsigned t(const f8String& a, f8String& b) { return extract_trailer(a, b); } };
    printf("RESULT %u\n", P::t(s, cs)); return 0;
  }
  if (mode == "frame") {
    // a News message whose Text field is sized so that the payload is exactly T bytes (or as close as the fixed part allows); framing recomputed here
    unsigned T = atoi(argv[2]);
    UTEST::News *m = new UTEST::News;
    *m->Header() << new UTEST::SenderCompID("A") << new UTEST::TargetCompID("B") << new UTEST::MsgSeqNum(1) << new UTEST::SendingTime(Tickval(true));
    *m << new UTEST::Headline("h");
    f8String probe; m->encode(probe);
    size_t pay0 = probe.size() - 7 - probe.find("35=");      // payload with the 1-byte headline
    std::string pad(T > pay0 ? T - pay0 : 0, 'x');
    delete m; m = new UTEST::News;
    *m->Header() << new UTEST::SenderCompID("A") << new UTEST::TargetCompID("B") << new UTEST::MsgSeqNum(1) << new UTEST::SendingTime(Tickval(true));
    *m << new UTEST::Headline("h" + pad);
    char *buf = new char[FIX8_MAX_MSG_LENGTH + 64 + T], *p = buf; size_t n = m->encode(&p); std::string e(p, n);
    size_t b = e.find("\0019=") + 1, s = e.find('\001', b), body = s + 1, tr = e.size() - 7;
    unsigned sum = 0; for (size_t i = 0; i < tr; ++i) sum += (unsigned char)e[i];
    char exp[16]; snprintf(exp, sizeof exp, "10=%03u\001", sum & 255);
    bool ok = e.compare(0, 10, "8=FIX.4.2\001") == 0 && b == 10 && std::to_string(tr - body) == e.substr(b + 2, s - b - 2) && e.compare(tr, 7, exp) == 0 && e.compare(body, 3, "35=") == 0;
    printf("RESULT frame payload=%zu bodylength=%s trailer=%s -> %s\n", tr - body, e.substr(b + 2, s - b - 2).c_str(), hex(e.substr(tr)).c_str(), ok ? "ok" : "VIOLATED");
    return ok ? 0 : 1;
  }
  if (mode != "factory" || argc < 5) return 9;
  std::string msg = unhex(argv[2]); bool nochk = atoi(argv[3]), perm = atoi(argv[4]);
  if (argc > 5 && atoi(argv[5]) && msg.size() >= 7) {
    unsigned sum = 0; for (size_t i = 0; i + 7 < msg.size(); ++i) sum += (unsigned char)msg[i];
    char d[4]; snprintf(d, sizeof d, "%03u", sum & 255); msg.replace(msg.size() - 4, 3, d);
  }
  try {
    Message *m = Message::factory(UTEST::ctx(), msg, nochk, perm);
    printf("RESULT accepted %s\n", m->get_msgtype().c_str());
    dump(m->Header(), "h"); dump(m, "b"); dump(m->Trailer(), "t");
    f8String out; m->encode(out); printf("E %s\n", hex(out).c_str());
    delete m; return 0;
  }
  catch (f8Exception& e) { printf("RESULT exception %s: %s\n", tname(e), e.what()); return 3; }
  catch (std::exception& e) { printf("RESULT exception(std) %s: %s\n", tname(e), e.what()); return 4; }
}
