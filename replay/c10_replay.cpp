// native replay for C10: real RealmBase lookups on a concrete table; exit 1 when index/validity disagree with membership
#include <fix8/f8includes.hpp>
#include <cstdio>
#include <cstdlib>
#include <cstring>
#include <vector>
using namespace FIX8;
template<typename T> int go(int dtype, T what, const std::vector<T>& tab)
{
  T *heap = new T[tab.size()]; for (size_t i = 0; i < tab.size(); ++i) heap[i] = tab[i];
  RealmBase r(heap, RealmBase::RealmType(dtype), FieldTrait::ft_int, int(tab.size()), nullptr);
  int idx = r.get_rlm_idx<T>(what); bool valid = r.is_valid<T>(what);
  int pos = -1; for (size_t i = 0; i < tab.size(); ++i) if (tab[i] == what) pos = int(i);
  bool bad;
  if (dtype == RealmBase::dt_set) bad = (idx >= 0 && (idx >= int(tab.size()) || !(tab[idx] == what))) || (pos >= 0 && idx != pos) || valid != (pos >= 0);
  else bad = valid != (tab[0] <= what && what <= tab[1]);
  printf("dtype=%d n=%zu idx=%d valid=%d member_pos=%d -> %s\n", dtype, tab.size(), idx, int(valid), pos, bad ? "VIOLATED" : "ok");
  delete[] heap; return bad ? 1 : 0;
}
int main(int argc, char **argv)
{
  int dtype = atoi(argv[2]);
  if (!strcmp(argv[1], "char")) { std::vector<char> t; for (int i = 4; i < argc; ++i) t.push_back(char(atoi(argv[i]))); return go<char>(dtype, char(atoi(argv[3])), t); }
  if (!strcmp(argv[1], "int")) { std::vector<int> t; for (int i = 4; i < argc; ++i) t.push_back(atoi(argv[i])); return go<int>(dtype, atoi(argv[3]), t); }
  auto dbl = [](const char *s) { if (s[0] == '0' && s[1] == 'x') { unsigned long long b = strtoull(s, 0, 16); double d; memcpy(&d, &b, 8); return d; } return atof(s); };
  std::vector<double> t; for (int i = 4; i < argc; ++i) t.push_back(dbl(argv[i])); return go<double>(dtype, dbl(argv[3]), t);
}
