// native replay for C30_stall: consumer C1 is paused right after its ticket CAS in the real uMPMC_Ptr_Queue::pop while consumer C2 runs
// a given number of complete pops; then C1 resumes and the queue is drained.  The CAS of the real queue code is routed through a hook
// (macro redirection of abstraction_cas for this translation unit only; the queue code itself is the repo's header, unmodified).
// usage: c30stall <elements> <c2 pops while C1 is stalled>
#include <cstdlib>
#include <cstdio>
#include <vector>
#include <thread>
#include <atomic>
#include <chrono>
#include <unistd.h>
#include <fix8/ff/buffer.hpp>
#include <fix8/ff/sysdep.h>
#include <fix8/ff/allocator.hpp>
#include <fix8/ff/platforms/platform.h>
#include <fix8/ff/mpmc/asm/abstraction_dcas.h>
static thread_local bool t_is_c1 = false; static std::atomic<int> c1_paused{0}, c1_go{0};
static inline atom_t vf_hooked_cas(volatile atom_t *d, atom_t ex, atom_t cmp)
{
  atom_t r = abstraction_cas(d, ex, cmp);
  if (t_is_c1 && r == cmp && !c1_paused.load()) { c1_paused = 1; while (!c1_go.load()) std::this_thread::yield(); }   // stalled after the ticket CAS
  return r;
}
#define abstraction_cas vf_hooked_cas
#include <fix8/ff/mpmc/MPMCqueues.hpp>
int main(int argc, char **argv)
{
  const int ne = argc > 1 ? atoi(argv[1]) : 4, n2 = argc > 2 ? atoi(argv[2]) : 3;
  std::thread([]{ std::this_thread::sleep_for(std::chrono::seconds(20)); printf("stuck for 20 s\nVIOLATED\n"); fflush(stdout); _exit(1); }).detach();
  ff::uMPMC_Ptr_Queue q; q.init(2, 2);
  static long cell[64]; for (int i = 0; i < ne; ++i) q.push(&cell[i]);
  std::vector<long> c1, c2; int bad = 0;
  std::thread t1([&]{ t_is_c1 = true; void *p = nullptr; if (q.pop(&p)) c1.push_back((long*)p - cell); t_is_c1 = false; });
  while (!c1_paused.load()) std::this_thread::yield();
  // C2: complete pops while C1 is stalled; a pop that has to wait for C1 is abandoned after a bounded time (it cannot complete)
  for (int k = 0; k < n2; ++k)
  {
    std::atomic<int> done{0}; void *p = nullptr; bool ok = false;
    std::thread t2([&]{ ok = q.pop(&p); done = 1; });
    for (int w = 0; w < 2000 && !done.load(); ++w) std::this_thread::sleep_for(std::chrono::milliseconds(1));
    if (!done.load()) { printf("C2 pop %d waits for the stalled C1 (not completed)\n", k); c1_go = 1; t2.join(); if (ok) c2.push_back((long*)p - cell); break; }
    t2.join(); if (ok) c2.push_back((long*)p - cell);
  }
  c1_go = 1; t1.join();
  for (int j = 0; j < ne + 2; ++j) { void *p = nullptr; if (q.pop(&p)) c1.push_back((long*)p - cell); }
  std::vector<int> cnt(ne, 0);
  printf("C1 got:"); for (long v : c1) { printf(" %ld", v); if (v >= 0 && v < ne) cnt[v]++; else ++bad; } printf("   C2 got:"); for (long v : c2) { printf(" %ld", v); if (v >= 0 && v < ne) cnt[v]++; else ++bad; } printf("\n");
  for (size_t i = 1; i < c1.size(); ++i) if (c1[i] <= c1[i - 1]) { ++bad; printf("C1 received element %ld after %ld\n", c1[i], c1[i - 1]); }
  for (size_t i = 1; i < c2.size(); ++i) if (c2[i] <= c2[i - 1]) { ++bad; printf("C2 received element %ld after %ld (ticket order broken)\n", c2[i], c2[i - 1]); }
  for (int i = 0; i < ne; ++i) if (cnt[i] != 1) { ++bad; printf("element %d popped %d times\n", i, cnt[i]); }
  printf("%s\n", bad ? "VIOLATED" : "ok"); fflush(stdout); _exit(bad ? 1 : 0);
}
