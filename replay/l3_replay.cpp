// Native replay of the L3 codec-world harnesses (C01 round trip, C02 ordering, C11 clone/copy_legal/move_legal): the same message shape
// and the counterexample's values through the real library (libfix8.so + the f8c output for schemas/mini.xml compiled natively), ASan/UBSan.
//   l3replay <mode> <msg 0|1> <nel> <field>...     mode: rt | clone | copy | move
//   nested shapes (built with -DVF_L3_MINI2 over the f8c output for schemas/mini2.xml; msg 2 = List): extra arguments N:<outer element>:<nested count>, comp 10+4e+k =
//   nested element k of outer element e; modes dclone | dcopy | dmove: the source of the operation is the message Message::factory decodes from encode(m)
//   field = comp:tag:kind:value      comp 0 header, 1 body, 2+i group element i; kind i(int) s(hex bytes) c(char code) b(0/1) t(ticks) f(double bits hex:precision)
// prints  E1 <hex>, E2 <hex>, D <comp> <tag> <hex of printed value> per decoded/target field, and RESULT ok | RESULT violation: <text>
#define VF_L3_NATIVE 1
#include "../shims/l3_world.cpp"
#include <cstdio>
#include <cstdlib>
#include <string>
#include <vector>
#include <cstring>
#include <typeinfo>

struct FD { int comp; unsigned tag; char kind; std::string sval; long long ival; int prec; };
static std::vector<FD> F;
static int nel, which;
#ifdef VF_L3_MINI2
static int nn[8];          // nested element count per outer element
#endif
static std::string hex(const std::string& s) { static const char *d = "0123456789abcdef"; std::string o; for (unsigned char c : s) { o += d[c >> 4]; o += d[c & 15]; } return o; }
static std::string unhex(const char *h) { std::string o; for (size_t i = 0; h[i] && h[i + 1]; i += 2) { char b[3] = { h[i], h[i + 1], 0 }; o += char(strtol(b, nullptr, 16)); } return o; }
static BaseField *mk(const FD& d)
{
   switch (d.kind) {
   case 'i': return vf_mk_int(d.tag, int(d.ival));
   case 's': return vf_mk_str(d.tag, d.sval.data(), unsigned(d.sval.size()));
   case 'c': return vf_mk_char(d.tag, char(d.ival));
   case 'b': return vf_mk_bool(d.tag, d.ival != 0);
   case 't': return vf_mk_ts(d.tag, (unsigned long long)d.ival);
   case 'f': { double v; unsigned long long bits = (unsigned long long)d.ival; memcpy(&v, &bits, 8); return vf_mk_float(d.tag, v, d.prec); }
   }
   return nullptr;
}
static Message *build()
{
   Message *m = vf_new_msg(which, true);
#ifdef VF_L3_MINI2
   if (which == 2) {
      GroupBase *g = vf_find_group(m, 13);
      std::vector<MessageBase *> el; std::vector<std::vector<MessageBase *>> nl(nel);
      for (int e = 0; e < nel; ++e) el.push_back(vf_group_new2(g, 13));
      for (int e = 0; e < nel; ++e) for (int k = 0; k < nn[e]; ++k) nl[e].push_back(vf_group_new2(vf_find_group(el[e], 16), 16));
      for (const FD& d : F) {
         MessageBase *c = d.comp == 0 ? vf_header(m) : d.comp == 1 ? static_cast<MessageBase *>(m) : d.comp >= 10 ? nl[(d.comp - 10) / 4][(d.comp - 10) % 4] : el[d.comp - 2];
         vf_add(c, mk(d));
      }
      for (int e = 0; e < nel; ++e) for (int k = 0; k < nn[e]; ++k) vf_group_add(vf_find_group(el[e], 16), nl[e][k]);
      for (int e = 0; e < nel; ++e) vf_group_add(g, el[e]);
      return m;
   }
#endif
   GroupBase *g = nel ? vf_find_group(m, 33) : nullptr;
   std::vector<MessageBase *> el;
   for (int e = 0; e < nel; ++e) el.push_back(vf_group_new(g));
   for (const FD& d : F) {
      MessageBase *c = d.comp == 0 ? vf_header(m) : d.comp == 1 ? static_cast<MessageBase *>(m) : el[d.comp - 2];
      vf_add(c, mk(d));
   }
   for (int e = 0; e < nel; ++e) vf_group_add(g, el[e]);
   return m;
}
static std::string enc(Message *m) { f8String s; m->encode(s); return s; }
static std::string ftext(const BaseField *f) { char buf[256]; size_t n = f->print(buf); return std::string(buf, n); }
static const int POS_H[] = { 8, 9, 35, 34, 49, 56, 52 }, POS_B1[] = { 11, 54, 38, 44, 43, 60, 61, 62, 33 }, POS_B0[] = { 63 }, POS_G[] = { 36, 58 };
#ifdef VF_L3_MINI2
static const int POS_B2[] = { 12, 13 }, POS_G2[] = { 14, 15, 16 }, POS_N2[] = { 17, 18 };
#endif
static std::vector<const FD *> expected(int comp)
{
#ifdef VF_L3_MINI2
   if (which == 2 && comp >= 1) {
      std::vector<const FD *> out; const int *tab = comp == 1 ? POS_B2 : comp < 10 ? POS_G2 : POS_N2; int n = comp == 1 ? 2 : comp < 10 ? 3 : 2;
      for (int k = 0; k < n; ++k) for (const FD& d : F) if (d.comp == comp && int(d.tag) == tab[k]) out.push_back(&d);
      return out;
   }
#endif
   std::vector<const FD *> out; const int *tab = comp == 0 ? POS_H : comp == 1 ? (which ? POS_B1 : POS_B0) : POS_G; int n = comp == 0 ? 7 : comp == 1 ? (which ? 9 : 1) : 2;
   for (int k = 0; k < n; ++k) for (const FD& d : F) if (d.comp == comp && int(d.tag) == tab[k]) out.push_back(&d);
   return out;
}
static std::string bad;
static bool same_value(const FD& d, const BaseField *f)
{
   switch (d.kind) {
   case 'i': return vf_val_int(f) == int(d.ival);
   case 's': return std::string(vf_val_str(f), vf_val_strlen(f)) == d.sval;
   case 'c': return vf_val_char(f) == char(d.ival);
   case 'b': return vf_val_bool(f) == (d.ival != 0);
   case 't': return vf_val_ticks(f) == (unsigned long long)d.ival;
   case 'f': { double v; unsigned long long bits = (unsigned long long)d.ival; memcpy(&v, &bits, 8); return vf_val_float(f) == v; }
   }
   return false;
}
static bool component_is(const MessageBase *c, int comp, int pre, const char *who)
{
   std::vector<const FD *> ex = expected(comp);
   for (unsigned i = 0; i < vf_pos_count(c); ++i) { const BaseField *f = vf_pos_nth(c, i); printf("D %s%d %u %s\n", who, comp, vf_tag(f), hex(ftext(f)).c_str()); }
   if (vf_pos_count(c) != ex.size() + pre) { bad = std::string(who) + ": component " + std::to_string(comp) + " holds " + std::to_string(vf_pos_count(c) - pre) + " fields, expected " + std::to_string(ex.size()); return false; }
   for (size_t k = 0; k < ex.size(); ++k) {
      const BaseField *f = vf_pos_nth(c, unsigned(k + pre));
      if (vf_tag(f) != ex[k]->tag) { bad = std::string(who) + ": field #" + std::to_string(k) + " of component " + std::to_string(comp) + " is tag " + std::to_string(vf_tag(f)) + ", expected " + std::to_string(ex[k]->tag); return false; }
      if (!same_value(*ex[k], f)) { bad = std::string(who) + ": tag " + std::to_string(ex[k]->tag) + " of component " + std::to_string(comp) + " holds the bytes <" + hex(ftext(f)) + ">, not the value put into the source"; return false; }
   }
   return true;
}
static bool shape_holds(Message *x, const char *who)
{
   if (!component_is(vf_header(x), 0, 3, who) || !component_is(x, 1, 0, who)) return false;
#ifdef VF_L3_MINI2
   if (which == 2) {
      GroupBase *g = vf_find_group(x, 13);
      if (!g || int(vf_group_size(g)) != nel) { bad = std::string(who) + ": outer group has " + std::to_string(g ? vf_group_size(g) : 0) + " elements, expected " + std::to_string(nel); return false; }
      for (int e = 0; e < nel; ++e) {
         MessageBase *el = vf_group_el(g, e);
         if (!component_is(el, 2 + e, 0, who)) return false;
         GroupBase *ng = vf_find_group(el, 16);
         if (int(ng ? vf_group_size(ng) : 0) != nn[e]) { bad = std::string(who) + ": outer element " + std::to_string(e) + (ng ? " has " + std::to_string(vf_group_size(ng)) + " nested elements" : " has no nested group instance") + ", expected " + std::to_string(nn[e]) + " nested elements"; return false; }
         for (int k = 0; k < nn[e]; ++k) if (!component_is(vf_group_el(ng, k), 10 + 4 * e + k, 0, who)) return false;
      }
      return true;
   }
#endif
   GroupBase *g = vf_find_group(x, 33);
   if (nel) {
      if (!g || int(vf_group_size(g)) != nel) { bad = std::string(who) + ": group has " + std::to_string(g ? vf_group_size(g) : 0) + " elements, expected " + std::to_string(nel); return false; }
      for (int e = 0; e < nel; ++e) if (!component_is(vf_group_el(g, e), 2 + e, 0, who)) return false;
   } else if (g && vf_group_size(g)) { bad = std::string(who) + ": group elements appeared"; return false; }
   return true;
}
static int count(int lo, int hi) { int n = 0; for (const FD& d : F) if (d.comp >= lo && d.comp <= hi) ++n; return n; }
static int finish(bool ok) { printf("RESULT %s%s\n", ok ? "ok" : "violation: ", ok ? "" : bad.c_str()); return ok ? 0 : 1; }

int main(int argc, char **argv)
{
   if (argc < 4) return 2;
   std::string mode(argv[1]); which = atoi(argv[2]); nel = atoi(argv[3]);
   for (int i = 4; i < argc; ++i) {
#ifdef VF_L3_MINI2
      if (argv[i][0] == 'N') { int e = 0, n = 0; if (sscanf(argv[i], "N:%d:%d", &e, &n) != 2 || e < 0 || e >= 8) return 2; nn[e] = n; continue; }
#endif
      FD d {}; char kind; char val[512] {}; if (sscanf(argv[i], "%d:%u:%c:%500s", &d.comp, &d.tag, &kind, val) < 3) return 2;
      d.kind = kind;
      if (kind == 's') d.sval = unhex(val);
      else if (kind == 'f') { char *e; d.ival = (long long)strtoull(val, &e, 16); d.prec = *e == ':' ? atoi(e + 1) : 2; }
      else d.ival = strtoll(val, nullptr, 10);
      F.push_back(d);
   }
   try {
      Message *m = build();
      if (mode.size() > 1 && mode[0] == 'd' ) {      // dclone | dcopy | dmove: the source is the decoded message
         const std::string w(enc(m)); printf("E0 %s\n", hex(w).c_str());
         Message *d = nullptr;
         try { d = Message::factory(MINI::ctx(), w); }
         catch (f8Exception& e) { bad = std::string("the factory rejects the encoder's own bytes: ") + typeid(e).name(); return finish(false); }
         if (!shape_holds(d, "decoded")) return finish(false);
         m = d; mode = mode.substr(1);
      }
      if (mode == "rt") {
         const std::string e1(enc(m)); printf("E1 %s\n", hex(e1).c_str());
         Message *d = nullptr;
         try { d = Message::factory(MINI::ctx(), e1); }
         catch (f8Exception& e) { bad = std::string("the factory rejects the encoder's own bytes: ") + typeid(e).name(); return finish(false); }
         if (!shape_holds(d, "decoded")) return finish(false);
         const std::string e2(enc(d)); printf("E2 %s\n", hex(e2).c_str());
         if (e2 != e1) { bad = "re-encoding differs from the first encoding"; return finish(false); }
         return finish(true);
      }
      if (mode == "clone") {
         Message *c = m->clone();
         if (!shape_holds(c, "clone") || !shape_holds(m, "original")) return finish(false);
         const std::string e0(enc(m)), e1(enc(c)); printf("E1 %s\nE2 %s\n", hex(e0).c_str(), hex(e1).c_str());
         if (e0 != e1) { bad = "the clone encodes differently"; return finish(false); }
         return finish(true);
      }
      Message *t = vf_new_msg(which, true);
      const int nb = count(1, 1), ng = count(2, 255), nh = count(0, 0);
      if (mode == "copy") {
         unsigned cb = m->copy_legal(t), ch = m->Header()->copy_legal(t->Header()), ct = m->Trailer()->copy_legal(t->Trailer());
         printf("COUNTS %u %u %u\n", cb, ch, ct);
         if (int(cb) != nb + ng || int(ch) != nh || ct != 0) { bad = "copy_legal counts " + std::to_string(cb) + "/" + std::to_string(ch) + "/" + std::to_string(ct) + ", expected " + std::to_string(nb + ng) + "/" + std::to_string(nh) + "/0"; return finish(false); }
         if (!shape_holds(t, "target") || !shape_holds(m, "source")) return finish(false);
         const std::string e0(enc(m)), e1(enc(t)); printf("E1 %s\nE2 %s\n", hex(e0).c_str(), hex(e1).c_str());
         if (e0 != e1) { bad = "the target of copy_legal encodes differently"; return finish(false); }
         return finish(true);
      }
      if (mode == "move") {
         const std::string e0(enc(m));
         unsigned mb = m->move_legal(t), mh = m->Header()->move_legal(t->Header()), mt = m->Trailer()->move_legal(t->Trailer());
         printf("COUNTS %u %u %u\n", mb, mh, mt);
         if (int(mb) != nb || int(mh) != nh || mt != 0) { bad = "move_legal counts " + std::to_string(mb) + "/" + std::to_string(mh) + "/" + std::to_string(mt) + ", expected " + std::to_string(nb) + "/" + std::to_string(nh) + "/0"; return finish(false); }
         if (!shape_holds(t, "target")) return finish(false);
         const std::string e1(enc(t)); printf("E1 %s\nE2 %s\n", hex(e0).c_str(), hex(e1).c_str());
         if (e0 != e1) { bad = "the target of move_legal encodes differently from the original source"; return finish(false); }
         return finish(true);
      }
   } catch (f8Exception& e) { bad = std::string("exception: ") + typeid(e).name(); return finish(false); }
   return 2;
}
