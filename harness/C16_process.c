/* C16, clause "after each processed inbound message the control record equals the session's numbers": one real
   Session::process() call from an arbitrary (n, r) with the control record satisfying the invariant.  The inbound message is
   abstract: Message::factory either yields a Heartbeat / an application message (normal path: handler, ++_next_receive_seq,
   update_persist_seqnums) or raises a decoding failure that does not force a logout (reject path: handle_outbound_reject ->
   generate_reject -> send, ++_next_receive_seq).  Inbound sequence/CompID checks (enforce) are C19's subject and accepted here. */
#define SESSB_C18
#define NMSG 2                        /* slot 0: the inbound message, slot 1: the Reject the session generates */
#include "sessb_world.h"
static uint8_t in_fail, in_kind;
uint32_t cx_n, cx_r; uint8_t cx_fail, cx_kind;
uint8_t st_enforce(void *s, uint32_t seq, void *m) { return 1; }
uint8_t st_get_begin(void *mb, void *fld) { __CPROVER_assert(0, "world: unexpected"); return 0; }
uint8_t st_get_end(void *mb, void *fld) { __CPROVER_assert(0, "world: unexpected"); return 0; }
static void body_add(void *mb, void *fld) { }             /* RefSeqNum / Text / RefMsgType of the Reject: not the subject */
static const uint8_t ty_rej[] = "3";
void *st_create_msg(void *s, void *type)
{
  __CPROVER_assert(VS_N((vstr*)type) == 1 && VS_P((vstr*)type)[0] == '3', "world: only a Reject is generated on these paths");
  vf_sb_msg_init(&the_msg[1], &the_hdr[1], (uint8_t*)ty_rej, (struct S_struct_2eFIX8_3a_3aF8MetaCntx*)ctx_raw);
  a_admin[1] = 1; a_elen[1] = 2; a_enc[1][0] = 'R'; a_enc[1][1] = 'J';
  return &the_msg[1];
}
struct S_class_2eFIX8_3a_3aMessage *x__ZN4FIX87Message7factoryERKNS_10F8MetaCntxERKNSt7__cxx1112basic_stringIcSt11char_traitsIcESaIcEEEbb(struct S_struct_2eFIX8_3a_3aF8MetaCntx *c, struct S_class_2estd_3a_3a__cxx11_3a_3abasic_string *from, uint8_t a, uint8_t b)
{
  if (in_fail) { vf_sb_throw_invalid(); return 0; }
  world_msg(0, in_kind);
  return MSGP(0);
}
uint32_t x_vf_rec_range(uint8_t *self, uint32_t from, uint32_t to, uint8_t *sess) { __CPROVER_assert(0, "world: unexpected"); return 0; }
int main(void)
{
  world_init(1, 0);
  uint32_t n = nondet_u32(), r = nondet_u32();
  /* the inbound message carries the expected number (in-sequence message): its MsgSeqNum is read from the raw text by the real
     process(), so the expected number is a one-digit value here */
  VF_ASSUME(n >= 1 && n <= 0xfffffff0u && r >= 1 && r <= 9);
  vf_sess_set_seq(SESS, n, r); vf_sess_set_flags(SESS, 1, 0, 0, 0, 0); vf_sess_set_state(SESS, 1 /* st_continuous */); vf_sess_set_active(SESS, 1);
  c_valid = 1; c_snd = n; c_rcv = r;
  /* decoding failure is a compile-time variant (-DFAIL): a symbolic choice merges the thrown object with "no object" in the
     exception pointer and the catch clause's virtual calls (force_logoff, what) stop resolving */
#ifdef FAIL
  in_fail = 1;
#else
  in_fail = 0;
#endif
  in_kind = (nondet_u8() & 1) ? K_HEARTBEAT : K_APP;
  cx_n = n; cx_r = r; cx_fail = in_fail; cx_kind = in_kind;
  static uint8_t raw[8] = { 1, '3', '4', '=', '5', 1, 0, 0 };      /* "...<SOH>34=<r><SOH>" */
  raw[4] = (uint8_t)('0' + r);
  uint8_t ok = vf_sb_process(&the_sess, (uint8_t*)raw, 6) & 1;
  VF_ASSERT(!__vf_exc_pending, "C16: process does not throw"); __vf_exc_pending = 0;
  VF_ASSERT(ok, "C16: the inbound message is reported as processed");
  VF_ASSERT(vf_sess_next_recv(SESS) == r + 1, "C16: a processed inbound message moves the expected receive number by one");
  VF_ASSERT(in_fail ? (e_n == 1 && e_msg[0] == 1 && e_v34[0] == n && vf_sess_next_send(SESS) == n + 1) : (e_n == 0 && vf_sess_next_send(SESS) == n), "C16: a Reject (numbered n) is sent exactly for the message that failed decoding");
  VF_ASSERT(c_att_n >= 1 && ctl_matches(vf_sess_next_send(SESS), vf_sess_next_recv(SESS)), "C16: after a processed inbound message the control record equals the session's numbers (a refused control put leaves the last accepted record)");
  VF_REACH();
  return 0;
}
