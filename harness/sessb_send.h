/* shared scenario of C16/C17: one send operation (Session::send pointer/reference overload, or send_batch of j <= J
   messages) from an arbitrary pre-state (_next_send_seq = n, _next_receive_seq = r).  Compile-time variants: OP (0 send(Message*),
   1 send(Message&), 2 send_batch), JFIX (batch size case split), NOPERSIST, NEW_ONLY, NO_ALWAYS, STALE_CTRL, KF_* complements. */
#include "sessb_world.h"
#ifndef J
#define J 3
#endif
#ifndef OP
#define OP 0               /* compile-time: 0 send(Message*), 1 send(Message&), 2 send_batch */
#endif
uint32_t cx_n, cx_r, cx_custom, cx_orig[J]; uint8_t cx_op, cx_j, cx_kind[J], cx_pre34[J], cx_pre43[J], cx_noinc, cx_destroy, cx_always, cx_persist, cx_stale;
uint8_t cx_elen[J], cx_enc[J][ENC_MAX];
static uint32_t n, r, custom, ok; static uint8_t with_persist, always, noinc, destroy, kind[J], pre34[J], pre43[J];
#if OP == 2 && !defined(JFIX)
static uint8_t j;
#endif
static void scenario(void)
{
#ifdef NOPERSIST             /* persister presence is a compile-time variant: a symbolic Persister* defeats devirtualisation */
  with_persist = 0;
#else
  with_persist = 1;
#endif
  always = nondet_u8() & 1;
#ifdef NO_ALWAYS
  always = 0;
#endif
  world_init(with_persist, 0);
  n = nondet_u32(); r = nondet_u32();
  VF_ASSUME(n >= 1 && n <= 0xfffffff0u && r >= 1 && r <= 0xfffffff0u);
  vf_sess_set_seq(SESS, n, r); vf_sess_set_flags(SESS, 1, 0, 0, always, 0); vf_sess_set_state(SESS, 1 /* st_continuous */);
  /* control record before the operation: equal to the session's numbers (invariant), or arbitrary */
  c_valid = 1; c_snd = n; c_rcv = r;
#ifdef STALE_CTRL
  c_valid = nondet_u8() & 1; c_snd = nondet_u32(); c_rcv = nondet_u32(); cx_stale = 1;
#endif
#define op OP
#if OP != 2
#define j 1
#elif defined(JFIX)          /* batch size as a compile-time case split */
#define j JFIX
#else
  j = nondet_u8(); VF_ASSUME(j <= J);
#endif
  custom = 0; noinc = 0; destroy = nondet_u8() & 1;
  if (op < 2) { custom = nondet_u32(); noinc = nondet_u8() & 1; }
#ifdef KF_C16_CTRL_OVERRIDE     /* known-finding complement: no explicit numbering override on a non-retransmission */
  custom = 0; noinc = 0;
#endif
  for (int i = 0; i < J; i++) {
    kind[i] = nondet_u8(); VF_ASSUME(kind[i] < NKIND); pre34[i] = nondet_u8() & 1; pre43[i] = nondet_u8() & 1;
    uint32_t orig = nondet_u32(); int64_t t52 = nondet_i64(); VF_ASSUME(t52 >= 0 && t52 < (1LL << 62));
#ifdef NEW_ONLY
    pre34[i] = 0; pre43[i] = 0;
#endif
    if (!pre34[i]) pre43[i] = 0;                 /* PossDupFlag is only ever present on a message that carries its original number */
#ifdef KF_C16_CTRL_OVERRIDE
    VF_ASSUME((pre34[i] && (!always || pre43[i])) || kind[i] != K_SEQRESET);
#endif
#ifdef KF_C16_ALWAYS_RESEND    /* known-finding complement: no retransmission while always_seqnum_assign is configured */
    VF_ASSUME(!(always && pre43[i]));
#endif
    if (i < j) {
      world_msg(i, kind[i]);
      if (pre34[i]) { a_has[i][T34] = 1; a_v34[i] = orig; a_has[i][T52] = 1; a_v52[i] = t52; a_has[i][T49] = 1; a_has[i][T56] = 1; if (pre43[i]) { a_has[i][T43] = 1; a_v43[i] = 1; } }
      cx_elen[i] = a_elen[i]; for (int b = 0; b < ENC_MAX; b++) cx_enc[i][b] = a_enc[i][b];
    }
    cx_kind[i] = kind[i]; cx_pre34[i] = pre34[i]; cx_pre43[i] = pre43[i]; cx_orig[i] = orig;
  }
  cx_n = n; cx_r = r; cx_op = op; cx_j = j; cx_custom = custom; cx_noinc = noinc; cx_destroy = destroy; cx_always = always; cx_persist = with_persist;

#if OP == 0
  ok = vf_sb_send_p(&the_sess, MSGP(0), destroy, custom, noinc) & 1;
#elif OP == 1
  ok = vf_sb_send_r(&the_sess, MSGP(0), custom, noinc) & 1;
#else
  for (int i = 0; i < NMSG; i++) the_arr[i] = MSGP(i);
  vf_sb_vec_set(&the_vec, the_arr, j, NMSG);
  ok = vf_sb_send_batch(&the_sess, &the_vec, destroy);
#endif
}
