/* C09: real date_time_format / date_time_parse / time_parse / date_parse / time_to_epoch / format0 / parse_decimal /
   Tickval::get_tm,msecs.  The harness picks a valid civil instant (y,mo,d,h,mi,s,ms), derives the tick count with the
   days_from_civil reference, and the gmtime_r stub hands those calendar fields back after checking it was asked for
   that very second (gmtime_r's contract: proleptic Gregorian UTC). */
#include "vf_h.h"
struct S_struct_2etm;
#ifdef EPOCH_STUB
#include "c09cut.c"
#else
#include "c09.c"
#endif
#ifndef YLO
#define YLO 1970
#endif
#ifndef YHI
#define YHI 2099
#endif
static int64_t days_from_civil(int64_t y, unsigned m, unsigned d)
{
  y -= m <= 2; int64_t era = (y >= 0 ? y : y - 399) / 400; unsigned yoe = (unsigned)(y - era * 400);
  unsigned doy = (153 * (m > 2 ? m - 3 : m + 9) + 2) / 5 + d - 1, doe = yoe * 365 + yoe / 4 - yoe / 100 + doy;
  return era * 146097 + (int64_t)doe - 719468;
}
int32_t cx_y, cx_mo, cx_d, cx_h, cx_mi, cx_s, cx_ms, cx_ind; int64_t cx_ticks, cx_back; uint8_t cx_text[24]; uint64_t cx_n;
static int64_t g_secs; static int gm_calls, gm_ok;
/* external: gmtime_r */
struct S_struct_2etm *x_gmtime_r(int64_t *t, struct S_struct_2etm *res)
{
  gm_calls++; gm_ok = (*t == g_secs);
  res->f0 = cx_s; res->f1 = cx_mi; res->f2 = cx_h; res->f3 = cx_d; res->f4 = cx_mo - 1; res->f5 = cx_y - 1900;
  res->f6 = 0; res->f7 = 0; res->f8 = 0; res->f9 = 0; res->f10 = 0;
  return res;
}
#ifdef EPOCH_STUB
/* cut point: time_to_epoch is replaced by its contract (proved for every valid field tuple by harness C09_epoch):
   it must be handed exactly the text's calendar fields and then returns the reference second count */
static int te_calls, te_ok;
uint64_t st_time_to_epoch(void *tmv, uint32_t utcdiff)
{
  struct S_struct_2etm *t = tmv; te_calls++;
  te_ok = (int32_t)t->f5 == cx_y - 1900 && (int32_t)t->f4 == cx_mo - 1 && (int32_t)t->f3 == cx_d && (int32_t)t->f2 == cx_h && (int32_t)t->f1 == cx_mi && (int32_t)t->f0 == cx_s && utcdiff == 0;
  return (uint64_t)g_secs;
}
#endif
static int dig(const uint8_t *p, int n, int v) { for (int i = n - 1; i >= 0; i--) { if (p[i] != '0' + v % 10) return 0; v /= 10; } return v == 0; }
int main(void)
{
  int y = nondet_i32(), mo = nondet_i32(), d = nondet_i32(), h = nondet_i32(), mi = nondet_i32(), s = nondet_i32(), ms = nondet_i32();
  VF_ASSUME(y >= YLO && y <= YHI && mo >= 1 && mo <= 12 && d >= 1 && h >= 0 && h < 24 && mi >= 0 && mi < 60 && s >= 0 && s < 60 && ms >= 0 && ms < 1000);
  int leap = (y % 4 == 0 && y % 100 != 0) || y % 400 == 0;
  int dim = mo == 2 ? 28 + leap : (mo == 4 || mo == 6 || mo == 9 || mo == 11) ? 30 : 31;
  VF_ASSUME(d <= dim);
#if IND == 1      /* UTCTimeOnly: time of day, the date part is the epoch day */
  VF_ASSUME(y == 1970 && mo == 1 && d == 1);
#elif IND == 3    /* date only */
  VF_ASSUME(h == 0 && mi == 0 && s == 0 && ms == 0);
#elif IND == 2    /* MonthYear */
  VF_ASSUME(d == 1 && h == 0 && mi == 0 && s == 0 && ms == 0);
#endif
  cx_y = y; cx_mo = mo; cx_d = d; cx_h = h; cx_mi = mi; cx_s = s; cx_ms = ms; cx_ind = IND;
  g_secs = days_from_civil(y, (unsigned)mo, (unsigned)d) * 86400 + h * 3600 + mi * 60 + s;
  int64_t ticks = g_secs * 1000000000LL + ms * 1000000LL; cx_ticks = ticks;
  uint8_t *buf = malloc(22); VF_ASSUME(buf != 0);
  uint64_t n = vf_dt_format((uint64_t)ticks, buf, IND);
  cx_n = n; for (int i = 0; i < 21; i++) cx_text[i] = buf[i];
  VF_ASSERT(gm_calls >= 1 && gm_ok, "C09: the calendar fields are taken for exactly the instant's second");
  int64_t back;
#if IND == 5
  VF_ASSERT(n == 21 && dig(buf, 4, y) && dig(buf + 4, 2, mo) && dig(buf + 6, 2, d) && buf[8] == '-' && dig(buf + 9, 2, h) && buf[11] == ':'
            && dig(buf + 12, 2, mi) && buf[14] == ':' && dig(buf + 15, 2, s) && buf[17] == '.' && dig(buf + 18, 3, ms), "C09: UTCTimestamp text is YYYYMMDD-HH:MM:SS.sss of the instant");
  back = (int64_t)vf_dt_parse(buf, 21);
#elif IND == 1
  VF_ASSERT(n == 12 && dig(buf, 2, h) && buf[2] == ':' && dig(buf + 3, 2, mi) && buf[5] == ':' && dig(buf + 6, 2, s) && buf[8] == '.' && dig(buf + 9, 3, ms), "C09: UTCTimeOnly text is HH:MM:SS.sss");
  back = (int64_t)vf_time_parse(buf, 12, 1);
#elif IND == 3
  VF_ASSERT(n == 8 && dig(buf, 4, y) && dig(buf + 4, 2, mo) && dig(buf + 6, 2, d), "C09: date text is YYYYMMDD");
  back = (int64_t)vf_date_parse(buf, 8);
#elif IND == 2
  VF_ASSERT(n == 6 && dig(buf, 4, y) && dig(buf + 4, 2, mo), "C09: MonthYear text is YYYYMM");
  back = (int64_t)vf_date_parse(buf, 6);
#endif
  cx_back = back;
#ifdef EPOCH_STUB
  VF_ASSERT(te_calls == 1 && te_ok, "C09: the parser hands exactly the text's calendar fields to the epoch conversion");
#endif
  VF_ASSERT(back == ticks, "C09: the text parses back to the same instant");
  VF_REACH();
  return 0;
}
