/* C07 fallback search: uncut real calc_chksum on long structured buffers (background byte + 3 symbolic bytes) */
#include "vf_h.h"
#include "c07.c"
uint64_t cx_sz; uint32_t cx_off; int32_t cx_len = -1; uint32_t cx_ret; uint8_t cx_bg = BG, cx_b0, cx_b1, cx_b2;
int main(void)
{
  uint64_t sz = NS;   /* fixed length per query: all loops concrete, 3 bytes symbolic */
  uint8_t *buf = malloc(sz); VF_ASSUME(buf != 0);
  uint8_t b0 = nondet_u8(), b1 = nondet_u8(), b2 = nondet_u8(); uint32_t sum = 0;
  for (uint64_t i = 0; i < sz; i++) buf[i] = BG;
  buf[0] = b0; buf[sz / 2] = b1; buf[sz - 1] = b2;
  for (uint64_t i = 0; i < sz; i++) sum += buf[i];
  cx_sz = sz; cx_b0 = buf[0]; cx_b1 = buf[sz / 2]; cx_b2 = buf[sz - 1];
  uint32_t r = vf_calc_chksum(buf, sz, 0, (uint32_t)-1);
  VF_ASSERT(r == (sum & 0xff), "C07: result is the byte sum mod 256 (structured long buffer)");
  return 0;
}
