/* C27 (file persister crash safety): the real FIX8::FilePersister over models/posixfs.c with crash points.
   Process 1: initialise on an empty directory, then up to K store operations (message put / control put [/ get]); after each
   completed write/lseek system call the file model may nondeterministically freeze the file images (= process crash
   there; "no crash" = the process ends after the K-th operation without closing anything).
   Process 2: a fresh FilePersister runs initialise on the frozen images, then KP further operations.
   Oracle (property statement): the reopened store equals the reference map + control record built from the operations
   that COMPLETED before the crash; the single operation in flight at the crash may or may not have taken effect, but
   atomically (its number is either absent or holds exactly its bytes; the control record is the last completed or the
   in-flight one). Whatever was observed is adopted into the reference, and from then on the store must follow the C26
   contract: stored numbers return their bytes, unstored numbers miss and can be stored, later stores are retrievable. */
#include "vf_h.h"
#include "c26f.c"
#ifndef K
#define K 2
#endif
#ifndef KP
#define KP 1
#endif
#define MAXSEQ 6
#ifndef OPS
#define OPS 0x03            /* operations of process 1: bit 0 put, 1 control put, 2 get */
#endif
#ifndef POPS
#define POPS 0x03           /* operations of process 2: bit 0 put, 1 control put */
#endif
/* optional per-position operation sets of process 1 (default OPS everywhere): the loop is unrolled with a concrete position */
#ifndef OPS0
#define OPS0 OPS
#endif
#ifndef OPS1
#define OPS1 OPS
#endif
#ifndef OPS2
#define OPS2 OPS
#endif
#define OPSET(i) ((i) == 0 ? (OPS0) : (i) == 1 ? (OPS1) : (OPS2))
/* per-position operation sets of process 2 (default POPS everywhere) */
#ifndef POPS0
#define POPS0 POPS
#endif
#ifndef POPS1
#define POPS1 POPS
#endif
#define POPSET(j) ((j) == 0 ? (POPS0) : (POPS1))
/* a failed check ends its path: every reported failure is a first deviation, not a consequence of an earlier one */
#define CHECK(c, msg) do { VF_ASSERT(c, msg); VF_ASSUME(c); } while (0)
static struct S_class_2eFIX8_3a_3aFilePersister fp1, fp2, fp3;
/* reference */
static uint8_t r_has[MAXSEQ + 1], r_len[MAXSEQ + 1], r_dat[MAXSEQ + 1][2]; static int r_hasc; static uint32_t r_ca, r_cb;
uint8_t cx_op[K]; uint32_t cx_a[K], cx_b[K]; uint8_t cx_d0[K], cx_d1[K], cx_len[K];
uint32_t cx_crash_at; uint8_t cx_done;                 /* crash after that many completed write/lseek calls (0 = none); operations completed */
uint8_t cx_pop[KP]; uint32_t cx_pa[KP], cx_pb[KP]; uint8_t cx_pd0[KP], cx_pd1[KP], cx_plen[KP]; uint32_t cx_probe[KP + 2];
static void probe(struct S_class_2eFIX8_3a_3aFilePersister *p, int j)
{
  uint32_t s = nondet_u32(); VF_ASSUME(s >= 1 && s <= MAXSEQ); cx_probe[j] = s;
  uint8_t out[8]; int n = (int)vf_fp_get(p, s, out);
  CHECK(!__vf_exc_pending, "C27: no exception"); __vf_exc_pending = 0;
  if (r_has[s]) {
    CHECK(n >= 0, "C27: every message whose store completed is retrievable after the crash and reopen");
    CHECK(n < 0 || (n == r_len[s] && out[0] == r_dat[s][0] && (n < 2 || out[1] == r_dat[s][1])), "C27: stored messages are returned byte-identical after the crash and reopen");
  } else CHECK(n < 0, "C27: no sequence number returns bytes that were never stored for it");
  uint32_t ga = 0, gb = 0; uint8_t ok = vf_fp_getc(p, &ga, &gb) & 1;
  CHECK(ok == r_hasc, "C27: a control record is reported iff one was stored");
  if (r_hasc) CHECK(!ok || (ga == r_ca && gb == r_cb), "C27: the control record equals the last completed control store");
}
int main(void)
{
  vf_fp_ctor(&fp1, 0);
  uint8_t iok = vf_fp_init(&fp1, (uint8_t*)".", 1, (uint8_t*)"s", 1, 0) & 1;
  CHECK(iok && !__vf_exc_pending, "C27: initialise on an empty directory succeeds");
  /* ---------------- process 1 */
  int fl = 0; uint32_t fa = 0, fb = 0; uint8_t fd0 = 0, fd1 = 0, flen = 0;      /* operation in flight at the crash: 0 none, 1 put, 2 control put */
  for (int i = 0; i < K; i++) {
    if (vf_fs_crashed) break;
    uint8_t op = nondet_u8(); uint32_t a = nondet_u32(), b = nondet_u32(); uint8_t d0 = nondet_u8(), d1 = nondet_u8(), len = nondet_u8();
    VF_ASSUME(op < 3 && ((OPSET(i) >> op) & 1) && a <= MAXSEQ && b <= 1000 && len >= 1 && len <= 2);
#ifdef LENC
    len = LENC;
#endif
    cx_op[i] = op; cx_a[i] = a; cx_b[i] = b; cx_d0[i] = d0; cx_d1[i] = d1; cx_len[i] = len;
#ifdef KF_FP_SLOT0
    /* known finding: a message stored while the index file is still empty lands in index slot 0 and is overwritten by the
       next control record. Complement: the first operation of a fresh store is a control put */
    if (i == 0) VF_ASSUME(op == 1);
#endif
    uint32_t op_start = vf_fs_syscalls;
    if ((OPSET(i) & 1) && op == 0) {
      uint8_t d[2] = { d0, d1 };
      uint8_t ok = vf_fp_put(&fp1, a, d, len) & 1;
#ifdef KF_FP_INDEX_FIRST
      /* known finding: put() writes the index record before the data; a crash between the two leaves an index record without
         data (that number can never be stored again, and the next put's bytes appear under it). Complement: no crash right
         after the index write (3rd system call of an accepted put: lseek, lseek, write index, write data) */
      VF_ASSUME(!(vf_fs_crashed && vf_fs_crash_at == op_start + 3));
#endif
      if (!vf_fs_crashed) {
        CHECK(ok == (a != 0 && !r_has[a]), "C27: storing to 0 or to an occupied number is refused, otherwise accepted");
        if (a != 0 && !r_has[a]) { r_has[a] = 1; r_len[a] = len; r_dat[a][0] = d0; r_dat[a][1] = d1; }
      } else if (a != 0 && !r_has[a]) { fl = 1; fa = a; fd0 = d0; fd1 = d1; flen = len; }
    } else if ((OPSET(i) & 2) && op == 1) {
      uint8_t ok = vf_fp_putc(&fp1, a, b) & 1;
      if (!vf_fs_crashed) { CHECK(ok, "C27: control put succeeds"); r_hasc = 1; r_ca = a; r_cb = b; }
      else { fl = 2; fa = a; fb = b; }
    } else if ((OPSET(i) & 4) && op == 2) {
      uint8_t out[8]; int n = (int)vf_fp_get(&fp1, a, out);
      if (!vf_fs_crashed) CHECK((n >= 0) == (a != 0 && r_has[a]), "C27: get hits exactly the stored numbers");
    }
    CHECK(!__vf_exc_pending, "C27: no exception"); __vf_exc_pending = 0;
    if (!vf_fs_crashed) cx_done = (uint8_t)(i + 1);
  }
  cx_crash_at = vf_fs_crashed ? vf_fs_crash_at : 0;
  /* ---------------- crash; process 2 on the frozen images */
  vf_fs_new_process();
  vf_fp_ctor(&fp2, 0);
  iok = vf_fp_init(&fp2, (uint8_t*)".", 1, (uint8_t*)"s", 1, 0) & 1;
  CHECK(iok && !__vf_exc_pending, "C27: reopening after the crash succeeds"); __vf_exc_pending = 0;
  if (fl == 1) {               /* the put in flight: absent, or present with exactly its bytes */
    uint8_t out[8]; int n = (int)vf_fp_get(&fp2, fa, out);
    CHECK(n < 0 || (n == flen && out[0] == fd0 && (n < 2 || out[1] == fd1)), "C27: the store in flight at the crash is absent or complete (no sequence number returns bytes never stored for it)");
    if (n >= 0) { r_has[fa] = 1; r_len[fa] = flen; r_dat[fa][0] = fd0; r_dat[fa][1] = fd1; }
  } else if (fl == 2) {        /* the control put in flight: last completed record or the new one */
    uint32_t ga = 0, gb = 0; uint8_t ok = vf_fp_getc(&fp2, &ga, &gb) & 1;
    if (ok && ga == fa && gb == fb) { r_hasc = 1; r_ca = fa; r_cb = fb; }
  }
  CHECK(!__vf_exc_pending, "C27: no exception"); __vf_exc_pending = 0;
  probe(&fp2, 0);
#ifdef VF_COVER
#if (OPS) & 1
  if (cx_crash_at != 0 && fl == 1) VF_REACH();          /* a crash inside a message store is reachable */
#endif
#if (OPS) & 2
  if (cx_crash_at != 0 && fl == 2) VF_REACH();          /* a crash inside a control store is reachable */
#endif
#endif
  for (int j = 0; j < KP; j++) {
    uint8_t op = nondet_u8(); uint32_t a = nondet_u32(), b = nondet_u32(); uint8_t d0 = nondet_u8(), d1 = nondet_u8(), len = nondet_u8();
    VF_ASSUME(op < 2 && ((POPSET(j) >> op) & 1) && a <= MAXSEQ && b <= 1000 && len >= 1 && len <= 2);
#ifdef LENC
    len = LENC;
#endif
    cx_pop[j] = op; cx_pa[j] = a; cx_pb[j] = b; cx_pd0[j] = d0; cx_pd1[j] = d1; cx_plen[j] = len;
#ifdef KF_FP_SLOT0
    if (j == 0 && cx_done == 0) VF_ASSUME(op == 1);          /* nothing completed before the crash: still a fresh store */
#endif
    if ((POPSET(j) & 1) && op == 0) {
      uint8_t d[2] = { d0, d1 };
      uint8_t ok = vf_fp_put(&fp2, a, d, len) & 1;
      CHECK(ok == (a != 0 && !r_has[a]), "C27: after reopening, storing to an unoccupied number is accepted (occupied or 0 refused)");
      if (a != 0 && !r_has[a]) { r_has[a] = 1; r_len[a] = len; r_dat[a][0] = d0; r_dat[a][1] = d1; }
    } else if ((POPSET(j) & 2) && op == 1) {
      uint8_t ok = vf_fp_putc(&fp2, a, b) & 1; CHECK(ok, "C27: control put succeeds after reopening"); r_hasc = 1; r_ca = a; r_cb = b;
    }
    CHECK(!__vf_exc_pending, "C27: no exception"); __vf_exc_pending = 0;
    probe(&fp2, j + 1);
  }
#ifdef STAGE3
  /* ---------------- process 2 ends (no crash); process 3: what process 2 answered from its in-memory index must also be what its
     files say - a third, fresh FilePersister reopens them and the same oracle is evaluated against the reference as it stands now */
  vf_fs_new_process();
  vf_fp_ctor(&fp3, 0);
  iok = vf_fp_init(&fp3, (uint8_t*)".", 1, (uint8_t*)"s", 1, 0) & 1;
  CHECK(iok && !__vf_exc_pending, "C27: reopening a second time succeeds"); __vf_exc_pending = 0;
  probe(&fp3, KP + 1);
#endif
  VF_REACH();
  return 0;
}
