/* C01 (and, with -DC02_ORDER, the ordering clause of C02): round trip of one concrete message shape with symbolic values through the
   real encoder and decoder over the f8c-generated mini schema.
     m  := the shape's message, built through the public API in the shape's insertion order
     e1 := Message::encode(m)            d := Message::factory(e1)            e2 := Message::encode(d)
   C01: the factory succeeds; header, body, every group element of d hold exactly the shape's fields with the values put into m, in order;
        group sizes agree; e2 is byte-identical to e1.
   C02 (ordering): e1 is 8=FIX.4.2|9=<payload length>|35=<type>| header fields | body fields in schema position order | group = count,
        then each element starting with its first field | 10=ddd| with ddd the byte sum mod 256 - computed here from the ghost values alone. */
#include "l3_world.h"
#ifdef C02_ORDER
#include "l3_expect.h"
#endif
int main(void)
{
  VF_GLOBAL_INIT();
  EXC_OK("L3: static initialisation of the generated classes does not throw");
  MSG *m = l3_build();
  EXC_OK("L3: building the message through the public API does not throw");
  uint64_t n1 = 0; l3_logging = 1; l3_ntok = 0;
  uint8_t *e1 = l3_encode(m, 0, &n1);
  l3_logging = 0;
  EXC_OK("C01: encoding a well-formed message does not throw");
  VF_ASSERT(!gm_bad, "C01: calendar fields are requested for the instants the message carries");
  VF_ASSERT(n1 > 0 && n1 <= L3_CAP && e1 >= l3_buf[0] && e1 + n1 <= l3_buf[0] + sizeof l3_buf[0], "C01: the encoding lies inside the buffer handed to the encoder");
  cx_enclen = (uint32_t)n1; for (uint32_t i = 0; i < L3_CAP; i++) if (i < n1) cx_enc[i] = e1[i];
#ifdef C02_ORDER
  l3_check_wire(e1, n1);
#endif
#ifndef ENCODE_ONLY
  l3_take_layout(e1);
  /* the input string of the factory is a std::string that owns the encoder's bytes in place (heap representation {data, size, capacity}):
     copying 100+ bytes through the string model's constant-capacity buffers would only cost symbolic-execution time */
  static struct S_class_2estd_3a_3a__cxx11_3a_3abasic_string in; VS_P(&in) = e1; VS_N(&in) = n1; VS_CAP(&in) = n1;
  VF_ASSERT(e1[n1] == 0, "C01: the encoder terminates its output");
  l3_in_base = e1;
  MSG *d = vf_factory(&in);
  l3_in_base = 0; l3_lastval = 0;
  EXC_OK("C01: the factory accepts the bytes the encoder produced");
  VF_ASSERT(d != 0, "C01: the factory returns a message");
  /* the factory's result is "the message it instantiated, unless it threw" - a conditional pointer for the symbolic executor although the
     exception paths were just shown infeasible: continue with the instantiated object itself (checked: it is the returned one) */
  L3_LEMMA(d != 0 && d == (MSG*)l3_last_msg, "L3 lemma: the factory returns the message it instantiated");
  d = (MSG*)l3_last_msg;
  if (d != 0) {      /* (a null result has failed the check above; the reachability twin must not run the observers on it) */
  VF_ASSERT(l3_component_is(vf_header(d), 0, 3), "C01: the decoded header holds the same fields and values, in order");
  VF_ASSERT(l3_component_is((MB*)d, 1, 0), "C01: the decoded body holds the same fields and values, in order");
  VF_ASSERT(vf_pos_count(vf_trailer(d)) == 1, "C01: the decoded trailer holds the checksum field only");
#if L3_NEL > 0
  GB *gd = vf_find_group((MB*)d, 33);
  VF_ASSERT(gd != 0 && vf_group_size(gd) == L3_NEL, "C01: the decoded group has the same number of elements");
  if (gd) for (int e = 0; e < L3_NEL; e++) { MB *el = vf_group_el(gd, (uint32_t)e); VF_ASSERT(el != 0 && l3_component_is(el, 2 + e, 0), "C01: each decoded group element holds the same fields and values, in order"); }
#else
  { GB *gd = vf_find_group((MB*)d, 33); VF_ASSERT(gd == 0 || vf_group_size(gd) == 0, "C01: no group elements appear that were not encoded"); }
#endif
  uint64_t n2 = 0;
  uint8_t *e2 = l3_encode(d, 1, &n2);
  EXC_OK("C01: re-encoding the decoded message does not throw");
  VF_ASSERT(!gm_bad, "C01: calendar fields of the decoded message are requested for the instants of the original");
  VF_ASSERT(n2 == n1, "C01: the re-encoding has the same length");
  int same = (n2 == n1); for (uint32_t i = 0; i < L3_CAP; i++) if (i < n1 && e2[i] != e1[i]) same = 0;
  VF_ASSERT(same, "C01: the re-encoding is byte-identical");
  }
#endif
  VF_REACH();
  return 0;
}
