/* session world, inbound side: objects in typed static storage + set-up helpers shared by C19/C20/C22/C23 harnesses.
   Included after the generated translation ("sess_in.c", which ends with models/sess_env.c and models/sess_msg.c). */
#ifndef SESS_IN_WORLD_H
#define SESS_IN_WORLD_H
#include "vf_h.h"
#ifndef SESS_C
#define SESS_C "sess_in.c"
#endif
#include SESS_C
enum { st_none, st_continuous, st_session_terminated, st_wait_for_logon, st_not_logged_in, st_logon_sent, st_logon_received, st_logoff_sent,
       st_logoff_received, st_test_request_sent, st_sequence_reset_sent, st_sequence_reset_received, st_resend_request_sent, st_resend_request_received, st_num_states };
#define IS_ESTABLISHED(s) ((s) != st_none && (s) != st_session_terminated && (s) != st_wait_for_logon && (s) != st_not_logged_in && (s) != st_logon_sent && (s) < st_num_states)
enum { cn_acceptor, cn_initiator };
static struct S_struct_2eVSession the_session;
static struct S_struct_2eVMessage the_msg;
static struct S_struct_2eVHeader the_hdr;
static struct S_struct_2eFIX8_3a_3aF8MetaCntx the_ctx;
static struct S_class_2eFIX8_3a_3aConnection the_conn;
#define SESS (&the_session)
#define BASE ((struct S_class_2eFIX8_3a_3aSession*)&the_session)
/* world set-up: constants of the translation unit, vtable pointer, null collaborators */
static void world_init(int with_connection)
{
  vf_world_init();
  vf_session_init(SESS);
  /* the reference member Session::_ctx (pointer slot f8 of the generated struct) cannot be assigned from C++; a byte-offset
     store from the shim would make CBMC treat the whole session as a byte array (vptr loads stop folding), so it is set here */
  _Static_assert(__builtin_types_compatible_p(__typeof__(the_session.f0.f8), struct S_struct_2eFIX8_3a_3aF8MetaCntx*), "Session::_ctx slot");
  the_session.f0.f8 = &the_ctx;
  vf_sess_set_ptrs(BASE, with_connection ? &the_conn : 0, 0);
  vf_sess_clear_control(BASE);
}
/* (re)build the abstract inbound message with the given type (n = 1..2 characters) */
static void msg_init(const uint8_t *type, uint32_t n)
{
  vf_message_init(&the_msg, &the_ctx, &the_hdr, (uint8_t*)type, n);
  vf_header_init(&the_hdr, &the_ctx, &the_msg);
  m_msg = &the_msg;
}
/* raw inbound bytes of the abstract-message harnesses: the header scan finds the field "34=" (after BeginString) and the number is the abstract message's MsgSeqNum m_seq */
static uint32_t raw_abs(uint8_t *buf, uint32_t seq) { const uint8_t b[9] = { '8', '=', 'F', 1, '3', '4', '=', '0', 1 }; for (int i = 0; i < 9; i++) buf[i] = b[i]; m_seq = seq; return 9; }
static int str_eq(const uint8_t *a, uint32_t na, const uint8_t *b, uint32_t nb) { if (na != nb) return 0; for (uint32_t i = 0; i < 2; i++) if (i < na && a[i] != b[i]) return 0; return 1; }
#endif
