/* C30 (a) sequential exhaustive: every sequence of K push/pop operations (solver's choice at every step) on the real queue
   code.  LAYER 0 = ff::uMPMC_Ptr_Queue (init(NQ, SZ): NQ sub-queues of type uSWSR_Ptr_Buffer with SZ-slot rings),
   LAYER 1 = ff::uSWSR_Ptr_Buffer(SZ) alone (unbounded: switches to a fresh ring from its BufferPool when the ring is full),
   LAYER 2 = ff::SWSR_Ptr_Buffer(SZ) alone (bounded ring: push refuses exactly when SZ elements are queued).
   Payloads are the addresses of distinct cells of a static array, pushed in index order; the reference is a counter pair. */
#include "vf_h.h"
#include "c30.c"
#ifndef K
#define K 6
#endif
#ifndef LAYER
#define LAYER 0
#endif
#ifndef NQ
#define NQ 2
#endif
#ifndef SZ
#define SZ 2
#endif
static struct S_class_2eff_3a_3auMPMC_Ptr_Queue the_q;
static struct S_class_2eff_3a_3auSWSR_Ptr_Buffer the_u;
static struct S_class_2eff_3a_3aSWSR_Ptr_Buffer the_s;
static uint64_t cell[K + 1];
uint8_t cx_op[K]; uint8_t cx_res[K]; int32_t cx_got[K];
static uint8_t do_push(uint8_t *d)
{
#if LAYER == 0
  return vf_q_push(&the_q, d) & 1;
#elif LAYER == 1
  return vf_u_push(&the_u, d) & 1;
#else
  return vf_s_push(&the_s, d) & 1;
#endif
}
static uint8_t do_pop(uint8_t **d)
{
#if LAYER == 0
  return vf_q_pop(&the_q, d) & 1;
#elif LAYER == 1
  return vf_u_pop(&the_u, d) & 1;
#else
  return vf_s_pop(&the_s, d) & 1;
#endif
}
int main(void)
{
  uint8_t ok;
#if LAYER == 0
  vf_q_ctor(&the_q); ok = vf_q_init(&the_q, NQ, SZ) & 1;
#elif LAYER == 1
  vf_u_ctor(&the_u, SZ); ok = vf_u_init(&the_u) & 1;
#else
  vf_s_ctor(&the_s, SZ); ok = vf_s_init(&the_s) & 1;
#endif
  VF_ASSERT(ok, "C30: queue initialises");
  uint32_t npush = 0, npop = 0;
  for (int i = 0; i < K; i++) {
    uint8_t op = nondet_u8(); VF_ASSUME(op <= 1);
#ifdef VF_COVER
    op = (i >= (K + 1) / 2);            /* reachability twin: one concrete sequence (path-wise exploration has no cover mode) */
#endif
    cx_op[i] = op;
    if (op == 0) {
      uint8_t r = do_push((uint8_t*)&cell[npush]); cx_res[i] = r;
#if LAYER == 2
      VF_ASSERT(r == (npush - npop < SZ), "C30: the bounded ring accepts a push exactly when fewer than its size are queued");
      if (r) npush++;
#else
      VF_ASSERT(r == 1, "C30: a push on the unbounded queue succeeds");
      npush++;
#endif
    } else {
      uint8_t *got = 0; uint8_t r = do_pop(&got); cx_res[i] = r;
      VF_ASSERT(r == (npop < npush), "C30: pop reports empty exactly when every pushed element has been popped");
      if (r) {
        cx_got[i] = (int32_t)((uint64_t*)got - cell);
        VF_ASSERT(got == (uint8_t*)&cell[npop], "C30: elements come out in push order, none lost or duplicated");
        if (npop < npush) npop++;
      }
    }
    VF_ASSERT(!__vf_exc_pending, "C30: no exception");
  }
  VF_REACH();
  return 0;
}
