/* C02 ordering clause, checked on the bytes the real encoder produced for the shape: an independent renderer walks the shape in
   schema order (header 8, 9, 35, then header fields by position; body fields by position; a group = its count field followed by the
   elements in index order, each rendered by position, i.e. starting with the group's first field; trailer 10) and compares
   tags, separators, values (from the ghosts), BodyLength and CheckSum with the encoder's output, byte by byte. */
static uint32_t wr_pos; static int wr_ok; static uint8_t *wr_e; static uint64_t wr_n;
static void wr_byte(uint8_t c) { if (wr_pos >= wr_n || wr_e[wr_pos] != c) wr_ok = 0; wr_pos++; }
static void wr_uint(uint32_t v) { uint8_t t[10]; int k = 0; do { t[k++] = (uint8_t)('0' + v % 10); v /= 10; } while (v); while (k) wr_byte(t[--k]); }
static void wr_tag(uint32_t tag) { wr_uint(tag); wr_byte('='); }
/* value text of an int with a known digit count: most significant digit first */
static void wr_int_digits(int32_t v, int digits, int neg)
{
  uint32_t a = v < 0 ? 0u - (uint32_t)v : (uint32_t)v;
  if (neg) wr_byte('-');
  for (int k = digits - 1; k >= 0; k--) wr_byte((uint8_t)('0' + (a / (uint32_t)P10[k]) % 10));
}
static void wr_2(int v) { wr_byte((uint8_t)('0' + v / 10 % 10)); wr_byte((uint8_t)('0' + v % 10)); }
static void wr_field(int i)
{
  const struct l3_fd *d = &L3_F[i];
  wr_tag(d->tag);
  switch (d->kind) {
  case K_INT: wr_int_digits(cx_int[i], d->arg, d->neg); break;
  case K_CINT: wr_uint((uint32_t)d->arg); break;
  case K_STR: case K_DATA: for (int k = 0; k < d->arg; k++) wr_byte(cx_str[i][k]); break;
  case K_CHAR: wr_byte(cx_chr[i]); break;
  case K_BOOL: wr_byte(cx_bool[i] ? 'Y' : 'N'); break;
  case K_TS: { int32_t *c = cx_civil[i]; wr_2(c[0] / 100); wr_2(c[0] % 100); wr_2(c[1]); wr_2(c[2]); wr_byte('-'); wr_2(c[3]); wr_byte(':'); wr_2(c[4]); wr_byte(':'); wr_2(c[5]);
               wr_byte('.'); wr_byte((uint8_t)('0' + c[6] / 100)); wr_2(c[6] % 100); break; }
  }
  wr_byte(1);
}
static void wr_component(int comp)
{
  int idx[L3_NF]; int n = l3_expected(comp, idx);
  for (int k = 0; k < n; k++) {
    wr_field(idx[k]);
    if (comp == 1 && L3_F[idx[k]].tag == 33) for (int e = 0; e < L3_NEL; e++) wr_component(2 + e);
  }
}
static void l3_check_wire(uint8_t *e, uint64_t n)
{
  static const uint8_t bs[] = "8=FIX.4.2";
  wr_e = e; wr_n = n; wr_ok = 1; wr_pos = 0;
  for (int i = 0; i < 9; i++) wr_byte(bs[i]);
  wr_byte(1); wr_byte('9'); wr_byte('=');
  /* BodyLength: decimal digits up to the next SOH; its value must be the byte count from there to the start of "10=" */
  uint32_t bl = 0; int nd = 0;
  while (wr_pos < n && e[wr_pos] >= '0' && e[wr_pos] <= '9' && nd < 6) { bl = bl * 10 + (uint32_t)(e[wr_pos] - '0'); wr_pos++; nd++; }
  VF_ASSERT(nd >= 1 && (nd == 1 || e[wr_pos - nd] != '0'), "C02: BodyLength is a decimal number without leading zeros");
  wr_byte(1);
  uint32_t body_start = wr_pos;
  wr_byte('3'); wr_byte('5'); wr_byte('='); wr_byte(L3_MSG == 0 ? '0' : 'D'); wr_byte(1);
  wr_component(0);
  wr_component(1);
  VF_ASSERT(wr_ok, "C02: BeginString, BodyLength, MsgType first; header fields, then body fields, each as tag=value<SOH> in schema position order regardless of insertion order; a group is its count followed by its elements, each starting with the group's first field");
  VF_ASSERT(wr_pos + 7 == n, "C02: nothing but the CheckSum field follows the last body field");
  VF_ASSERT(bl == wr_pos - body_start, "C02: BodyLength is the number of bytes between the end of the BodyLength field and the start of the CheckSum field");
  uint32_t sum = 0; for (uint32_t i = 0; i < L3_CAP; i++) if (i < wr_pos && i < n) sum += e[i];
  sum &= 255;
  VF_ASSERT(n >= 7 && e[n - 7] == '1' && e[n - 6] == '0' && e[n - 5] == '=' && e[n - 4] == '0' + sum / 100 && e[n - 3] == '0' + sum / 10 % 10 && e[n - 2] == '0' + sum % 10 && e[n - 1] == 1,
            "C02: the message ends with 10=ddd<SOH>, ddd the three-digit sum of all preceding bytes modulo 256");
}
