/* C16: restart with recovered numbers and the control record after a processed inbound message.
   recover_seqnums() over an arbitrary (or absent) control record, then the first new message (the Logon of Session::start
   is sent through the same Session::send), then the end-of-process() step: the receive number moves by one and
   update_persist_seqnums() runs. */
#define NMSG 1
#include "sessb_world.h"
uint32_t cx_a, cx_b; uint8_t cx_rec_valid;
int main(void)
{
  world_init(1, 0);
  vf_sess_set_seq(SESS, 1, 1); vf_sess_set_flags(SESS, 1, 0, 0, 0, 0); vf_sess_set_state(SESS, 4 /* st_not_logged_in */);   /* atomic_init */
  uint32_t a = nondet_u32(), b = nondet_u32(); uint8_t valid = nondet_u8() & 1;
  VF_ASSUME(a >= 1 && a <= 0xfffffff0u && b >= 1 && b <= 0xfffffff0u);
  c_valid = valid; c_snd = a; c_rcv = b; cx_a = a; cx_b = b; cx_rec_valid = valid;
  vf_sb_recover(&the_sess);
  VF_ASSERT(!__vf_exc_pending, "C16: recover does not throw"); __vf_exc_pending = 0;
  uint32_t n0 = valid ? a : 1, r0 = valid ? b : 1;
  VF_ASSERT(vf_sess_next_send(SESS) == n0 && vf_sess_next_recv(SESS) == r0, "C16: the recovered control record becomes the session's numbers (1,1 when there is none)");
  world_msg(0, K_LOGOUT);                       /* an administrative message, as the Logon of start() */
  uint8_t ok = vf_sb_send_p(&the_sess, MSGP(0), 1, 0, 0) & 1;
  VF_ASSERT(!__vf_exc_pending, "C16: first send does not throw"); __vf_exc_pending = 0;
  VF_ASSERT(e_n == 1 && e_has34[0] && e_v34[0] == n0, "C16: the first message after a restart carries the recovered start number");
  VF_ASSERT(vf_sess_next_send(SESS) == n0 + 1, "C16: and the next one follows it");
  VF_ASSERT(ctl_matches(n0 + 1, r0), "C16: control record equals the session's numbers after the first send");
  VF_ASSERT(p_n == 0, "C16: the administrative message is not stored");
  /* end of process(): ++_next_receive_seq; update_persist_seqnums() */
  vf_sess_set_seq(SESS, n0 + 1, r0 + 1); c_att_n = 0;
  vf_sb_update_persist(&the_sess);
  VF_ASSERT(!__vf_exc_pending, "C16: update does not throw"); __vf_exc_pending = 0;
  VF_ASSERT(c_att_n == 1 && vf_sess_next_recv(SESS) == r0 + 1 && ctl_matches(vf_sess_next_send(SESS), vf_sess_next_recv(SESS)), "C16: control record equals the session's numbers after a processed inbound message");
  VF_ASSERT(!vf_spin_bad, "C16: lock discipline");
  VF_REACH();
  return 0;
}
