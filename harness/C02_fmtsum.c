/* C02: the real Message::fmt_chksum(unsigned) renders every byte sum 0..255 as exactly three zero-padded decimal digits
   (contract of the fmt_chksum cut of harness/C02_frame.c).  One concrete run per value (case split), real itoa<unsigned> and the
   std::string construction through the string model. */
#define NOGROUP
#define NO_TOKCUT
#define NTOK 4
#include "codec_world.h"
uint32_t cx_v; static uint32_t VSEL; static vstr S;
static int run(void)
{
  uint8_t *p = vf_fmt_chksum(VSEL, &S);
  VF_ASSERT(!__vf_exc_pending, "C02: fmt_chksum does not throw"); __vf_exc_pending = 0;
  VF_ASSERT(VS_N(&S) == 3 && p == VS_P(&S), "C02: the CheckSum value has exactly three characters");
  VF_ASSERT(p[0] == '0' + VSEL / 100 && p[1] == '0' + (VSEL / 10) % 10 && p[2] == '0' + VSEL % 10 && p[3] == 0, "C02: the CheckSum value is the zero-padded decimal rendering of the sum modulo 256");
  VF_REACH();
  return 0;
}
int main(void)
{
  cx_v = nondet_u32(); VF_ASSUME(cx_v < 256);
  for (VSEL = 0; VSEL < 256; VSEL++) if (cx_v == VSEL) return run();
  return 0;
}
