/* C29 (log rotation): the real FIX8::FileLogger::rotate on a FileLogger in typed static storage, over the rename recorder.
   rotnum is symbolic in 0..ROTMAX (or the constant ROTNUM for the runs around the documented maximum), the flags
   (append / compress) and `force` are symbolic, the set of pre-existing generations and their contents are symbolic.
   Oracle (property statement): with c = min(rotnum, documented maximum) and rotation due (rotnum > 0 and (not append or
   forced)): every generation k in 1..c whose predecessor existed now holds what name.(k-1) held; generations beyond c and
   all other paths are untouched; no rotation due: nothing is renamed. Every std::vector index is inside the vector. */
#include "vf_h.h"
#ifdef BIG
#include "c29lb.c"     /* same code, ostream model replaced by models/ostream_null.c (opaque names) */
#else
#include "c29l.c"
#endif
#ifdef ROTNUM
#define ROTMAX ROTNUM
#endif
#ifndef ROTMAX
#define ROTMAX 6
#endif
#define NG (ROTMAX + 3)
#include "C29_rec.h"
static struct S_class_2eFIX8_3a_3aFileLogger the_fl;
uint32_t cx_ex0[2]; /* bit k: generation k existed before (family 0 / 1) */
uint32_t cx_rotnum, cx_flags; uint8_t cx_force;
static int opened;
/* access()/exist(): answered from the same symbolic generation directory as rename (any existence test the rotation code makes is
   part of the modelled file system); a path that is not a generation name does not exist and is flagged as "another file" */
static int acc_other;
#ifdef BIG    /* runs around the documented maximum: names are opaque, only indexing and the number of renames are observed */
uint32_t x_rename(uint8_t *from, uint8_t *to) { rn_calls++; return 0; }
uint32_t x_access(uint8_t *path, uint32_t mode) { return 0; }
void vf_ofs_opened(uint8_t *path, uint32_t mode) { opened++; }
#else
uint32_t x_rename(uint8_t *from, uint8_t *to) { return rec_rename(from, to); }
uint32_t x_access(uint8_t *path, uint32_t mode) { int g = gen_of(0, path); if (g >= 0) return g_ex[0][g] ? 0 : (uint32_t)-1; if (g == -1) acc_other = 1; return (uint32_t)-1; }
void vf_ofs_opened(uint8_t *path, uint32_t mode) { opened++; VF_ASSERT(gen_of(0, path) == 0, "C29: the log file opened after rotation is the configured path"); }
#endif
int main(void)
{
  uint32_t cap = vf_max_rotation(), APPEND = vf_flag_append(), COMPRESS = vf_flag_compress();
#ifdef BIG
  cx_rotnum = ROTNUM; cx_flags = 0; cx_force = 0;
  vf_fl_setup(&the_fl, (uint8_t*)"l", 1, 0, ROTNUM);
  uint8_t okb = vf_fl_rotate(&the_fl, 0) & 1;
  VF_ASSERT(okb && !__vf_exc_pending, "C29: rotate succeeds");
  VF_ASSERT((uint32_t)rn_calls == (ROTNUM < cap ? ROTNUM : cap), "C29: at most the documented maximum of generations is kept (one rename per generation)");
  VF_ASSERT(opened == 1, "C29: the log file is reopened once");
  VF_REACH();
  return 0;
#else
#ifdef ROTNUM
  uint32_t rotnum = ROTNUM;
#else
  uint32_t rotnum = nondet_u32(); VF_ASSUME(rotnum <= ROTMAX);
#endif
  uint32_t flags = nondet_u32(); VF_ASSUME((flags & ~(APPEND | COMPRESS)) == 0);
  /* the compress flag only changes the generation names (name.k.gz; this build never defines HAVE_COMPRESSION, so the live
     file stays `name`): case split by define so that every path name is a constant string */
#ifdef COMPRESSED
  VF_ASSUME(flags & COMPRESS); flags |= COMPRESS;
#else
  VF_ASSUME(!(flags & COMPRESS)); flags &= ~COMPRESS;
#endif
  uint8_t force = nondet_bool();
  cx_rotnum = rotnum; cx_flags = flags; cx_force = force;
#ifdef COMPRESSED
  rec_base[0] = "l"; rec_suffix[0] = ".gz"; rec_sfx0[0] = 0;
#else
  rec_base[0] = "l"; rec_suffix[0] = ""; rec_sfx0[0] = 1;
#endif
  rec_init();
  for (int f = 0; f < NFAM; f++) for (int g = 0; g < NG && g < 32; g++) if (g_ex0[f][g]) cx_ex0[f] |= 1u << g;
  vf_fl_setup(&the_fl, (uint8_t*)"l", 1, flags, rotnum);
  uint8_t ok = vf_fl_rotate(&the_fl, force) & 1;
  VF_ASSERT(ok && !__vf_exc_pending, "C29: rotate succeeds"); __vf_exc_pending = 0;
  uint32_t c = rotnum < cap ? rotnum : cap;
  int due = rotnum > 0 && (!(flags & APPEND) || force);
  VF_ASSERT(rn_other == 0 && rn_cross == 0 && !acc_other, "C29: rotation never touches other files");
  if (!due) VF_ASSERT(rn_calls == 0, "C29: append-mode logs are not rotated unless forced (and a count of 0 rotates nothing)");
  for (uint32_t k = 0; k < NG; k++) {
    if (due && k >= 1 && k <= c && g_ex0[0][k - 1]) VF_ASSERT(g_ex[0][k] && g_id[0][k] == g_id0[0][k - 1], "C29: after rotation name.k holds what name.(k-1) held");
    if (!due || k > c) VF_ASSERT(g_ex[0][k] == g_ex0[0][k] && g_id[0][k] == g_id0[0][k], "C29: generations beyond the configured count are untouched");
  }
  if (due && c >= 1 && g_ex0[0][0]) VF_ASSERT(!g_ex[0][0], "C29: the current log was moved to name.1");
  VF_ASSERT(opened == 1, "C29: the log file is reopened once");
#if ROTNUM > 0
  if (due) VF_REACH();
#endif
  if (!due) VF_REACH();
  return 0;
#endif
}
