/* C29 (store rotation): the purge/rotation branch of the real FIX8::FilePersister::initialise over the rename recorder.
   rotnum = ROTNUM (one harness per value), purge symbolic, pre-existing generations of the data files (./s, ./s.1, ..)
   and of the index files (./s.idx, ./s.1.idx, ..) symbolic with content ids.
   Oracle: with c = min(rotnum, documented maximum) and purge requested: every generation k in 1..c whose predecessor existed
   now holds what generation k-1 held (data and index alike), generations beyond c and all other paths are untouched, the
   live files are created empty; without purge nothing is renamed. Every std::vector index is inside the vector. */
#include "vf_h.h"
#ifdef BIG
#include "c29fb.c"     /* same code, ostream model replaced by models/ostream_null.c (opaque names) */
#else
#include "c29f.c"
#endif
#ifndef ROTNUM
#define ROTNUM 2
#endif
#define NG (ROTNUM + 3)
#define NFAM 2
#include "C29_rec.h"
static struct S_class_2eFIX8_3a_3aFilePersister the_fp;
uint32_t cx_ex0[2]; /* bit k: generation k existed before (family 0 / 1) */
uint32_t cx_rotnum; uint8_t cx_purge;
static int n_open, open_bad;
#ifdef BIG    /* runs around the documented maximum: names are opaque, only indexing and the number of renames are observed */
uint32_t x_rename(uint8_t *from, uint8_t *to) { rn_calls++; return 0; }
uint32_t x_access(uint8_t *path, uint32_t mode) { return 0; }
uint32_t x_open(uint8_t *path, uint32_t flags, ...) { n_open++; return (uint32_t)(2 + n_open); }
#else
uint32_t x_rename(uint8_t *from, uint8_t *to) { return rec_rename(from, to); }
uint32_t x_access(uint8_t *path, uint32_t mode)
{
  for (int f = 0; f < NFAM; f++) { int g = gen_of(f, path); if (g >= 0) return g_ex[f][g] ? 0 : (uint32_t)-1; }
  open_bad = 1; return (uint32_t)-1;
}
uint32_t x_open(uint8_t *path, uint32_t flags, ...)
{
  int f = gen_of(0, path) == 0 ? 0 : gen_of(1, path) == 0 ? 1 : -1;
  if (f < 0) { open_bad = 1; return (uint32_t)-1; }                 /* only the live data / index file may be opened */
  if (!g_ex[f][0]) { if (!(flags & 0x40)) return (uint32_t)-1; g_ex[f][0] = 1; g_id[f][0] = 0; }
  else if (flags & 0x200) g_id[f][0] = 0;                            /* O_TRUNC: empty file = content id 0 */
  n_open++; return (uint32_t)(3 + f);
}
#endif
uint64_t x_read(uint32_t fd, uint8_t *buf, uint64_t n) { return 0; }  /* (no purge, files exist: empty index) */
int main(void)
{
  uint32_t cap = vf_max_rotation();
#ifdef BIG
  cx_rotnum = ROTNUM; cx_purge = 1;
  vf_fp_ctor(&the_fp, ROTNUM);
  uint8_t okb = vf_fp_init(&the_fp, (uint8_t*)".", 1, (uint8_t*)"s", 1, 1) & 1;
  VF_ASSERT(okb && !__vf_exc_pending, "C29: initialise succeeds");
  VF_ASSERT((uint32_t)rn_calls == 2 * (ROTNUM < cap ? ROTNUM : cap), "C29: at most the documented maximum of generations is kept (one rename per data and index generation)");
  VF_REACH();
  return 0;
#else
  uint32_t rotnum = ROTNUM; uint8_t purge = nondet_bool();
  cx_rotnum = rotnum; cx_purge = purge;
  rec_base[0] = "./s"; rec_suffix[0] = ""; rec_sfx0[0] = 1;
  rec_base[1] = "./s"; rec_suffix[1] = ".idx"; rec_sfx0[1] = 1;
  rec_init();
  for (int f = 0; f < NFAM; f++) for (int g = 0; g < NG && g < 32; g++) if (g_ex0[f][g]) cx_ex0[f] |= 1u << g;
  VF_ASSUME(g_ex0[0][0] == g_ex0[1][0]);                             /* the live data and index files exist together or not at all */
  vf_fp_ctor(&the_fp, rotnum);
  uint8_t ok = vf_fp_init(&the_fp, (uint8_t*)".", 1, (uint8_t*)"s", 1, purge) & 1;
  VF_ASSERT(ok && !__vf_exc_pending, "C29: initialise succeeds"); __vf_exc_pending = 0;
  uint32_t c = rotnum < cap ? rotnum : cap;
  int due = purge && rotnum > 0;
  VF_ASSERT(rn_other == 0 && rn_cross == 0 && !open_bad, "C29: purge rotation never touches other files");
  if (!due) VF_ASSERT(rn_calls == 0, "C29: nothing is renamed unless purge with rotation is requested");
  for (int f = 0; f < NFAM; f++) for (uint32_t k = 1; k < NG; k++) {
    if (due && k <= c && g_ex0[f][k - 1]) VF_ASSERT(g_ex[f][k] && g_id[f][k] == g_id0[f][k - 1], "C29: after purge rotation generation k holds what generation k-1 held");
    if (!due || k > c) VF_ASSERT(g_ex[f][k] == g_ex0[f][k] && g_id[f][k] == g_id0[f][k], "C29: generations beyond the configured count are untouched");
  }
  VF_ASSERT(g_ex[0][0] && g_ex[1][0] && n_open == 2, "C29: the live data and index files exist after initialise");
  if (purge || !g_ex0[0][0]) VF_ASSERT(g_id[0][0] == 0 && g_id[1][0] == 0, "C29: purge leaves empty live files");
  else VF_ASSERT(g_id[0][0] == g_id0[0][0] && g_id[1][0] == g_id0[1][0], "C29: without purge the existing store is kept");
#if ROTNUM > 0
  if (due) VF_REACH();
#endif
  if (!due) VF_REACH();
  return 0;
#endif
}
