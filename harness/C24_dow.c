/* C24: real decode_dow (runtime/f8utils.cpp: StrToLower, the static multimap built by the translation unit's own
   initialiser, equal_range/distance header code) on every string of constant length LEN with symbolic bytes, against
   the statement's table: digit 0-6 alone; otherwise the day whose name starts with the string's first letter when that
   letter is unique (m, w, f), or whose name starts with its first two letters (su, sa, tu, th); case-insensitive;
   characters after the deciding prefix are ignored (as documented in f8utils.hpp); everything else -1. */
#include "vf_h.h"
#include "c24dow.c"
#ifndef LEN
#define LEN 2
#endif
uint8_t cx_s[4]; int32_t cx_len, cx_got, cx_want;
static uint8_t lc(uint8_t c) { return (c >= 'A' && c <= 'Z') ? c + 32 : c; }
static int ref_dow(const uint8_t *s, int n)
{
  if (n == 0) return -1;
  uint8_t a = lc(s[0]), b = n > 1 ? lc(s[1]) : 0;
  if (n == 1 && a >= '0' && a <= '6') return a - '0';
  if (a == 'm') return 1; if (a == 'w') return 3; if (a == 'f') return 5;
  if (n < 2) return -1;
  if (a == 's') return b == 'u' ? 0 : b == 'a' ? 6 : -1;
  if (a == 't') return b == 'u' ? 2 : b == 'h' ? 4 : -1;
  return -1;
}
int main(void)
{
  VF_GLOBAL_INIT();                                   /* the translation unit's static initialiser: day_names, daymap */
  VF_ASSERT(!__vf_exc_pending, "C24: static initialisation does not throw");
  static uint8_t buf[4];
  for (int i = 0; i < LEN; i++) { buf[i] = nondet_u8(); cx_s[i] = buf[i]; }
  cx_len = LEN;
  int got = (int)vf_decode_dow(buf, LEN), want = ref_dow(buf, LEN);
  cx_got = got; cx_want = want;
  VF_ASSERT(!__vf_exc_pending, "C24: decode_dow does not throw");
  VF_ASSERT(got == want, "C24: weekday decoding follows the unique-prefix table and nothing else");
#if LEN == 0
  VF_REACH();
#else
  if (want >= 0) VF_REACH(); else VF_REACH();
#endif
  return 0;
}
