/* C17: every application message transmitted as a new message is stored under its MsgSeqNum with exactly the bytes that
   went on the wire (single sends and batches); administrative messages and retransmissions are not stored.
   Scenario: sessb_send.h (one send operation from an arbitrary state).  Encodings are 2..4 symbolic non-NUL bytes. */
#include "sessb_send.h"
uint32_t cx_p_n, cx_p_seq[NREC], cx_p_len[NREC];
int main(void)
{
#ifdef KF_C17_CUSTOM_KEY      /* known-finding complement: application messages are not sent with a custom sequence number */
#define C17_NO_CUSTOM 1
#endif
  scenario();
#ifdef C17_NO_CUSTOM
  VF_ASSUME(custom == 0 || kind[0] != K_APP || (pre34[0] && (!always || pre43[0])));
#endif
#ifdef KF_C17_BATCH_LAST       /* known-finding complement: the last message of a batch of two or more is not an application message */
  VF_ASSUME(!(op == 2 && j >= 2 && kind[j >= 1 ? j - 1 : 0] == K_APP));
#endif
  VF_ASSERT(!__vf_exc_pending, "C17: send does not throw"); __vf_exc_pending = 0;
  VF_ASSERT(e_n == j, "C17: every message of the operation is encoded exactly once");
  cx_p_n = p_n; for (int k = 0; k < NREC; k++) { cx_p_seq[k] = p_seq[k]; cx_p_len[k] = p_len[k]; }
  /* wire: the concatenation of the encodings, in order; a batch goes out in one write */
  uint32_t pos = 0;
  for (int i = 0; i < J; i++) if (i < j) {
    for (int b = 0; b < ENC_MAX; b++) if (b < a_elen[i]) VF_ASSERT(pos + b < wire_n && wire[pos + b] == a_enc[i][b], "C17: the wire carries each message's encoding, in order");
    pos += a_elen[i];
  }
  VF_ASSERT(wire_n == pos, "C17: nothing else goes on the wire");
  if (j > 0) VF_ASSERT(wire_calls == 1 && vf_sb_batchbuf_len(&the_sess) == 0, "C17: one write per operation, batch buffer empty afterwards");
  /* store: one record per new application message, keyed by the MsgSeqNum it carried, bytes identical to its wire bytes */
  uint32_t k = 0;
  for (int i = 0; i < J; i++) if (i < j && (uint32_t)i < e_n) {
    int retrans = pre34[i] && (!always || pre43[i]);
    if (with_persist && !retrans && kind[i] == K_APP) {
      VF_ASSERT(k < p_n, "C17: a new application message is stored");
      if (k < p_n && k < NREC) {
        VF_ASSERT(p_seq[k] == e_v34[i], "C17: stored under the MsgSeqNum the message carried on the wire");
        VF_ASSERT(p_len[k] == a_elen[i], "C17: stored length equals transmitted length");
        for (int b = 0; b < ENC_MAX; b++) if (b < a_elen[i] && b < (int)p_len[k]) VF_ASSERT(p_dat[k][b] == a_enc[i][b], "C17: stored bytes equal transmitted bytes");
      }
      k++;
    }
  }
  VF_ASSERT(p_n == k, "C17: administrative messages and retransmissions are not stored (no further records)");
  VF_REACH();
  return 0;
}
