/* C15 (valid streams): M valid messages "8=FIX.4.2|9=<len>|<len symbolic body bytes><7 symbolic trailer bytes>" are put on the
   symbolic stream; the real FIXReader::read is called M times over the socket model (symbolic chunk boundaries) and must
   return each message byte-identical, in order, consuming exactly its bytes. */
#include "vf_h.h"
#include "c15.c"
#ifndef M
#define M 1
#endif
#ifndef DIG
#define DIG 1                 /* digits of BodyLength */
#endif
#ifndef MAXBODY
#define MAXBODY 9
#endif
#ifndef MINBODY
#define MINBODY 1
#endif
static struct S_class_2eFIX8_3a_3aFIXReader the_reader;
static struct S_struct_2eFIX8_3a_3aF8MetaCntx the_ctx;
static uint64_t sock_raw[8];
static vstr the_to;
static uint32_t upd_calls;
void *st_get_ctx(void *s) { return &the_ctx; }
void st_update_received(void *p) { upd_calls++; }
void st_exc3(void *e, void *a, void *b) { } void st_exc2(void *e, void *a) { } void st_exc2u(void *e, uint32_t a) { }
uint32_t cx_len[M], cx_ret[M], cx_thrown[M]; uint8_t cx_stream[STREAM_MAX]; uint32_t cx_stream_len; uint32_t cx_calls;
int main(void)
{
  static const uint8_t bs[] = "FIX.4.2";
  vf_ctx_init(&the_ctx, (uint8_t*)bs, 7);
  vf_reader_init(&the_reader, (struct S_class_2ePoco_3a_3aNet_3a_3aStreamSocket*)sock_raw);
  vf_str_ctor(&the_to);
  VF_ASSERT(vf_bg_sz(&the_reader) == 13, "C15: preamble size for FIX.4.2 is 13");
  static const uint8_t pre[] = "8=FIX.4.2\001" "9="   /* (split literal: CBMC mis-parses the escape \0019) */;
  uint32_t start[M + 1]; uint32_t p = 0;
  for (int m = 0; m < M; m++) {
    uint32_t N = nondet_u32(); VF_ASSUME(N >= MINBODY && N <= MAXBODY);
#if DIG == 1
    VF_ASSUME(N <= 9);
#else
    VF_ASSUME(N >= 10 && N <= 99);
#endif
    cx_len[m] = N; start[m] = p;
    for (uint32_t i = 0; i < 12; i++) vf_stream[p++] = pre[i];
#if DIG == 2
    vf_stream[p++] = '0' + N / 10;
#endif
    vf_stream[p++] = '0' + N % 10; vf_stream[p++] = 1;
    for (uint32_t i = 0; i < MAXBODY; i++) if (i < N) vf_stream[p++] = nondet_u8();
    for (uint32_t i = 0; i < 7; i++) vf_stream[p++] = nondet_u8();
  }
  start[M] = p; vf_stream_len = p;
  __CPROVER_assert(p <= STREAM_MAX, "stream fits");
  for (uint32_t i = 0; i < STREAM_MAX; i++) cx_stream[i] = vf_stream[i];
  cx_stream_len = p;
  for (int m = 0; m < M; m++) {
    uint32_t r = vf_read(&the_reader, &the_to);
    int thrown = __vf_exc_pending; __vf_exc_pending = 0;
    cx_ret[m] = r; cx_thrown[m] = thrown;
    VF_ASSERT(!thrown, "C15: a valid message raises no error");
    VF_ASSERT(r == 1, "C15: a valid message is returned");
    if (r == 1 && !thrown) {
      uint32_t len = start[m + 1] - start[m];
      VF_ASSERT(VS_N(&the_to) == len, "C15: returned length equals the framed length");
      for (uint32_t i = 0; i < 14 + DIG + MAXBODY + 7; i++) if (i < len) VF_ASSERT(VS_P(&the_to)[i] == vf_stream[start[m] + i], "C15: returned bytes are the stream bytes, in order");
      VF_ASSERT(vf_stream_pos == start[m + 1], "C15: exactly the message's bytes were consumed");
      VF_ASSERT(upd_calls == (uint32_t)m + 1, "C15: receipt recorded once per message");
    }
  }
  cx_calls = vf_recv_calls;
  VF_REACH();
  return 0;
}
