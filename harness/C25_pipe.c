/* C25 (pipelined model): the real writer-thread loop FIXWriter::execute pops messages and hands them to Session::send_process;
   application threads call the real FIXWriter::write(Message*,true) / write_batch({a,b},true) in process model pm_pipeline.
   The queue is an abstract FIFO (contract from C30). Interleavings are explored sequentially at operation granularity: the writer
   thread's only shared step is the (blocking) pop, producers' shared steps are the pushes; at every pop, and inside every push of a
   batch (another producer's single write does not take the writer's spin lock in this model), the solver lets other producer
   steps happen.  Oracle: when execute returns (sentinel popped) every message pushed before the sentinel has been processed by
   send_process exactly once, in queue order, each producer's messages in submission order; every message is deleted exactly once
   (ownership passes to the writer); no message is processed after its deletion. */
#include "vf_h.h"
#include "c25p.c"
#ifndef NSINGLE
#define NSINGLE 2             /* single writes */
#endif
#ifndef NBATCH
#define NBATCH 1              /* two-message batches */
#endif
#define NMSG (NSINGLE + 2 * NBATCH)
#define QMAX (NMSG + 2)
typedef struct S_class_2eFIX8_3a_3aMessage MSG;
static struct S_class_2eFIX8_3a_3aFIXWriter the_w;
static struct S_class_2eFIX8_3a_3af8_thread_cancellation_token the_tok;
static MSG msgs[NMSG + 1];
static struct VEC_T vecs[NBATCH + 1]; static MSG *vstore[NBATCH + 1][2];
static MSG *the_sentinel; static int32_t fifo[QMAX]; static uint32_t q_head, q_tail;           /* message index, -1 = sentinel */
static uint32_t n_proc; static int32_t proc[QMAX]; static uint8_t deleted[NMSG + 1], proc_after_delete, batch_split;
static uint32_t singles_done, batches_done; static uint8_t sentinel_pushed, in_batch, nested;
static int32_t pushed[QMAX]; static uint32_t n_pushed;
uint8_t cx_null_pushed; uint8_t cx_act[3 * QMAX]; uint32_t cx_nact; int32_t cx_proc[QMAX], cx_pushed[QMAX]; uint32_t cx_nproc, cx_npushed;
static void sched(int must);
uint8_t st_wq_try_push(void *q, MSG *m)
{
  if (in_batch && !nested && singles_done < NSINGLE && nondet_bool()) {     /* another producer's single write may land between the pushes of a batch */
    nested = 1; uint32_t k = singles_done++; if (cx_nact < sizeof cx_act) cx_act[cx_nact] = 4; cx_nact++; vf_pw_write(&the_w, &msgs[k]); nested = 0; }
  __CPROVER_assert(q_tail < QMAX, "abstract FIFO large enough");
  if (!m) cx_null_pushed = 1;
#ifndef KF_WRITER_NULL_SENTINEL
  /* contract of the real queue (C30): elements are non-null (uSWSR_Ptr_Buffer::push asserts it; a null element is the ring's "empty" mark) */
  VF_ASSERT(m != 0, "C25: only non-null elements are pushed into the inter-thread queue");
#endif
  int32_t id = (m && __CPROVER_POINTER_OBJECT(m) == __CPROVER_POINTER_OBJECT(msgs)) ? (int32_t)(m - msgs) : -1;
  if (id < 0) the_sentinel = m;
  fifo[q_tail++] = id; if (n_pushed < QMAX) { pushed[n_pushed] = id; cx_pushed[n_pushed] = id; } n_pushed++;
  return 1;
}
uint8_t st_wq_pop(void *q, MSG **out)
{
  sched(q_head == q_tail);                                                /* blocking pop: waits until a producer has pushed */
  VF_ASSUME(q_head < q_tail);
  int32_t id = fifo[q_head++]; *out = id < 0 ? the_sentinel : &msgs[id]; return 1;        /* (the stop sentinel: null on the unchanged tree; a pointer outside msgs[] maps to -1 as well) */
}
uint8_t st_send_process(void *sess, MSG *m)
{
  int32_t id = (int32_t)(m - msgs);
  if (id >= 0 && id <= NMSG && deleted[id]) proc_after_delete = 1;
  if (n_proc < QMAX) { proc[n_proc] = id; cx_proc[n_proc] = id; } n_proc++; return 1;
}
void st_delete(void *d, MSG *m) { int32_t id = (int32_t)(m - msgs); if (id >= 0 && id <= NMSG) deleted[id]++; }
uint8_t st_is_shutdown(void *s) { return 0; }
uint8_t st_sess_not_loggable(void *s, uint32_t level) { return 0; }
void st_nop1(void *p) { }
static void sched(int must)
{
  for (int i = 0; i < NMSG + 1; i++) {
    uint8_t can_single = singles_done < NSINGLE, can_batch = batches_done < NBATCH && !in_batch, can_stop = !sentinel_pushed && !in_batch;
    if (!can_single && !can_batch && !can_stop) return;
    uint8_t a = nondet_u8();          /* 0 = nothing now, 1 = single write, 2 = batch, 3 = sentinel (stop) */
    VF_ASSUME(a <= 3 && (a != 1 || can_single) && (a != 2 || can_batch) && (a != 3 || can_stop) && !(must && i == 0 && a == 0));
    if (cx_nact < sizeof cx_act) cx_act[cx_nact] = a; cx_nact++;
    if (a == 0) return;
    if (a == 1) { uint32_t k = singles_done++; uint8_t ok = vf_pw_write(&the_w, &msgs[k]) & 1; __CPROVER_assert(ok, "C25: write reports success"); }
    else if (a == 2) { uint32_t b = batches_done++; in_batch = 1; uint64_t n = vf_pw_write_batch(&the_w, &vecs[b]); in_batch = 0; __CPROVER_assert(n == 2, "C25: write_batch reports both messages"); }
    else { vf_pw_push_sentinel(&the_w); sentinel_pushed = 1; }
  }
}
int main(void)
{
  vf_pw_init(&the_w); vf_tok_init(&the_tok);
  for (int b = 0; b < NBATCH; b++) vf_vec_init2(&vecs[b], vstore[b], &msgs[NSINGLE + 2 * b], &msgs[NSINGLE + 2 * b + 1]);
  sched(0);                                  /* producers may run before the writer thread starts */
  vf_pw_execute(&the_w, &the_tok);
  VF_ASSERT(!__vf_exc_pending, "C25: no exception");
  VF_ASSERT(sentinel_pushed, "C25: the writer loop only ends after the sentinel was pushed");
  cx_nproc = n_proc; cx_npushed = n_pushed;
  /* messages pushed before the sentinel, in queue order, are exactly the processed ones */
  uint32_t k = 0;
  for (uint32_t j = 0; j < QMAX; j++) if (j < n_pushed) {
    if (pushed[j] < 0) break;
    VF_ASSERT(k < n_proc && proc[k] == pushed[j], "C25: every message queued before the sentinel is processed exactly once, in queue order");
    k++;
  }
  VF_ASSERT(n_proc == k, "C25: nothing else is processed");
  VF_ASSERT(!proc_after_delete, "C25: no message is processed after it was deleted");
  for (uint32_t id = 0; id < NMSG; id++) { uint8_t was = 0; for (uint32_t j = 0; j < QMAX; j++) if (j < n_proc && proc[j] == (int32_t)id) was = 1; VF_ASSERT(deleted[id] == was, "C25: a processed message is deleted exactly once by the writer, others are not touched"); }
  /* each producer's submission order: singles in index order, batch members adjacent or at least ordered */
  { int32_t last = -1; for (uint32_t j = 0; j < QMAX; j++) if (j < n_proc && proc[j] < NSINGLE) { VF_ASSERT(proc[j] > last, "C25: single writes keep their submission order"); last = proc[j]; } }
  for (int b = 0; b < NBATCH; b++) { int32_t pa = -1, pb = -1; for (uint32_t j = 0; j < QMAX; j++) if (j < n_proc) { if (proc[j] == NSINGLE + 2 * b) pa = (int32_t)j; if (proc[j] == NSINGLE + 2 * b + 1) pb = (int32_t)j; }
    if (pa >= 0 && pb >= 0) { VF_ASSERT(pa < pb, "C25: the messages of a batch keep their order"); if (pb != pa + 1) batch_split = 1; } }
  cx_act[sizeof cx_act - 1] = batch_split;
  VF_REACH();
  return 0;
}
