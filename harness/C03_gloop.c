/* C03 (object part): termination of MessageBase::decode_group's element loop.
   Message = 8=FIX.4.2|9=12|35=A|49=a|56=b|34=1|52=t|98=0|108=3|384=n|372=v|[385=w|] GGGG 10=ccc|
   GGGG is a 4-byte remainder that is NOT a token (class cx_garb, bytes symbolic inside the class):
     0: first byte neither a digit nor '='                       (e.g. "\001xyz", "abc\001")
     1: 1..3 digits followed by a byte that is neither digit nor '='   (e.g. "12\001x")
   (digits '=' bytes without SOH is not in the space: header and body are decoded with ignore = 0, so such a remainder swallows the
    CheckSum field as its value and IS a token)
   The element definition of Logon::NoMsgTypes has no mandatory field, so an element that decodes nothing is "complete":
   the element loop of decode_group must still stop, because an iteration that consumes no input can never make progress.
   Oracle: the factory returns or throws a fix8 exception having created no more group elements than NEL = 3 (the input holds
   at most two: the pool assertion of codec_world.h is the termination hook; the loops of decode_group carry unwinding assertions). */
#define NX 0
#define NG 0
#define NEL 3
#define VMAXB 6
#define NTOK (3 + 6 + 4 + 1)
#define MAXMSG (20 + 6 * 6 + 6 + 6 + 6 + 4 + 7 + 2)
#define RMAX (NTOK + 1)
#include "codec_world.h"
#include "codec_tok.h"
#define GW 4
uint8_t cx_garb, cx_hasg, cx_g[GW], cx_gcount, cx_two, cx_accept, cx_exc, cx_cs[3];
uint8_t cx_msg[MAXMSG]; uint32_t cx_len, cx_nel, cx_closed;
static uint8_t GSEL, TWO, HASG;
static void tok_const(const char *tag, int tl, uint32_t num, const char *val, int vl, int on)
{
  uint8_t t[5] = { 0 }, v[7] = { 0 };
  for (int j = 0; j < tl; j++) t[j] = (uint8_t)tag[j];
  for (int j = 0; j < vl; j++) v[j] = (uint8_t)val[j];
  TK_add(on, num, t, (uint8_t)tl, v, (uint8_t)vl, (uint32_t)(tl + vl + 2));
}
static int isdig(uint8_t c) { return c >= '0' && c <= '9'; }
static int run(void)
{
  tok_const("8", 1, 8, "FIX.4.2", 7, 1); tok_const("9", 1, 9, "12", 2, 1); tok_const("35", 2, 35, "A", 1, 1);
  tok_const("49", 2, 49, "a", 1, 1); tok_const("56", 2, 56, "b", 1, 1); tok_const("34", 2, 34, "1", 1, 1); tok_const("52", 2, 52, "t", 1, 1);
  tok_const("98", 2, 98, "0", 1, 1); tok_const("108", 3, 108, "3", 1, 1);
  { uint8_t t[5] = { '3', '8', '4', 0, 0 }, v[7] = { (uint8_t)('0' + GSEL), 0 }; TK_add(1, 384, t, 3, v, 1, 6); }
  tok_const("372", 3, 372, "D", 1, 1);
  tok_const("385", 3, 385, "S", 1, TWO);
  int kg = TK_n;
  { uint8_t t[5] = { 0 }, v[7] = { 0 }; TK_add(HASG, 0, t, 0, v, GW - 2, GW); TK_garb[kg] = 1; }     /* the remainder: GW raw bytes, not a token */
  tok_const("10", 2, 10, "000", 3, 1);
  TK_render();
  if (HASG) for (int j = 0; j < GW; j++) W_buf[TK_off[kg] + j] = cx_g[j];
  W_set_input(TK_len); cx_len = TK_len;
  for (int i = 0; i < MAXMSG; i++) cx_msg[i] = W_buf[i];
  W_sum = 0;
  struct S_class_2eFIX8_3a_3aMessage *m = vf_factory(&W_ctx, &W_from, 1, 0);
  int thrown = __vf_exc_pending; int kind = thrown ? W_exc_kind() : -1; __vf_exc_pending = 0;
  cx_accept = !thrown; cx_exc = (uint8_t)kind; cx_nel = (uint32_t)W_nel; cx_closed = (uint32_t)W_el_closed;
  VF_ASSERT(!W_pool_exhausted, "C03: decode_group terminates (element pool not exhausted)");
  VF_ASSERT(!W_rec_overflow && !TK_bad, "harness pools large enough, tokenizer cut consistent");
  VF_ASSERT(W_el_closed <= 1, "C03: decode_group appends no more elements than the input holds");
  VF_ASSERT(!thrown || kind >= 0, "C03: a rejected message raises a fix8 exception");
  VF_REACH();
  return 0;
}
int main(void)
{
  W_setup();
  for (int j = 0; j < GW; j++) cx_g[j] = nondet_u8();
  cx_garb = nondet_u8(); VF_ASSUME(cx_garb <= 1);
  if (cx_garb == 0) VF_ASSUME(!isdig(cx_g[0]) && cx_g[0] != '=');
  else { int nd = isdig(cx_g[0]) ? (isdig(cx_g[1]) ? (isdig(cx_g[2]) ? 3 : 2) : 1) : 0; VF_ASSUME(nd >= 1); VF_ASSUME(!isdig(cx_g[nd]) && cx_g[nd] != '='); }
  cx_hasg = nondet_u8() & 1;                 /* 0: the message without the remainder (the group is followed by the CheckSum field) */
#ifdef KF_GROUP_LOOP
  VF_ASSUME(!cx_hasg);        /* known finding: an unparsable remainder after a group element whose definition has no mandatory field is never consumed */
#endif
  cx_gcount = nondet_u8(); VF_ASSUME(cx_gcount >= '1' && cx_gcount <= '2');
  cx_two = nondet_u8() & 1;
  for (GSEL = 1; GSEL <= 2; GSEL++) if (cx_gcount == '0' + GSEL)
    for (TWO = 0; TWO <= 1; TWO++) if (cx_two == TWO)
      for (HASG = 0; HASG <= 1; HASG++) if (cx_hasg == HASG) return run();
  return 0;
}
