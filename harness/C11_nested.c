/* C11 over a shape with a NESTED repeating group, the source of clone / copy_legal being a DECODED message (schemas/mini2.xml, message List:
   12 ListID, group 13 NoOrders { 14 OrdNo, 15 OrdText, group 16 NoAllocs { 17 AllocNo, 18 AllocText } }).
     m  := the shape's message, built through the public API (every outer element deep-constructed)
     e1 := Message::encode(m)          d := Message::factory(e1)      (the decoder constructs group elements shallow: an element owns a nested
                                                                       group instance only if that group was on the wire)
     MODE 0  c := d.clone();                                   c and d hold the shape;  encode(c) == encode(d) byte for byte
     MODE 1  t := empty deep-constructed List;                 d.copy_legal(t) for body, header, trailer;  counts;  t and d hold the shape;  encode(t) == encode(d)
     MODE 2  t := empty deep-constructed List;                 e0 := encode(d); d.move_legal(t) ...;  counts;  t holds the shape;  encode(t) == e0
     MODE 3  (C01 on the nested shape)                         d holds the shape;  encode(d) == e1
   "holds the shape": header, body, every outer element and every nested element hold exactly the shape's fields of that component in schema
   position order with the ghost values; the outer group has L3_NEL elements; outer element e has L3_NN[e] nested elements (none: no nested
   group instance or an empty one). */
#include "l3_world.h"
#ifndef MODE
#define MODE 0
#endif
#ifndef L3_NEST
#error "C11_nested.c needs a nested shape"
#endif
static int count_comp(int lo, int hi) { int n = 0; for (int i = 0; i < L3_NF; i++) if (L3_F[i].comp >= lo && L3_F[i].comp <= hi) n++; return n; }
static int same_bytes(uint8_t *a, uint64_t na, uint8_t *b, uint64_t nb) { if (na != nb) return 0; int s = 1; for (uint32_t i = 0; i < L3_CAP; i++) if (i < na && a[i] != b[i]) s = 0; return s; }
static int shape_holds(MSG *x)
{
  if (!l3_component_is(vf_header(x), 0, 3) || !l3_component_is((MB*)x, 1, 0)) return 0;
  GB *g = vf_find_group((MB*)x, L3_GTAG);
  if (!g || vf_group_size(g) != L3_NEL) return 0;
  for (int e = 0; e < L3_NEL; e++) {
    MB *el = vf_group_el(g, (uint32_t)e);
    if (!el || !l3_component_is(el, 2 + e, 0)) return 0;
    GB *ng = vf_find_group(el, L3_NTAG);
    if (L3_NN[e] == 0) { if (ng && vf_group_size(ng) != 0) return 0; }
    else {
      if (!ng || (int)vf_group_size(ng) != L3_NN[e]) return 0;
      for (int k = 0; k < L3_NN[e]; k++) { MB *nl = vf_group_el(ng, (uint32_t)k); if (!nl || !l3_component_is(nl, 10 + 4 * e + k, 0)) return 0; }
    }
  }
  return 1;
}
int main(void)
{
  VF_GLOBAL_INIT();
  EXC_OK("L3: static initialisation of the generated classes does not throw");
  MSG *m = l3_build();
  EXC_OK("L3: building the message through the public API does not throw");
  uint64_t n1 = 0; l3_logging = 1; l3_ntok = 0;
  uint8_t *e1 = l3_encode(m, 0, &n1);
  l3_logging = 0;
  EXC_OK("C01: encoding a well-formed message does not throw");
  VF_ASSERT(n1 > 0 && n1 <= L3_CAP && e1 >= l3_buf[0] && e1 + n1 <= l3_buf[0] + sizeof l3_buf[0], "C01: the encoding lies inside the buffer handed to the encoder");
  cx_enclen = (uint32_t)n1; for (uint32_t i = 0; i < L3_CAP; i++) if (i < n1) cx_enc[i] = e1[i];
  l3_take_layout(e1);
  static struct S_class_2estd_3a_3a__cxx11_3a_3abasic_string in; VS_P(&in) = e1; VS_N(&in) = n1; VS_CAP(&in) = n1;      /* as in C01_rt.c */
  VF_ASSERT(e1[n1] == 0, "C01: the encoder terminates its output");
  l3_in_base = e1;
  MSG *d = vf_factory(&in);
  l3_in_base = 0; l3_lastval = 0;
  EXC_OK("C01: the factory accepts the bytes the encoder produced");
  VF_ASSERT(d != 0, "C01: the factory returns a message");
  L3_LEMMA(d != 0 && d == (MSG*)l3_last_msg, "L3 lemma: the factory returns the message it instantiated");
  d = (MSG*)l3_last_msg;
  if (d != 0) {
  VF_ASSERT(shape_holds(d), "C01: the decoded message holds the same fields, values, group elements and nested group elements, in position order");
  /* the premise that makes this shape interesting (checked by the reachability twin, not asserted: it is the decoder's business): an outer
     element decoded without nested elements owns no nested group instance, so the elements of the decoded source are not uniform */
#ifdef L3_NN_HAS0
  { GB *gd = vf_find_group((MB*)d, L3_GTAG);
    for (int e = 0; e < L3_NEL; e++) if (L3_NN[e] == 0 && gd && vf_group_size(gd) == L3_NEL && vf_find_group(vf_group_el(gd, (uint32_t)e), L3_NTAG) == 0) VF_REACH(); }
#endif
  uint64_t n0 = 0, n2 = 0; uint8_t *e0, *e2;
  const int nb = count_comp(1, 1), ng = count_comp(2, 255), nh = count_comp(0, 0);
#if MODE == 0
  MSG *c = vf_clone(d);
  EXC_OK("C11: clone does not throw");
  VF_ASSERT(c != 0 && c != d, "C11: clone returns a new message");
  VF_ASSERT(shape_holds(c), "C11: the clone holds the same fields, values, group elements and nested group elements, in position order");
  VF_ASSERT(shape_holds(d), "C11: cloning leaves the original unchanged");
  e0 = l3_encode(d, 1, &n0); EXC_OK("C11: encoding the original does not throw");
  e2 = l3_encode(c, 2, &n2); EXC_OK("C11: encoding the clone does not throw");
  VF_ASSERT(same_bytes(e0, n0, e2, n2), "C11: the clone encodes to the same bytes as the original");
#elif MODE == 1
  MSG *t = vf_new_msg(L3_MSG, 1);
  uint32_t cb = vf_copy_legal((MB*)d, (MB*)t); EXC_OK("C11: copy_legal (body) does not throw");
  uint32_t ch = vf_copy_legal(vf_header(d), vf_header(t)); EXC_OK("C11: copy_legal (header) does not throw");
  uint32_t ct = vf_copy_legal(vf_trailer(d), vf_trailer(t)); EXC_OK("C11: copy_legal (trailer) does not throw");
  VF_ASSERT((int)cb == nb + ng, "C11: copy_legal reports every body field, every group element field and every nested group element field as copied");
  VF_ASSERT((int)ch == nh, "C11: copy_legal reports every header field the target did not hold yet");
  VF_ASSERT(shape_holds(t), "C11: the target holds every field, group element and nested group element of the source, with its value, in position order");
  VF_ASSERT(shape_holds(d), "C11: copying leaves the source unchanged");
  e0 = l3_encode(d, 1, &n0); EXC_OK("C11: encoding the source does not throw");
  e2 = l3_encode(t, 2, &n2); EXC_OK("C11: encoding the target does not throw");
  VF_ASSERT(same_bytes(e0, n0, e2, n2), "C11: the target of copy_legal encodes to the same bytes as the source");
  (void)ct;
#elif MODE == 2
  MSG *t = vf_new_msg(L3_MSG, 1);
  e0 = l3_encode(d, 1, &n0); EXC_OK("C11: encoding the source does not throw");
  uint32_t mb = vf_move_legal((MB*)d, (MB*)t); EXC_OK("C11: move_legal (body) does not throw");
  uint32_t mh = vf_move_legal(vf_header(d), vf_header(t)); EXC_OK("C11: move_legal (header) does not throw");
  uint32_t mt = vf_move_legal(vf_trailer(d), vf_trailer(t)); EXC_OK("C11: move_legal (trailer) does not throw");
  VF_ASSERT((int)mb == nb && (int)mh == nh, "C11: move_legal reports every field of the source the target did not hold yet");
  VF_ASSERT(shape_holds(t), "C11: the target holds every field, group element and nested group element the source held, with its value, in position order");
  e2 = l3_encode(t, 2, &n2); EXC_OK("C11: encoding the target does not throw");
  VF_ASSERT(same_bytes(e0, n0, e2, n2), "C11: the target of move_legal encodes to the bytes of the original source");
  (void)mt;
#else
  e0 = e1; n0 = n1;
  e2 = l3_encode(d, 1, &n2); EXC_OK("C01: re-encoding the decoded message does not throw");
  VF_ASSERT(same_bytes(e0, n0, e2, n2), "C01: the re-encoding is byte-identical");
#endif
  VF_ASSERT(!gm_bad, "L3: calendar fields are requested for the instants the message carries");
  }
  VF_REACH();
  return 0;
}
