#define NOGROUP
#include "codec_world.h"
int main(void) {
  W_setup();
  int k = 0;
  if (W_hdr.f0.f3.f0.f4 == 0) { for (int i = 0; i < 3; i++) k++; }
  struct S_struct_2eFIX8_3a_3aFieldTrait *r = _ZNK4FIX813presorted_setItNS_10FieldTraitENS1_7CompareEE4findEt(&W_hdr.f0.f3.f0, 49);
  __CPROVER_assert(r == &W_hdr_arr[5], "find 49");
  __CPROVER_assert(0, "end");
}
