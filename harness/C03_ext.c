/* C03 kernel harness: real MessageBase::extract_element(const char*, unsigned, char*, char*) and
   extract_element_fixed_width on a fully symbolic input of sz <= NIN bytes whose storage ends exactly where the
   input ends, with tag/value output buffers of exactly the capacity the real callers give them
   (MessageBase::decode / decode_group: char tag[FIX8_MAX_FLD_LENGTH], val[FIX8_MAX_FLD_LENGTH];
    extract_header / FIXReader::read: char tag[MAX_MSGTYPE_FIELD_LEN=32]).  FIX8_MAX_FLD_LENGTH is scaled to CAPV.
   CBMC's pointer/bounds checks are the memory-safety oracle; the functional assertions pin down the token grammar
   (digits '=' bytes SOH) that the decoder harnesses rely on. */
#include "vf_h.h"
#ifndef KFILE
#define KFILE "c03k.c"
#endif
#include KFILE
#ifndef NIN
#define NIN 40
#endif
#ifndef CAPT
#define CAPT 24            /* capacity of the tag buffer */
#endif
#ifndef CAPV
#define CAPV 24            /* capacity of the value buffer (scaled FIX8_MAX_FLD_LENGTH) */
#endif
#define SOH 1
uint8_t cx_in[NIN + 1]; uint32_t cx_sz, cx_valsz, cx_ret, cx_mode, cx_nd, cx_vlen, cx_capt = CAPT, cx_capv = CAPV;
static int isdig(uint8_t c) { return c >= '0' && c <= '9'; }
int main(void)
{
  const uint32_t sz = NIN;                                  /* the driver runs one query per input length */
  static uint8_t store[NIN + 1]; uint8_t *from = store + 1;  /* the input ends where its object ends (NIN == 0: one-past pointer) */
  for (int i = 0; i < NIN; i++) { cx_in[i] = nondet_u8(); from[i] = cx_in[i]; }
  cx_sz = sz;
  /* shape of the input as the grammar sees it */
  uint32_t nd = 0; int go = 1;
  for (uint32_t i = 0; i < NIN; i++) { if (go && isdig(cx_in[i])) nd++; else go = 0; }             /* leading digits */
  int has_eq = nd < sz && cx_in[nd] == '=';
  uint32_t ve = nd + 1; go = has_eq;
  for (uint32_t i = 0; i < NIN; i++) if (i > nd) { if (go && cx_in[i] != SOH) ve++; else go = 0; }   /* end of the value bytes */
  uint32_t vlen = has_eq ? ve - (nd + 1) : 0; int has_soh = has_eq && ve < sz;
  cx_nd = nd; cx_vlen = vlen;
#ifdef KF_EXTRACT_NOCAP
  /* known finding: the extractors take no capacity; tags/values that do not fit the caller's buffers overflow them */
#if MODE == 0
  VF_ASSUME(nd < CAPT && vlen < CAPV);
#else
  VF_ASSUME(nd < CAPT);
#endif
#endif
  static uint8_t tag[CAPT], val[CAPV];
#if MODE == 0
  cx_mode = 0;
  uint32_t r = vf_extract_element(from, sz, tag, val); cx_ret = r;
  VF_ASSERT(r <= sz, "C03: extract_element consumes no more than the input");
  /* (an extractor that knows the capacity may refuse a token that does not fit; one that does not know it overflows, caught by the bounds checks) */
  VF_ASSERT((r != 0) == (has_eq && has_soh && nd < CAPT && vlen < CAPV), "C03: a token is recognised iff digits '=' bytes SOH (and it fits the buffers)");
  if (r) {
    VF_ASSERT(r == ve + 1, "C03: the token ends at the first SOH after '='");
    int ok = 1;
    for (uint32_t i = 0; i < CAPT; i++) { if (i < nd && tag[i] != cx_in[i]) ok = 0; if (i == nd && tag[i] != 0) ok = 0; }
    for (uint32_t i = 0; i < CAPV; i++) { if (i < vlen && val[i] != cx_in[nd + 1 + i]) ok = 0; if (i == vlen && val[i] != 0) ok = 0; }
    VF_ASSERT(ok, "C03: tag and value are the NUL-terminated text of the token");
#if NIN >= 2
    VF_REACH();                  /* the shortest token is "=" SOH */
#endif
  } else VF_REACH();
#else
  cx_mode = 1;
  uint32_t vs = nondet_u32(); VF_ASSUME(vs <= CAPV - 1);       /* MessageBase::decode refuses larger lengths before the call */
  cx_valsz = vs;
  uint32_t r = 0;
  for (uint32_t k = 0; k < CAPV; k++) if (k == vs) r = vf_extract_element_fw(from, sz, k, tag, val);   /* constant copy lengths */
  cx_ret = r;
#ifdef KF_FW_NOSEP
  int fits = has_eq && nd < CAPT && nd + 1 + vs <= sz;                 /* known finding (C06): the separator after the value is charged for but not examined */
#else
  int fits = has_eq && nd < CAPT && nd + 1 + vs + 1 <= sz && cx_in[nd + 1 + vs] == SOH;
#endif
  VF_ASSERT((r != 0) == fits, "C03: fixed-width token recognised iff digits '=', val_sz bytes and the field separator are available");
  if (r) {
    int ok = 1;
    for (uint32_t i = 0; i < CAPT; i++) { if (i < nd && tag[i] != cx_in[i]) ok = 0; if (i == nd && tag[i] != 0) ok = 0; }
    for (uint32_t i = 0; i < CAPV; i++) { if (i < vs && val[i] != cx_in[nd + 1 + i]) ok = 0; if (i == vs && val[i] != 0) ok = 0; }
    VF_ASSERT(ok, "C03: fixed-width tag and value are the text of the token");
#if defined(C06_SEP) && !defined(KF_FW_NOSEP)
    /* C06 reuses this harness: the data value must be followed by the field separator it is charged for */
    VF_ASSERT(r <= sz && cx_in[r - 1] == SOH, "C06: a length-prefixed value is followed by the field separator that is consumed with it");
#endif
#if NIN >= 2
    VF_REACH();
#endif
  } else VF_REACH();
#endif
  return 0;
}
