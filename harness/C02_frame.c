/* C02 framing: the real Message::encode(char**) - preamble/trailer construction, BodyLength, CheckSum, hlen - with the
   three sub-encoders (header, body, trailer: MessageBase::encode(char*)) cut: each "writes" a symbolic NUMBER of bytes
   n1, n2, n3 (content is irrelevant to framing; nothing is unrolled over the payload).  Real: Message::encode(char**),
   BaseField::encode(char*), Field<f8String>::print, Field<int>::print, itoa<int>, itoa<unsigned>, fmt_chksum, FieldTraits::clear,
   the virtual get_begin_string/get_body_length/get_msg_type/get_check_sum of the header/trailer objects.
   calc_chksum := a sum chosen by the harness (C07), its arguments are checked; fmt_chksum := three digits (checked by C02_fmtsum.c). */
#define NOGROUP
#define NTOK 4
#define WORLD_FILE "world_enc.c"
#include "codec_world.h"
#ifndef LO
#define LO 0
#endif
#ifndef HI
#define HI 120
#endif
#define OFFS 32                       /* HEADER_CALC_OFFSET */
#define OUTSZ (OFFS + HI + 7 + 1)     /* exactly what the message needs: preamble room + payload + "10=ddd|" + NUL */
static uint8_t out[OUTSZ];
static uint32_t n_sub[3]; static int enc_calls, enc_bad;
uint32_t cx_n1, cx_n2, cx_n3, cx_sum, cx_ret, cx_hlen;
/* cut point: MessageBase::encode(char *to) const := claims n_k bytes at `to` (k-th call), checks that the sub-encoders are laid out back to back from *hmsg_store + 32 */
uint64_t st_mb_encode(void *self, void *to)
{
  uint32_t want = OFFS; for (int i = 0; i < 3; i++) if (i < enc_calls) want += n_sub[i];
  if (enc_calls >= 3 || (uint8_t*)to != out + want) enc_bad = 1;
  if (enc_calls == 0 && self != (void*)&W_hdr) enc_bad = 1;
  if (enc_calls == 1 && self != (void*)&W_msg) enc_bad = 1;
  if (enc_calls == 2 && self != (void*)&W_trl) enc_bad = 1;
  return enc_calls < 3 ? n_sub[enc_calls++] : 0;
}
/* cut point: Message::fmt_chksum(unsigned) := the three zero-padded decimal digits of its argument (constant length 3; the real function is checked for
   every value 0..255 by harness/C02_fmtsum.c).  With the real function on a symbolic sum the length of the rendered string is symbolic for the symbolic
   executor and the string copy into the CheckSum field object goes through byte-level updates of that object (its vptr included): no result. */
static uint32_t fmt_calls, fmt_arg;
void st_fmt_chksum(vstr *ret, uint32_t val)
{
  fmt_calls++; fmt_arg = val;
  VS_ZERO_SSO(ret); VS_P(ret) = VS_SSO(ret);
  VS_SSO(ret)[0] = (uint8_t)('0' + (val / 100) % 10); VS_SSO(ret)[1] = (uint8_t)('0' + (val / 10) % 10); VS_SSO(ret)[2] = (uint8_t)('0' + val % 10); VS_SSO(ret)[3] = 0;
  VS_N(ret) = 3;
}
static uint32_t cs_ptr_off, cs_len;
/* (the calc_chksum cut of codec_world.h records its length; the start pointer is checked through W_sum_from) */
/* One concrete-layout run per payload length: the symbolic length cx_T is compared with every value of the window in C code and
   the encoder is run with that value as a constant (each run ends the program, so no state merging); the byte sum stays symbolic.
   With a symbolic length the CheckSum field is stored at a symbolic offset of the output array and the query did not finish
   (tools/reports/C02.md).  Two splits of the payload over the sub-encoders per length: (5, T-5, 0) and (7, T-13, 6). */
static uint32_t TSEL; static uint8_t SPL;
static int run(void)
{
  const uint32_t T = TSEL;
  uint32_t n1 = SPL ? 7 : 5, n3 = SPL ? 6 : 0, n2 = T - n1 - n3;
  cx_n1 = n1; cx_n2 = n2; cx_n3 = n3; n_sub[0] = n1; n_sub[1] = n2; n_sub[2] = n3;
  W_sum = nondet_u32(); VF_ASSUME(W_sum < 256); cx_sum = W_sum;
  uint8_t *store = out;
  /* canaries: the room before the preamble and the 16 bytes behind the terminating NUL (the array is dimensioned for the largest length of the window) */
  for (uint32_t i = 0; i < OFFS; i++) out[i] = 0xAA;
  for (uint32_t i = 0; i < 16; i++) if (OFFS + T + 8 + i < OUTSZ) out[OFFS + T + 8 + i] = 0xAA;
  uint64_t r = vf_encode(&W_msg, &store);
  VF_ASSERT(!__vf_exc_pending, "C02: encoding a message with header, trailer and preamble fields does not throw"); __vf_exc_pending = 0;
  cx_ret = (uint32_t)r;
  VF_ASSERT(!enc_bad && enc_calls == 3, "C02: header, body and trailer are encoded back to back starting at the calculation offset");
  /* digits of BodyLength */
  uint32_t nd = T < 10 ? 1 : T < 100 ? 2 : T < 1000 ? 3 : T < 10000 ? 4 : T < 100000 ? 5 : T < 1000000 ? 6 : 7;
  uint32_t hlen = 10 + 2 + nd + 1; cx_hlen = hlen;          /* "8=FIX.4.2|" + "9=" + digits + "|" */
  VF_ASSERT(store == out + OFFS - hlen, "C02: the encoded message starts exactly hlen bytes before the payload (hlen is the real width of 8= and 9=)");
  VF_ASSERT(r == hlen + T + 7, "C02: the returned length is preamble + payload + CheckSum field");
  if (store == out + OFFS - hlen) {
    const char *bs = "8=FIX.4.2\001" "9="; int ok = 1;
    for (int i = 0; i < 12; i++) if (store[i] != (uint8_t)bs[i]) ok = 0;
    VF_ASSERT(ok, "C02: the message starts with BeginString then BodyLength");
    uint32_t p10 = 1; for (uint32_t i = 1; i < 7; i++) if (i < nd) p10 *= 10;
    int dok = 1;
    for (uint32_t i = 0; i < 7; i++) if (i < nd) { if (store[12 + i] != '0' + (T / p10) % 10) dok = 0; p10 /= 10; }
    VF_ASSERT(dok && store[12 + nd] == 1, "C02: BodyLength is the decimal byte count between the end of the BodyLength field and the start of the CheckSum field");
    uint8_t *t = out + OFFS + T;
    VF_ASSERT(t[0] == '1' && t[1] == '0' && t[2] == '=' && t[3] == '0' + W_sum / 100 && t[4] == '0' + (W_sum / 10) % 10 && t[5] == '0' + W_sum % 10 && t[6] == 1 && t[7] == 0,
              "C02: the message ends with 10=ddd<SOH> (three digits of the checksum) and a terminating NUL");
    VF_ASSERT(W_sum_calls == 1 && W_sum_len == hlen + T && W_sum_from == (void*)store, "C02: the checksum is taken over every byte before the CheckSum field");
    VF_ASSERT(fmt_calls == 1 && fmt_arg == W_sum, "C02: the CheckSum field is rendered from the sum of those bytes");
  }
  { int can = 1;
    for (uint32_t i = 0; i < OFFS; i++) if (i + hlen < OFFS && out[i] != 0xAA) can = 0;
    for (uint32_t i = 0; i < 16; i++) if (OFFS + T + 8 + i < OUTSZ && out[OFFS + T + 8 + i] != 0xAA) can = 0;
    VF_ASSERT(can, "C02: nothing is written before the preamble or behind the terminating NUL"); }
  VF_ASSERT(vf_body_length(&W_hdr) == (uint32_t)T, "C02: the BodyLength field object holds the payload length");
  VF_REACH();
  return 0;
}
uint32_t cx_T; uint8_t cx_split;
int main(void)
{
  W_setup();
  cx_T = nondet_u32(); VF_ASSUME(cx_T >= LO && cx_T <= HI);
  cx_split = nondet_u8() & 1; VF_ASSUME(!cx_split || cx_T >= 13);
  VF_ASSUME(cx_T >= 5);                                  /* the header always encodes at least 35=x| */
  for (TSEL = LO; TSEL <= HI; TSEL++) if (cx_T == TSEL)
    for (SPL = 0; SPL <= 1; SPL++) if (cx_split == SPL) return run();
  return 0;
}
