/* C14: solver search for two different repeating-group definitions with the same sharing key.
   The key is f8c's group_hash (compiler/f8c.cpp): fold of the REAL rothash (translated from the IR) over the member
   tags in ascending order (the order of MessageSpec::_fields' sorted set; a nested group's count tag is one of the
   member tags), then over the keys of the nested groups.  A definition here: 1..3 member tags in [TLO, 9999], at most
   one of them (NEST=1) the count field of a nested group with 1..3 member tags of its own.
   The assertion states injectivity: different definitions => different keys. */
#include "vf_h.h"
#include "c14.c"
#ifndef TLO
#define TLO 1
#endif
#ifndef NEST
#define NEST 0
#endif
#ifndef NMAX
#define NMAX 3
#endif
struct def { int32_t n; uint32_t t[3]; int32_t gi; int32_t gn; uint32_t gt[3]; };   /* gi: index of the member that is a nested group's count field, -1 none */
uint32_t cx_an, cx_at[3], cx_bn, cx_bt[3], cx_keyA, cx_keyB, cx_cn, cx_ct[3], cx_keyC; int32_t cx_agi, cx_agn, cx_bgi, cx_bgn; uint32_t cx_agt[3], cx_bgt[3];
static uint32_t fold(const uint32_t *t, int n) { uint32_t r = 0; for (int i = 0; i < 3; i++) if (i < n) r = vf_rothash(r, t[i]); return r; }
static uint32_t key(const struct def *d)
{
  uint32_t r = fold(d->t, d->n);
  if (d->gi >= 0) r = vf_rothash(r, fold(d->gt, d->gn));
  return r;
}
static struct def nd_def(void)
{
  struct def d; d.n = nondet_i32(); VF_ASSUME(d.n >= 1 && d.n <= NMAX);
  for (int i = 0; i < 3; i++) { d.t[i] = nondet_u32(); VF_ASSUME(d.t[i] >= TLO && d.t[i] <= 9999); if (i > 0 && i < d.n) VF_ASSUME(d.t[i - 1] < d.t[i]); if (i >= d.n) d.t[i] = 0; }
  d.gi = -1; d.gn = 0; for (int i = 0; i < 3; i++) d.gt[i] = 0;
#if NEST
  d.gi = nondet_i32(); VF_ASSUME(d.gi >= -1 && d.gi < d.n);
  if (d.gi >= 0) {
    d.gn = nondet_i32(); VF_ASSUME(d.gn >= 1 && d.gn <= 3);
    for (int i = 0; i < 3; i++) { d.gt[i] = nondet_u32(); VF_ASSUME(d.gt[i] >= TLO && d.gt[i] <= 9999); if (i > 0 && i < d.gn) VF_ASSUME(d.gt[i - 1] < d.gt[i]); if (i >= d.gn) d.gt[i] = 0; }
  }
#endif
  return d;
}
static int same(const struct def *a, const struct def *b)
{
  if (a->n != b->n || a->gi != b->gi || a->gn != b->gn) return 0;
  for (int i = 0; i < 3; i++) if (a->t[i] != b->t[i] || a->gt[i] != b->gt[i]) return 0;
  return 1;
}
#ifdef CHAIN
/* search for a CHAIN: definitions A != B with the same key h and a third definition C with key h + 2 (h + 1 free) - the
   configuration in which the key a colliding definition finally receives depends on how f8c walks the keys already in use.
   The assertion is the search goal; the verdict is the native replay of the three-definition schema (order A, C, B). */
int main(void)
{
  struct def a = nd_def(), b = nd_def(), c = nd_def();
  VF_ASSUME(a.n == 2 && b.n == 2 && c.n == 2);
  cx_an = a.n; cx_bn = b.n; cx_cn = c.n; cx_agi = cx_bgi = -1;
  for (int i = 0; i < 3; i++) { cx_at[i] = a.t[i]; cx_bt[i] = b.t[i]; cx_ct[i] = c.t[i]; }
  uint32_t ka = key(&a), kb = key(&b), kc = key(&c); cx_keyA = ka; cx_keyB = kb; cx_keyC = kc;
  VF_ASSERT(!(ka == kb && !same(&a, &b) && kc == ka + 2 && !same(&a, &c) && !same(&b, &c)), "C14: chained sharing keys (two colliding definitions and a third one two keys above)");
  VF_REACH();
  return 0;
}
#else
int main(void)
{
  struct def a = nd_def(), b = nd_def();
#ifdef SHAPE_N
  VF_ASSUME(a.n == SHAPE_N && b.n == SHAPE_N);       /* search within one shape (same number of members) */
#endif
#if NEST
  VF_ASSUME(a.gi >= 0 || b.gi >= 0);                 /* this instance searches among definitions with a nested group */
#endif
#ifdef KF_GROUP_HASH_SHARING
  VF_ASSUME(key(&a) != key(&b) || same(&a, &b));     /* finding: sharing is decided by equality of a non-injective 32-bit key */
#endif
  cx_an = a.n; cx_bn = b.n; cx_agi = a.gi; cx_bgi = b.gi; cx_agn = a.gn; cx_bgn = b.gn;
  for (int i = 0; i < 3; i++) { cx_at[i] = a.t[i]; cx_bt[i] = b.t[i]; cx_agt[i] = a.gt[i]; cx_bgt[i] = b.gt[i]; }
  uint32_t ka = key(&a), kb = key(&b); cx_keyA = ka; cx_keyB = kb;
  VF_ASSERT(same(&a, &b) || ka != kb, "C14: two different group definitions never get the same sharing key");
  if (same(&a, &b)) VF_REACH(); else VF_REACH();
  return 0;
}
#endif
