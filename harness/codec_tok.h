/* Token table of the token-level driver and the token-oracle cut of MessageBase::extract_element.
   A message is a sequence of tokens  tag(1..5 digits) '=' value(<= 7 bytes) SOH  whose positions are known when the
   harness is compiled; tag digits and value bytes may be symbolic.  TK_render() writes the bytes into W_buf.
   Cut point (unless NO_TOKCUT): MessageBase::extract_element(from, sz, tag, val, tag_sz, val_sz) := the token that starts at `from`:
   copies its tag text and value text NUL-terminated and returns its width, or 0 when the token does not end inside
   sz bytes or its tag / value text does not fit tag_sz / val_sz bytes with the terminator.  This is the functional contract of the real tokenizer on well-formed tokens, established for every byte
   string by the C03_ext_* kernel harnesses ("a token is recognised iff digits '=' bytes SOH", "the token ends at the
   first SOH after '='", "tag and value are the NUL-terminated text of the token"); token values here contain no SOH.
   The cut also checks that W_buf really holds the token it reports. */
#ifndef SOH
#define SOH 1
#endif
#define TKMAX NTOK
#ifndef TKV
#define TKV 7              /* capacity of a token value in the table */
#endif
static uint8_t TK_on[TKMAX], TK_tlen[TKMAX], TK_vlen[TKMAX], TK_tag[TKMAX][5], TK_val[TKMAX][TKV]; static uint32_t TK_num[TKMAX], TK_off[TKMAX], TK_w[TKMAX];
static int TK_n, TK_bad; static uint32_t TK_len; static uint8_t TK_garb[TKMAX];   /* garbage "tokens": raw bytes that are not a token (the harness writes them and states their class): the tokenizer returns 0 there */
static uint8_t TK_isdata[TKMAX];   /* data tokens: value is raw bytes (may hold SOH): only the fixed-width extractor may read them */
/* tlen/vlen may be symbolic only if tlen + vlen is the same for every choice (fixed token width) */
static void TK_add(int on, uint32_t num, const uint8_t *tag, uint8_t tlen, const uint8_t *val, uint8_t vlen, uint32_t width)
{
  int k = TK_n++; TK_w[k] = on ? width : 0;                      /* width: a compile-time constant == tlen + vlen + 2 */
  TK_on[k] = (uint8_t)on; TK_num[k] = num; TK_tlen[k] = tlen; TK_vlen[k] = vlen;
  for (int j = 0; j < 5; j++) TK_tag[k][j] = tag[j];
  for (int j = 0; j < TKV; j++) TK_val[k][j] = val[j];
}
static void TK_render(void)
{
  uint32_t o = 0;
  for (int k = 0; k < TKMAX; k++) if (k < TK_n) {
    TK_off[k] = o;
    if (!TK_on[k]) continue;
    /* bytes of the token at concrete positions: digits, '=', value, SOH */
    uint32_t w = TK_w[k];
    __CPROVER_assert(w == (uint32_t)TK_tlen[k] + TK_vlen[k] + 2u, "token width is tag + value + 2");
    for (uint32_t j = 0; j < 9 + 2; j++) if (j < w) {
      uint8_t b;
      if (j < TK_tlen[k]) b = TK_tag[k][j < 5 ? j : 4];
      else if (j == TK_tlen[k]) b = '=';
      else if (j == w - 1) b = SOH;
      else { uint32_t q = j - TK_tlen[k] - 1u; b = TK_val[k][q < TKV ? q : TKV - 1]; }
      W_buf[o + j] = b;
    }
    o += w;
  }
  TK_len = o;
}
#ifndef NO_TOKCUT
#ifdef EXT_NOCAP
uint32_t st_extract_element(void *fromv, uint32_t sz, void *tagv, void *valv)
{
  const uint32_t tag_sz = 0xffffffffu, val_sz = 0xffffffffu;     /* tree without capacity parameters: the harness tokens are shorter than every buffer */
#else
uint32_t st_extract_element(void *fromv, uint32_t sz, void *tagv, void *valv, uint32_t tag_sz, uint32_t val_sz)
{
#endif
  uint8_t *from = fromv, *tag = tagv, *val = valv;
  uint32_t off = (uint32_t)(from - W_buf);
  if (sz == 0) { *tag = 0; *val = 0; return 0; }
  for (int k = 0; k < TKMAX; k++) if (k < TK_n && TK_on[k] && TK_off[k] == off) {
    if (TK_garb[k]) { *tag = 0; *val = 0; return 0; }          /* not a token (C03_ext_*: recognised iff digits '=' bytes SOH inside sz) */
    if (TK_isdata[k]) {
      /* the byte tokenizer applied to a length-prefixed value: its contract (token ends at the first SOH after '=') yields the token of the table only if
         the value holds no SOH; a value with SOH would be split - reported as a failure of the harness (C06) */
      int hassoh = 0; for (int j = 0; j < TKV; j++) if (j < TK_vlen[k] && TK_val[k][j] == SOH) hassoh = 1;
      if (hassoh) TK_bad = 1;
      __CPROVER_assert(!hassoh, "C06: the byte tokenizer is never applied to a length-prefixed value that holds the field separator");
      __CPROVER_assume(!hassoh);
    }
    if (TK_w[k] > sz) { TK_bad = 1; return 0; }                 /* never the case: every token ends inside the region it is read from */
    if (TK_tlen[k] >= tag_sz || TK_vlen[k] >= val_sz) { *tag = 0; *val = 0; return 0; }   /* capacity contract (repo 4884c13): an element that does not fit the caller's buffers is not extracted */
    for (int j = 0; j < 6; j++) tag[j] = (j < 5 && j < TK_tlen[k]) ? TK_tag[k][j] : 0;     /* text + terminator (bytes after the terminator are never read) */
    for (int j = 0; j < TKV + 1; j++) val[j] = (j < TKV && j < TK_vlen[k]) ? TK_val[k][j] : 0;
    return TK_w[k];
  }
  TK_bad = 1; __CPROVER_assert(0, "the decoder asks for tokens only at token boundaries"); __CPROVER_assume(0); return 0;                     /* the decoder asked for a token at a position where none starts */
}
#endif
