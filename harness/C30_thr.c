/* C30 (b)/(c) bounded threads (CBMC __CPROVER_ASYNC, sequential consistency, every interleaving of shared accesses).
   Payloads are integers: the translation used here has every data pointer type replaced by the integer type PAY (CBMC's
   concurrency encoding does not support pointer-typed writes to shared memory), see props/C30.py.
   WHAT 0 (c): real ff::SWSR_Ptr_Buffer::push/pop, ring of SZ slots, 1 producer (NPUSH pushes, each tried up to TRIES times),
               1 consumer (NPOP pop attempts).
   WHAT 1 (b): real ff::uMPMC_Ptr_Queue::push/pop (token CAS protocol) over NQ sub-queues, each sub-queue an atomic ring;
               2 producers (P1PUSH / P2PUSH pushes), 1 consumer (NPOP pop attempts).
   Spin iterations (CAS retry, waiting for a slot's previous round) are cut at the unwinding bound: a cut iteration is a
   stuttering step (re-reads only), equivalent to the thread being scheduled later. */
#include "vf_h.h"
#include "c30t.c"
#ifndef WHAT
#define WHAT 0
#endif
#ifndef SZ
#define SZ 2
#endif
#ifndef NQ
#define NQ 2
#endif
#ifndef NPUSH
#define NPUSH 2
#endif
#ifndef P1PUSH
#define P1PUSH 1
#endif
#ifndef P2PUSH
#define P2PUSH 1
#endif
#ifndef NPOP
#define NPOP 2
#endif
#ifndef TRIES
#define TRIES 1
#endif
#define NVAL 8
static uint8_t popcnt[NVAL + 1]; static uint8_t bad_order, bad_empty, bad_full, bad_value;
static uint32_t pushed_done, popped_done;           /* ghost counters, incremented atomically after the call returned */
static uint32_t push_started;                       /* ghost: incremented atomically before a push is called */
static uint8_t done_p1, done_p2, done_c;
uint8_t cx_popcnt[NVAL + 1]; uint8_t cx_flags;
static void ghost_inc(uint32_t *c) { __CPROVER_atomic_begin(); (*c)++; __CPROVER_atomic_end(); }
/* pop targets are statics: an address-taken local that goes out of scope after the threads were spawned makes CBMC write its
   (pointer-typed) dead-object bookkeeping, which the thread encoding rejects */
static PAY got_c, got_m;
void st_atomic_long_set(void *p, uint64_t v) { __CPROVER_atomic_begin(); ((struct S_struct_2eff_3a_3aatomic64_t*)p)->f0 = v; __CPROVER_atomic_end(); }
#if WHAT == 0
static struct S_class_2eff_3a_3aSWSR_Ptr_Buffer the_s; static PAY ring[SZ];
static void producer(void)
{
  for (int i = 1; i <= NPUSH; i++) {
    uint8_t ok = 0;
    for (int t = 0; t < TRIES && !ok; t++) {
      uint32_t pop0 = popped_done;
      ok = vf_ts_push(&the_s, (PAY)i) & 1;
      if (!ok && (uint32_t)(i - 1) - pop0 < SZ) bad_full = 1;      /* refused although fewer than SZ elements could be inside */
    }
    if (!ok) break;
    ghost_inc(&pushed_done);
  }
  done_p1 = 1;
}
static void consumer(void)
{
  uint32_t last = 0;
  for (int j = 0; j < NPOP; j++) {
    uint32_t push0 = pushed_done; got_c = 0;
    uint8_t ok = vf_ts_pop(&the_s, &got_c) & 1; PAY got = got_c;
    if (ok) { if (got < 1 || got > NVAL) bad_value = 1; else { popcnt[got]++; if (got != last + 1) bad_order = 1; last = (uint32_t)got; } ghost_inc(&popped_done); }
    else if (push0 > last) bad_empty = 1;                          /* empty reported although an element was fully pushed ahead of this pop */
  }
  done_c = 1;
}
#else
static struct S_class_2eff_3a_3auMPMC_Ptr_Queue the_q; static PAY qbuf[NQ]; static struct S_struct_2eff_3a_3aatomic64_t seqp[NQ], seqc[NQ]; static PAY subs[NQ];
/* atomic ring per sub-queue (handle = index + 1) */
#define RCAP 4
static PAY sring[NQ][RCAP]; static uint32_t shead[NQ], stail[NQ];
uint8_t st_usw_push(void *self, PAY d)
{
  uint64_t i = (uint64_t)self - 1; uint8_t r = 0;
  __CPROVER_atomic_begin(); if (i < NQ && stail[i] < RCAP) { sring[i][stail[i]++] = d; r = 1; } __CPROVER_atomic_end();
  __CPROVER_assert(r, "sub-queue ring large enough"); return r;
}
uint8_t st_usw_pop(void *self, PAY *out)
{
  uint64_t i = (uint64_t)self - 1; uint8_t r = 0;
  __CPROVER_atomic_begin(); if (i < NQ && shead[i] < stail[i]) { *out = sring[i][shead[i]++]; r = 1; } __CPROVER_atomic_end();
  return r;
}
static void producer(int base, int n, int who)
{
  for (int i = 1; i <= n; i++) { ghost_inc(&push_started); vf_tq_push(&the_q, (PAY)(base + i)); ghost_inc(&pushed_done); }
  if (who == 1) done_p1 = 1; else done_p2 = 1;
}
static uint32_t c_popped;
static void consumer(void)
{
  uint32_t last1 = 0, last2 = 4;
  for (int j = 0; j < NPOP; j++) {
    uint32_t push0, start0; __CPROVER_atomic_begin(); push0 = pushed_done; start0 = push_started; __CPROVER_atomic_end(); got_c = 0;
    uint8_t ok = vf_tq_pop(&the_q, &got_c) & 1; PAY got = got_c;
    if (ok) {
      if (got < 1 || got > NVAL) bad_value = 1;
      else { popcnt[got]++; if (got <= 4) { if (got <= last1) bad_order = 1; last1 = (uint32_t)got; } else { if (got <= last2) bad_order = 1; last2 = (uint32_t)got; } }
      c_popped++;
    } else if (push0 == start0 && push0 > c_popped) bad_empty = 1; /* empty although no push was in flight when the pop began and more pushes had
                                                                      completed than were popped: then the element with the next ticket was fully pushed */
  }
  done_c = 1;
}
#endif
int main(void)
{
#if WHAT == 0
  vf_ts_setup(&the_s, ring, SZ);
  __CPROVER_ASYNC_1: producer();
  __CPROVER_ASYNC_2: consumer();
  VF_ASSUME(done_p1 && done_c);
  /* drain what is left, sequentially */
  uint32_t total = pushed_done;
  for (int j = 0; j < NPUSH; j++) { got_m = 0; uint8_t okm = vf_ts_pop(&the_s, &got_m) & 1; PAY got = got_m; if (okm) { if (got >= 1 && got <= NVAL) popcnt[got]++; else bad_value = 1; } }
  for (uint32_t v = 1; v <= NVAL; v++) VF_ASSERT(popcnt[v] == (v <= total ? 1 : 0), "C30: every pushed element is popped exactly once, nothing else appears");
#else
  for (int i = 0; i < NQ; i++) subs[i] = (PAY)(i + 1);
  vf_tq_setup(&the_q, qbuf, seqp, seqc, subs, NQ);
  __CPROVER_ASYNC_1: producer(0, P1PUSH, 1);
  __CPROVER_ASYNC_2: producer(4, P2PUSH, 2);
  __CPROVER_ASYNC_3: consumer();
  VF_ASSUME(done_p1 && done_p2 && done_c);
  for (int j = 0; j < P1PUSH + P2PUSH; j++) { got_m = 0; uint8_t okm = vf_tq_pop(&the_q, &got_m) & 1; PAY got = got_m; if (okm) { if (got >= 1 && got <= NVAL) popcnt[got]++; else bad_value = 1; } }
  for (uint32_t v = 1; v <= NVAL; v++) VF_ASSERT(popcnt[v] == ((v <= P1PUSH) || (v > 4 && v <= 4 + P2PUSH) ? 1 : 0), "C30: every pushed element is popped exactly once, nothing else appears");
#endif
  for (uint32_t v = 0; v <= NVAL; v++) cx_popcnt[v] = popcnt[v];
  cx_flags = bad_order | (bad_empty << 1) | (bad_full << 2) | (bad_value << 3);
  VF_ASSERT(!bad_value, "C30: only pushed values are popped");
  VF_ASSERT(!bad_order, "C30: each producer's elements are popped in the order they were pushed");
  VF_ASSERT(!bad_empty, "C30: pop reports empty only if no element was fully pushed ahead of it");
  VF_ASSERT(!bad_full, "C30: the bounded ring refuses a push only when it is full");
  VF_REACH();
  return 0;
}
