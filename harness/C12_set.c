/* C12: one inductive step of the insertable sorted set from ANY state satisfying the representation invariant
   (keys strictly ascending, _sz <= _rsz, _rsz >= 1, _arr a heap array whose _rsz-th element is the last one of its allocation, or null
   when the allocation is still deferred and the set is empty):  insert(k) / find variants / clear() behave as on a sorted set of
   unique keys, keep the invariant, stay inside their allocations, and insert's iterator points at the inserted element.
   SET 0: generic presorted_set<unsigned short, Elem, ElemLess>      SET 1: the FieldTrait specialisation (Presence), no hash array
   OP 0 insert   1 lookups   2 clear   3 insert(range of 2)
   OP 4 base case: the real constructors (from a sorted array of sz <= NS elements with a reserve percentage; empty with a
        reserve count) establish the invariant
   operator new[] / delete[] are provided here: an allocation of c elements (c <= 2*NS, chosen by case split so that every
   heap object has a constant size) never fails; delete[] frees. */
#include "vf_h.h"
#include "c12.c"
#ifndef NS
#define NS 4
#endif
#ifndef SET
#define SET 0
#endif
#ifndef OP
#define OP 0
#endif
#if SET == 0
typedef struct S_struct_2eElem ELT; typedef struct GSET_T SETT;
#define KEY(e) ((e).f0)
#define PAY(e) ((e).f1)
#define F(n) vf_gs_##n
#else
typedef struct S_struct_2eFIX8_3a_3aFieldTrait ELT; typedef struct PSET_T SETT;
#define KEY(e) ((e).f0)
#define PAY(e) ((e).f3)
#define F(n) vf_ps_##n
#endif
#define CMAX (2 * NS + 2)
static uint8_t *last_new; static uint64_t last_new_bytes; static int n_new, n_del, bad_new;
uint8_t *x__Znam(uint64_t n)
{
  uint8_t *p = 0;
  for (uint64_t c = 0; c <= CMAX; c++) if (n == c * sizeof(ELT)) p = malloc(c * sizeof(ELT));
  if (p == 0) bad_new = 1;
  __CPROVER_assume(p != 0);
  last_new = p; last_new_bytes = n; n_new++;
  return p;
}
static ELT *big, *buf0;      /* the pre-state array is the tail of one heap object of NS elements: it ends where the object ends */
void x__ZdaPv(uint8_t *p) { n_del++; if (p != 0 && p == (uint8_t*)buf0) free(big); else free(p); }
/* memcpy/memmove with symbolic lengths: element-wise copies (CBMC's built-ins are exact for constant sizes only); every
   length the set code passes is a whole number of elements */
void *memcpy(void *d, const void *s, size_t n)
{
  __CPROVER_assert(n % sizeof(ELT) == 0 && n <= CMAX * sizeof(ELT), "C12: copy length is a whole number of elements within the modelled range");
  for (size_t i = 0; i < CMAX; i++) if (i * sizeof(ELT) < n) ((ELT*)d)[i] = ((const ELT*)s)[i];
  return d;
}
void *memmove(void *d, const void *s, size_t n)
{
  ELT tmp[CMAX];
  __CPROVER_assert(n % sizeof(ELT) == 0 && n <= CMAX * sizeof(ELT), "C12: move length is a whole number of elements within the modelled range");
  for (size_t i = 0; i < CMAX; i++) if (i * sizeof(ELT) < n) tmp[i] = ((const ELT*)s)[i];
  for (size_t i = 0; i < CMAX; i++) if (i * sizeof(ELT) < n) ((ELT*)d)[i] = tmp[i];
  return d;
}
static SETT the_set;
uint16_t cx_k[NS], cx_key, cx_key2; uint64_t cx_sz, cx_rsz, cx_reserve; int32_t cx_null, cx_op, cx_set;
int main(void)
{
  uint64_t sz = nondet_u64(), rsz = nondet_u64(), reserve = nondet_u64(); int isnull = nondet_bool();
  VF_ASSUME(sz <= NS && sz <= rsz && rsz >= 1 && rsz <= NS && reserve <= 100);
#if OP == 4 && defined(KF_SET_RESERVE0)
  VF_ASSUME(reserve >= 1);             /* finding: a set constructed empty with reserve 0 has reserved size 0; its first insert writes into a zero-length array */
#endif
  VF_ASSUME(!isnull || sz == 0);
  ELT *buf = 0;
  if (!isnull) { big = malloc(NS * sizeof(ELT)); VF_ASSUME(big != 0); buf = big + (NS - rsz); buf0 = buf; }
  uint16_t k[NS], pay[NS];
  for (int i = 0; i < NS; i++) { k[i] = nondet_u16(); pay[i] = nondet_u16(); cx_k[i] = k[i]; if (i > 0 && (uint64_t)i < sz) VF_ASSUME(k[i - 1] < k[i]); }
  for (int i = 0; i < NS; i++) if ((uint64_t)i < sz) { KEY(buf[i]) = k[i]; PAY(buf[i]) = pay[i]; }
  cx_sz = sz; cx_rsz = rsz; cx_reserve = reserve; cx_null = isnull; cx_op = OP; cx_set = SET;
#if OP == 4
  /* base case: buf (sz sorted elements) is the source table; mode 0: from array, mode 1: empty with a reserve count */
  int empty = nondet_bool(); cx_null = empty;
  VF_ASSUME(!isnull);
  if (empty) { sz = 0; cx_sz = 0; VF_ASSUME(reserve <= NS); }
#if SET == 0
  if (empty) vf_gs_ctor_empty(&the_set, reserve); else vf_gs_ctor_arr(&the_set, buf, sz, reserve);
#else
  if (empty) vf_ps_ctor_empty(&the_set, reserve); else vf_ps_ctor_arr(&the_set, buf, sz, reserve);
#endif
  {
    ELT *a = F(arr)(&the_set); uint64_t s2 = F(sz)(&the_set), r2 = F(rsz)(&the_set);
    VF_ASSERT(!bad_new, "C12: the constructor asks for at most twice the size");
    VF_ASSERT(s2 == sz && s2 <= r2, "C12: a constructed set has its size within the reserved size");
    VF_ASSERT(r2 >= 1, "C12: a constructed set has room for at least one element");
    if (empty) VF_ASSERT(a == 0, "C12: the empty constructor defers the allocation");
    else {
      VF_ASSERT(a == (ELT*)last_new && a != buf && r2 * sizeof(ELT) == last_new_bytes, "C12: the array has exactly the reserved number of elements");
      for (int i = 0; i < NS; i++) if ((uint64_t)i < sz) VF_ASSERT(KEY(a[i]) == k[i] && PAY(a[i]) == pay[i], "C12: the constructor copies the sorted table");
    }
    if (empty) VF_REACH(); else VF_REACH();
  }
#else
#if SET == 0
  vf_gs_setup(&the_set, buf, sz, rsz, reserve);
#else
  vf_ps_setup(&the_set, buf, sz, rsz, reserve, 0);
#endif
#endif
  uint16_t key = nondet_u16(); cx_key = key;
  int present = 0; uint64_t idx = 0, pos = 0;
  for (int i = 0; i < NS; i++) if ((uint64_t)i < sz) { if (k[i] == key) { present = 1; idx = i; } if (k[i] < key) pos++; }
#if OP == 4
#elif OP == 0
  static ELT what; KEY(what) = key; PAY(what) = nondet_u16(); uint16_t wpay = PAY(what);
  uint8_t ins = 2;
  ELT *ret = F(insert)(&the_set, &what, &ins);
  ELT *arr2 = F(arr)(&the_set); uint64_t sz2 = F(sz)(&the_set), rsz2 = F(rsz)(&the_set);
  VF_ASSERT(!bad_new, "C12: insert asks for at most twice the current size");
  VF_ASSERT((ins & 1) == !present, "C12: insert succeeds exactly for a new key");
  VF_ASSERT(sz2 == sz + !present, "C12: the set grows by exactly the new key");
  VF_ASSERT(sz2 <= rsz2, "C12: the size stays within the reserved size");
  VF_ASSERT(arr2 == buf ? (rsz2 == rsz) : (arr2 == (ELT*)last_new && rsz2 * sizeof(ELT) == last_new_bytes), "C12: the live array has exactly the reserved number of elements");
  if (present) {
    VF_ASSERT(ret == arr2 + sz2, "C12: a refused insert returns end()");
    for (int i = 0; i < NS; i++) if ((uint64_t)i < sz) VF_ASSERT(KEY(arr2[i]) == k[i] && PAY(arr2[i]) == pay[i], "C12: a refused insert leaves the elements unchanged");
    VF_REACH();
  } else {
    for (int i = 0; i < NS; i++) if ((uint64_t)i < sz) {
      uint64_t j = (uint64_t)i < pos ? (uint64_t)i : (uint64_t)i + 1;
      VF_ASSERT(KEY(arr2[j]) == k[i] && PAY(arr2[j]) == pay[i], "C12: the old elements keep their order around the new one");
    }
    VF_ASSERT(KEY(arr2[pos]) == key && PAY(arr2[pos]) == wpay, "C12: the new element sits at its sorted position");
    VF_ASSERT(ret == arr2 + pos, "C12: insert returns an iterator to the inserted element");
    VF_ASSERT(KEY(*ret) == key, "C12: the iterator returned by insert can be dereferenced and carries the new key");
    if (arr2 == buf) VF_REACH(); else VF_REACH();
  }
#elif OP == 1
  ELT *arr = buf; ELT *end = arr + sz;
  ELT *r1 = F(find_k)(&the_set, key), *r2 = F(find_kc)(&the_set, key); uint8_t ans = 2; ELT *r3 = F(find_ka)(&the_set, key, &ans);
  VF_ASSERT(r1 == (present ? arr + idx : end) && r2 == r1, "C12: find(key) returns the element with that key, end() when absent");
  VF_ASSERT((ans & 1) == present && r3 == arr + pos, "C12: find(key, answer) reports membership and the sorted position");
#if SET == 1
  ELT *r4 = vf_ps_find_t(&the_set, key), *r5 = vf_ps_find_tc(&the_set, key);
  VF_ASSERT(r4 == r1 && r5 == r1, "C12: find(FieldTrait) agrees with find(key)");
#endif
  if (present) VF_REACH(); else VF_REACH();
#elif OP == 2
  F(clear)(&the_set);
  VF_ASSERT(F(sz)(&the_set) == 0 && F(rsz)(&the_set) == rsz && F(arr)(&the_set) == buf, "C12: clear empties the set and keeps the reserve");
  uint8_t ans = 2; F(find_ka)(&the_set, key, &ans);
  VF_ASSERT((ans & 1) == 0 && F(find_k)(&the_set, key) == F(arr)(&the_set) + 0, "C12: nothing is found in a cleared set");
  VF_REACH();
#elif OP == 3 && SET == 1
  /* range insert: two elements, stops at the first refused one */
  static ELT two[2]; uint16_t key2 = nondet_u16(); cx_key2 = key2; KEY(two[0]) = key; KEY(two[1]) = key2;
  int present2 = key2 == key; for (int i = 0; i < NS; i++) if ((uint64_t)i < sz && k[i] == key2) present2 = 1;
  vf_ps_insert_range(&the_set, two, two + 2);
  ELT *arr2 = F(arr)(&the_set); uint64_t sz2 = F(sz)(&the_set);
  VF_ASSERT(!bad_new, "C12: insert asks for at most twice the current size");
  VF_ASSERT(sz2 == sz + (present ? 0 : 1 + !present2), "C12: a range insert adds the new keys up to the first refused one");
  VF_ASSERT(sz2 <= F(rsz)(&the_set), "C12: the size stays within the reserved size");
  for (int i = 0; i + 1 < 2 * NS; i++) if ((uint64_t)i + 1 < sz2) VF_ASSERT(KEY(arr2[i]) < KEY(arr2[i + 1]), "C12: the set stays strictly sorted");
  if (!present && !present2) VF_REACH(); else VF_REACH();
#endif
  return 0;
}
