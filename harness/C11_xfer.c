/* C11: clone / copy_legal / move_legal on one concrete message shape with symbolic values (real Message::clone, MessageBase::copy_legal,
   move_legal, replace, add_field, Field<T>::copy, the generated deep constructors) compared through the real encoder.
     MODE 0  c := m.clone();                                   encode(c) == encode(m) byte for byte
     MODE 1  t := empty deep-constructed message of m's type;  copy_legal body, header, trailer;  counts;  encode(t) == encode(m); m unchanged
     MODE 2  t := empty deep-constructed message;              e0 := encode(m);  move_legal body, header, trailer;  counts;  encode(t) == e0 */
#include "l3_world.h"
#ifndef MODE
#define MODE 0
#endif
static int count_comp(int lo, int hi) { int n = 0; for (int i = 0; i < L3_NF; i++) if (L3_F[i].comp >= lo && L3_F[i].comp <= hi) n++; return n; }
static int same_bytes(uint8_t *a, uint64_t na, uint8_t *b, uint64_t nb) { if (na != nb) return 0; int s = 1; for (uint32_t i = 0; i < L3_CAP; i++) if (i < na && a[i] != b[i]) s = 0; return s; }
static int shape_holds(MSG *x)
{
  if (!l3_component_is(vf_header(x), 0, 3) || !l3_component_is((MB*)x, 1, 0)) return 0;
#if L3_NEL > 0
  GB *g = vf_find_group((MB*)x, 33);
  if (!g || vf_group_size(g) != L3_NEL) return 0;
  for (int e = 0; e < L3_NEL; e++) { MB *el = vf_group_el(g, (uint32_t)e); if (!el || !l3_component_is(el, 2 + e, 0)) return 0; }
#endif
  return 1;
}
int main(void)
{
  VF_GLOBAL_INIT();
  EXC_OK("L3: static initialisation of the generated classes does not throw");
  MSG *m = l3_build();
  EXC_OK("L3: building the message through the public API does not throw");
  uint64_t n0 = 0, n1 = 0; uint8_t *e0, *e1;
  const int nb = count_comp(1, 1), ng = count_comp(2, 255), nh = count_comp(0, 0);
#if MODE == 0
  MSG *c = vf_clone(m);
  EXC_OK("C11: clone does not throw");
  VF_ASSERT(c != 0 && c != m, "C11: clone returns a new message");
  VF_ASSERT(shape_holds(c), "C11: the clone holds the same fields, values and group elements, in position order");
  VF_ASSERT(shape_holds(m), "C11: cloning leaves the original unchanged");
  e0 = l3_encode(m, 0, &n0); EXC_OK("C11: encoding the original does not throw");
  e1 = l3_encode(c, 1, &n1); EXC_OK("C11: encoding the clone does not throw");
  VF_ASSERT(same_bytes(e0, n0, e1, n1), "C11: the clone encodes to the same bytes as the original");
#elif MODE == 1
  MSG *t = vf_new_msg(L3_MSG, 1);
  uint32_t cb = vf_copy_legal((MB*)m, (MB*)t); EXC_OK("C11: copy_legal (body) does not throw");
  uint32_t ch = vf_copy_legal(vf_header(m), vf_header(t)); EXC_OK("C11: copy_legal (header) does not throw");
  uint32_t ct = vf_copy_legal(vf_trailer(m), vf_trailer(t)); EXC_OK("C11: copy_legal (trailer) does not throw");
  VF_ASSERT((int)cb == nb + ng, "C11: copy_legal reports every body field and every group element field as copied");
  VF_ASSERT((int)ch == nh && ct == 0, "C11: copy_legal reports every header field the target did not hold yet");
  VF_ASSERT(shape_holds(t), "C11: the target holds every field and group element of the source, with its value, in position order");
  VF_ASSERT(shape_holds(m), "C11: copying leaves the source unchanged");
  e0 = l3_encode(m, 0, &n0); EXC_OK("C11: encoding the source does not throw");
  e1 = l3_encode(t, 1, &n1); EXC_OK("C11: encoding the target does not throw");
  VF_ASSERT(same_bytes(e0, n0, e1, n1), "C11: the target of copy_legal encodes to the same bytes as the source");
#else
  MSG *t = vf_new_msg(L3_MSG, 1);
  e0 = l3_encode(m, 0, &n0); EXC_OK("C11: encoding the source does not throw");
  uint32_t mb = vf_move_legal((MB*)m, (MB*)t); EXC_OK("C11: move_legal (body) does not throw");
  uint32_t mh = vf_move_legal(vf_header(m), vf_header(t)); EXC_OK("C11: move_legal (header) does not throw");
  uint32_t mt = vf_move_legal(vf_trailer(m), vf_trailer(t)); EXC_OK("C11: move_legal (trailer) does not throw");
  VF_ASSERT((int)mb == nb && (int)mh == nh && mt == 0, "C11: move_legal reports every field of the source the target did not hold yet");
  VF_ASSERT(shape_holds(t), "C11: the target holds every field and group element the source held, with its value, in position order");
  e1 = l3_encode(t, 1, &n1); EXC_OK("C11: encoding the target does not throw");
  VF_ASSERT(same_bytes(e0, n0, e1, n1), "C11: the target of move_legal encodes to the bytes of the original source");
#endif
  VF_ASSERT(!gm_bad, "C11: calendar fields are requested for the instants the message carries");
  cx_enclen = (uint32_t)n0; for (uint32_t i = 0; i < L3_CAP; i++) if (i < n0) cx_enc[i] = e0[i];
  VF_REACH();
  return 0;
}
