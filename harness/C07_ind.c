/* C07: real Message::calc_chksum (64-bit branch), word loop cut at its header by ir2c (--loopcut):
   base / step / exit of a lane-wise loop invariant in one query, for every buffer size <= NMAX, offset, len.
   Ghost state at the loop header (index ii, a multiple of 4):
     T[k]  sum mod 256 of the range's bytes at positions == k (mod 4) below ii          (k = 0..3)
     C[k]  number mod 256 of carries the word additions so far produced into byte lane k   (k = 1..3)
   Invariant:  byte k of ret == T[k] + C[k];  low byte of overflow == sum_k (C[k] - lane k of overflowtmp);
               lanes of overflowtmp <= iterations since the last flush (so they never spill into the next lane).
   At the cut the loop state and the ghosts are arbitrary values satisfying the invariant. */
#include "vf_h.h"
#include "c07cut.c"
#ifndef NMAX
#define NMAX 65536
#endif
static uint8_t *buf; static uint64_t g_elen, g_eeii; static uint32_t g_off;
static uint8_t T[4], C[4]; static uint64_t ii_at; static int cut_taken; static uint32_t ret_at;
static uint32_t K(uint64_t ii) { return ii <= 256 ? (uint32_t)(ii / 4) : (uint32_t)(((ii - 4) % 256) / 4); }
#define LANE(x, k) ((uint8_t)((x) >> (8 * (k))))
static int at_exit;
static int inv(uint32_t ret, uint32_t overflow, uint32_t otmp, uint64_t ii)
{
  return ii % 4 == 0 && (at_exit ? ii <= g_eeii : ii < g_eeii) && LANE(otmp, 0) == 0
      && LANE(otmp, 1) <= K(ii) && LANE(otmp, 2) <= K(ii) && LANE(otmp, 3) <= K(ii)
      && LANE(ret, 0) == T[0] && LANE(ret, 1) == (uint8_t)(T[1] + C[1]) && LANE(ret, 2) == (uint8_t)(T[2] + C[2]) && LANE(ret, 3) == (uint8_t)(T[3] + C[3])
      && (uint8_t)overflow == (uint8_t)((uint8_t)(C[1] - LANE(otmp, 1)) + (uint8_t)(C[2] - LANE(otmp, 2)) + (uint8_t)(C[3] - LANE(otmp, 3)));
}
void vf_lc_entry(uint32_t *ret, uint32_t *overflow, uint32_t *otmp, uint64_t *ii)
{
  /* ghosts are all zero before the first iteration */
  VF_ASSERT(inv(*ret, *overflow, *otmp, *ii), "C07 base: invariant holds on loop entry");
  *ret = nondet_u32(); *overflow = nondet_u32(); *otmp = nondet_u32(); *ii = nondet_u64();
  for (int k = 0; k < 4; k++) { T[k] = nondet_u8(); C[k] = nondet_u8(); }
  VF_ASSUME(inv(*ret, *overflow, *otmp, *ii));
  ii_at = *ii; ret_at = *ret; cut_taken = 1;
}
static void ghost_step(void)
{
  /* ghost update for the word the iteration consumed */
  uint32_t next = 0;
  for (int k = 0; k < 4; k++) { uint8_t b = buf[g_off + ii_at + k]; T[k] += b; next |= (uint32_t)b << (8 * k); }
  for (int k = 1; k < 4; k++) { uint32_t m = (1u << (8 * k)) - 1; C[k] += (uint8_t)((((ret_at & m) + (next & m)) >> (8 * k)) & 1); }
}
void vf_lc_back(uint32_t ret, uint32_t overflow, uint32_t otmp, uint64_t ii)
{
  ghost_step();
  VF_ASSERT(ii == ii_at + 4 && inv(ret, overflow, otmp, ii), "C07 step: invariant preserved by one iteration (loop continues)");
  VF_REACH();
}
#ifdef VF_COVER
#define LEMMA(c) VF_ASSUME(c)
#else
#define LEMMA(c) do { __CPROVER_assert(c, "C07 exit lemma"); __CPROVER_assume(c); } while (0)
#endif
static uint32_t collapse(uint32_t x) { return x + (x >> 8) + (x >> 16) + (x >> 24); }
void vf_lc_exit(uint32_t ret, uint32_t overflow, uint32_t otmp, uint64_t ii)
{
  /* state after the last word iteration: the invariant (minus ii < eeii) holds, proved here and then used;
     the chain of 8-bit lemmas spells out the re-association the final equality needs */
  ghost_step();
  at_exit = 1;       /* ii < eeii becomes ii <= eeii for the exit state */
  LEMMA(ii == ii_at + 4 && inv(ret, overflow, otmp, ii));
  uint8_t r0 = LANE(ret, 0), r1 = LANE(ret, 1), r2 = LANE(ret, 2), r3 = LANE(ret, 3), c1 = LANE(otmp, 1), c2 = LANE(otmp, 2), c3 = LANE(otmp, 3), ov = (uint8_t)overflow;
  uint8_t S1 = T[0] + T[1], S2 = S1 + T[2], S = S2 + T[3], G1 = C[1], G2 = G1 + C[2], G = G2 + C[3];
  uint8_t x1 = r0 + r1, x2 = x1 + r2, x3 = x2 + r3;
  LEMMA(x1 == (uint8_t)(S1 + G1)); LEMMA(x2 == (uint8_t)(S2 + G2)); LEMMA(x3 == (uint8_t)(S + G));
  uint8_t y1 = ov + c1, y2 = y1 + c2, y3 = y2 + c3;
  LEMMA(y1 == (uint8_t)(C[1] + (uint8_t)(C[2] - c2) + (uint8_t)(C[3] - c3)));
  LEMMA(y2 == (uint8_t)(G2 + (uint8_t)(C[3] - c3)));
  LEMMA(y3 == G);
  LEMMA((uint8_t)collapse(ret) == x3);
  LEMMA((uint8_t)collapse(otmp) == (uint8_t)(c1 + c2 + c3));
  LEMMA((uint8_t)(overflow + collapse(otmp)) == y3);
  LEMMA((uint8_t)(collapse(ret) - (overflow + collapse(otmp))) == S);
  ii_at = ii;
}
uint64_t cx_sz; uint32_t cx_off; int32_t cx_len; uint32_t cx_ret;
int main(void)
{
  uint64_t sz = nondet_u64(); uint32_t off = nondet_u32(); int32_t len = nondet_i32();
  VF_ASSUME(sz <= NMAX && off <= sz && len >= -1 && (len == -1 || (uint64_t)off + (uint64_t)len <= sz));
#ifdef KF_OFFSET_REMAINDER      /* known finding: offset>0 with len==-1 */
  VF_ASSUME(!(off > 0 && len == -1));
#endif
  g_off = off; g_elen = len == -1 ? sz - off : (uint64_t)len; g_eeii = g_elen - g_elen % 8;
  uint64_t objsz = off + g_elen;               /* the object ends where the requested range ends */
  buf = malloc(objsz ? objsz : 1); VF_ASSUME(buf != 0);
  cx_sz = sz; cx_off = off; cx_len = len;
  uint32_t r = vf_calc_chksum(buf, sz, off, (uint32_t)len);
  cx_ret = r;
  uint8_t tp = cut_taken ? (uint8_t)(T[0] + T[1] + T[2] + T[3]) : 0; uint64_t from = cut_taken ? ii_at : 0;
  VF_ASSERT(g_elen - from <= 7, "C07 exit: at most the 7-byte tail remains after the word loop");
  for (uint64_t k = from; k < g_elen; k++) tp += buf[off + k];
  VF_ASSERT(r == tp, "C07 exit: result is the byte sum of exactly the requested range mod 256");
  if (cut_taken) VF_REACH();
  if (!cut_taken && g_elen == 7) VF_REACH();
  return 0;
}
