/* C24: real Schedule::test (Tickval ctor/adjust/in_range/get_tm/as_tm as inlined by the compiler) against the window
   predicate W(cfg, t) of the property statement, with a symbolic clock.
   MODE 0  daily:  test(prev)@t == W(t) for every prev (memoryless)
   MODE 1  weekly, start-up base case: test(true)@t == W(t)   (Session's constructor sets _active = true)
   MODE 2  weekly, inductive step: prev == W(t0), t0 <= t1 <= t0 + 60 s  =>  test(prev)@t1 == W(t1)
   An instant is chosen by its local calendar components (day number since the epoch, second of the day, nanosecond);
   the UTC instant handed to the code by the clock stub is computed from them (multiplications only), so the code's own
   divisions (now % day, to_time_t) are the only ones the solver has to invert.
   Externals: std::chrono::system_clock::now() returns the harness's instant; gmtime_r checks that it is asked for
   exactly the local second and returns tm_wday by the calendar contract (1970-01-01 was a Thursday: wday = (day + 4)
   mod 7); every other tm field is left arbitrary. */
#include "vf_h.h"
struct S_struct_2etm;
#include "c24.c"
#define SEC 1000000000LL
#define MIN (60 * SEC)
#define DAY (86400 * SEC)
#ifndef MODE
#define MODE 0
#endif
#ifndef DMAX
#define DMAX 84000                     /* day number: about year 2199; errorticks is 2262 */
#endif
struct inst { int64_t D, sod, ns; };
int64_t cx_t0, cx_t1, cx_start, cx_end; int32_t cx_off, cx_sd, cx_ed, cx_prev, cx_mode, cx_got, cx_want;
static int64_t g_now; static struct inst g_loc; static int now_calls, gm_calls, gm_ok;
static int64_t local_of(struct inst i) { return (i.D * 86400 + i.sod) * SEC + i.ns; }
/* external: std::chrono::_V2::system_clock::now() */
uint64_t x__ZNSt6chrono3_V212system_clock3nowEv(void) { now_calls++; return (uint64_t)g_now; }
/* external: gmtime_r */
struct S_struct_2etm *x_gmtime_r(uint64_t *t, struct S_struct_2etm *res)
{
  int64_t secs = (int64_t)*t; gm_calls++;
  gm_ok = secs == g_loc.D * 86400 + g_loc.sod;                   /* asked for exactly the local second */
  res->f0 = nondet_u32(); res->f1 = nondet_u32(); res->f2 = nondet_u32(); res->f3 = nondet_u32(); res->f4 = nondet_u32(); res->f5 = nondet_u32();
  res->f6 = (uint32_t)((g_loc.D + 4) % 7);                       /* tm_wday of that second */
  res->f7 = nondet_u32(); res->f8 = 0; res->f9 = 0; res->f10 = 0;
  return res;
}
/* the window predicate of the statement, on local time */
static int W(struct inst i, int64_t start, int64_t end, int sd, int ed)
{
  int64_t tod = i.sod * SEC + i.ns;
  if (sd < 0) return start <= tod && tod <= end;
  int64_t wday = (i.D + 4) % 7;
  int64_t p = wday * DAY + tod, S = sd * DAY + start, E = ed * DAY + end;     /* position in the week */
  return S <= E ? (S <= p && p <= E) : (p >= S || p <= E);
}
static struct inst nd_inst(void)
{
  struct inst i; i.D = nondet_i32(); i.sod = nondet_i32(); i.ns = nondet_i32();
  VF_ASSUME(i.D >= 2 && i.D <= DMAX && i.sod >= 0 && i.sod < 86400 && i.ns >= 0 && i.ns < SEC);
  return i;
}
static int same(struct inst a, struct inst b) { return a.D == b.D && a.sod == b.sod && a.ns == b.ns; }
static void body(int64_t start, int64_t end, int off, int sd, int ed, struct inst i0, struct inst i1)
{
  VF_ASSUME(off >= -720 && off <= 840);
  VF_ASSUME(0 <= start && start < end && end < DAY);            /* what create_schedule accepts: HH:MM:SS, end after start */
  int64_t t0 = local_of(i0) - (int64_t)off * MIN, t1 = local_of(i1) - (int64_t)off * MIN;   /* the UTC instants */
  VF_ASSUME(t1 >= t0);
#if MODE == 0
  VF_ASSUME(sd == -1 && ed == -1 && same(i0, i1));
  int prev = nondet_bool();
#else
  VF_ASSUME(sd >= 0 && sd <= 6 && ed >= 0 && ed <= 6);
#ifdef SD
  VF_ASSUME(sd == SD);
#endif
#ifdef ED
  VF_ASSUME(ed == ED);
#endif
#if MODE == 1
  VF_ASSUME(same(i0, i1));
  int prev = 1;
#else
  VF_ASSUME(t1 - t0 <= 60 * SEC);
  int prev = W(i0, start, end, sd, ed);
#endif
#endif
  cx_t0 = t0; cx_t1 = t1; cx_start = start; cx_end = end; cx_off = off; cx_sd = sd; cx_ed = ed; cx_prev = prev; cx_mode = MODE;
  g_now = cx_t1; g_loc = i1;         /* (the cx_ copies are used below so that formula slicing keeps them in the trace) */
  int got = vf_sched_test((uint64_t)cx_start, (uint64_t)cx_end, (uint32_t)cx_off, (uint32_t)cx_sd, (uint32_t)cx_ed, (uint8_t)cx_prev) & 1;
  int want = W(i1, cx_start, cx_end, cx_sd, cx_ed) && cx_t0 <= cx_t1;
  cx_got = got; cx_want = want;
  VF_ASSERT(now_calls == 1, "C24: the clock is read once per test");
#if MODE == 0
  VF_ASSERT(got == want, "C24: daily schedule is active exactly when the local time of day is within [start, end]");
#else
  VF_ASSERT(gm_calls == 1 && gm_ok, "C24: the weekday is taken for exactly the local second");
#if MODE == 1
  VF_ASSERT(got == want, "C24: weekly schedule, first test after start-up reports the window predicate");
#else
  VF_ASSERT(got == want, "C24: weekly schedule, a test at most 60 s after a correct state reports the window predicate");
#endif
#endif
  if (want) VF_REACH(); else VF_REACH();
}
int main(void)
{
#if defined(VF_COVER) && defined(COVER_CONCRETE)
  /* reachability twin on two concrete scenarios (inside / outside the window); CBMC constant-folds each branch */
  struct inst a = { 19730, 36000, 5 }, a0 = { 19730, 35970, 5 }, b = { 19735, 84600, 5 }, b0 = { 19735, 84570, 5 };   /* day 19730 = 2024-01-08, a Monday */
  if (nondet_bool()) body(9 * 3600 * SEC, 17 * 3600 * SEC, 60, MODE ? 1 : -1, MODE ? 5 : -1, MODE == 2 ? a0 : a, a);
  else body(9 * 3600 * SEC, 17 * 3600 * SEC, 60, MODE ? 1 : -1, MODE ? 5 : -1, MODE == 2 ? b0 : b, b);
#else
  int64_t start = nondet_i64(), end = nondet_i64(); int off = nondet_i32(), sd = nondet_i32(), ed = nondet_i32();
  struct inst i0 = nd_inst(), i1 = nd_inst();
  body(start, end, off, sd, ed, i0, i1);
#endif
  return 0;
}
