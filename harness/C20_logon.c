/* C20, reconnect: the counterparty's Logon may carry a MsgSeqNum above the one expected (messages were sent while we were
   disconnected).  One real Session::process step on a Logon (acceptor: pre-state wait_for_logon; initiator: logon_sent) whose
   CompIDs are right and whose number is expected + g, g >= 0.  Oracle: the session does not terminate for this sequence reason:
   no Logout, not stopped, no exception; for g > 0 a ResendRequest from the expected number is captured. */
#include "sess_in_world.h"
#ifndef ROLE
#define ROLE cn_acceptor
#endif
uint32_t cx_expected, cx_g, cx_role = ROLE;
int main(void)
{
  world_init(1);
  uint32_t expected = nondet_u32(), g = nondet_u32(); VF_ASSUME(expected >= 1 && expected <= 0x7fffffffu && g <= 0x7fffffffu - expected);       /* FIX SeqNum domain (positive int) */
#ifdef KF_LOGON_GAP
  VF_ASSUME(g == 0);
#endif
  cx_expected = expected; cx_g = g;
  vf_conn_set((struct S_class_2eFIX8_3a_3aConnection*)&the_conn, ROLE, 1, 30, 0);
  vf_sess_set_seq(BASE, 5, expected); vf_sess_set_active(BASE, 1); vf_sess_set_req_seq(BASE, 0, 0);
  vf_sess_set_flags(BASE, 1, 0, 0, 0, 0);
  uint8_t s[1] = { 'S' }, t[1] = { 'T' };
#if ROLE == cn_acceptor
  vf_sess_set_state(BASE, st_wait_for_logon); vf_sess_set_sci(BASE, s, 1); uint8_t z[1] = { 0 }; vf_sess_set_sid(BASE, z, 0, z, 0);
#else
  vf_sess_set_state(BASE, st_logon_sent); vf_sess_set_sid(BASE, s, 1, t, 1);
#endif
  uint8_t type[2] = { 'A', 0 }; msg_init(type, 1); vf_msg_set_compids(&the_msg, t, 1, s, 1); m_sci[0] = 'T'; m_sci_n = 1; m_tci[0] = 'S'; m_tci_n = 1;
  m_is_admin = 1; m_auth = 1; m_has_reset = 0; m_has_hbi = 1; m_hbi = 30; m_has_pd = 0; m_has_st = 1; m_st = 1000; m_has_ost = 0;
  uint32_t seq = expected + g;
  
  uint8_t raw[12]; uint32_t rawn = raw_abs(raw, seq);
  uint8_t ret = vf_process(SESS, raw, rawn);
  int thrown = __vf_exc_pending; __vf_exc_pending = 0;
  int logout = 0, resend = 0; uint32_t rb = 0;
  for (int i = 0; i < VF_OUTMAX; i++) if (i < out_n) { if (out_kind[i] == G_LOGOUT) logout++; if (out_kind[i] == G_RESEND_REQUEST) { resend++; rb = out_a[i]; } }
  VF_ASSERT(!out_bad, "C20: recorder consistent");
  VF_ASSERT(!thrown && !logout && !(vf_sess_is_shutdown_flag(BASE) & 1) && vf_sess_state(BASE) != st_session_terminated,
            "C20: a Logon numbered at or above the expected number does not terminate the session");
#ifndef KF_LOGON_GAP
  if (g > 0) { VF_ASSERT(resend == 1 && rb == expected, "C20: a Logon above the expected number is followed by a ResendRequest from the expected number"); VF_REACH(); }
#endif
  if (g == 0) { VF_ASSERT(resend == 0, "C20: no ResendRequest without a gap"); VF_REACH(); }
  VF_REACH();
  return 0;
}
