/* C04 / C05 token-level driver: the real Message::factory -> extract_header -> Message::decode -> MessageBase::decode
   (header, body, trailer) [-> decode_group] over the FIX42UTEST tables of header / Logon / NoMsgTypes / trailer.
   Message = "8=FIX.4.2|9=12|35=A|" + slots + "10=ccc|":
       X0  49=a  56=b  34=1  52=t  X1  98=0  108=3  X2 [X3 X4]
   the six fixed tokens are the mandatory fields of header and Logon (one of them may be dropped: selector cx_drop);
   every Xi is absent or a token whose tag is chosen from MENU (header/body/trailer tags, a tag of another message,
   a tag outside the field table, tags == known tag mod 65536, a repeat of the preamble) with a value of 2..6 symbolic
   bytes (tag digits + value bytes = 7, so that every token is 9 bytes wide).  The oracle is a reference acceptor over the token list and the same trait tables (codec_tables.h). */
#ifndef NX
#define NX 3
#endif
#define NEL 3
#define VMAXB 6
#define MAXMSG (20 + 6 * 6 + NX * 9 + 7 + 2)
#define RMAX (6 + NX + 1)
#include "codec_world.h"
#ifndef PERM
#define PERM 0
#endif
#ifndef NSYM
#define NSYM 0
#endif
#define SOH 1
struct tokdef { const char *txt; uint8_t len; uint32_t num; };
static const struct tokdef MENU[] = {
  { "50", 2, 50 },        /* 0 header optional */
  { "49", 2, 49 },        /* 1 header mandatory (a repeat when the fixed one is present) */
  { "141", 3, 141 },      /* 2 body optional */
  { "98", 2, 98 },        /* 3 body mandatory (repeat) */
  { "89", 2, 89 },        /* 4 trailer optional */
  { "7", 1, 7 },          /* 5 field of the schema, not of this message */
  { "9999", 4, 9999 },    /* 6 not a field of the schema */
  { "65585", 5, 65585 },  /* 7 == 49 mod 65536 */
  { "65677", 5, 65677 },  /* 8 == 141 mod 65536 */
  { "35", 2, 35 },        /* 9 repeat of the preamble's MsgType */
  { "383", 3, 383 },      /* 10 body optional */
};
#define NMENU 11
#define ABSENT 255
/* token list in message order (fixed and chosen ones) */
#define NTOK (6 + NX)
static uint32_t T_num[NTOK]; static uint8_t T_on[NTOK], T_vlen[NTOK], T_val[NTOK][6]; static uint32_t T_off[NTOK], T_end[NTOK]; static int nt;
static uint32_t o;
static void put(uint8_t c) { __CPROVER_assume(o < MAXMSG); W_buf[o] = c; o++; }
static void puts_(const char *s, int n) { for (int i = 0; i < n; i++) put((uint8_t)s[i]); }
uint8_t cx_ch[NX], cx_v[NX][6], cx_drop, cx_cs[3], cx_nochk, cx_perm = PERM, cx_accept, cx_exc, cx_t2 = '=', cx_t6 = SOH;
uint8_t cx_msg[MAXMSG]; uint32_t cx_len, cx_sum;
static void tok_fixed(const char *tag, int tl, uint32_t num, uint8_t v, int dropped)
{
  T_num[nt] = num; T_on[nt] = !dropped; T_vlen[nt] = 1; T_val[nt][0] = v; T_off[nt] = o;
  if (!dropped) { puts_(tag, tl); put('='); put(v); put(SOH); }
  T_end[nt] = o; nt++;
}
/* a chosen token occupies a slot of exactly 9 bytes at a position known when the harness is compiled (which slots are
   present is the compile-time mask PRES; the dropped mandatory token the compile-time DROP): tag (1..5 digits) '='
   value (7 - digits symbolic bytes, 2..6) SOH.  Only the content of the slots is symbolic, never the layout. */
#ifndef PRES
#define PRES ((1 << NX) - 1)
#endif
#define SLOTW 9
static void tok_x(int i)
{
  uint8_t c = nondet_u8(), v[6];
  for (int j = 0; j < 6; j++) { v[j] = nondet_u8(); VF_ASSUME(v[j] != SOH && v[j] != 0); }   /* string values: no separator, no NUL (C06 covers raw data) */
  VF_ASSUME(c < NMENU);
#ifdef MENUMASK
  VF_ASSUME((MENUMASK >> c) & 1);
#endif
#ifdef FIXCH
  if (i >= NSYM) c = FIXCH;
#endif
  int on = (PRES >> i) & 1;
  cx_ch[i] = on ? c : ABSENT; for (int j = 0; j < 6; j++) cx_v[i][j] = v[j];
  T_on[nt] = on; T_num[nt] = 0; T_vlen[nt] = 0; T_off[nt] = o;
  if (on) {
    for (int m = 0; m < NMENU; m++) if (c == m) {
      int L = MENU[m].len; T_num[nt] = MENU[m].num; T_vlen[nt] = (uint8_t)(7 - L);
      for (int j = 0; j < L; j++) W_buf[o + j] = (uint8_t)MENU[m].txt[j];
      W_buf[o + L] = '=';
      for (int j = 0; j < 6; j++) if (j < 7 - L) { W_buf[o + L + 1 + j] = v[j]; }
      W_buf[o + 8] = SOH;
    }
    for (int j = 0; j < 6; j++) T_val[nt][j] = v[j];
    o += SLOTW;
  }
  T_end[nt] = o; nt++;
}
static int in_tab(const FT *t, int n, uint32_t num) { for (int i = 0; i < n; i++) if (t[i].fnum == num) return 1; return 0; }
static int mand(const FT *t, int n, uint32_t num) { for (int i = 0; i < n; i++) if (t[i].fnum == num) return t[i].traits & 1; return 0; }

int main(void)
{
  W_setup();
  /* ---- build the message */
  puts_("8=FIX.4.2\001" "9=12\001" "35=A\001", 20);   /* (adjacent literals: CBMC misreads an octal escape followed by a digit) */
#ifndef DROP
#define DROP 0
#endif
  const uint8_t drop = DROP; cx_drop = drop;            /* which mandatory token is left out (0 none): one query per value */
  tok_x(0);
  tok_fixed("49", 2, 49, 'a', drop == 1); tok_fixed("56", 2, 56, 'b', drop == 2); tok_fixed("34", 2, 34, '1', drop == 3); tok_fixed("52", 2, 52, 't', drop == 4);
  tok_x(1);
  tok_fixed("98", 2, 98, '0', drop == 5); tok_fixed("108", 3, 108, '3', drop == 6);
  for (int i = 2; i < NX; i++) tok_x(i);
  uint32_t body_end = o;
  uint8_t c0 = nondet_u8(), c1 = nondet_u8(), c2 = nondet_u8(); VF_ASSUME(c0 >= '0' && c0 <= '9' && c1 >= '0' && c1 <= '9' && c2 >= '0' && c2 <= '9');
  cx_cs[0] = c0; cx_cs[1] = c1; cx_cs[2] = c2;
  uint8_t t2 = '=', t6 = SOH;
#ifdef SYMTRL
  t2 = nondet_u8(); t6 = nondet_u8(); cx_t2 = t2; cx_t6 = t6;
#endif
  put('1'); put('0'); put(t2); put(c0); put(c1); put(c2); put(t6);
  W_set_input(o); cx_len = o;
  for (int i = 0; i < MAXMSG; i++) cx_msg[i] = W_buf[i];
  W_sum = nondet_u32(); VF_ASSUME(W_sum < 256); cx_sum = W_sum;        /* the byte sum of the message (calc_chksum's contract, C07) */
  uint8_t nochk = nondet_u8() & 1; cx_nochk = nochk;
#ifdef NOCHK
  nochk = NOCHK;
#endif
  /* ---- reference acceptor */
  int conform = 1, order_ok = 1, wrap = 0, autodup = 0, region = 0, regw = 0, nexp = 0;
  uint8_t seen_h[VF_N_HDR] = { 0 }, seen_b[VF_N_BODY] = { 0 }, seen_t[VF_N_TRL] = { 0 };
  for (int i = 0; i < VF_N_HDR; i++) if (vf_hdr_traits[i].fnum == 8 || vf_hdr_traits[i].fnum == 9 || vf_hdr_traits[i].fnum == 35) seen_h[i] = 1;   /* the preamble */
  uint8_t E_comp[NTOK]; int E_tok[NTOK];
  for (int k = 0; k < NTOK; k++) if (T_on[k]) {
    uint32_t num = T_num[k]; uint32_t w = num & 0xffff;
    if (num > 65535) wrap = 1;
    if (num == 8 || num == 9 || num == 35) autodup = 1;
    int h = in_tab(vf_hdr_traits, VF_N_HDR, num), b = in_tab(vf_body_traits, VF_N_BODY, num), t = in_tab(vf_trl_traits, VF_N_TRL, num) && num != 10;
    int r = h ? 0 : b ? 1 : t ? 2 : -1;
    if (r < 0 || r < region) conform = 0; else region = r;
    /* the same with tags reduced mod 65536 (what the decoder's unsigned short sees): used only by the known-finding assumptions */
    { int hw = in_tab(vf_hdr_traits, VF_N_HDR, w), bw = in_tab(vf_body_traits, VF_N_BODY, w), tw = in_tab(vf_trl_traits, VF_N_TRL, w) && w != 10;
      int rw = hw ? 0 : bw ? 1 : tw ? 2 : -1; if (rw < 0 || rw < regw) order_ok = 0; else regw = rw; }
    if (r == 0) for (int i = 0; i < VF_N_HDR; i++) if (vf_hdr_traits[i].fnum == num) { if (seen_h[i]) conform = 0; seen_h[i] = 1; }
    if (r == 1) for (int i = 0; i < VF_N_BODY; i++) if (vf_body_traits[i].fnum == num) { if (seen_b[i]) conform = 0; seen_b[i] = 1; }
    if (r == 2) for (int i = 0; i < VF_N_TRL; i++) if (vf_trl_traits[i].fnum == num) { if (seen_t[i]) conform = 0; seen_t[i] = 1; }
    E_comp[nexp] = (uint8_t)(r < 0 ? 255 : r); E_tok[nexp] = k; nexp++;
  }
  for (int i = 0; i < VF_N_HDR; i++) if ((vf_hdr_traits[i].traits & 1) && !seen_h[i]) conform = 0;
  for (int i = 0; i < VF_N_BODY; i++) if ((vf_body_traits[i].traits & 1) && !seen_b[i]) conform = 0;
  int cs_ok = (c0 - '0') * 100 + (c1 - '0') * 10 + (c2 - '0') == (int)W_sum;
  int frame_ok = t2 == '=' && t6 == SOH;
#ifdef KF_TAG_WRAP
  VF_ASSUME(!wrap);              /* known finding: tags above 65535 are reduced mod 65536 */
#endif
#ifdef KF_TAIL_DROPPED
  VF_ASSUME(order_ok);           /* known finding: decoding stops at the first tag foreign to the current component and the rest of the message is ignored */
#endif
#ifdef KF_AUTO_DUP
  VF_ASSUME(!autodup);           /* known finding: repeated BeginString/BodyLength/MsgType tokens are skipped silently */
#endif
#ifdef KF_TRAILER_FRAME
  VF_ASSUME(frame_ok);           /* known finding: the '=' and the SOH of the CheckSum field are not examined */
#endif
  /* ---- run */
  struct S_class_2eFIX8_3a_3aMessage *m = vf_factory(&W_ctx, &W_from, nochk, PERM);
  int thrown = __vf_exc_pending; int kind = thrown ? W_exc_kind() : -1; __vf_exc_pending = 0;
  cx_accept = !thrown; cx_exc = (uint8_t)kind;
  VF_ASSERT(!W_pool_exhausted && !W_rec_overflow, "harness pools large enough");
  if (!thrown) {
    VF_ASSERT(m == (void*)&W_msg && W_msg_created == 1, "C04: the factory returns the message it created for MsgType A");
#if PERM == 0
    VF_ASSERT(nochk || cs_ok, "C04: accepted only with a correct checksum");
    VF_ASSERT(frame_ok, "C04: accepted only when the message ends with a well-formed CheckSum field 10=ddd<SOH>");
    VF_ASSERT(conform, "C04: accepted only if every tag is legal where it appears, nothing repeats and all mandatory fields are present");
    int same = W_nrec == nexp;
    for (int j = 0; j < NTOK; j++) if (j < nexp && j < W_nrec) {
      int k = E_tok[j]; struct W_rec_s *r = &W_rec[j];
      if (r->comp != E_comp[j] || r->tag != T_num[k] || r->vlen != T_vlen[k]) same = 0;
      for (int q = 0; q < 6; q++) if (q < T_vlen[k] && r->val[q] != T_val[k][q]) same = 0;
      if (j > 0 && W_rec[j - 1].comp == r->comp && W_rec[j - 1].pos >= r->pos) same = 0;
    }
    VF_ASSERT(same, "C04: an accepted message retains every token: same component, tag and value text, in order");
    VF_ASSERT(vf_body_length(&W_hdr) == 12 && vf_msg_type(&W_hdr)[0] == 'A' && vf_msg_type(&W_hdr)[1] == 0, "C04: BodyLength and MsgType of the preamble are stored");
    if (!nochk) { uint8_t *cs = vf_check_sum(&W_trl); VF_ASSERT(cs[0] == c0 && cs[1] == c1 && cs[2] == c2 && cs[3] == 0, "C04: CheckSum text is stored"); }
#endif
    VF_REACH();
  } else {
    VF_ASSERT(kind >= 0, "C04: a rejected message raises one of the decoder's documented exceptions");
#if PERM == 0
    VF_ASSERT(!(conform && frame_ok && (nochk || cs_ok)), "C04: a conforming message with a correct checksum is accepted");
#endif
    if (kind == X_BadCheckSum) VF_REACH(); else if (kind == X_DuplicateField) VF_REACH(); else if (kind == X_MissingMandatoryField) VF_REACH();
  }
#if PERM == 1
#include "C05_perm.inc"
#endif
  return 0;
}
