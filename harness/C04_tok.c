/* C04 / C05 token-level driver: the real Message::factory -> extract_header -> Message::decode -> MessageBase::decode
   (header, body, trailer) [-> decode_group] with fast_atoi, the Presence/FieldTraits hash lookups, F8MetaCntx::find_be
   and GeneratedTable::find_ptr over the FIX42UTEST tables of header / Logon / NoMsgTypes / trailer.
   Message = "8=FIX.4.2|9=12|35=A|" + slots + "10=ccc|" with the slots
       X0  49=a  56=b  34=1  52=t  X1  98=0  108=3  X2 [X3 X4]        (NG > 0: X1 is  384=n G0 .. G(NG-1))
   The six fixed tokens are the mandatory fields of header and Logon; DROP (compile time) leaves one of them out.
   PRES / GPRES (compile time) say which Xi / Gi exist.  An existing slot is a 9-byte token: a tag chosen symbolically
   from MENU (header/body/trailer tags, a tag of another message, a tag outside the field table, tags == known tag
   mod 65536, a repeat of the preamble, group-element tags) '=' (7 - digits) symbolic value bytes SOH.  The layout is
   therefore fixed per query; tags and values are symbolic.
   TOKCUT (default): MessageBase::extract_element is cut and replaced by its contract over this token table
   (codec_tok.h; the contract is what the C03_ext_* kernel harnesses prove about the real tokenizer).  Without TOKCUT
   the real tokenizer runs on the bytes (thorough tier, small instances).
   The oracle is a reference acceptor over the token list and the trait tables (codec_tables.h). */
#ifndef NX
#define NX 3
#endif
#ifndef NG
#define NG 0               /* group tokens following 384= in slot X1 */
#endif
#define NEL 3
#define VMAXB 6
#define NTOK (3 + 6 + NX + NG + 1)
#define MAXMSG (20 + 6 * 6 + (NX + NG) * 9 + 7 + 2)
#define RMAX (NTOK + 1)
#include "codec_world.h"
#include "codec_tok.h"
#ifndef PERM
#define PERM 0
#endif
#ifndef PRES
#define PRES ((1 << NX) - 1)
#endif
#ifndef GPRES
#define GPRES ((1 << NG) - 1)
#endif
#ifndef DROP
#define DROP 0
#endif
#ifdef DROPALL
static uint8_t DROPV;      /* which mandatory token is left out: 1..6, case split in main (one concrete run each) */
#else
#define DROPV DROP
#endif
struct tokdef { const char *txt; uint8_t len; uint32_t num; };
static const struct tokdef MENU[] = {
  { "50", 2, 50 },        /* 0 header optional */
  { "49", 2, 49 },        /* 1 header mandatory (a repeat when the fixed one is present) */
  { "141", 3, 141 },      /* 2 body optional */
  { "98", 2, 98 },        /* 3 body mandatory (repeat) */
  { "89", 2, 89 },        /* 4 trailer optional */
  { "7", 1, 7 },          /* 5 field of the schema, not of this message */
  { "5000", 4, 5000 },    /* 6 not a field of the schema */
  { "65585", 5, 65585 },  /* 7 == 49 mod 65536 */
  { "65677", 5, 65677 },  /* 8 == 141 mod 65536 */
  { "35", 2, 35 },        /* 9 repeat of the preamble's MsgType */
  { "383", 3, 383 },      /* 10 body optional */
  { "372", 3, 372 },      /* 11 group element field #1 */
  { "385", 3, 385 },      /* 12 group element field #2 */
};
#define NMENU 13
#ifndef MENUMASK
#define MENUMASK 0x7ff     /* plain slots: everything but the group-element tags */
#endif
#ifndef GMENUMASK
#define GMENUMASK 0x1c44   /* group slots: 372, 385, 383 and 141 (body fields: end the group), 5000 */
#endif
#define ABSENT 255
uint8_t cx_ch[6], cx_v[6][6], cx_drop = DROP, cx_cs[3], cx_nochk, cx_perm = PERM, cx_accept, cx_exc, cx_gcount;
uint8_t cx_msg[MAXMSG]; uint32_t cx_len, cx_sum; uint8_t cx_conform, cx_order_ok, cx_wrap, cx_autodup, cx_gcount_ok, cx_permlead; uint32_t cx_ulen[3], cx_uwant;
static int nsym;
static void tok_const(const char *tag, int tl, uint32_t num, const char *val, int vl, int on)
{
  uint8_t t[5] = { 0 }, v[7] = { 0 };
  for (int j = 0; j < tl; j++) t[j] = (uint8_t)tag[j];
  for (int j = 0; j < vl; j++) v[j] = (uint8_t)val[j];
  TK_add(on, num, t, (uint8_t)tl, v, (uint8_t)vl, (uint32_t)(tl + vl + 2));
}
/* a 9-byte token with symbolic value bytes; its tag is MENU[SEL[slot]] where the selector array is filled by main's case
   split: the symbolic choice cx_ch[slot] is compared with every menu index in turn and the decoder is run once per
   combination with that index as a constant (the symbolic executor then follows the decoder's control flow on concrete
   tags and concrete offsets; all combinations are covered, the values, the checksum and the flags stay symbolic) */
static uint8_t SEL[6], GSEL;
static void tok_sym(int on)
{
  uint8_t v[7] = { 0 }, t[5] = { 0 }; int m = SEL[nsym]; uint8_t L = MENU[m].len;
  for (int j = 0; j < 6; j++) { v[j] = cx_v[nsym][j]; if (j >= 7 - L) v[j] = 0; }
  for (int j = 0; j < 5; j++) t[j] = j < L ? (uint8_t)MENU[m].txt[j] : 0;
  nsym++;
  TK_add(on, MENU[m].num, t, L, v, (uint8_t)(7 - L), 9);
}
static int in_tab(const FT *t, int n, uint32_t num) { for (int i = 0; i < n; i++) if (t[i].fnum == num) return 1; return 0; }

static int run(void)
{
  /* ---- build the message */
  tok_const("8", 1, 8, "FIX.4.2", 7, 1); tok_const("9", 1, 9, "12", 2, 1); tok_const("35", 2, 35, "A", 1, 1);
  int first = TK_n;
  tok_sym(PRES & 1);
  tok_const("49", 2, 49, "a", 1, DROPV != 1); tok_const("56", 2, 56, "b", 1, DROPV != 2); tok_const("34", 2, 34, "1", 1, DROPV != 3); tok_const("52", 2, 52, "t", 1, DROPV != 4);
#if NG > 0 && !defined(GLAST)
  int gtok = TK_n;
  { uint8_t gc = (uint8_t)('0' + GSEL); uint8_t t[5] = { '3', '8', '4', 0, 0 }, v[7] = { gc, 0 }; TK_add(1, 384, t, 3, v, 1, 6); }     /* count digit: constant inside this run (case split in main) */
  for (int g = 0; g < NG; g++) tok_sym((GPRES >> g) & 1);
#elif NG == 0
  tok_sym((PRES >> 1) & 1);
#endif
  tok_const("98", 2, 98, "0", 1, DROPV != 5); tok_const("108", 3, 108, "3", 1, DROPV != 6);
#if NG > 0 && defined(GLAST)     /* the group is the last field of the body: 98=0|108=3|384=n|G0..|[X2..]10=ccc| */
  int gtok = TK_n;
  { uint8_t gc = (uint8_t)('0' + GSEL); uint8_t t[5] = { '3', '8', '4', 0, 0 }, v[7] = { gc, 0 }; TK_add(1, 384, t, 3, v, 1, 6); }
  for (int g = 0; g < NG; g++) tok_sym((GPRES >> g) & 1);
#endif
  for (int i = 2; i < NX; i++) tok_sym((PRES >> i) & 1);
  int last = TK_n;                                   /* tokens first..last-1 follow the preamble */
  uint8_t c0 = nondet_u8(), c1 = nondet_u8(), c2 = nondet_u8(); VF_ASSUME(c0 >= '0' && c0 <= '9' && c1 >= '0' && c1 <= '9' && c2 >= '0' && c2 <= '9');
  cx_cs[0] = c0; cx_cs[1] = c1; cx_cs[2] = c2;
  { uint8_t t[5] = { '1', '0', 0, 0, 0 }, v[7] = { c0, c1, c2, 0 }; TK_add(1, 10, t, 2, v, 3, 7); }
  TK_render();
  W_set_input(TK_len); cx_len = TK_len;
  for (int i = 0; i < MAXMSG; i++) cx_msg[i] = W_buf[i];
  W_sum = nondet_u32(); VF_ASSUME(W_sum < 256); cx_sum = W_sum;        /* the byte sum of the message (calc_chksum's contract, C07) */
  uint8_t nochk = nondet_u8() & 1;
#ifdef NOCHK
  nochk = NOCHK;
#endif
  cx_nochk = nochk;
  /* ---- reference acceptor over tokens first..last-1 */
  int conform = 1, order_ok = 1, wrap = 0, autodup = 0, region = 0, nexp = 0, gcount_ok = 1;
  uint8_t seen_h[VF_N_HDR] = { 0 }, seen_b[VF_N_BODY] = { 0 }, seen_t[VF_N_TRL] = { 0 };
  for (int i = 0; i < VF_N_HDR; i++) if (vf_hdr_traits[i].fnum == 8 || vf_hdr_traits[i].fnum == 9 || vf_hdr_traits[i].fnum == 35) seen_h[i] = 1;   /* the preamble */
  uint8_t E_comp[NTOK]; int E_tok[NTOK]; int U_tok[NTOK]; int nunk = 0;
  int ing = 0, nelem = 0, elem_has1 = 0, elem_has2 = 0;      /* inside the repeating group: element bookkeeping */
  int permlead = 0, lead_b = 0;
  for (int k = first; k < last; k++) if (TK_on[k]) {
    uint32_t num = TK_num[k];
    if (num > 65535) wrap = 1;
    if (num == 8 || num == 9 || num == 35) autodup = 1;
#if NG > 0
    if (ing && (num == 372 || num == 385)) {
      /* group element tokens: an element starts with field #1 (372); 385 may follow inside the element; no repeats inside an element */
      if (num == 372) { nelem++; elem_has1 = 1; elem_has2 = 0; }
      else { if (!nelem || elem_has2) conform = 0; elem_has2 = 1; }
      if (nelem > NEL) conform = 0;
      E_comp[nexp] = (uint8_t)(nelem ? C_EL0 + nelem - 1 : 254); E_tok[nexp] = k; nexp++;
      continue;
    }
    if (ing) { ing = 0; if (nelem != cx_gcount - '0') gcount_ok = 0; }
#endif
    int h = in_tab(vf_hdr_traits, VF_N_HDR, num), b = in_tab(vf_body_traits, VF_N_BODY, num), t = in_tab(vf_trl_traits, VF_N_TRL, num) && num != 10;
    int r = h ? 0 : b ? 1 : t ? 2 : -1;
#if PERM == 1
    if (r < 0) { U_tok[nunk++] = k; continue; }      /* permissive mode: a tag of no component of this message is an unknown token; the rest must conform */
    /* class of the known finding KF_PERM_LEAD: an unknown token followed by a known field of the component that is being decoded when it is met
       (then that component's decode returns the end of the message and the later components see nothing): before a header field - the body's
       mandatory fields go missing; before a body field - the trailer's fields are lost */
    if (nunk > 0 && r == 0) permlead = 1;
    if (nunk > 0 && r == 1) lead_b = 1;
    if (lead_b && r == 2) permlead = 1;
#endif
    /* order_ok: every tag (by its true number) belongs to the component being decoded or a later one - the class the tail-dropping known finding
       excludes; tags above 65535 belong to no component (trees that reduce them mod 65536 additionally fall under KF_TAG_WRAP) */
    if (r < 0 || r < region) { conform = 0; order_ok = 0; } else region = r;
    if (r == 0) for (int i = 0; i < VF_N_HDR; i++) if (vf_hdr_traits[i].fnum == num) { if (seen_h[i]) conform = 0; seen_h[i] = 1; }
    if (r == 1) for (int i = 0; i < VF_N_BODY; i++) if (vf_body_traits[i].fnum == num) { if (seen_b[i]) conform = 0; seen_b[i] = 1; }
    if (r == 2) for (int i = 0; i < VF_N_TRL; i++) if (vf_trl_traits[i].fnum == num) { if (seen_t[i]) conform = 0; seen_t[i] = 1; }
    E_comp[nexp] = (uint8_t)(r < 0 ? 255 : r); E_tok[nexp] = k; nexp++;
#if NG > 0
    if (num == 384 && k == gtok && cx_gcount != '0') { ing = 1; nelem = 0; elem_has1 = elem_has2 = 0; }
#endif
  }
#if NG > 0
  if (ing && nelem != cx_gcount - '0') gcount_ok = 0;
#endif
  for (int i = 0; i < VF_N_HDR; i++) if ((vf_hdr_traits[i].traits & 1) && !seen_h[i]) conform = 0;
  for (int i = 0; i < VF_N_BODY; i++) if ((vf_body_traits[i].traits & 1) && !seen_b[i]) conform = 0;
  int cs_ok = (c0 - '0') * 100 + (c1 - '0') * 10 + (c2 - '0') == (int)W_sum;
  cx_conform = (uint8_t)conform; cx_order_ok = (uint8_t)order_ok; cx_wrap = (uint8_t)wrap; cx_autodup = (uint8_t)autodup; cx_gcount_ok = (uint8_t)gcount_ok;
  cx_permlead = (uint8_t)permlead;
#ifdef KF_PERM_LEAD
  VF_ASSUME(!permlead);          /* known finding (permissive mode): an unknown field ahead of a known field of the same component */
#endif
#ifdef KF_TAG_WRAP
  VF_ASSUME(!wrap);              /* known finding: tags above 65535 are reduced mod 65536 */
#endif
#ifdef KF_TAIL_DROPPED
  VF_ASSUME(order_ok);           /* known finding: decoding stops at the first tag foreign to the current component and the rest of the message is ignored */
#endif
#ifdef KF_AUTO_DUP
  VF_ASSUME(!autodup);           /* known finding: repeated BeginString/BodyLength/MsgType tokens are skipped silently */
#endif
#ifndef ORACLE_WITH_GROUP_COUNT
  /* oracle correction (not a known finding): the statement of C04 lists the conditions for acceptance (checksum, legal tags,
     no repeats, mandatory fields, elements start with the first field); equality of the NoXXX value and the number of elements
     decoded is not among them, so messages with a differing count are outside what this harness judges */
  VF_ASSUME(gcount_ok);
#endif
  /* ---- run */
  struct S_class_2eFIX8_3a_3aMessage *m = vf_factory(&W_ctx, &W_from, nochk, PERM);
  int thrown = __vf_exc_pending; int kind = thrown ? W_exc_kind() : -1; __vf_exc_pending = 0;
  cx_accept = !thrown; cx_exc = (uint8_t)kind;
  VF_ASSERT(!W_pool_exhausted && !W_rec_overflow && !TK_bad, "harness pools large enough, tokenizer cut consistent");
  if (!thrown) {
    VF_ASSERT(m == &W_msg && W_msg_created == 1, "C04: the factory returns the message it created for MsgType A");
    int same = W_nrec == nexp;
    for (int j = 0; j < NTOK; j++) if (j < nexp && j < W_nrec) {
      int k = E_tok[j]; struct W_rec_s *r = &W_rec[j];
      if (r->comp != E_comp[j] || r->tag != TK_num[k] || r->vlen != TK_vlen[k]) same = 0;
      for (int q = 0; q < 6; q++) if (q < TK_vlen[k] && r->val[q] != TK_val[k][q]) same = 0;
      if (j > 0 && W_rec[j - 1].comp == r->comp && W_rec[j - 1].pos >= r->pos) same = 0;
    }
#if NG > 0
    { /* a group element that received a field must end up in its group: an element decoded and then discarded loses its fields */
      unsigned used = 0; int nused = 0;
      for (int j = 0; j < RMAX; j++) if (j < W_nrec && W_rec[j].comp >= C_EL0 && W_rec[j].comp < C_EL0 + NEL) used |= 1u << (W_rec[j].comp - C_EL0);
      for (int e = 0; e < NEL; e++) if ((used >> e) & 1) nused++;
      if (conform) VF_ASSERT(W_el_closed == nused, "C04/C05: every group element that received a field is appended to its group (no decoded field is lost)");
    }
#endif
#if PERM == 0
    VF_ASSERT(nochk || cs_ok, "C04: accepted only with a correct checksum");
    VF_ASSERT(conform, "C04: accepted only if every tag is legal where it appears, nothing repeats, group elements start with field #1 and all mandatory fields are present");
    VF_ASSERT(gcount_ok, "C04: accepted only if the group count equals the number of elements");
    VF_ASSERT(same, "C04: an accepted message retains every token: same component, tag and value text, in order");
    VF_ASSERT(vf_body_length(&W_hdr) == 12 && vf_msg_type(&W_hdr)[0] == 'A' && vf_msg_type(&W_hdr)[1] == 0, "C04: BodyLength and MsgType of the preamble are stored");
    if (!nochk) { uint8_t *cs = vf_check_sum(&W_trl); VF_ASSERT(cs[0] == c0 && cs[1] == c1 && cs[2] == c2 && cs[3] == 0, "C04: CheckSum text is stored"); }
#endif
#if PERM == 1
#include "C05_perm.inc"
#endif
#if DROP == 0 && !defined(DROPALL)
    VF_REACH();
#endif
  } else {
#if PERM == 1
    VF_ASSERT(!(conform && (nochk || cs_ok)), "C05: a message whose only deviation is the presence of unknown tags is accepted in permissive mode");
#endif
    VF_ASSERT(kind >= 0, "C04: a rejected message raises one of the decoder's documented exceptions");
#if PERM == 0
    VF_ASSERT(!(conform && gcount_ok && (nochk || cs_ok)), "C04: a conforming message with a correct checksum is accepted");
#endif
#if (DROP != 0 || defined(DROPALL)) && PERM == 0
    if (kind == X_MissingMandatoryField) VF_REACH();        /* a mandatory token is left out: rejection is the reachable end */
#endif
  }
  return 0;
}
/* slot s (in message order: X0, then X1 or G0.., then X2..) -> exists?, menu mask */
#define NS (NX + NG - (NG > 0))
static int slot_on(int s)
{
#if NG > 0
  if (s == 0) return PRES & 1; if (s <= NG) return (GPRES >> (s - 1)) & 1; return (PRES >> (s - NG + 1)) & 1;
#else
  return (PRES >> s) & 1;
#endif
}
static uint32_t slot_mask(int s)
{
#if NG > 0
#ifdef GMENUMASK0
  if (s == 1) return GMENUMASK0;          /* the first group slot may have its own (smaller) menu */
#endif
  if (s >= 1 && s <= NG) return GMENUMASK;
#endif
  return MENUMASK;
}
#define LEVEL(s) for (SEL[s] = 0; SEL[s] < ((s) < NS && slot_on(s) ? NMENU : 1); SEL[s]++) if (!((s) < NS && slot_on(s)) || (cx_ch[s] == SEL[s] && ((slot_mask(s) >> SEL[s]) & 1)))
int main(void)
{
  W_setup();
  for (int s = 0; s < NS; s++) {
    cx_ch[s] = nondet_u8(); VF_ASSUME(cx_ch[s] < NMENU);
    for (int j = 0; j < 6; j++) { cx_v[s][j] = nondet_u8(); VF_ASSUME(cx_v[s][j] != SOH && cx_v[s][j] != 0); }   /* string values: no separator, no NUL (C06 covers raw data) */
  }
#if NG > 0
  cx_gcount = nondet_u8(); VF_ASSUME(cx_gcount >= '0' && cx_gcount <= '0' + NG);
  for (GSEL = 0; GSEL <= NG; GSEL++) if (cx_gcount == '0' + GSEL)
#endif
#ifdef DROPALL
  cx_drop = nondet_u8(); VF_ASSUME(cx_drop >= 1 && cx_drop <= 6);
  for (DROPV = 1; DROPV <= 6; DROPV++) if (cx_drop == DROPV)
#endif
  LEVEL(0) LEVEL(1) LEVEL(2) LEVEL(3) LEVEL(4) LEVEL(5) { return run(); }      /* one concrete-tag run per combination; each run ends the program */
  return 0;
}
