/* C16: inductive step of "new messages are numbered consecutively and the control record equals the session's numbers
   after each send" over the scenario of sessb_send.h */
#include "sessb_send.h"
int main(void)
{
  scenario();
  VF_ASSERT(!__vf_exc_pending, "C16: send does not throw"); __vf_exc_pending = 0;
  { int refused = 0; for (int k = 0; k < NREC; k++) if (((uint32_t)k < p_n && !p_ok[k]) || ((uint32_t)k < c_att_n && !c_ok[k])) refused = 1;
    if (!refused) VF_ASSERT(op == 2 ? ok == j : ok == 1, "C16: every message of the operation is reported as sent (when the store accepted every put)"); }
  VF_ASSERT(e_n == j, "C16: every message of the operation is encoded exactly once");

  /* oracle (statement of C16).  A message is a retransmission when it already carries its original MsgSeqNum (under
     always_seqnum_assign: only when it is also flagged PossDup; an unflagged one is renumbered as new), a gap fill when
     it is a SequenceReset; explicit numbering overrides (custom_seqnum / no_increment) are caller-chosen
     numbers and excluded from the consecutive-numbering clause only. */
  uint32_t run = n;
  for (int i = 0; i < J; i++) if (i < j && (uint32_t)i < e_n) {
    VF_ASSERT(e_msg[i] == (uint32_t)i, "C16: messages are transmitted in the order given");
    int retrans = pre34[i] && (!always || pre43[i]), gapfill = kind[i] == K_SEQRESET, override_ = custom != 0 || noinc;
    VF_ASSERT(e_has34[i], "C16: every transmitted message carries a MsgSeqNum");
    if (!retrans && !gapfill && !override_) {
      VF_ASSERT(e_v34[i] == run, "C16: a new message carries the number following the previous new message");
      VF_ASSERT(!e_has43[i], "C16: a new message is not flagged PossDup");
      run++;
    }
    if (retrans && !always) VF_ASSERT(e_v34[i] == cx_orig[i] && e_has43[i] && e_v43[i], "C16: a retransmission keeps its number and is flagged PossDup");
    /* wire view: any message that goes out unflagged and is not a SequenceReset occupies a number */
  }
  VF_ASSERT(vf_sess_next_send(SESS) == run, "C16: the next send number is one past the last new message");
  VF_ASSERT(vf_sess_next_recv(SESS) == r, "C16: sending does not move the expected receive number");
  /* uniqueness on the wire: two messages transmitted without PossDupFlag (other than SequenceResets) never share a number,
     and a later new message never re-uses the number of an unflagged one */
  for (int i = 0; i < J; i++) for (int k = i + 1; k < J; k++) if (k < j && (uint32_t)k < e_n)
    if (!e_has43[i] && !e_has43[k] && kind[i] != K_SEQRESET && kind[k] != K_SEQRESET && custom == 0 && !noinc)
      VF_ASSERT(e_v34[i] != e_v34[k], "C16: no two distinct new messages share a number");
  for (int i = 0; i < J; i++) if (i < j && (uint32_t)i < e_n && !e_has43[i] && kind[i] != K_SEQRESET && custom == 0 && !noinc)
    VF_ASSERT(e_v34[i] < vf_sess_next_send(SESS), "C16: the number of an unflagged message is not handed out again");
  if (with_persist) {
#ifdef STALE_CTRL
    int wrote = 0; for (int i = 0; i < J; i++) if (i < j && !(pre34[i] && (!always || pre43[i]))) wrote = 1;
    if (wrote)
#endif
    VF_ASSERT(ctl_matches(vf_sess_next_send(SESS), vf_sess_next_recv(SESS)), "C16: after the send the control record equals the session's numbers (a refused control put leaves the last accepted record)");
  } else VF_ASSERT(c_n == 0 && p_n == 0, "C16: no persister, nothing stored");
  VF_ASSERT(!vf_spin_bad, "C16: lock discipline");
  VF_REACH();
  return 0;
}
