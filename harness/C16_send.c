/* C16: one send operation (Session::send pointer/reference overload or send_batch of j <= J messages) from an arbitrary
   pre-state (_next_send_seq = n, _next_receive_seq = r) with the control record satisfying the invariant (or stale:
   -DSTALE_CTRL).  Inductive step of: new messages are numbered consecutively, the control record equals the session's
   numbers after each send. */
#include "sessb_world.h"
#ifndef J
#define J 3
#endif
#ifndef OP
#define OP 0               /* compile-time: 0 send(Message*), 1 send(Message&), 2 send_batch */
#endif
uint32_t cx_n, cx_r, cx_custom, cx_orig[J]; uint8_t cx_op, cx_j, cx_kind[J], cx_pre34[J], cx_pre43[J], cx_noinc, cx_destroy, cx_always, cx_persist, cx_stale;
uint8_t cx_elen[J], cx_enc[J][ENC_MAX];
int main(void)
{
#ifdef NOPERSIST             /* persister presence is a compile-time variant: a symbolic Persister* defeats devirtualisation */
  uint8_t with_persist = 0;
#else
  uint8_t with_persist = 1;
#endif
  uint8_t always = nondet_u8() & 1;
#ifdef NO_ALWAYS
  always = 0;
#endif
  world_init(with_persist, 0);
  uint32_t n = nondet_u32(), r = nondet_u32();
  VF_ASSUME(n >= 1 && n <= 0xfffffff0u && r >= 1 && r <= 0xfffffff0u);
  vf_sess_set_seq(SESS, n, r); vf_sess_set_flags(SESS, 1, 0, 0, always, 0); vf_sess_set_state(SESS, 1 /* st_continuous */);
  /* control record before the operation: equal to the session's numbers (invariant), or arbitrary */
  c_valid = 1; c_snd = n; c_rcv = r;
#ifdef STALE_CTRL
  c_valid = nondet_u8() & 1; c_snd = nondet_u32(); c_rcv = nondet_u32(); cx_stale = 1;
#endif
  const uint8_t op = OP;
#if OP != 2
  const uint8_t j = 1;
#elif defined(JFIX)          /* batch size as a compile-time case split */
  const uint8_t j = JFIX;
#else
  uint8_t j = nondet_u8(); VF_ASSUME(j <= J);
#endif
  uint32_t custom = 0; uint8_t noinc = 0, destroy = nondet_u8() & 1;
  if (op < 2) { custom = nondet_u32(); noinc = nondet_u8() & 1; }
#ifdef KF_C16_CTRL_OVERRIDE     /* known-finding complement: no explicit numbering override on a non-retransmission */
  custom = 0; noinc = 0;
#endif
  uint8_t kind[J], pre34[J], pre43[J];
  for (int i = 0; i < J; i++) {
    kind[i] = nondet_u8(); VF_ASSUME(kind[i] < NKIND); pre34[i] = nondet_u8() & 1; pre43[i] = nondet_u8() & 1;
    uint32_t orig = nondet_u32(); int64_t t52 = nondet_i64(); VF_ASSUME(t52 >= 0 && t52 < (1LL << 62));
#ifdef NEW_ONLY
    pre34[i] = 0; pre43[i] = 0;
#endif
    if (!pre34[i]) pre43[i] = 0;                 /* PossDupFlag is only ever present on a message that carries its original number */
#ifdef KF_C16_CTRL_OVERRIDE
    VF_ASSUME((pre34[i] && (!always || pre43[i])) || kind[i] != K_SEQRESET);
#endif
#ifdef KF_C16_ALWAYS_RESEND    /* known-finding complement: no retransmission while always_seqnum_assign is configured */
    VF_ASSUME(!(always && pre43[i]));
#endif
    if (i < j) {
      world_msg(i, kind[i]);
      if (pre34[i]) { a_has[i][T34] = 1; a_v34[i] = orig; a_has[i][T52] = 1; a_v52[i] = t52; a_has[i][T49] = 1; a_has[i][T56] = 1; if (pre43[i]) { a_has[i][T43] = 1; a_v43[i] = 1; } }
      cx_elen[i] = a_elen[i]; for (int b = 0; b < ENC_MAX; b++) cx_enc[i][b] = a_enc[i][b];
    }
    cx_kind[i] = kind[i]; cx_pre34[i] = pre34[i]; cx_pre43[i] = pre43[i]; cx_orig[i] = orig;
  }
  cx_n = n; cx_r = r; cx_op = op; cx_j = j; cx_custom = custom; cx_noinc = noinc; cx_destroy = destroy; cx_always = always; cx_persist = with_persist;

  uint32_t ok;
#if OP == 0
  ok = vf_sb_send_p(&the_sess, MSGP(0), destroy, custom, noinc) & 1;
#elif OP == 1
  ok = vf_sb_send_r(&the_sess, MSGP(0), custom, noinc) & 1;
#else
  for (int i = 0; i < NMSG; i++) the_arr[i] = MSGP(i);
  vf_sb_vec_set(&the_vec, the_arr, j, NMSG);
  ok = vf_sb_send_batch(&the_sess, &the_vec, destroy);
#endif
  VF_ASSERT(!__vf_exc_pending, "C16: send does not throw"); __vf_exc_pending = 0;
  VF_ASSERT(op == 2 ? ok == j : ok == 1, "C16: every message of the operation is reported as sent");
  VF_ASSERT(e_n == j, "C16: every message of the operation is encoded exactly once");

  /* oracle (statement of C16).  A message is a retransmission when it already carries its original MsgSeqNum (under
     always_seqnum_assign: only when it is also flagged PossDup; an unflagged one is renumbered as new), a gap fill when
     it is a SequenceReset; explicit numbering overrides (custom_seqnum / no_increment) are caller-chosen
     numbers and excluded from the consecutive-numbering clause only. */
  uint32_t run = n;
  for (int i = 0; i < J; i++) if (i < j && (uint32_t)i < e_n) {
    VF_ASSERT(e_msg[i] == (uint32_t)i, "C16: messages are transmitted in the order given");
    int retrans = pre34[i] && (!always || pre43[i]), gapfill = kind[i] == K_SEQRESET, override_ = custom != 0 || noinc;
    VF_ASSERT(e_has34[i], "C16: every transmitted message carries a MsgSeqNum");
    if (!retrans && !gapfill && !override_) {
      VF_ASSERT(e_v34[i] == run, "C16: a new message carries the number following the previous new message");
      VF_ASSERT(!e_has43[i], "C16: a new message is not flagged PossDup");
      run++;
    }
    if (retrans && !always) VF_ASSERT(e_v34[i] == cx_orig[i] && e_has43[i] && e_v43[i], "C16: a retransmission keeps its number and is flagged PossDup");
    /* wire view: any message that goes out unflagged and is not a SequenceReset occupies a number */
  }
  VF_ASSERT(vf_sess_next_send(SESS) == run, "C16: the next send number is one past the last new message");
  VF_ASSERT(vf_sess_next_recv(SESS) == r, "C16: sending does not move the expected receive number");
  /* uniqueness on the wire: two messages transmitted without PossDupFlag (other than SequenceResets) never share a number,
     and a later new message never re-uses the number of an unflagged one */
  for (int i = 0; i < J; i++) for (int k = i + 1; k < J; k++) if (k < j && (uint32_t)k < e_n)
    if (!e_has43[i] && !e_has43[k] && kind[i] != K_SEQRESET && kind[k] != K_SEQRESET && custom == 0 && !noinc)
      VF_ASSERT(e_v34[i] != e_v34[k], "C16: no two distinct new messages share a number");
  for (int i = 0; i < J; i++) if (i < j && (uint32_t)i < e_n && !e_has43[i] && kind[i] != K_SEQRESET && custom == 0 && !noinc)
    VF_ASSERT(e_v34[i] < vf_sess_next_send(SESS), "C16: the number of an unflagged message is not handed out again");
  if (with_persist) {
#ifdef STALE_CTRL
    int wrote = 0; for (int i = 0; i < J; i++) if (i < j && !(pre34[i] && (!always || pre43[i]))) wrote = 1;
    if (wrote)
#endif
    VF_ASSERT(c_valid && c_snd == vf_sess_next_send(SESS) && c_rcv == vf_sess_next_recv(SESS), "C16: after the send the control record equals the session's numbers");
  } else VF_ASSERT(c_n == 0 && p_n == 0, "C16: no persister, nothing stored");
  VF_ASSERT(!vf_spin_bad, "C16: lock discipline");
  VF_REACH();
  return 0;
}
