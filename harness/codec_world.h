/* Codec world for the token-level driver: typed static storage for the metadata context, the header/body/trailer/group
   objects, the input string, and the bodies of the recording cut points named in shims/codec_world.stubs.
   Include after defining NEL (group-element pool), VMAXB (recorded value bytes), MAXMSG. */
#include "vf_h.h"
typedef struct { unsigned short fnum; unsigned ftype; unsigned short pos, comp, traits; } FT;
#define VF_TAB static const
#include "codec_tables.h"
/* four translations of the same IR: NO_TOKCUT = real byte tokenizer, otherwise extract_element cut (codec_tok.h);
   NOGROUP = MessageBase::decode_group cut: reaching it is an assertion failure */
#if defined(WORLD_FILE)
#include WORLD_FILE
#elif defined(NOGROUP) && defined(NO_TOKCUT)
#include "world_ng.c"
#elif defined(NOGROUP)
#include "world_tkng.c"
#elif defined(NO_TOKCUT)
#include "world.c"
#else
#include "world_tk.c"
#endif
#ifndef NEL
#define NEL 3
#endif
#ifndef VMAXB
#define VMAXB 3
#endif
#ifndef MAXMSG
#define MAXMSG 96
#endif
#ifndef RMAX
#define RMAX 12
#endif
typedef struct S_class_2eFIX8_3a_3aMessageBase MB;
typedef struct S_struct_2eFIX8_3a_3aFieldTrait FTR;
typedef struct S_struct_2eFIX8_3a_3aFieldTrait_Hash_Array FTH;
static struct S_struct_2eFIX8_3a_3aF8MetaCntx W_ctx;
static vstr W_mt[4];
static FTR W_hdr_arr[VF_N_HDR], W_body_arr[VF_N_BODY], W_trl_arr[VF_N_TRL], W_grp_arr[NEL][VF_N_GRP], W_grp_tmpl[VF_N_GRP];
static uint16_t W_hdr_hash[VF_H_HDR], W_body_hash[VF_H_BODY], W_trl_hash[VF_H_TRL], W_grp_hash[VF_H_GRP];
static FTH W_hdr_h, W_body_h, W_trl_h, W_grp_h;
static struct S_struct_2eVHeader W_hdr; static struct S_struct_2eVTrailer W_trl; static struct S_class_2eFIX8_3a_3aMessage W_msg;
static struct S_struct_2eVGroup W_grp; static MB W_el[NEL];
static uint8_t W_buf[MAXMSG + 1]; static vstr W_from;

/* ---- recorder */
enum { C_HDR = 0, C_BODY = 1, C_TRL = 2, C_EL0 = 3 };
struct W_rec_s { uint8_t comp; uint16_t tag; uint32_t pos; uint8_t vlen; uint8_t val[VMAXB]; };
static struct W_rec_s W_rec[RMAX]; static int W_nrec, W_rec_overflow;
static uint8_t W_last_val[VMAXB]; static uint8_t W_last_len; static int W_creates, W_adds;
static int W_nel, W_el_closed, W_grp_open, W_msg_created, W_pool_exhausted;
static int W_setup_done, W_mk_calls; static uint32_t W_created_entry;
static uint32_t W_sum, W_sum_calls, W_sum_len; static uint32_t W_exc_arg;
static int W_comp_of(void *p)
{
  if (p == (void*)&W_hdr) return C_HDR; if (p == (void*)&W_msg) return C_BODY; if (p == (void*)&W_trl) return C_TRL;
  for (int i = 0; i < NEL; i++) if (p == (void*)&W_el[i]) return C_EL0 + i;
  return 255;
}
void x_vf_rec_create(uint8_t *val)
{
  uint8_t n = 0; int open = 1;
  for (int i = 0; i < VMAXB; i++) { if (open && val[i]) { W_last_val[i] = val[i]; n++; } else { open = 0; W_last_val[i] = 0; } }
  if (open && val[VMAXB]) n = 255;            /* longer than the recorder keeps: never the case inside the harness bounds */
  W_last_len = n; W_creates++;
}
static void W_record(void *self, uint16_t fnum, uint32_t pos)
{
  if (W_nrec >= RMAX) { W_rec_overflow = 1; return; }
  struct W_rec_s *r = &W_rec[W_nrec++]; r->comp = (uint8_t)W_comp_of(self); r->tag = fnum; r->pos = pos; r->vlen = W_last_len;
  for (int i = 0; i < VMAXB; i++) r->val[i] = W_last_val[i];
  W_adds++;
}
/* cut point: MessageBase::add_field_decoder(fnum, pos, field) := append (component, fnum, pos, text of the field just created) to the log */
void st_add_field_decoder(void *self, uint16_t fnum, uint32_t pos, void *bf) { W_record(self, fnum, pos); }
/* cut point: MessageBase::add_field(fnum, presence-iterator, pos, field, check=false) (group elements) := same, the real code sets the present flag itself afterwards */
void st_add_field_grp(void *self, uint16_t fnum, void *itr, uint32_t pos, void *bf, uint8_t check) { W_record(self, fnum, pos); }
/* cut point: MessageBase::find_add_group(fnum, parent) := the body's only group (Logon: 384 NoMsgTypes), null otherwise (generated create_nested_group) */
void *st_find_add_group(void *self, uint16_t fnum, void *parent) { W_grp_open++; return (fnum == 384 && self == (void*)&W_msg) ? (void*)&W_grp : (void*)0; }
/* GroupBase::create_group(false) of the shim group class := next element of a pool of NEL real MessageBase objects over the group's trait table */
struct S_class_2eFIX8_3a_3aMessageBase *x_vf_next_element(void)
{
  __CPROVER_assert(W_nel < NEL, "C03: decode_group creates no more group elements than the input can hold (element pool exhausted: the element loop does not consume input)");
  if (W_nel >= NEL) { W_pool_exhausted = 1; __CPROVER_assume(0); }
  return &W_el[W_nel++];
}
/* cut point: GroupBase::operator<<(element) := count the element as appended */
void *st_group_append(void *grp, void *el) { W_el_closed++; return grp; }
/* cut point: GroupBase::size() const := number of elements appended so far (consistent with the operator<< cut; only reached in trees whose decode_group compares the count) */
uint64_t st_group_size(void *grp) { return (uint64_t)W_el_closed; }
/* cut point: unique_ptr<MessageBase>::~unique_ptr := nothing (element storage is the static pool) */
void st_uptr_dtor(void *p) { }
/* cut point: Message::calc_chksum(const char*, size, offset, len) := the byte sum W_sum chosen by the harness (C07 proves the kernel equals the byte sum) */
static void *W_sum_from;
uint32_t st_calc_chksum(void *from, uint64_t sz, uint32_t off, uint32_t len) { W_sum_calls++; W_sum_len = len == 0xffffffffu ? (uint32_t)sz - off : len; W_sum_from = (uint8_t*)from + off; return W_sum; }
/* cut point: std::function<Message*(bool)>::operator() := header / trailer / body object of the world, by functor identity */
void *st_msg_create(void *fn, uint8_t deep)
{
  /* decided by call order, not by comparing functor addresses (a pointer comparison the symbolic executor cannot fold would make the
     returned object - and with it every later access - a three-way case split); the identity is asserted instead */
  if (!W_setup_done) {
    W_mk_calls++;
    if (W_mk_calls == 1) { __CPROVER_assert(fn == (void*)vf_ctx_mk_hdr(&W_ctx), "first creator call of Message's constructor is _mk_hdr"); return &W_hdr; }
    __CPROVER_assert(W_mk_calls == 2 && fn == (void*)vf_ctx_mk_trl(&W_ctx), "second creator call of Message's constructor is _mk_trl"); return &W_trl;
  }
  __CPROVER_assert(fn != (void*)vf_ctx_mk_hdr(&W_ctx) && fn != (void*)vf_ctx_mk_trl(&W_ctx), "factory creates through the message table entry");
  /* which message-table entry is being instantiated (0 = "A", 1 = "header", 2 = "trailer"): the real entries of header/trailer build a
     header/trailer object and reinterpret_cast it to Message* - the harness reports that instead of executing it */
  W_created_entry = fn == (void*)vf_msg_entry_fn(1) ? 1u : fn == (void*)vf_msg_entry_fn(2) ? 2u : 0u;
  W_msg_created++; return &W_msg;
}
#ifdef NOGROUP
/* cut point (harnesses whose token menu has no repeating-group count): MessageBase::decode_group := unreachable */
#ifdef DGROUP_CNTFLD
uint32_t st_no_group(void *self, void *grp, uint16_t fnum, void *cntfld, void *from, uint32_t off, uint32_t ign) {
#else
uint32_t st_no_group(void *self, void *grp, uint16_t fnum, void *from, uint32_t off, uint32_t ign) {
#endif
  __CPROVER_assert(0, "decode_group reached in a harness without group tokens"); __CPROVER_assume(0); return 0; }
#endif
/* cut points: f8Exception::format<...> (text formatting of exception reasons) := remember the numeric argument */
void st_fmt_u_s(void *e, void *msg, uint32_t what, void *msg2, void *what2) { W_exc_arg = what; }
void st_fmt_u(void *e, void *msg, uint32_t what) { W_exc_arg = what; }
void st_fmt_str(void *e, void *msg, void *what) { }
void st_fmt_str_s(void *e, void *msg, void *what, void *msg2, void *what2) { }
void st_fmt_s(void *e, void *msg, void *what) { }

/* cut points: constructors of the decoder's exception classes (they only format the reason text) := remember the numeric argument;
   the type of the thrown object (typeinfo passed to __cxa_throw by the real throw site) is what the harness classifies */
void st_exc_u(void *e, uint32_t what) { W_exc_arg = what; }
void st_exc_pp(void *e, void *a, void *b) { }
void st_exc_pb(void *e, void *a, uint8_t b) { }
void st_exc_p(void *e, void *a) { }
void st_exc_up(void *e, uint32_t what, void *b) { W_exc_arg = what; }

static void W_setup(void)
{
  vf_ctx_setup(&W_ctx, W_mt);
  vf_tab_hdr(W_hdr_arr, W_hdr_hash, &W_hdr_h); vf_tab_body(W_body_arr, W_body_hash, &W_body_h); vf_tab_trl(W_trl_arr, W_trl_hash, &W_trl_h);
  vf_tab_grp(W_grp_tmpl, W_grp_hash, &W_grp_h);
  for (int e = 0; e < NEL; e++) for (int i = 0; i < VF_N_GRP; i++) W_grp_arr[e][i] = W_grp_tmpl[i];
#ifdef NOHASH
  /* experiment / alternative path: no hash array -> presorted_set falls back to std::equal_range over the trait array */
  vf_mk_header(&W_hdr, &W_ctx, W_hdr_arr, 0);
  vf_mk_trailer(&W_trl, &W_ctx, W_trl_arr, 0);
  vf_mk_body(&W_msg, &W_ctx, W_body_arr, 0);
#else
  vf_mk_header(&W_hdr, &W_ctx, W_hdr_arr, &W_hdr_h);
  vf_mk_trailer(&W_trl, &W_ctx, W_trl_arr, &W_trl_h);
  vf_mk_body(&W_msg, &W_ctx, W_body_arr, &W_body_h);
#endif
  vf_mk_group(&W_grp, 384);
  for (int e = 0; e < NEL; e++) vf_mk_element(&W_el[e], &W_ctx, W_grp_arr[e], &W_grp_h);
  __CPROVER_assert(!__vf_exc_pending, "world setup raised no exception");
  W_setup_done = 1;
}
static void W_set_input(uint32_t n) { VS_P(&W_from) = W_buf; VS_N(&W_from) = n; }
/* exception classes of the decoder, by typeinfo identity (shim vf_ti) */
enum { X_InvalidMessage = 0, X_BadCheckSum, X_DuplicateField, X_MissingMandatoryField, X_UnknownField, X_MissingRepeatingGroupField, X_InvalidRepeatingGroup, X_f8Exception, X_N };
static int W_exc_kind(void) { for (int k = 0; k < X_N; k++) if (__vf_exc_type == (void*)vf_ti(k)) return k; return -1; }
