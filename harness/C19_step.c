/* C19: one Session::process() step from an arbitrary established state with an abstract inbound message.
   Real: process, enforce, sequence_check, compid_check, handle_heartbeat/test_request/resend_request(no persister)/logout/
   sequence_reset, handle_outbound_reject, stop, do_state_change, the catch clauses of process, SessionID::same_*_comp_id,
   the "34=" scan + fast_atoi on "34=ddddddd<SOH>".  Oracle: the statement of C19. */
#include "sess_in_world.h"
#ifdef FACTORY_NULL
#define REACH_MSG() ((void)0)      /* no message object exists in this variant */
#else
#define REACH_MSG() VF_REACH()
#endif
#ifndef TLEN
#define TLEN 1
#endif
#ifndef LENS            /* CompID lengths (own sender, own target, inbound sender, inbound target), case-split at compile time:  */
#define LENS 0x2222     /* a symbolic std::string length makes the string's data pointer symbolic (SSO vs heap) -- AGENT_GUIDE rule 2 */
#endif
#define NS ((LENS >> 12) & 15)
#define NT ((LENS >> 8) & 15)
#define MNS ((LENS >> 4) & 15)
#define MNT (LENS & 15)
uint32_t cx_state, cx_expected, cx_seq, cx_type0, cx_type1, cx_decode_fail, cx_factory_null;
uint8_t cx_has_pd, cx_pd, cx_has_ost, cx_enforce, cx_silent, cx_reliable, cx_active;
int64_t cx_st, cx_ost;
uint8_t cx_sid_s[2], cx_sid_t[2], cx_msg_s[2], cx_msg_t[2], cx_ns, cx_nt, cx_mns, cx_mnt;
int main(void)
{
  world_init(0);
  /* ---- arbitrary established pre-state */
  uint32_t state = nondet_u32(), expected = nondet_u32(), next_send = nondet_u32();
  VF_ASSUME(IS_ESTABLISHED(state) && state != st_logon_received && expected >= 1 && next_send >= 1);      /* full unsigned 32-bit range */
#ifdef ONLY_STATE
  VF_ASSUME(state == ONLY_STATE);
#endif
  uint8_t enforce = nondet_bool(), silent = nondet_bool(), reliable = nondet_bool(), active = nondet_bool();
  vf_sess_set_seq(BASE, next_send, expected); vf_sess_set_state(BASE, state); vf_sess_set_active(BASE, active);
  vf_sess_set_flags(BASE, enforce, silent, reliable, 0, 0);
  uint8_t sid_s[2], sid_t[2], msg_s[2], msg_t[2]; const uint32_t ns = NS, nt = NT, mns = MNS, mnt = MNT;
  for (int i = 0; i < 2; i++) { sid_s[i] = nondet_u8(); sid_t[i] = nondet_u8(); msg_s[i] = nondet_u8(); msg_t[i] = nondet_u8(); }
  vf_sess_set_sid(BASE, sid_s, NS, sid_t, NT);
  /* ---- abstract inbound message */
  uint8_t type[2] = { nondet_u8(), nondet_u8() };
  VF_ASSUME(type[0] >= '0' && type[0] <= 'z' && type[1] >= '0' && type[1] <= 'z');
#if TLEN == 1
  VF_ASSUME(type[0] != 'A');          /* Logon: C23 harnesses */
  VF_ASSUME(type[0] != '3');          /* Reject: Session::handle_reject is an application hook (default: no checks) */
#ifdef ONLY_TYPE
  VF_ASSUME(type[0] == ONLY_TYPE);
#endif
#endif
  msg_init(type, TLEN);
  vf_msg_set_compids(&the_msg, msg_s, MNS, msg_t, MNT);
  m_is_admin = (TLEN == 1 && type[0] >= '0' && type[0] <= '5');
  m_has_pd = nondet_bool(); m_pd = nondet_bool(); m_has_st = 1; m_has_ost = nondet_bool(); m_st = nondet_i64(); m_ost = nondet_i64();
  VF_ASSUME(m_st >= 0 && m_ost >= 0 && m_st < ((int64_t)1 << 62) && m_ost < ((int64_t)1 << 62));
  m_has_nsn = nondet_bool(); m_nsn = nondet_i32(); VF_ASSUME(m_nsn >= 0 && m_nsn < 10000000);
  m_has_begin = nondet_bool(); m_has_end = nondet_bool(); m_begin = nondet_i32(); m_end = nondet_i32(); VF_ASSUME(m_begin >= 0 && m_begin < 10000000 && m_end >= 0 && m_end < 10000000);
  m_has_trid = nondet_bool(); m_trid_n = 1; m_trid[0] = nondet_u8();
  m_decode_fail = nondet_u8(); VF_ASSUME(m_decode_fail <= 5 && m_decode_fail != 2);     /* kind 2 (a decoding failure with force_logoff): no such failure exists in Message::factory; harness C19_step_force covers the clause abstractly */
#ifdef ONLY_DECODE
  m_decode_fail = ONLY_DECODE;
#endif
#ifdef FACTORY_NULL
  m_factory_null = 1;
#endif
  uint32_t seq = nondet_u32();                                   /* MsgSeqNum: any unsigned 32-bit value */
#ifdef SEQ_WINDOW
  VF_ASSUME(SEQ_WINDOW);
#endif
  uint8_t raw[12]; uint32_t rawn = raw_abs(raw, seq);
  cx_state = state; cx_expected = expected; cx_seq = seq; cx_type0 = type[0]; cx_type1 = TLEN > 1 ? type[1] : 0; cx_decode_fail = m_decode_fail; cx_factory_null = m_factory_null;
  cx_has_pd = m_has_pd; cx_pd = m_pd; cx_has_ost = m_has_ost; cx_st = m_st; cx_ost = m_ost; cx_enforce = enforce; cx_silent = silent; cx_reliable = reliable; cx_active = active;
  for (int i = 0; i < 2; i++) { cx_sid_s[i] = sid_s[i]; cx_sid_t[i] = sid_t[i]; cx_msg_s[i] = msg_s[i]; cx_msg_t[i] = msg_t[i]; }
  cx_ns = ns; cx_nt = nt; cx_mns = mns; cx_mnt = mnt;

  uint8_t ret = vf_process(SESS, raw, rawn);
  int thrown = __vf_exc_pending; __vf_exc_pending = 0;

  /* ---- oracle: the statement of C19 */
  int decoded = !m_decode_fail && !m_factory_null;
  int is_app = !m_is_admin;
  int seqreset = (TLEN == 1 && type[0] == '4');
  int compid_ok = str_eq(msg_t, mnt, sid_s, ns) && str_eq(msg_s, mns, sid_t, nt);      /* message Target == our Sender, message Sender == our Target */
  int compid_bad = enforce && !compid_ok && state != st_logon_received;
  int valid_dup = m_has_pd && m_pd && !(m_has_ost && m_ost > m_st);
  int in_seq = seq == expected || (seq < expected && valid_dup);
  int logout = 0, resend = 0, reject = 0; uint32_t resend_begin = 0;
  for (int i = 0; i < VF_OUTMAX; i++) if (i < out_n) {
    if (out_kind[i] == G_LOGOUT) logout++;
    if (out_kind[i] == G_RESEND_REQUEST) { resend++; resend_begin = out_a[i]; }
    if (out_kind[i] == G_REJECT) reject++;
  }
  int stopped = (vf_sess_is_shutdown_flag(BASE) & 1) || thrown;     /* reliable sessions hand the exception to the caller instead of stop() */
  VF_ASSERT(!out_bad && out_n <= VF_OUTMAX, "C19: every generated message is sent exactly once (recorder consistent)");
  VF_ASSERT(!thrown || reliable, "C19: process() lets an exception escape only in reliable mode");
  /* (1) delivery only when decoded, in sequence (or valid PossDup), and with matching CompIDs when enforced */
  if (n_deliver) {
    VF_ASSERT(n_deliver == 1 && decoded && is_app, "C19: only a decoded application message is delivered, once");
    VF_ASSERT(in_seq, "C19: delivered only if MsgSeqNum == expected, or lower with PossDupFlag=Y and OrigSendingTime <= SendingTime");
    VF_ASSERT(!compid_bad, "C19: not delivered with wrong CompIDs when enforcement is on");
    VF_ASSERT(deliver_seq == seq, "C19: the application sees the message's own MsgSeqNum");
    REACH_MSG();
  }
  /* progress direction (keeps the check honest): an in-sequence, well-formed application message of an active session is delivered */
  if (decoded && is_app && in_seq && !compid_bad && active) { VF_ASSERT(n_deliver == 1 && !logout && !stopped, "C19: an in-sequence application message is delivered and the session continues"); REACH_MSG(); }
  if (decoded && !seqreset && !compid_bad && (is_app ? active : 1)) {
    /* (2) too high: no delivery, ResendRequest from the expected number */
    if (seq > expected) {
      VF_ASSERT(n_deliver == 0, "C19: a message above the expected number is not delivered");
#ifndef KF_GAP_OUTSIDE_CONTINUOUS
      if (state != st_resend_request_sent)
#else
      if (state == st_continuous)
#endif
        VF_ASSERT(resend == 1 && resend_begin == expected, "C19: a message above the expected number triggers a ResendRequest starting at the expected number");
      REACH_MSG();
    }
    /* (3) too low without valid PossDup: Logout, no delivery, session ends */
    if (seq < expected && !valid_dup) {
      VF_ASSERT(n_deliver == 0, "C19: a message below the expected number without valid PossDup is not delivered");
      VF_ASSERT(stopped, "C19: a message below the expected number without PossDupFlag ends the session");
#ifndef KF_NO_LOGOUT_ON_SEQ_ERROR
      if (!silent) VF_ASSERT(logout == 1, "C19: a message below the expected number without PossDupFlag is answered with a Logout (silent_disconnect off)");
#endif
      REACH_MSG();
    }
  }
  /* (3b) wrong CompIDs with enforcement on */
  if (decoded && compid_bad && !seqreset && (is_app ? active : 1)) {
    VF_ASSERT(n_deliver == 0 && stopped, "C19: wrong CompIDs with enforcement on: no delivery and the session ends");
#ifndef KF_NO_LOGOUT_ON_SEQ_ERROR
    if (!silent) VF_ASSERT(logout == 1, "C19: wrong CompIDs with enforcement on are answered with a Logout (silent_disconnect off)");
#endif
    REACH_MSG();
  }
  /* (4) decoding failure: never delivered; Reject unless it forces logout */
  if (m_decode_fail) {
    VF_ASSERT(n_deliver == 0, "C19: a message that fails decoding is never delivered");
    if (m_decode_fail == 1 || m_decode_fail == 3 || m_decode_fail == 4) VF_ASSERT(reject == 1 && !stopped, "C19: a non-fatal decoding failure is answered with a Reject");
    if (m_decode_fail == 2) VF_ASSERT(stopped && reject == 0, "C19: a decoding failure that forces logout ends the session");
    REACH_MSG();
  }
  if (!decoded) VF_ASSERT(n_deliver == 0, "C19: nothing is delivered without a decoded message");
  VF_REACH();
  return 0;
}
