/* C15 (arbitrary / corrupted streams): the stream is LEN <= L arbitrary bytes (optionally with the first FIXP bytes fixed to
   the valid preamble text so that the BodyLength field is the only symbolic part). The real FIXReader::read runs once over
   the socket model.  Oracle (stated on the stream, independent of the implementation):
     read returns a message  ==>  the stream starts with "8=FIX.4.2|9=", followed by 1+ decimal digits and SOH, the
       decimal value v (mathematical, no wrap-around) satisfies 1 <= v <= reader's maximum message length, the stream
       holds the v body bytes and 7 trailer bytes, the returned string is exactly that prefix of the stream and exactly
       those bytes were consumed;
     and conversely such a stream (with v inside the reader's own limit) is returned.
   Every other stream ends in an exception or 'false'.  Memory safety inside the translated code is checked by CBMC's
   pointer/bounds checks (tag[32], val[FIX8_MAX_FLD_LENGTH], msg_buf[_max_msg_len]). */
#include "vf_h.h"
#include "c15.c"
#ifndef L
#define L 24
#endif
#ifndef FIXP
#define FIXP 0
#endif
#ifndef FLDW
#define FLDW 10
#endif
#ifndef TPL
#define TPL 0                     /* stream template: 0 = all bytes after the fixed prefix arbitrary; 1..3 see below */
#endif
static struct S_class_2eFIX8_3a_3aFIXReader the_reader;
static struct S_struct_2eFIX8_3a_3aF8MetaCntx the_ctx;
static uint64_t sock_raw[8];
static vstr the_to;
static uint32_t upd_calls;
void *st_get_ctx(void *s) { return &the_ctx; }
void st_update_received(void *p) { upd_calls++; }
void st_exc3(void *e, void *a, void *b) { } void st_exc2(void *e, void *a) { } void st_exc2u(void *e, uint32_t a) { }
uint8_t cx_stream[L]; uint32_t cx_stream_len, cx_ret, cx_thrown, cx_calls, cx_exc, cx_kind, cx_cls;
int main(void)
{
  static const uint8_t bs[] = "FIX.4.2";
  static const uint8_t pre[] = "8=FIX.4.2\001" "9=";
  vf_ctx_init(&the_ctx, (uint8_t*)bs, 7);
  vf_reader_init(&the_reader, (struct S_class_2ePoco_3a_3aNet_3a_3aStreamSocket*)sock_raw);
  vf_str_ctor(&the_to);
  uint32_t maxlen = vf_max_msg_len(), fld = vf_max_fld_len();
  uint32_t len = nondet_u32(); VF_ASSUME(len <= L);
#ifdef LENC
  len = LENC;                       /* (assigned, not assumed: keeps the stream length a constant for CBMC's constant propagation) */
#endif
  for (uint32_t i = 0; i < L; i++) {
    uint8_t b = nondet_u8(); if (i < FIXP) b = pre[i];
#if TPL == 1                      /* BodyLength field = one arbitrary byte: "8=FIX.4.2|9=?|..." */
    if (i == 13) b = 1;
#elif TPL == 2                    /* BodyLength field = FLDW arbitrary bytes (each a digit, SOH or anything else: every digit count 0..FLDW,
                                     every value incl. those near and beyond 2^32), closed by SOH */
    if (i == 12 + FLDW) b = 1;
#elif TPL == 3                    /* 13 arbitrary bytes, then a run of the digit '1' closed by SOH at the end of the stream */
    if (i >= 13) b = (i == L - 1) ? 1 : '1';
#elif TPL == 5                    /* "8=FIX.4.2" <1 arbitrary byte> SOH "9=" ...: a BeginString value one byte longer than the session's (FIXP=9) */
    if (i == 10) b = 1; if (i == 11) b = '9'; if (i == 12) b = '=';
#elif TPL == 4                    /* "8=FIX.4.2|9" (FIXP=11), three arbitrary bytes, SOH: second field's tag and first value byte arbitrary */
    if (i == 14) b = 1;
#endif
    vf_stream[i] = b; cx_stream[i] = b;
  }
  vf_stream_len = len; cx_stream_len = len;
  /* ---- reference parse of the stream ---- */
  int pre_ok = len >= 12; for (uint32_t i = 0; i < 12; i++) if (i < len && vf_stream[i] != pre[i]) pre_ok = 0;
  uint32_t nd = 0; uint64_t v = 0; uint32_t q = 12;
  for (; q < L; q++) { if (!(q < len && vf_stream[q] >= '0' && vf_stream[q] <= '9')) break; v = v * 10 + (vf_stream[q] - '0'); if (v > 1000000) v = 1000000; nd++; }
  int term_ok = q < len && vf_stream[q] == 1 && nd >= 1;
  uint64_t total = 12 + (uint64_t)nd + 1 + v + 7;
  int wellformed = pre_ok && term_ok && v >= 1 && v <= maxlen && total <= len;
  int must_accept = wellformed && v <= maxlen - 13 - 7 && nd <= 9;   /* (zero-padded BodyLength texts of 10+ digits may be refused) */
  /* ---- input classes of the known findings (each KF_ macro assumes the complement of one class) ---- */
  uint32_t tagd = 0; while (tagd < L && tagd < len && vf_stream[tagd] >= '0' && vf_stream[tagd] <= '9') tagd++;     /* leading digits of the first field */
  uint32_t fl = 0, cur = 0; for (uint32_t i = 0; i < L; i++) if (i < len) { if (vf_stream[i] == 1) cur = 0; else { cur++; if (cur > fl) fl = cur; } }  /* longest SOH-free run */
  int alld = 1; for (uint32_t i = 12; i < L; i++) { if (!(i < len) || vf_stream[i] == 1) break; if (!(vf_stream[i] >= '0' && vf_stream[i] <= '9')) alld = 0; }
  uint32_t p1 = L; for (uint32_t i = 0; i < L; i++) if (i < len && vf_stream[i] == 1 && p1 == L) p1 = i + 1;         /* start of the second field */
  int tag2 = p1 + 1 < len && vf_stream[p1] == '9' && vf_stream[p1 + 1] >= '0' && vf_stream[p1 + 1] <= '9';
  int tag1 = len >= 2 && vf_stream[0] == '8' && tagd >= 2;
  int cls_nonnum = pre_ok && !alld;                       /* BodyLength text with a non-digit */
  int cls_wrap = pre_ok && nd > 9;                        /* BodyLength text of 10+ digits (wraps unsigned) */
  int cls_overflow = tagd >= 32 || fl >= fld;             /* a field text that does not fit tag[32] / val[FIX8_MAX_FLD_LENGTH] */
  int cls_nulbs = len > 10 && vf_stream[9] == 0; for (uint32_t i = 0; i < 9; i++) if (i < len && vf_stream[i] != pre[i]) cls_nulbs = 0;   /* BeginString value = the session's text followed by a NUL byte */
  int cls_tagprefix = tag1 || tag2;                       /* first/second tag merely starts with 8 / 9 (e.g. "99=") */
  cx_cls = (cls_nonnum ? 1 : 0) | (cls_wrap ? 2 : 0) | (cls_overflow ? 4 : 0) | (cls_tagprefix ? 8 : 0) | (cls_nulbs ? 16 : 0);
#ifdef KF_READER_NONNUMERIC_LEN
  VF_ASSUME(!cls_nonnum);
#endif
#ifdef KF_READER_LEN_WRAP
  VF_ASSUME(!cls_wrap);
#endif
#ifdef KF_READER_FIELD_OVERFLOW
  VF_ASSUME(!cls_overflow);
#endif
#ifdef KF_READER_TAG_PREFIX
  VF_ASSUME(!cls_tagprefix);
#endif
#ifdef KF_READER_NUL_BEGINSTRING
  VF_ASSUME(!cls_nulbs);
#endif
  cx_kind = (pre_ok ? 1 : 0) | (term_ok ? 2 : 0) | (wellformed ? 4 : 0);
  uint32_t r = vf_read(&the_reader, &the_to);
  int thrown = __vf_exc_pending; __vf_exc_pending = 0;
  cx_ret = r; cx_thrown = thrown; cx_calls = vf_recv_calls;
  VF_ASSERT(!(thrown && r), "C15: an error never comes with a returned message");
  if (r == 1 && !thrown) {
    VF_ASSERT(pre_ok, "C15: a message is only returned for the session's BeginString and a BodyLength field in second place");
    VF_ASSERT(term_ok, "C15: a message is only returned for a numeric, terminated BodyLength");
    VF_ASSERT(wellformed, "C15: a message is only returned for a non-zero BodyLength within the maximum message length, fully present");
    if (wellformed) {
      VF_ASSERT(VS_N(&the_to) == total, "C15: the returned message has the framed length");
      for (uint32_t i = 0; i < L; i++) if (i < total) VF_ASSERT(VS_P(&the_to)[i] == vf_stream[i], "C15: the returned message is byte-identical to the stream");
      VF_ASSERT(vf_stream_pos == total, "C15: exactly the message's bytes were consumed");
      VF_ASSERT(upd_calls == 1, "C15: receipt recorded once");
    }
#if L >= 23 && TPL != 3 && TPL != 5   /* the shortest message has 23 bytes: below that (and for the digit-run and long-BeginString templates) only the error outcomes are reachable */
    VF_REACH();
#endif
  } else {
    VF_ASSERT(!must_accept, "C15: a well-formed message within the reader's limit is returned");
    VF_ASSERT(upd_calls == 0, "C15: no receipt recorded without a message");
    VF_REACH();
  }
  return 0;
}
