/* C20: K Session::process() steps against a nondeterministic but protocol-conformant counterparty generator.
   The counterparty keeps its next number c; it may lose l <= MAXLOSS of its own messages (sent while we were not listening) before the
   message we do receive; it answers a captured ResendRequest(b, 0) by replaying b..c-1 in order -- application messages as
   PossDupFlag=Y resends with their original MsgSeqNum and OrigSendingTime <= SendingTime, runs of administrative messages as one
   SequenceReset-GapFill (34 = first number of the run, 36 = number after it) -- and then continues normally.
   Oracle (statement of C20): the session never logs out / stops / throws for a sequence reason, every application message the
   counterparty sent is delivered at least once by the time it has caught up, and then _next_receive_seq == c. */
#include "sess_in_world.h"
#ifndef K
#define K 3
#endif
#ifndef MAXLOSS
#define MAXLOSS 1
#endif
#ifndef MAXFLIGHT
#define MAXFLIGHT 0          /* messages the counterparty may still send (already in flight) between our ResendRequest and the start of its replay */
#endif
#define RQ 2                 /* ResendRequests the counterparty can have queued (it answers them one after the other) */
#define W (K * (MAXLOSS + 1) + 1)
uint32_t cx_caught[K];
uint32_t cx_n, cx_loss[K], cx_isapp[K], cx_lostapp[K], cx_replaymode[K]; uint32_t cx_seq[K], cx_type[K], cx_nsn[K];
static uint8_t sent_app[W], delivered[W];
int main(void)
{
  world_init(0);
  uint32_t n = nondet_u32(); VF_ASSUME(n >= 1 && n <= 0x7fffff00u);     /* FIX SeqNum domain (positive int): numbers from 2^31 on are outside (NewSeqNo is parsed as int) */ cx_n = n;
  vf_sess_set_seq(BASE, 7, n); vf_sess_set_state(BASE, st_continuous); vf_sess_set_active(BASE, 1);
  vf_sess_set_flags(BASE, 1, 0, 0, 0, 0);
  uint8_t s[1] = { 'S' }, t[1] = { 'T' }; vf_sess_set_sid(BASE, s, 1, t, 1);
  uint32_t c = n, replay_cur = 0, replay_end = 0;       /* replay in progress iff replay_cur < replay_end */
  uint32_t rq[RQ] = { 0, 0 }, rq_n = 0, flight = 0;    /* requests received but not yet answered, in-flight messages used */
  int64_t clock = 1000;
  for (int i = 0; i < K; i++) {
    uint8_t type, pd = 0; uint32_t seq, nsn = 0;
    if (replay_cur >= replay_end && rq_n > 0) {          /* a request is waiting: the counterparty reads it now, unless a message of its own was already in flight */
      uint8_t defer = 0;
#if MAXFLIGHT > 0
      defer = nondet_bool(); if (flight >= MAXFLIGHT) defer = 0;
#endif
      if (defer) flight++;
      else { replay_cur = rq[0]; replay_end = c; rq[0] = rq[1]; rq[1] = 0; rq_n--; }
    }
    if (replay_cur < replay_end) {
      uint32_t j = replay_cur - n; VF_ASSUME(j < W);
      if (sent_app[j]) { type = 'D'; seq = replay_cur; pd = 1; replay_cur++; cx_replaymode[i] = 1; }
      else {             /* maximal run of administrative numbers -> one GapFill */
        uint32_t e = replay_cur + 1; int stop = 0;
        for (int q = 0; q < W; q++) { if (!stop && e < replay_end && e - n < W && !sent_app[e - n]) e++; else stop = 1; }
        type = '4'; seq = replay_cur; pd = 1; nsn = e; replay_cur = e; cx_replaymode[i] = 2;
      }
    } else {
      uint32_t loss = nondet_u32(); VF_ASSUME(loss <= MAXLOSS); if (rq_n) loss = 0;   /* in-flight messages travel on the live connection */ cx_loss[i] = loss;
      uint32_t lostapp = nondet_u32(); cx_lostapp[i] = lostapp;
#ifdef KF_POSSDUP_REPLAY
      loss = 0; cx_loss[i] = 0;              /* complement of the known-finding class: no message is ever lost (no gap to recover) */
#endif
      for (uint32_t q = 0; q < MAXLOSS; q++) if (q < loss) { VF_ASSUME(c - n < W); sent_app[c - n] = (lostapp >> q) & 1; c++; }
      uint8_t isapp = nondet_bool(); cx_isapp[i] = isapp;
      type = isapp ? 'D' : '0'; seq = c; VF_ASSUME(c - n < W); sent_app[c - n] = isapp; c++;
    }
    cx_seq[i] = seq; cx_type[i] = type; cx_nsn[i] = nsn;
    uint8_t ty[2] = { type, 0 }; msg_init(ty, 1); vf_msg_set_compids(&the_msg, t, 1, s, 1);
    m_is_admin = type != 'D'; m_has_pd = pd; m_pd = pd; m_has_st = 1; m_st = clock; m_has_ost = pd; m_ost = clock - 1; clock += 10;
    m_has_nsn = type == '4'; m_nsn = (int32_t)nsn; m_has_trid = 0;
    
    uint8_t raw[12]; uint32_t rawn = raw_abs(raw, seq);
    int out0 = out_n, del0 = n_deliver;
    uint8_t ret = vf_process(SESS, raw, rawn);
    int thrown = __vf_exc_pending; __vf_exc_pending = 0;
    VF_ASSERT(!out_bad && out_n <= VF_OUTMAX, "C20: recorder consistent");
    VF_ASSERT(!thrown && !(vf_sess_is_shutdown_flag(BASE) & 1), "C20: the session never terminates for a sequence-number reason");
    for (int o = 0; o < VF_OUTMAX; o++) if (o >= out0 && o < out_n) {
      VF_ASSERT(out_kind[o] != G_LOGOUT, "C20: no Logout is sent to a conformant counterparty");
      if (out_kind[o] == G_RESEND_REQUEST) {
        VF_ASSERT(out_a[o] >= n && out_a[o] < c && out_b[o] == 0, "C20: a ResendRequest asks for numbers the counterparty has sent, to the latest");
        VF_ASSUME(rq_n < RQ);                   /* bound: at most RQ unanswered requests */
        rq[rq_n] = out_a[o]; rq_n++;
      }
    }
    if (n_deliver > del0) { VF_ASSERT(n_deliver == del0 + 1 && deliver_seq - n < W && sent_app[deliver_seq - n], "C20: only application messages the counterparty sent are delivered"); delivered[deliver_seq - n] = 1; }
    cx_caught[i] = replay_cur >= replay_end && rq_n == 0;
#if MAXFLIGHT == 0
    if (replay_cur >= replay_end && rq_n > 0) { replay_cur = rq[0]; replay_end = c; rq[0] = rq[1]; rq[1] = 0; rq_n--; }   /* answered before anything else is sent */
#endif
    if (replay_cur >= replay_end && rq_n == 0) {     /* the counterparty has caught up */
      VF_ASSERT(vf_sess_next_recv(BASE) == c, "C20: after recovery the expected inbound number equals the counterparty's next number");
      for (uint32_t q = 0; q < W; q++) if (q < c - n && sent_app[q]) VF_ASSERT(delivered[q], "C20: every application message the counterparty sent has been delivered at least once");
    }
  }
  VF_REACH();
  return 0;
}
