/* C12: FieldTrait_Hash_Array built by its real constructor from a symbolic sorted trait table (1 <= n <= NT tags, all
   < TAGMAX), the per-message field-trait set (Presence) built from the same table by its real hash-array constructor in
   storage whose previous contents are arbitrary, every lookup variant for every key 0..65535, and the copy constructor.
   operator new[] / delete[] are provided here (case split on the element count so that every heap object has a constant
   size; counts above the modelled range are reported, never assumed away). */
#include "vf_h.h"
#include "c12.c"
#ifndef NT
#define NT 8
#endif
#ifndef TAGMAX
#define TAGMAX 64
#endif
typedef struct S_struct_2eFIX8_3a_3aFieldTrait FT; typedef struct PSET_T SETT; typedef struct S_struct_2eFIX8_3a_3aFieldTrait_Hash_Array HA;
static int bad_new, n_new; static uint64_t g_unit;
uint8_t *x__Znam(uint64_t n)
{
  uint8_t *p = 0; n_new++;
  if (g_unit == 2) { for (uint64_t c = 0; c <= TAGMAX; c++) if (n == c * 2) p = malloc(c * 2); }
  else { for (uint64_t c = 0; c <= 2 * NT; c++) if (n == c * sizeof(FT)) p = malloc(c * sizeof(FT)); }
  if (p == 0) { bad_new = 1; p = malloc(1); }
  __CPROVER_assume(p != 0);
  return p;
}
void x__ZdaPv(uint8_t *p) { free(p); }
/* memcpy/memset with symbolic lengths: element-wise (CBMC's built-ins are exact for constant sizes only) */
void *memcpy(void *d, const void *s, size_t n)
{
  __CPROVER_assert(n % sizeof(FT) == 0 && n <= 2 * NT * sizeof(FT), "C12: copy length is a whole number of traits within the modelled range");
  for (size_t i = 0; i < 2 * NT; i++) if (i * sizeof(FT) < n) ((FT*)d)[i] = ((const FT*)s)[i];
  return d;
}
void *memset(void *d, int c, size_t n)
{
  __CPROVER_assert(c == 0 && n % 2 == 0 && n <= 2 * TAGMAX, "C12: the hash array is zero-filled, last tag + 1 entries");
  for (size_t i = 0; i < TAGMAX; i++) if (2 * i < n) ((uint16_t*)d)[i] = 0;
  return d;
}
static HA the_ha; static SETT the_set, the_copy;
uint16_t cx_tag[NT], cx_key; int32_t cx_n; uint64_t cx_fill;
int main(void)
{
  int n = nondet_i32(); VF_ASSUME(n >= 1 && n <= NT); cx_n = n;
  static FT tarr[NT]; FT *tab = tarr + (NT - n); uint16_t pay[NT];
  for (int i = 0; i < NT; i++) { cx_tag[i] = nondet_u16(); pay[i] = nondet_u16(); VF_ASSUME(cx_tag[i] < TAGMAX); if (i > 0 && i < n) VF_ASSUME(cx_tag[i - 1] < cx_tag[i]); }
  for (int i = 0; i < NT; i++) if (i < n) { tab[i].f0 = cx_tag[i]; tab[i].f3 = pay[i]; tab[i].f2 = nondet_u32(); tab[i].f4 = nondet_u16(); tab[i].f5.f0 = nondet_u16(); }
  uint16_t key = nondet_u16(); cx_key = key;
  int present = 0; int idx = 0; for (int i = 0; i < NT; i++) if (i < n && cx_tag[i] == key) { present = 1; idx = i; }
  /* ---- hash array */
  g_unit = 2; vf_ha_ctor(&the_ha, tab, (uint64_t)n);
  VF_ASSERT(!bad_new, "C12: the hash array asks for last tag + 1 entries");
  VF_ASSERT(vf_ha_els(&the_ha) == (uint32_t)n && vf_ha_sz(&the_ha) == (uint32_t)cx_tag[n - 1] + 1, "C12: hash array covers tags 0..last");
  uint16_t *ha = vf_ha_arr(&the_ha);
  if (key < vf_ha_sz(&the_ha)) VF_ASSERT(ha[key] == (present ? idx : 0), "C12: hash array maps every member tag to its offset and every other tag to 0");
  /* ---- the trait set built by the hash-array constructor, in storage with arbitrary previous contents */
  uint64_t fill = nondet_u64(); cx_fill = fill;
#ifdef KF_PRESENCE_RSZ_UNINIT
  VF_ASSUME(fill >= (uint64_t)n && fill <= 2 * NT);   /* finding: _rsz is left as found; assume it happens to satisfy the invariant */
#endif
  the_set.f0 = nondet_u64(); the_set.f1 = nondet_u64(); the_set.f2 = fill;
  g_unit = sizeof(FT); vf_ps_ctor_ftha(&the_set, tab, (uint64_t)n, &the_ha);
  FT *arr = vf_ps_arr(&the_set);
  VF_ASSERT(!bad_new && vf_ps_sz(&the_set) == (uint64_t)n && arr != tab, "C12: the trait set copies the n traits");
  for (int i = 0; i < NT; i++) if (i < n) VF_ASSERT(arr[i].f0 == cx_tag[i] && arr[i].f3 == pay[i], "C12: the trait set holds the table's traits in order");
  FT *end = arr + n;
  FT *r1 = vf_ps_find_k(&the_set, key), *r2 = vf_ps_find_kc(&the_set, key), *r3 = vf_ps_find_tc(&the_set, key), *r4 = vf_ps_find_t(&the_set, key);
  uint8_t ans = 2; FT *r5 = vf_ps_find_ka(&the_set, key, &ans);
  VF_ASSERT(r1 == (present ? arr + idx : end) && r2 == r1 && r3 == r1 && r4 == r1, "C12: every lookup variant hits exactly the present tags and returns that tag's trait");
  VF_ASSERT((ans & 1) == present && (!present || r5 == arr + idx), "C12: find(key, answer) reports membership");
  VF_ASSERT(vf_ps_rsz(&the_set) >= vf_ps_sz(&the_set), "C12: a constructed trait set satisfies size <= reserved size");
  VF_ASSUME(vf_ps_rsz(&the_set) >= vf_ps_sz(&the_set) && vf_ps_rsz(&the_set) <= 2 * NT);   /* the copy below is examined from states satisfying the invariant just asserted */
  /* ---- copy construction */
  vf_ps_ctor_copy(&the_copy, &the_set);
  FT *carr = vf_ps_arr(&the_copy);
  VF_ASSERT(!bad_new, "C12: the copy asks for the reserved number of elements");
  VF_ASSERT(vf_ps_sz(&the_copy) == (uint64_t)n && carr != arr, "C12: the copy holds n traits in its own array");
  for (int i = 0; i < NT; i++) if (i < n) VF_ASSERT(carr[i].f0 == cx_tag[i] && carr[i].f3 == pay[i], "C12: the copy holds the same traits");
  FT *c1 = vf_ps_find_kc(&the_copy, key);
  VF_ASSERT(c1 == (present ? carr + idx : carr + n), "C12: lookups on the copy hit exactly the present tags");
  if (present) VF_REACH(); else VF_REACH();
  return 0;
}
