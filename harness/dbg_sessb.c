#include "sessb_world.h"
int main(void)
{
  uint8_t wp = 1, kind = K_APP, destroy = 0, noinc = 0; uint32_t custom = 0;
#ifdef S_WP
  wp = nondet_u8() & 1;
#endif
  world_init(wp, 0);
  uint32_t n = nondet_u32(), r = nondet_u32();
  VF_ASSUME(n >= 1 && n <= 0xfffffff0u && r >= 1 && r <= 0xfffffff0u);
  vf_sess_set_seq(SESS, n, r); vf_sess_set_flags(SESS, 1, 0, 0, 0, 0); vf_sess_set_state(SESS, 1);
#ifdef S_KIND
  kind = nondet_u8(); VF_ASSUME(kind < NKIND);
#endif
#ifdef S_DESTROY
  destroy = nondet_u8() & 1;
#endif
#ifdef S_CUSTOM
  custom = nondet_u32(); noinc = nondet_u8() & 1;
#endif
  world_msg(0, kind);
#ifdef S_PRE
  if (nondet_u8() & 1) { a_has[0][T34] = 1; a_v34[0] = nondet_u32(); a_has[0][T52] = 1; a_v52[0] = 5; if (nondet_u8() & 1) { a_has[0][T43] = 1; a_v43[0] = 1; } }
#endif
  uint32_t ok = vf_sb_send_p(&the_sess, MSGP(0), destroy, custom, noinc) & 1;
  __CPROVER_assert(ok, "ok");
  __CPROVER_assert(e_n == 1, "enc");
  __CPROVER_assert(0, "reach");
  return 0;
}
