#include "sessb_world.h"
int main(void)
{
  world_init(1, 0);
  uint32_t n = nondet_u32(), r = nondet_u32();
  VF_ASSUME(n >= 1 && n <= 0xfffffff0u && r >= 1 && r <= 0xfffffff0u);
  vf_sess_set_seq(SESS, n, r); vf_sess_set_flags(SESS, 1, 0, 0, 0, 0); vf_sess_set_state(SESS, 1);
  for (int i = 0; i < NMSG; i++) { world_msg(i, K_APP); the_arr[i] = MSGP(i); }
  vf_sb_vec_set(&the_vec, the_arr, JJ, NMSG);
  uint32_t ok = vf_sb_send_batch(&the_sess, &the_vec, 0);
  __CPROVER_assert(ok == JJ, "ok");
  __CPROVER_assert(e_n == JJ, "enc");
  __CPROVER_assert(0, "reach");
  return 0;
}
