#include "sessb_world.h"
int main(void)
{
  world_init(1, 0);
#if STEP >= 1
  vf_sess_set_seq(SESS, 5, 7); vf_sess_set_flags(SESS, 1, 0, 0, 0, 0); vf_sess_set_state(SESS, 1);
#endif
#if STEP >= 2
  world_msg(0, K_APP);
#endif
#if STEP >= 3
  uint32_t ok = vf_sb_send_p(&the_sess, MSGP(0), 0, 0, 0) & 1;
  __CPROVER_assert(ok, "ok");
  __CPROVER_assert(e_n == 1, "enc");
#endif
  __CPROVER_assert(the_conn.f11.f0.f5 == 0 && the_conn.f11.f0.f4 == SESS, "writer pmodel");
  __CPROVER_assert(0, "reach");
  return 0;
}
