/* C28: the real Logger::operator() loop, send/enqueue/stop, with the queue as an abstract FIFO (contract from C30) and all
   interleavings at operation granularity explored sequentially: the logger thread's shared-memory steps are
   (R) reading the stop flag at the loop head, (P) try_pop, and the sleep after an empty pop; producers' steps are
   try_push (inside the real enqueue), and stop() = request_stop ; enqueue(empty marker) ; join.  At every scheduling point
   (before P, in the sleep, while a line is being processed = between P and the next R, and before the thread starts) the
   solver lets the producers perform any number of their remaining steps.
   NLINES lines are submitted through the real Logger::send (level enabled or disabled by the solver's choice);
   stop is either one atomic call of the real Logger::stop() (STOPMODE 0) or its two statements separately (STOPMODE 1),
   so that the logger thread can run between request_stop and the marker.
   Oracle: when operator() returns (the thread ends, i.e. stop()'s join returns), every line accepted before stop was
   requested has reached process_logline exactly once, in acceptance order; nothing else reached it; disabled-level
   lines never reach the queue; send returned true for every accepted line. */
#include "vf_h.h"
#include "c28.c"
#ifndef NLINES
#define NLINES 2
#endif
#ifndef STOPMODE
#define STOPMODE 0
#endif
#define QMAX (NLINES + 2)
typedef struct S_struct_2eFIX8_3a_3aLogger_3a_3aLogElement LE;
static struct S_struct_2eVLogger the_lg;
/* abstract FIFO: conveys (value, level, text empty or not, exit flag) of every element in order; the element handed to the consumer is
   rebuilt by the real LogElement constructor in one static slot (the loop holds one popped element at a time) */
static uint32_t q_val[QMAX], q_lvl[QMAX]; static uint8_t q_emp[QMAX], q_exit[QMAX]; static LE pop_slot; static uint32_t q_head, q_tail, q_released;
/* bookkeeping */
static uint32_t n_sub;                    /* lines submitted so far (ids 1..NLINES in submission order) */
static uint8_t sub_enabled[NLINES + 1], sub_ret[NLINES + 1], sub_queued[NLINES + 1], sub_before_stop[NLINES + 1];
static uint32_t n_proc; static uint32_t proc_id[QMAX + 1]; static uint8_t proc_empty_seen, text_changed; uint8_t cx_text_changed;
static uint8_t stop_phase;                /* 0 not requested, 1 requested (marker pending), 2 complete */
static uint32_t cur_sub;                  /* id of the line being submitted right now (0 = the stop marker) */
static uint8_t running;                   /* the logger thread is inside operator() */
uint8_t cx_act[2 * NLINES + 8]; uint32_t cx_nact; uint8_t cx_en[NLINES + 1]; uint32_t cx_nproc; uint32_t cx_proc[QMAX + 1]; uint8_t cx_ret_bad, cx_dropped; uint32_t cx_nlines = NLINES; uint8_t cx_t0[NLINES + 1], cx_t1[NLINES + 1], cx_tlen[NLINES + 1];

uint8_t st_q_try_push(void *q, LE *src)
{
  __CPROVER_assert(q_tail < QMAX, "abstract FIFO large enough");
  q_val[q_tail] = vf_le_val(src); q_lvl[q_tail] = vf_le_level(src); q_emp[q_tail] = vf_le_empty(src) & 1; q_exit[q_tail] = vf_le_exit(src) & 1; q_tail++;
  if (cur_sub) {
    sub_queued[cur_sub] = 1;
    /* the element queued for the writer carries the submitted text (the FIFO and the writer hand it on unchanged) */
    uint32_t ql = vf_le_len(src);
    if (ql != cx_tlen[cur_sub] || (ql >= 1 && vf_le_byte(src, 0) != cx_t0[cur_sub]) || (ql >= 2 && vf_le_byte(src, 1) != cx_t1[cur_sub])) text_changed = 1;
  }
  return 1;                               /* uMPMC_Ptr_Queue::push always returns true (C30) */
}
static void sched(int must);
uint8_t st_q_try_pop(void *q, LE **out)
{
  if (running) sched(0);                /* producers may act between the flag read and the pop */
  if (q_head == q_tail) return 0;
  vf_le_make(&pop_slot, q_val[q_head], q_lvl[q_head], q_emp[q_head], q_exit[q_head]); q_head++;
  *out = &pop_slot; return 1;
}
void st_q_release(void *q, LE *e) { q_released++; }
/* the sleep after an empty pop: idle spinning is stuttering, so a producer step is taken here whenever one is left (fairness) */
uint32_t st_hypersleep(uint32_t amt) { if (running) sched(1); return 0; }
uint32_t st_join(void *t, uint32_t a) { return 0; }
uint64_t st_getid(void) { return 7; }
void x_vf_processed(uint32_t val, uint32_t level, uint32_t empty)
{
  __CPROVER_assert(n_proc < QMAX, "record large enough");
  if (val == 0) proc_empty_seen = 1;       /* the stop marker is the only element without a line id (an empty line of a producer is an ordinary line) */
  proc_id[n_proc] = val; if (n_proc <= QMAX) cx_proc[n_proc] = val; n_proc++;
  if (running) sched(0);                  /* producers may act while the line is written (between P and the next R) */
}
/* one producer step: submit the next line, or (part of) stop */
static void step_submit(void)
{
  /* the text of the line is the solver's choice: 0..2 characters over { 'a', CR, LF } (texts made of line endings included) */
  static const uint8_t alpha[3] = { 'a', '\r', '\n' };
  uint8_t txt[2]; uint8_t c0 = nondet_u8(), c1 = nondet_u8(), tl = nondet_u8(); VF_ASSUME(c0 < 3 && c1 < 3 && tl <= 2);
  txt[0] = alpha[c0]; txt[1] = alpha[c1];
  uint32_t id = ++n_sub; uint8_t en = nondet_bool();
  sub_enabled[id] = en; cx_en[id] = en; sub_before_stop[id] = (stop_phase == 0);
  cx_t0[id] = txt[0]; cx_t1[id] = txt[1]; cx_tlen[id] = tl;
  cur_sub = id;
  if (tl == 0) sub_ret[id] = vf_lg_send(&the_lg, txt, 0, en ? 1 : 0, id) & 1;      /* the empty line */
  else if (tl == 1) sub_ret[id] = vf_lg_send(&the_lg, txt, 1, en ? 1 : 0 /* Info enabled, Debug disabled */, id) & 1;      /* constant lengths (case split) */
  else sub_ret[id] = vf_lg_send(&the_lg, txt, 2, en ? 1 : 0, id) & 1;
  cur_sub = 0;
}
static void sched(int must)
{
  for (int i = 0; i < NLINES + 2; i++) {
    uint8_t can_sub = n_sub < NLINES, can_stop = stop_phase < 2;
    if (!can_sub && !can_stop) return;
    uint8_t a = nondet_u8();              /* 0 = nothing more now, 1 = submit a line, 2 = stop step */
    VF_ASSUME(a <= 2 && (a != 1 || can_sub) && (a != 2 || can_stop) && !(must && i == 0 && a == 0));
    if (cx_nact < sizeof cx_act) cx_act[cx_nact] = a; cx_nact++;
    if (a == 0) return;
    if (a == 1) step_submit();
    else {
#ifdef KF_LOGGER_DROP_ON_STOP
      /* known finding: the loop leaves at once when the stop flag is set. Complement of the failing class: stop is only requested when
         every line accepted so far has already been written */
      if (stop_phase == 0) { uint32_t acc = 0; for (uint32_t id = 1; id <= NLINES; id++) if (id <= n_sub && sub_enabled[id]) acc++; VF_ASSUME(n_proc == acc); }
#endif
#if STOPMODE == 0
      stop_phase = 1; vf_lg_stop(&the_lg); stop_phase = 2;
#else
      if (stop_phase == 0) { vf_lg_stop_step1(&the_lg); stop_phase = 1; } else { vf_lg_stop_step2(&the_lg); stop_phase = 2; }
#endif
    }
  }
}
int main(void)
{
  vf_lg_init(&the_lg, (1u << 1) | (1u << 2) | (1u << 3) | (1u << 4));      /* Info..Fatal enabled, Debug disabled */
  sched(0);                                /* producers may run before the thread starts */
  running = 1;
  vf_lg_run(&the_lg);
  running = 0;
  VF_ASSERT(!__vf_exc_pending, "C28: no exception");
  VF_ASSERT(stop_phase >= 1, "C28: the logger thread only ends after stop was requested");
  cx_nproc = n_proc;
  { uint32_t kk = 0; for (uint32_t id = 1; id <= NLINES; id++) if (id <= n_sub && sub_enabled[id]) { if (!sub_ret[id]) cx_ret_bad = 1; if (sub_before_stop[id]) { if (!(kk < n_proc && proc_id[kk] == id)) cx_dropped = 1; kk++; } } }
  /* accepted-before-stop lines, in order */
  uint32_t k = 0;
  for (uint32_t id = 1; id <= NLINES; id++) {
    if (id > n_sub) break;
    if (!sub_enabled[id]) { VF_ASSERT(!sub_queued[id], "C28: a line at a disabled level never reaches the queue"); continue; }
    VF_ASSERT(sub_queued[id], "C28: a line at an enabled level is queued");
#ifndef KF_LOGGER_ENQUEUE_RESULT
    VF_ASSERT(sub_ret[id] == 1, "C28: submitting reports success for an accepted line");
#endif
    if (sub_before_stop[id]) {
      VF_ASSERT(k < n_proc && proc_id[k] == id, "C28: every line accepted before stop is written, exactly once, in order, before the logger thread ends");
      k++;
    }
  }
  for (uint32_t j = 0; j < QMAX; j++) if (j < n_proc) VF_ASSERT(proc_id[j] >= 1 && proc_id[j] <= n_sub && sub_enabled[proc_id[j]] && (j == 0 || proc_id[j] > proc_id[j - 1]), "C28: only accepted lines are written, none twice, in order");
  cx_text_changed = text_changed;
  VF_ASSERT(!text_changed, "C28: the line handed to the writer is the submitted line (text unchanged)");
  VF_ASSERT(!proc_empty_seen, "C28: the stop marker is never written as a line");
  VF_REACH();
  return 0;
}
