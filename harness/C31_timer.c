/* C31: the real Timer<Mon>: constructor, schedule(), clear(), operator()() event loop (std::priority_queue / std::vector
   heap code from the headers as instantiated) on a virtual clock.
   NEV events (ids 0..NEV-1) are scheduled up front at symbolic clock readings with symbolic delays 1..200 ms and repeat
   flags; then the event loop runs until the harness has seen STEPS clock readings/sleeps; another thread's clear() may
   take effect whenever the loop (re)acquires its lock (CLEAR=1).  Clock readings are arbitrary non-decreasing instants.
   Monitor (the oracle, kept by the harness from the public API calls only): pending[id], due[id].
     at every callback run:  the event is pending, the reading that released it is >= its due time, and no other pending
     event has an earlier due time;  afterwards it is pending again iff it repeats and returned true, due = reading + interval;
     after clear() nothing is pending, so any run is a violation.
   Premise of the concurrent-clear argument (another thread's clear() can only take effect between passes): checked as an
     obligation - every callback runs while the timer's spin lock is held, and whenever the loop releases the lock the
     queue already equals the monitor's pending set (so pop, callback and re-queue all lie inside one critical section).
   MODE 0: the loop runs from the freshly scheduled queue for STEPS readings/sleeps (bounded history).
   MODE 1: inductive step.  Invariant Inv: the queue's vector is heap-ordered by due time and holds exactly the monitor's
     pending events (id, due, interval, repeat).  The NEV schedule calls at symbolic readings produce every Inv state of
     NEV events (for <= 3 elements every heap arrangement is reachable by pushes); then ONE pass of the loop (one clock
     reading) or one clear() must obey the run rules above and re-establish Inv.  By induction the rules hold for
     histories of any length over <= NEV pending events. */
#include "vf_h.h"
#include "c31.c"
#ifndef NEV
#define NEV 2
#endif
#ifndef STEPS
#define STEPS 5
#endif
#ifndef CLEAR
#define CLEAR 1
#endif
#ifndef MODE
#define MODE 0
#endif
#if MODE == 1
#undef STEPS
#define STEPS 1
#undef CLEAR
#define CLEAR 0
#endif
#ifndef OP
#define OP 0
#endif
#define MS 1000000LL
static struct S_class_2eFIX8_3a_3aTimer the_timer; static struct S_struct_2eMon the_mon;
/* ---- virtual clock */
static int64_t g_now; static int n_read, n_sleep, in_run, in_clear, stopped, run_base;      /* run_base: readings taken before the loop started (by schedule()) */
int64_t cx_read[STEPS + NEV + 2]; uint32_t cx_ms[3]; uint8_t cx_rep[3], cx_res[STEPS + 1], cx_runid[STEPS + 1]; int32_t cx_nruns, cx_clear_at = -1, cx_bad;
static void tick(void) { if (in_run && n_read + n_sleep - run_base >= STEPS && !stopped) { stopped = 1; vf_tm_stop(&the_timer); } }
uint64_t x__ZNSt6chrono3_V212system_clock3nowEv(void)
{
  int64_t d = nondet_i64(); VF_ASSUME(d >= 0 && d <= 400 * MS);
  g_now += d; if (n_read < STEPS + NEV + 2) cx_read[n_read] = g_now; n_read++;
  tick();
  return (uint64_t)g_now;
}
uint32_t st_hypersleep(uint32_t ms) { n_sleep++; tick(); return 0; }
void st_thread_ctor(void *thr, void *timer, uint64_t a, uint64_t b, uint64_t c, uint64_t d) { }
/* ---- the monitor */
static uint8_t pending[3]; static int64_t due[3]; static int nruns, cleared, bad_early, bad_order, bad_notpending, bad_after_clear;
static uint32_t *g_lock; static int bad_cb_unlocked, bad_unlock_state;      /* the timer's _spin_lock as seen by the pthread_spin model */
uint8_t x_vf_cb(uint32_t id)
{
  uint8_t res = nondet_bool();
  if (!(g_lock && *g_lock == 1)) bad_cb_unlocked = 1;           /* the callback must run inside the critical section */
  if (!pending[id]) { bad_notpending = 1; if (cleared) bad_after_clear = 1; }
  else {
    if (g_now < due[id]) bad_early = 1;
    for (int j = 0; j < NEV; j++) if (j != (int)id && pending[j] && due[j] < due[id]) bad_order = 1;
  }
  if (nruns <= STEPS) { cx_res[nruns] = res; cx_runid[nruns] = (uint8_t)id; }
  nruns++;
  if (res && cx_rep[id]) { pending[id] = 1; due[id] = g_now + (int64_t)cx_ms[id] * MS; } else pending[id] = 0;
  return res;
}
/* ---- lock: where another thread's clear() can take effect */
uint32_t x_pthread_spin_lock(uint32_t *l)
{
#if CLEAR
  if (in_run && !in_clear && !cleared && nondet_bool()) {
    in_clear = 1; cx_clear_at = n_read + n_sleep;
    uint64_t k = vf_tm_clear(&the_timer);
    int np = 0; for (int j = 0; j < NEV; j++) { np += pending[j]; pending[j] = 0; }
    if (k != (uint64_t)np) cx_bad = 1;                 /* clear() reports how many events were waiting */
    cleared = 1; in_clear = 0;
  }
#endif
  __CPROVER_assert(*l == 0, "C31: the lock is free when taken (sequential schedule)"); *l = 1; g_lock = l; return 0;
}
uint32_t x_pthread_spin_unlock(uint32_t *l)
{
  if (in_run && !in_clear) {          /* the loop leaves its critical section: pop, callback and re-queue must all be done */
    int np = 0; for (int j = 0; j < NEV; j++) np += pending[j];
    if (vf_tm_pending(&the_timer) != (uint64_t)np) bad_unlock_state = 1;
  }
  *l = 0; return 0;
}
/* ---- operator new: vector growth asks for 1, 2 or 4 events; every heap object has a constant size */
#define EVSZ 32
uint8_t *x__Znwm(uint64_t n)
{
  uint8_t *p = 0;
  if (in_run) { __CPROVER_assert(0, "C31: the queue's vector never grows while the loop runs (an event is re-queued only after it was popped)"); __CPROVER_assume(0); }
  for (uint64_t c = 1; c <= 8; c++) if (n == c * EVSZ) p = malloc(c * EVSZ);
  __CPROVER_assert(p != 0, "C31: allocation size within the modelled range (<= 8 events)");
  __CPROVER_assume(p != 0);
  return p;
}
/* Inv: queue == monitor's pending set, heap-ordered */
static void check_inv(const char *unused)
{
  uint64_t n = vf_tm_pending(&the_timer); int np = 0; for (int j = 0; j < NEV; j++) np += pending[j];
  VF_ASSERT(n == (uint64_t)np, "C31: the queue holds exactly as many events as are pending");
  int seen[3] = { 0, 0, 0 }; int64_t t[3] = { 0, 0, 0 };
  for (int i = 0; i < NEV; i++) if ((uint64_t)i < n) {
    uint64_t d = 0; uint32_t ms = 0; uint8_t rep = 0; int id = (int)vf_tm_event(&the_timer, (uint64_t)i, &d, &ms, &rep);
    VF_ASSERT(id >= 0 && id < NEV && pending[id] && !seen[id], "C31: every queued event is a distinct pending event");
    if (id >= 0 && id < NEV) { seen[id] = 1; VF_ASSERT((int64_t)d == due[id] && ms == cx_ms[id] && (rep & 1) == cx_rep[id], "C31: a queued event carries its due time, interval and repeat flag"); }
    t[i] = (int64_t)d;
    if (i > 0) VF_ASSERT(t[(i - 1) / 2] <= t[i], "C31: the queue is heap-ordered by due time");
  }
}
int main(void)
{
  g_now = nondet_i64(); VF_ASSUME(g_now >= 1000000000LL * 86400 && g_now <= 4000000000LL * 1000000000LL);
  vf_tm_ctor(&the_timer, &the_mon);
  VF_ASSERT(!__vf_exc_pending, "C31: construction does not throw");
  for (int i = 0; i < NEV; i++) {
    uint32_t ms = nondet_u32(); uint8_t rep = nondet_bool(); VF_ASSUME(ms >= 1 && ms <= 200);
    cx_ms[i] = ms; cx_rep[i] = rep;
    uint8_t ok = vf_tm_schedule(&the_timer, (uint32_t)i, rep, ms) & 1;
    VF_ASSERT(ok && !__vf_exc_pending, "C31: schedule succeeds");
    pending[i] = 1; due[i] = g_now + (int64_t)ms * MS;       /* due = the reading schedule() took + delay */
  }
  VF_ASSERT(vf_tm_pending(&the_timer) == NEV, "C31: every scheduled event is queued");
  check_inv(0);
#if MODE == 1 && OP == 1
  uint64_t k = vf_tm_clear(&the_timer);
  VF_ASSERT(k == NEV, "C31: clear() returns the number of events that were waiting");
  for (int j = 0; j < NEV; j++) pending[j] = 0;
  cleared = 1;
#else
  in_run = 1; run_base = n_read + n_sleep;
  vf_tm_run(&the_timer);
  in_run = 0;
#endif
  check_inv(0);
  cx_nruns = nruns;
  VF_ASSERT(!__vf_exc_pending, "C31: the event loop does not throw");
  VF_ASSERT(!bad_early, "C31: no callback runs at a clock reading earlier than its due time");
  VF_ASSERT(!bad_order, "C31: among pending events the one with the earliest due time runs first");
  VF_ASSERT(!bad_after_clear, "C31: no callback runs after clear()");
  VF_ASSERT(!bad_notpending, "C31: only pending events run (a one-shot or a repeat that returned false never runs again)");
  VF_ASSERT(!cx_bad, "C31: clear() returns the number of events that were waiting");
  VF_ASSERT(!bad_cb_unlocked && !bad_unlock_state, "C31: callback and re-arm run inside the timer's critical section (premise of the concurrent-clear argument)");
  int np = 0; for (int j = 0; j < NEV; j++) np += pending[j];
  VF_ASSERT(vf_tm_pending(&the_timer) == (uint64_t)np, "C31: the queue holds exactly the pending events");
#if MODE == 1
#if OP == 1
  VF_REACH();
#else
  if (nruns == 1 && pending[cx_runid[0]]) VF_REACH();      /* ran and re-armed */
  if (nruns == 1 && !pending[cx_runid[0]]) VF_REACH();     /* ran and retired */
  if (nruns == 0) VF_REACH();                              /* nothing due */
  VF_ASSERT(nruns <= 1, "C31: one pass of the loop runs at most one callback");
#endif
#else
  if (nruns >= 2) VF_REACH();
#endif
#if CLEAR
  if (nruns >= 1 && cleared) VF_REACH();
#endif
  return 0;
}
