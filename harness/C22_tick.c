/* C22: supervision ticks of the real Session::heartbeat_service over a symbolic clock (every clock reading is an arbitrary
   non-decreasing instant), arbitrary heartbeat interval H, arbitrary last-sent / last-received instants.
   TICKS=1: the Heartbeat and TestRequest clauses from an arbitrary established state.
   TICKS=2: the Logout clause: tick 1 sends the TestRequest at instant tau, tick 2 may log out only if the TestRequest has been
   unanswered for more than H + 20% since tau. */
#include "sess_in_world.h"
#ifndef TICKS
#define TICKS 1
#endif
#define NS_PER_S 1000000000LL
int64_t cx_last_sent, cx_last_recv, cx_now[VF_CLOCKMAX]; uint32_t cx_h, cx_state; int cx_reads;
static int count(uint32_t kind) { int n = 0; for (int i = 0; i < VF_OUTMAX; i++) if (i < out_n && out_kind[i] == kind) n++; return n; }
int main(void)
{
  world_init(1);
  uint32_t H = nondet_u32(), state = nondet_u32(); VF_ASSUME(H >= 1 && H <= 3600);
  VF_ASSUME(IS_ESTABLISHED(state));
#if TICKS == 2
  VF_ASSUME(state == st_continuous);
#endif
  int64_t t0 = nondet_i64(), last_sent = nondet_i64(), last_recv = nondet_i64();
  VF_ASSUME(t0 >= 0 && t0 < ((int64_t)1 << 61) && last_sent >= 0 && last_sent <= t0 && last_recv >= 0 && last_recv <= t0);
  vf_clock_last = t0;
  vf_conn_set((struct S_class_2eFIX8_3a_3aConnection*)&the_conn, nondet_bool() ? cn_initiator : cn_acceptor, 1, H, 0);
  vf_sess_set_seq(BASE, 5, 5); vf_sess_set_state(BASE, state); vf_sess_set_active(BASE, 1);
  vf_sess_set_flags(BASE, 1, nondet_bool(), 0, 0, 0);
  vf_sess_set_times(BASE, last_sent, last_recv);
  cx_last_sent = last_sent; cx_last_recv = last_recv; cx_h = H; cx_state = state;
  const int64_t thr = (int64_t)H * NS_PER_S + (int64_t)H * (NS_PER_S / 5);        /* H + 20% exactly, in ns */

  /* ---- tick 1 */
  uint8_t r1 = vf_hb_service(SESS);
  VF_ASSERT(!__vf_exc_pending, "C22: no exception escapes the supervision tick"); __vf_exc_pending = 0;
  VF_ASSERT(!out_bad && vf_clock_reads == 2, "C22: recorder consistent, two clock readings per tick");
  int64_t n1 = vf_clock_log[0], n2 = vf_clock_log[1];
  cx_now[0] = n1; cx_now[1] = n2; cx_reads = vf_clock_reads;
  int hb1 = count(G_HEARTBEAT), tr1 = count(G_TEST_REQUEST), lo1 = count(G_LOGOUT);
#if TICKS == 1
  /* Heartbeat clause: nothing sent for at least H seconds => a Heartbeat goes out at this tick; and never earlier */
  if (n1 - last_sent >= (int64_t)H * NS_PER_S) { VF_ASSERT(hb1 == 1, "C22: nothing sent for at least H seconds => Heartbeat at this tick"); VF_REACH(); }
  else { VF_ASSERT(hb1 == 0, "C22: no Heartbeat before H seconds of outbound silence"); VF_REACH(); }
  /* TestRequest clause (one-second granularity of the supervisor): silence of more than H+20% (+1 s) => TestRequest and state test_request_sent; never before H+20% */
  if (tr1) { VF_ASSERT(tr1 == 1 && n2 - last_recv > thr && vf_sess_state(BASE) == st_test_request_sent, "C22: a TestRequest is sent only after more than H+20% of inbound silence, and is recorded in the state"); VF_REACH(); }
  if (n2 - last_recv >= thr + NS_PER_S && state != st_test_request_sent && state != st_session_terminated) { VF_ASSERT(tr1 == 1, "C22: inbound silence of more than H+20% => TestRequest at this tick"); VF_REACH(); }
  /* Logout only when a TestRequest is pending */
  if (lo1) { VF_ASSERT(state == st_test_request_sent && n2 - last_recv > thr, "C22: Logout only while a TestRequest is pending and the silence persists"); VF_ASSERT(vf_sess_state(BASE) == st_session_terminated && (vf_sess_is_shutdown_flag(BASE) & 1), "C22: after the Logout the session terminates"); VF_REACH(); }
  if (state == st_test_request_sent && n2 - last_recv >= thr + NS_PER_S) { VF_ASSERT(lo1 == 1, "C22: an unanswered TestRequest (silence persists) => Logout"); VF_REACH(); }
#else
  /* ---- two ticks: the TestRequest goes out at tick 1 (instant tau = second clock reading), nothing is received afterwards */
  VF_ASSUME(tr1 == 1 && lo1 == 0);
  int64_t tau = n2;
  uint8_t r2 = vf_hb_service(SESS);
  VF_ASSERT(!__vf_exc_pending, "C22: no exception escapes the supervision tick"); __vf_exc_pending = 0;
  int64_t n3 = vf_clock_log[2], n4 = vf_clock_log[3]; cx_now[2] = n3; cx_now[3] = n4; cx_reads = vf_clock_reads;
  int lo2 = count(G_LOGOUT);
#ifdef KF_EARLY_LOGOUT
  VF_ASSUME(n4 - tau > thr);
#endif
  if (lo2) { VF_ASSERT(n4 - tau > thr, "C22: Logout only if the TestRequest has been unanswered for more than H+20% since it was sent"); VF_REACH(); }
  if (n4 - tau >= thr + NS_PER_S) { VF_ASSERT(lo2 == 1 && vf_sess_state(BASE) == st_session_terminated, "C22: a TestRequest unanswered for more than H+20% => Logout and termination"); VF_REACH(); }
#endif
  VF_REACH();
  return 0;
}
