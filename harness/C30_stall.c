/* C30 stalled-thread sequentialisation (two consumers, sequential symbolic execution of the real code).
   ir2c emits VF_YIELD() after every cmpxchg / atomicrmw / atomic store; here it is a scheduling hook: while consumer C1 executes one real
   uMPMC_Ptr_Queue::pop, after one (solver-chosen) of its shared accesses (atomic_long_read, CAS, atomic_long_set) it is descheduled and the OTHER threads run 0..NOPS complete real operations
   (consumer C2: pop; optionally the producer: push) before C1 resumes. This covers every schedule in which one thread is stalled at an atomic
   step for arbitrarily long while others make progress (the class behind ticket/ordering bugs between two consumers).
   Pre-state: NE elements pushed by real pushes over NQ sub-queues (SZ-slot rings). After the stalled pop the queue is drained by further
   pops. Elements are the addresses of cells pushed in index order (single producer), so the push ticket of element i is i.
   Oracle: every element is popped exactly once over both consumers; each consumer's own results are strictly increasing (its tickets
   increase in program order); a pop reports empty only when every pushed element has been reserved (popped or held by the stalled pop);
   push always succeeds.  An operation of C2 that would have to wait for the stalled C1 (its spin loop) is cut at the unwinding bound:
   that schedule is the one in which C2 simply does not complete the operation while C1 is stalled. */
#include "vf_h.h"
static void vf_yield(void);
#define VF_YIELD() vf_yield()
#include "c30s.c"
/* the queue's plain shared accesses, followed by the scheduling hook */
uint64_t st_alr(void *p) { uint64_t v = ((struct S_struct_2eff_3a_3aatomic64_t*)p)->f0; vf_yield(); return v; }
void st_als(void *p, uint64_t v) { ((struct S_struct_2eff_3a_3aatomic64_t*)p)->f0 = v; vf_yield(); }
#ifndef NE
#define NE 4
#endif
#ifndef NOPS
#define NOPS 3
#endif
#ifndef NQ
#define NQ 2
#endif
#ifndef SZ
#define SZ 2
#endif
#ifndef WITH_PUSH
#define WITH_PUSH 0
#endif
#define NMAX (NE + NOPS + 1)
static struct S_class_2eff_3a_3auMPMC_Ptr_Queue the_q;
static uint64_t cell[NMAX + 1];
static uint32_t npush, nres;                    /* elements pushed; tickets reserved by successful or in-flight pops */
static uint8_t popcnt[NMAX + 1]; static int32_t last1 = -1, last2 = -1;
static uint8_t armed, depth, used, bad_order, bad_empty, bad_value;
uint8_t cx_nested[NOPS + 1]; int32_t cx_c2[NOPS + 1]; int32_t cx_c1[NMAX + 2]; uint8_t cx_used; uint32_t cx_hook;
static uint32_t hook_hits, hook_pick;
static void record(int who, uint8_t ok, uint8_t *got, uint32_t reserved_before)
{
  if (ok) {
    int64_t v = (uint64_t*)got - cell;
    if (v < 0 || v >= (int64_t)npush) { bad_value = 1; return; }
    popcnt[v]++;
    if (who == 1) { if ((int32_t)v <= last1) bad_order = 1; last1 = (int32_t)v; } else { if ((int32_t)v <= last2) bad_order = 1; last2 = (int32_t)v; }
  } else if (reserved_before < npush) bad_empty = 1;          /* an unreserved, fully pushed element existed */
}
static void vf_yield(void)
{
  if (!armed || depth || used) return;
  hook_hits++;
  if (hook_hits != hook_pick) return;                          /* the solver picked which atomic step of C1's pop is the stall point */
  used = 1; depth = 1; cx_used = 1; cx_hook = hook_hits;
  for (int k = 0; k < NOPS; k++) {
    uint8_t a = nondet_u8();                                   /* 0 = resume C1, 1 = C2 pops, 2 = producer pushes */
    VF_ASSUME(a <= (WITH_PUSH ? 2 : 1));
#ifdef VF_COVER
    a = (k == 0);                                              /* reachability twin: one concrete schedule (path-wise exploration has no cover mode) */
#endif
    cx_nested[k] = a;
    if (a == 0) break;
    if (a == 1) {
      uint8_t *got = 0; uint32_t res0 = nres; uint8_t ok = vf_q_pop(&the_q, &got) & 1;
      cx_c2[k] = ok ? (int32_t)((uint64_t*)got - cell) : -1;
      if (ok) nres++;
      record(2, ok, got, res0);
    } else if (npush < NMAX) { uint8_t ok = vf_q_push(&the_q, (uint8_t*)&cell[npush]) & 1; VF_ASSERT(ok, "C30: push succeeds"); npush++; }
  }
  depth = 0;
}
int main(void)
{
  vf_q_ctor(&the_q); uint8_t ok = vf_q_init(&the_q, NQ, SZ) & 1;
  VF_ASSERT(ok, "C30: queue initialises");
  for (int i = 0; i < NE; i++) { uint8_t r = vf_q_push(&the_q, (uint8_t*)&cell[npush]) & 1; VF_ASSERT(r, "C30: push succeeds"); npush++; }
  /* C1's stalled pop: it reserves its ticket at its CAS; nres counts it from the start (an upper bound that keeps the empty oracle sound) */
  hook_pick = nondet_u32(); VF_ASSUME(hook_pick >= 1 && hook_pick <= 6);      /* C1's pop makes 5 shared accesses (3 loads, CAS, store) when it succeeds at once */
#ifdef VF_COVER
  hook_pick = 1;
#endif
  { uint8_t *got = 0; armed = 1; uint32_t res0 = nres; nres++; uint8_t r = vf_q_pop(&the_q, &got) & 1; armed = 0;
    if (!r) nres--; cx_c1[0] = r ? (int32_t)((uint64_t*)got - cell) : -1; record(1, r, got, res0); }
  /* drain */
  for (int j = 0; j < NMAX; j++) { uint8_t *got = 0; uint32_t res0 = nres; uint8_t r = vf_q_pop(&the_q, &got) & 1; if (r) nres++;
    cx_c1[j + 1] = r ? (int32_t)((uint64_t*)got - cell) : -1; record(1, r, got, res0); }
  VF_ASSERT(!__vf_exc_pending, "C30: no exception");
  VF_ASSERT(!bad_value, "C30: only pushed elements are popped");
  VF_ASSERT(!bad_order, "C30: each consumer receives elements in increasing ticket order");
  VF_ASSERT(!bad_empty, "C30: pop reports empty only when every pushed element is already reserved");
  for (uint32_t v = 0; v < NMAX; v++) VF_ASSERT(popcnt[v] == (v < npush ? 1 : 0), "C30: every pushed element is popped exactly once over both consumers");
  VF_REACH();
  return 0;
}
