/* C08 integers: real itoa<int> and fast_atoi<int>; every int32 v in [LO, HI] */
#include "vf_h.h"
#include "c08.c"
#ifndef LO
#define LO (-2147483647 - 1)
#endif
#ifndef HI
#define HI 2147483647
#endif
int32_t cx_v; uint8_t cx_text[16]; uint64_t cx_n; int32_t cx_back;
int main(void)
{
  int32_t v = nondet_i32(); VF_ASSUME(v >= (LO) && v <= (HI));
#ifdef EDGES           /* boundary values of every digit count, both signs */
  { static const int32_t E[] = { 0, 9, 10, 99, 100, 999, 1000, 9999, 10000, 99999, 100000, 999999, 1000000, 9999999, 10000000, 99999999, 100000000, 999999999,
                                 1000000000, 1999999999, 2000000000, 2147483646, 2147483647, 1234567890, 2147483640, 1073741824 };
    uint8_t k = nondet_u8(), neg = nondet_u8(); VF_ASSUME(k < sizeof E / sizeof E[0]);
    v = neg & 1 ? -E[k] : E[k]; if ((neg & 2) && k == 22) v = -2147483647 - 1; }
#endif
  uint8_t *buf = malloc(12); VF_ASSUME(buf != 0);        /* "-2147483648" + NUL: the documented maximum */
  cx_v = v;
  uint64_t n = vf_itoa_int((uint32_t)v, buf);
  cx_n = n; for (int i = 0; i < 12; i++) cx_text[i] = buf[i];
  VF_ASSERT(n >= 1 && n <= 11 && buf[n] == 0, "C08: text is NUL-terminated inside 12 bytes and the length is reported");
  /* canonical decimal syntax: optional '-' exactly for negatives, digits only, no leading zero; the value itself is
     pinned by the parse-back through the real fast_atoi below */
  uint64_t i = 0; int neg = 0; int ok = 1;
  if (buf[0] == '-') { neg = 1; i = 1; }
  ok = ok && i < n && (buf[i] != '0' || n == i + 1) && neg == (v < 0);
  for (int k = 0; k < 11; k++) if (i < n) { ok = ok && buf[i] >= '0' && buf[i] <= '9'; i++; }
  VF_ASSERT(ok, "C08: itoa renders canonical decimal syntax");
  int32_t back = (int32_t)vf_atoi_int(buf);
  cx_back = back;
  VF_ASSERT(back == v, "C08: fast_atoi<int>(itoa(v)) == v");
  VF_REACH();
  return 0;
}
