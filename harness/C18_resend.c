/* C18: a ResendRequest [B,E] is answered with a complete, faithful replay.
   Real code: Session::handle_resend_request, retrans_callback, generate_sequence_reset, send, send_process (dup path),
   Connection/FIXWriter write path.  Store = arbitrary subset of {1..MAXS} of the numbers already sent (< n), bodies of 1..2
   symbolic bytes, original SendingTime symbolic per record; persister = the documented range-get protocol of
   Persister::get(from,to,session,callback) (persist.cpp:322-361; the real persisters' conformance is C26) over that store.
   Message::factory(stored bytes) yields an abstract message carrying 34 = its key, 52 = its original SendingTime and the
   stored bytes as encoding.  Oracle = direct transcription of the statement. */
#define SESSB_C18
#ifndef MAXS
#define MAXS 3
#endif
#define NMSG (2 * MAXS + 2)          /* slot 0: closing/sole gap fill; 1..MAXS: replayed record s; MAXS+s: gap fill emitted before record s; last: the request */
#define REQ (NMSG - 1)
#include "sessb_world.h"
static uint8_t st_has[MAXS + 2], st_len[MAXS + 2], st_dat[MAXS + 2][2]; static int64_t st_t52[MAXS + 2];
static uint32_t rq_B, rq_E, cur_s; static uint8_t g_created[NMSG], g_gapfill[NMSG], g_has36[NMSG]; static uint32_t g_newseq[NMSG];
static struct S_struct_2eFIX8_3a_3aSession_3a_3aRetransmissionContext the_rctx;
uint32_t cx_n, cx_B, cx_E; uint8_t cx_has[MAXS + 2], cx_len[MAXS + 2], cx_dat[MAXS + 2][2], cx_always, cx_persist;
uint8_t st_enforce(void *s, uint32_t seq, void *m) { return 1; }
uint8_t st_get_begin(void *mb, void *fld) { vf_fld_set_int(fld, rq_B); return 1; }
uint8_t st_get_end(void *mb, void *fld) { vf_fld_set_int(fld, rq_E); return 1; }
static void body_add(void *mb, void *fld)
{
  int i = midx(mb); uint32_t fnum = vf_fld_num(fld);
  if (fnum == 36) { g_has36[i] = 1; g_newseq[i] = vf_fld_int(fld); } else if (fnum == 123) g_gapfill[i] = vf_fld_bool(fld) & 1;
  else __CPROVER_assert(0, "world: unexpected body field");
}
static void fixed_msg(int i, const uint8_t *ty, int admin, uint8_t len, uint8_t b0, uint8_t b1)
{
  vf_sb_msg_init(&the_msg[i], &the_hdr[i], (uint8_t*)ty, (struct S_struct_2eFIX8_3a_3aF8MetaCntx*)ctx_raw);
  a_admin[i] = admin; a_elen[i] = len; a_enc[i][0] = b0; a_enc[i][1] = b1;
}
void *st_create_msg(void *s, void *type)
{
  int i = cur_s == 0 ? 0 : MAXS + (int)cur_s;
  __CPROVER_assert(VS_N((vstr*)type) == 1 && VS_P((vstr*)type)[0] == '4', "world: only SequenceReset is generated on these paths");
  __CPROVER_assert(!g_created[i], "world: one generated message per slot");
  g_created[i] = 1; fixed_msg(i, ty_sr, 1, 2, 'G', (uint8_t)('0' + i));
  return &the_msg[i];
}
struct S_class_2eFIX8_3a_3aMessage *x__ZN4FIX87Message7factoryERKNS_10F8MetaCntxERKNSt7__cxx1112basic_stringIcSt11char_traitsIcESaIcEEEbb(struct S_struct_2eFIX8_3a_3aF8MetaCntx *c, struct S_class_2estd_3a_3a__cxx11_3a_3abasic_string *from, uint8_t a, uint8_t b)
{
  int i = (int)cur_s; __CPROVER_assert(i >= 1 && i <= MAXS && !g_created[i], "world: factory called once per replayed record");
  g_created[i] = 1;
  uint64_t len = VS_N(from); __CPROVER_assert(len >= 1 && len <= 2, "world: stored record length");
  fixed_msg(i, ty_app, 0, (uint8_t)len, VS_P(from)[0], len > 1 ? VS_P(from)[1] : 0);
  a_has[i][T34] = 1; a_v34[i] = (uint32_t)i; a_has[i][T52] = 1; a_v52[i] = st_t52[i]; a_has[i][T49] = 1; a_has[i][T56] = 1;   /* what decoding the stored message yields */
  return MSGP(i);
}
/* documented range-get protocol over the symbolic store */
uint32_t x_vf_rec_range(uint8_t *self, uint32_t from, uint32_t to, uint8_t *sess)
{
  uint32_t last = 0, start = 0, recs = 0; uint8_t stopped = 0, none = 0;
  for (uint32_t s = 1; s <= MAXS; s++) if (st_has[s]) last = s;
  for (uint32_t s = MAXS; s >= 1; s--) if (st_has[s] && s >= from && s <= last) start = s;
  uint32_t finish = to == 0 ? last : to;
  vf_sb_rctx_init(&the_rctx, from, to, vf_sb_get_next_send((struct S_class_2eFIX8_3a_3aSession*)sess));
  if (!start || from > finish) none = 1;
  for (uint32_t s = 1; s <= MAXS; s++) if (!none && !stopped && st_has[s] && s >= start && s <= finish) {
    cur_s = s; recs++;
    if (!(vf_sb_retrans((struct S_class_2eFIX8_3a_3aSession*)sess, s, st_dat[s], st_len[s], &the_rctx) & 1)) stopped = 1;
    if (__vf_exc_pending) return 0;
  }
  cur_s = 0; vf_sb_rctx_nomore(&the_rctx);
  vf_sb_retrans((struct S_class_2eFIX8_3a_3aSession*)sess, 0, (uint8_t*)"", 0, &the_rctx);
  return recs;
}
int main(void)
{
#ifdef NOPERSIST
  const uint8_t with_persist = 0;
#else
  const uint8_t with_persist = 1;
#endif
  world_init(with_persist, 0);
  uint32_t n = nondet_u32(), r = nondet_u32(), B = nondet_u32(), E = nondet_u32();
  VF_ASSUME(n >= 1 && n <= MAXS + 2 && r >= 1 && r <= 1000);
  /* request for numbers that were sent: 1 <= B <= n-1, E = 0 (to the latest) or B <= E <= n-1 */
  VF_ASSUME(B >= 1 && B < n && E < n && (E == 0 || E >= B));
#ifdef KF_C18_RANGE_END       /* known-finding complement: the request reaches to the latest number (E = 0 or E = n-1) */
  VF_ASSUME(E == 0 || E + 1 == n);
#endif
  for (uint32_t s = 1; s <= MAXS; s++) {
    st_has[s] = nondet_u8() & 1; st_len[s] = 1 + (nondet_u8() & 1); st_dat[s][0] = nondet_u8(); st_dat[s][1] = nondet_u8(); st_t52[s] = nondet_i64();
    VF_ASSUME(st_dat[s][0] != 0 && st_dat[s][1] != 0 && st_t52[s] >= 0 && st_t52[s] < (1LL << 62));
    if (s >= n || !with_persist) st_has[s] = 0;             /* only numbers already sent can be stored */
    cx_has[s] = st_has[s]; cx_len[s] = st_len[s]; cx_dat[s][0] = st_dat[s][0]; cx_dat[s][1] = st_dat[s][1];
  }
#ifdef KF_C18_GAPFILL_NUM     /* known-finding complement: no gap of the range is followed by a stored message of the range (all gaps trailing) */
  for (uint32_t s = 1; s <= MAXS; s++) for (uint32_t q = 1; q <= MAXS; q++)
    if (s >= B && s < q && q <= (E ? E : n - 1)) VF_ASSUME(!(!st_has[s] && st_has[q]));
#endif
  vf_sess_set_seq(SESS, n, r); vf_sess_set_flags(SESS, 1, 0, 0, 0, 0); vf_sess_set_state(SESS, 1 /* st_continuous */);
  c_valid = 1; c_snd = n; c_rcv = r; rq_B = B; rq_E = E; cx_n = n; cx_B = B; cx_E = E; cx_persist = with_persist;
  fixed_msg(REQ, (const uint8_t*)"2", 1, 2, 'R', 'R');
  uint8_t ok = vf_sb_resend_request(&the_sess, r, MSGP(REQ)) & 1;
  VF_ASSERT(!__vf_exc_pending, "C18: handling the request does not throw"); __vf_exc_pending = 0;
  VF_ASSERT(ok, "C18: request handled");
  /* ---- oracle: transcription of the statement over the transmitted sequence (encoder log) ---- */
  uint32_t H = E ? E : n - 1, k = 0, s = B, last_announced = 0, prev34 = 0; uint8_t any_announced = 0;
  for (int step = 0; step < MAXS + 1; step++) if (s <= H) {
    if (k >= e_n) { VF_ASSERT(0, "C18: the reply covers every number of the range"); break; }
    VF_ASSERT(e_has34[k] && e_v34[k] > prev34, "C18: replies are sent in ascending sequence order");
    prev34 = e_v34[k];
    if (s <= MAXS && st_has[s]) {
      uint32_t i = e_msg[k];
      VF_ASSERT(i == s, "C18: every stored message of the range is replayed, in order");
      VF_ASSERT(e_v34[k] == s, "C18: a replayed message keeps its original MsgSeqNum");
      VF_ASSERT(e_has43[k] && e_v43[k], "C18: a replayed message carries PossDupFlag=Y");
      VF_ASSERT(e_has122[k] && e_v122[k] == st_t52[s], "C18: OrigSendingTime equals the original SendingTime");
      if (i == s) VF_ASSERT(a_elen[i] == st_len[s] && a_enc[i][0] == st_dat[s][0] && (st_len[s] < 2 || a_enc[i][1] == st_dat[s][1]), "C18: a replayed message keeps its body");
      s++; any_announced = 0;
    } else {
      uint32_t g = s; for (int q = 0; q < MAXS + 1; q++) if (s <= H && !(s <= MAXS && st_has[s])) s++;
      uint32_t h = s - 1, i = e_msg[k];
      VF_ASSERT((i == 0 || i > MAXS) && i != REQ && g_gapfill[i] && g_has36[i], "C18: a gap is covered by a SequenceReset-GapFill");
      VF_ASSERT(e_v34[k] == g, "C18: the gap fill's MsgSeqNum is the first number of the gap");
      VF_ASSERT(g_newseq[i] == h + 1, "C18: the gap fill's NewSeqNo is the number after the gap");
      last_announced = g_newseq[i]; any_announced = 1;
    }
    k++;
  }
  /* a closing gap fill that starts right after the range lies outside the statement's range clause (it only has to be
     ascending and consistent with the number the session continues from); anything else is not part of a faithful reply */
  if (k < e_n && k < NREC) {
    uint32_t i = e_msg[k];
    VF_ASSERT(e_n == k + 1 && (i == 0 || i > MAXS) && i != REQ && g_gapfill[i] && g_has36[i] && e_v34[k] == H + 1 && e_v34[k] > prev34, "C18: nothing but the replay of the range (and at most a closing gap fill after it) is sent");
    last_announced = g_newseq[i]; any_announced = 1;
  }
  /* any_announced: the reply ended with a gap fill (its NewSeqNo is what the peer now expects); otherwise the peer was
     brought to the end of the range by a replayed message and the session's own number is untouched */
  /* a reply to a sub-range (E < n-1) announces numbers below n; the numbers E+1..n-1 were already used, so the session's own
     next number can only be the announced one when that is not below n (otherwise it would hand out used numbers, C16) */
  VF_ASSERT(vf_sess_next_send(SESS) == (any_announced && last_announced > n ? last_announced : n), "C18: new messages continue from the last NewSeqNo announced (never below the numbers already used)");
  VF_ASSERT(vf_sess_next_send(SESS) >= n, "C18: the send number never moves backwards");
  VF_ASSERT(p_n == 0, "C18: replayed messages and gap fills are not stored again");
  VF_REACH();
  return 0;
}
