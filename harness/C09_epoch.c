/* C09: real time_to_epoch (custom mktime) == days_from_civil reference for every valid field tuple of the window */
#include "vf_h.h"
#include "c09.c"
#ifndef YLO
#define YLO 1970
#endif
#ifndef YHI
#define YHI 2099
#endif
struct S_struct_2etm *x_gmtime_r(int64_t *t, struct S_struct_2etm *res) { return res; }
static int64_t days_from_civil(int64_t y, unsigned m, unsigned d)
{
  y -= m <= 2; int64_t era = (y >= 0 ? y : y - 399) / 400; unsigned yoe = (unsigned)(y - era * 400);
  unsigned doy = (153 * (m > 2 ? m - 3 : m + 9) + 2) / 5 + d - 1, doe = yoe * 365 + yoe / 4 - yoe / 100 + doy;
  return era * 146097 + (int64_t)doe - 719468;
}
int32_t cx_y, cx_mo, cx_d, cx_h, cx_mi, cx_s, cx_ms, cx_ind = 5; int64_t cx_ticks, cx_back;
int main(void)
{
  int y = nondet_i32(), mo = nondet_i32(), d = nondet_i32(), h = nondet_i32(), mi = nondet_i32(), s = nondet_i32();
  VF_ASSUME(y >= YLO && y <= YHI && mo >= 1 && mo <= 12 && d >= 1 && h >= 0 && h < 24 && mi >= 0 && mi < 60 && s >= 0 && s < 60);
  int leap = (y % 4 == 0 && y % 100 != 0) || y % 400 == 0;
  int dim = mo == 2 ? 28 + leap : (mo == 4 || mo == 6 || mo == 9 || mo == 11) ? 30 : 31;
  VF_ASSUME(d <= dim);
  cx_y = y; cx_mo = mo; cx_d = d; cx_h = h; cx_mi = mi; cx_s = s;
  struct S_struct_2etm tm; tm.f0 = s; tm.f1 = mi; tm.f2 = h; tm.f3 = d; tm.f4 = mo - 1; tm.f5 = y - 1900; tm.f6 = 0; tm.f7 = 0; tm.f8 = 0;
  int64_t r = (int64_t)vf_time_to_epoch(&tm);
  int64_t ref = days_from_civil(y, (unsigned)mo, (unsigned)d) * 86400 + h * 3600 + mi * 60 + s;
  cx_ticks = ref * 1000000000LL; cx_back = r * 1000000000LL;
  VF_ASSERT(r == ref, "C09: time_to_epoch equals the proleptic Gregorian second count");
  VF_REACH();
  return 0;
}
