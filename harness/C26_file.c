/* C26 (file persister): the real FIX8::FilePersister (initialise on an empty directory, then K nondeterministic
   operations) over the POSIX file model models/posixfs.c, against the same reference map + control record as C26_mem.c.
   std::map code from the headers runs as translated; rb-tree rebalancing, std::string and ostringstream are models. */
#include "vf_h.h"
#include "c26f.c"
#ifndef K
#define K 3
#endif
#define MAXSEQ 6
#ifndef OPS
#define OPS 0x7f            /* compile-time set of operations the harness may choose from */
#endif
/* optional per-position operation sets OPS0..OPS3 (default: OPS at every position); the loop is unrolled with a concrete
   position, so operations outside a position's set are pruned statically */
#ifndef OPS0
#define OPS0 OPS
#endif
#ifndef OPS1
#define OPS1 OPS
#endif
#ifndef OPS2
#define OPS2 OPS
#endif
#ifndef OPS3
#define OPS3 OPS
#endif
#define OPSET(i) ((i) == 0 ? (OPS0) : (i) == 1 ? (OPS1) : (i) == 2 ? (OPS2) : (OPS3))
#define HAS(o) ((OPSET(i) >> (o)) & 1)
static struct S_class_2eFIX8_3a_3aFilePersister the_fp;
static uint64_t sess_raw[1024];                         /* the Session is an opaque handle here (address + next-send number): raw zeroed storage */
static struct S_class_2eFIX8_3a_3aSession *the_sess;
/* reference */
static uint8_t r_has[MAXSEQ + 1], r_len[MAXSEQ + 1], r_dat[MAXSEQ + 1][2]; static int r_hasc; static uint32_t r_ca, r_cb;
/* range-callback recorder */
static int cb_n, cb_done, cb_bad; static uint32_t cb_prev, cb_from, cb_to;
void x_vf_range_cb(uint32_t seq, uint8_t *data, uint32_t len, uint32_t no_more)
{
  if (no_more) { cb_done++; return; }
  if (cb_done) cb_bad = 1;                                   /* record after completion signal */
  if (seq <= cb_prev || seq > MAXSEQ || !r_has[seq] || seq < cb_from || (cb_to && seq > cb_to)) { cb_bad = 1; return; }
  for (uint32_t s = cb_prev + 1; s < seq; s++) if (s >= cb_from && r_has[s]) cb_bad = 1;   /* skipped a stored record */
  if (len != r_len[seq] || (len > 0 && data[0] != r_dat[seq][0]) || (len > 1 && data[1] != r_dat[seq][1])) cb_bad = 1;
  cb_prev = seq; cb_n++;
}
uint8_t cx_op[K]; uint32_t cx_a[K], cx_b[K]; uint8_t cx_d0[K], cx_d1[K], cx_len[K];
/* -DHAVOC_OFFSETS (inductive use): before every operation the two descriptors sit at ANY position an earlier history could have
   left them at - data file: after any stored record (a get of that record leaves it there; the last record's end = file end = after a
   put); index file: after the control slot (a control put) or at the end (a message put / the index replay of initialise). The
   sequence prefix only builds a representative state (map of <= K-1 records + control record); one operation from such a state with
   arbitrary reachable positions, followed by the read-back probe (-DFINAL_PROBE), covers histories of any length that reach it. */
uint32_t cx_hd[K + 1]; uint8_t cx_hi[K + 1]; uint32_t cx_probe;
static uint32_t r_end[MAXSEQ + 1], r_dlen;          /* data-file offset right after each stored record; data-file length */
static void havoc_offsets(int i)
{
#ifdef HAVOC_OFFSETS
  uint32_t hs = nondet_u32(); uint8_t hi = nondet_u8(); VF_ASSUME(hs <= MAXSEQ && hi <= 2 && (hs == 0 || r_has[hs]));
  cx_hd[i] = hs; cx_hi[i] = hi;
  uint32_t fod = vf_fp_fod(&the_fp), iod = vf_fp_iod(&the_fp);
  if (hs) vf_fs_set_offset(fod, r_end[hs]);
  if (hi == 1 && r_hasc) vf_fs_set_offset(iod, 16); else if (hi == 2) vf_fs_set_offset(iod, vf_fs_filelen(iod));
#endif
}
int main(void)
{
  vf_fp_ctor(&the_fp, 0);
  __CPROVER_assert(sizeof(struct S_struct_2eVSession) <= sizeof sess_raw, "raw session storage large enough");
  the_sess = (struct S_class_2eFIX8_3a_3aSession*)sess_raw;
  uint8_t iok = vf_fp_init(&the_fp, (uint8_t*)".", 1, (uint8_t*)"s", 1, 0) & 1;
  VF_ASSERT(iok && !__vf_exc_pending, "C26: initialise on an empty directory succeeds");
  VF_ASSERT(vf_fs_slot("./s") >= 0 && vf_fs_slot("./s.idx") >= 0, "C26: initialise creates the data and the index file");
  for (int i = 0; i < K; i++) {
    uint8_t op = nondet_u8(); uint32_t a = nondet_u32(), b = nondet_u32(); uint8_t d0 = nondet_u8(), d1 = nondet_u8(), len = nondet_u8();
    VF_ASSUME(op < 7 && HAS(op) && a <= MAXSEQ && len >= 1 && len <= 2);
#ifdef ONLY_OP
    VF_ASSUME(op == ONLY_OP);
#endif
#ifdef LENC
    len = LENC;
#endif
    cx_op[i] = op; cx_a[i] = a; cx_b[i] = b; cx_d0[i] = d0; cx_d1[i] = d1; cx_len[i] = len;
    havoc_offsets(i);
    uint32_t last = 0; for (uint32_t s = 1; s <= MAXSEQ; s++) if (r_has[s]) last = s;
    if (HAS(0) && op == 0) {           /* put(seq, bytes) */
      uint8_t d[2] = { d0, d1 };
      uint8_t ok = vf_fp_put(&the_fp, a, d, len) & 1;
      VF_ASSERT(ok == (a != 0 && !r_has[a]), "C26: storing to 0 or to an occupied number is refused, otherwise accepted");
      if (a != 0 && !r_has[a]) { r_has[a] = 1; r_len[a] = len; r_dat[a][0] = d0; r_dat[a][1] = d1; r_dlen += len; r_end[a] = r_dlen; }
    } else if (HAS(1) && op == 1) {    /* control put */
      VF_ASSUME(b <= 1000);
      uint8_t ok = vf_fp_putc(&the_fp, a, b) & 1; r_hasc = 1; r_ca = a; r_cb = b;
      VF_ASSERT(ok, "C26: control put succeeds");
    } else if (HAS(2) && op == 2) {    /* get(seq) */
      uint8_t out[8]; int n = (int)vf_fp_get(&the_fp, a, out);
      VF_ASSERT((n >= 0) == (a != 0 && r_has[a]), "C26: get hits exactly the stored numbers");
      if (a != 0 && r_has[a]) VF_ASSERT(n == r_len[a] && out[0] == r_dat[a][0] && (n < 2 || out[1] == r_dat[a][1]), "C26: get returns the stored bytes");
    } else if (HAS(3) && op == 3) {    /* control get */
      uint32_t ga = 0, gb = 0; uint8_t ok = vf_fp_getc(&the_fp, &ga, &gb) & 1;
      VF_ASSERT(ok == r_hasc, "C26: control get succeeds iff a control record was stored");
      if (r_hasc) VF_ASSERT(ga == r_ca && gb == r_cb, "C26: control get returns the last control record stored");
    } else if (HAS(4) && op == 4) {    /* last */
      VF_ASSERT(vf_fp_last(&the_fp) == last, "C26: last sequence number is the largest stored");
    } else if (HAS(5) && op == 5) {    /* nearest highest */
#ifdef KF_NEAREST_ZERO
      VF_ASSUME(a != 0);
#endif
      uint32_t exp = 0; for (uint32_t s = MAXSEQ; s >= 1; s--) if (s >= a && s <= last && r_has[s]) exp = s;
      VF_ASSERT(vf_fp_nearest(&the_fp, a, last) == exp, "C26: nearest-highest is the smallest stored number in [requested, last]");
    } else if (HAS(6) && op == 6) {    /* range get [a, b] (b == 0: to the latest) */
      VF_ASSUME(b <= MAXSEQ && a >= 1);
      cb_n = 0; cb_done = 0; cb_bad = 0; cb_prev = 0; cb_from = a; cb_to = b;
      uint32_t cnt = 0; for (uint32_t s = 1; s <= MAXSEQ; s++) if (r_has[s] && s >= a && (b == 0 || s <= b)) cnt++;
      uint32_t got = vf_fp_range(&the_fp, the_sess, a, b);
      VF_ASSERT(!cb_bad, "C26: range retrieval visits only stored records of the range, ascending, bytes intact, none skipped");
      VF_ASSERT((uint32_t)cb_n == cnt && got == cnt, "C26: range retrieval visits exactly the stored records in range");
      VF_ASSERT(cb_done == 1, "C26: range retrieval signals completion exactly once, last");
    }
    VF_ASSERT(!__vf_exc_pending, "C26: no exception"); __vf_exc_pending = 0;
  }
#ifdef FINAL_PROBE   /* the state after the last operation: every stored record still reads back, nothing else appears, control record intact */
  {
    havoc_offsets(K);
    uint32_t s = nondet_u32(); VF_ASSUME(s >= 1 && s <= MAXSEQ); cx_probe = s;
    uint8_t out[8]; int n = (int)vf_fp_get(&the_fp, s, out);
    VF_ASSERT((n >= 0) == (r_has[s] != 0), "C26: after the operation exactly the stored numbers can be retrieved");
    if (r_has[s]) VF_ASSERT(n == r_len[s] && out[0] == r_dat[s][0] && (n < 2 || out[1] == r_dat[s][1]), "C26: after the operation every stored record still reads back byte-identical");
    uint32_t ga = 0, gb = 0; uint8_t ok = vf_fp_getc(&the_fp, &ga, &gb) & 1;
    VF_ASSERT(ok == r_hasc && (!r_hasc || (ga == r_ca && gb == r_cb)), "C26: after the operation the control record is the last one stored");
    VF_ASSERT(vf_fs_filelen(vf_fp_fod(&the_fp)) == r_dlen, "C26: the data file holds exactly the stored records (no gap, no overlap)");
    VF_ASSERT(!__vf_exc_pending, "C26: no exception"); __vf_exc_pending = 0;
  }
#endif
  VF_REACH();
  return 0;
}
