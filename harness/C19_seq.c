/* C19, sequence clause at the source: the real Session::sequence_check (+ do_state_change, the throw sites, virtual dispatch to the
   recording send/generate_resend_request) from an arbitrary established state, expected number and MsgSeqNum over the whole
   unsigned 32-bit range. */
#include "sess_in_world.h"
uint32_t cx_state, cx_expected, cx_seq; uint8_t cx_has_pd, cx_pd, cx_has_ost; int64_t cx_st, cx_ost;
int main(void)
{
  world_init(0);
  uint32_t state = nondet_u32(), expected = nondet_u32(), seq = nondet_u32();
  VF_ASSUME(IS_ESTABLISHED(state) && state != st_logon_received && expected >= 1);   /* st_logon_received is transient inside handle_logon: the Logon's own number is C20_logon's subject */
  vf_sess_set_seq(BASE, 7, expected); vf_sess_set_state(BASE, state); vf_sess_set_active(BASE, 1);
  vf_sess_set_flags(BASE, 1, 0, 0, 0, 0);
  uint8_t type[2] = { 'D', 0 }; msg_init(type, 1);
  m_has_pd = nondet_bool(); m_pd = nondet_bool(); m_has_st = 1; m_has_ost = nondet_bool(); m_st = nondet_i64(); m_ost = nondet_i64();
  VF_ASSUME(m_st >= 0 && m_ost >= 0 && m_st < ((int64_t)1 << 62) && m_ost < ((int64_t)1 << 62));
  cx_state = state; cx_expected = expected; cx_seq = seq; cx_has_pd = m_has_pd; cx_pd = m_pd; cx_has_ost = m_has_ost; cx_st = m_st; cx_ost = m_ost;
  uint8_t r = vf_seqcheck(SESS, seq, (void*)&the_msg) & 1;
  int thrown = __vf_exc_pending; __vf_exc_pending = 0;
  int valid_dup = m_has_pd && m_pd && !(m_has_ost && m_ost > m_st);
  int in_seq = seq == expected || (seq < expected && valid_dup);
  int resend = 0; uint32_t rb = 0; for (int i = 0; i < VF_OUTMAX; i++) if (i < out_n && out_kind[i] == G_RESEND_REQUEST) { resend++; rb = out_a[i]; }
  VF_ASSERT(!out_bad, "C19: recorder consistent");
  VF_ASSERT((r && !thrown) == in_seq, "C19: sequence_check accepts exactly MsgSeqNum == expected, or lower with PossDupFlag=Y and OrigSendingTime <= SendingTime");
  if (seq > expected) {
    VF_ASSERT(!r || thrown, "C19: a number above the expected one is never reported as in sequence");
#ifndef KF_GAP_OUTSIDE_CONTINUOUS
    if (state != st_resend_request_sent)
#else
    if (state == st_continuous)
#endif
    { VF_ASSERT(!thrown && resend == 1 && rb == expected && out_n == 1, "C19: a number above the expected one triggers a ResendRequest starting at the expected number"); VF_REACH(); }
  } else { VF_ASSERT(out_n == 0, "C19: nothing is sent for a number at or below the expected one"); VF_REACH(); }
  if (seq < expected && !valid_dup) { VF_ASSERT(thrown, "C19: a lower number without valid PossDup raises the sequence error that ends the session"); VF_REACH(); }
  VF_ASSERT(vf_sess_next_recv(BASE) == expected, "C19: sequence_check does not move the expected number");
  VF_REACH();
  return 0;
}
