/* C10: real RealmBase::get_rlm_idx<T> / is_valid<T> over a symbolic realm table (any sorted duplicate-free
   table of n <= NT values) and a symbolic probe value */
#include "vf_h.h"
#include "c10.c"
#ifndef NT
#define NT 8
#endif
#if TYK == 0
typedef int8_t T; typedef uint8_t XT; typedef uint8_t CT; /* char is signed on x86-64; ir2c passes i8 */
#define IDX vf_rlm_idx_char
#define VALID vf_rlm_valid_char
#define ND() ((T)nondet_i8())
#define OKV(x) 1
#elif TYK == 1
typedef int32_t T; typedef uint32_t XT; typedef uint32_t CT;
#define IDX vf_rlm_idx_int
#define VALID vf_rlm_valid_int
#define ND() ((T)nondet_i32())
#define OKV(x) 1
#else
typedef double T; typedef double XT; typedef double CT;
#define IDX vf_rlm_idx_double
#define VALID vf_rlm_valid_double
#define ND() nondet_double()
#define OKV(x) ((x) == (x))        /* NaN excluded: no field parser produces it */
#endif
T cx_tab[NT]; int32_t cx_n, cx_dtype, cx_idx, cx_valid; T cx_what;
int main(void)
{
  int n = nondet_i32(); int dtype = nondet_i32(); T what = ND();
  VF_ASSUME(dtype == 0 || dtype == 1);               /* dt_range = 0, dt_set = 1 */
  VF_ASSUME(dtype == 1 ? (n >= 1 && n <= NT) : n == 2);
  VF_ASSUME(OKV(what));
  for (int i = 0; i < NT; i++) { cx_tab[i] = ND(); VF_ASSUME(OKV(cx_tab[i])); }
  if (dtype == 1) { for (int i = 1; i < NT; i++) if (i < n) VF_ASSUME(cx_tab[i - 1] < cx_tab[i]); }
  else VF_ASSUME(cx_tab[0] <= cx_tab[1]);
  static T arr[NT]; T *tab = arr + (NT - n);            /* the table ends where the object ends */
  for (int i = 0; i < NT; i++) if (i < n) tab[i] = cx_tab[i];
  cx_n = n; cx_dtype = dtype; cx_what = what;
  int member = 0, pos = -1;
  for (int i = 0; i < NT; i++) if (i < n && cx_tab[i] == what) { member = 1; pos = i; }
#if TYK == 2
  int idx = (int)IDX(tab, (uint32_t)n, (uint32_t)dtype, what); int valid = VALID(tab, (uint32_t)n, (uint32_t)dtype, what) & 1;
#else
  int idx = (int)IDX((XT*)tab, (uint32_t)n, (uint32_t)dtype, (CT)what); int valid = VALID((XT*)tab, (uint32_t)n, (uint32_t)dtype, (CT)what) & 1;
#endif
  cx_idx = idx; cx_valid = valid;
  if (dtype == 1) {
    VF_ASSERT(idx >= -1 && idx < n, "C10: reported index lies inside the table");
    VF_ASSERT(idx < 0 || cx_tab[idx] == what, "C10: a reported index belongs to exactly the probed value");
    VF_ASSERT(!member || idx == pos, "C10: a member is reported at its own position");
    VF_ASSERT(valid == member, "C10: set validity agrees with membership");
    if (member) VF_REACH(); else VF_REACH();
  } else {
    VF_ASSERT(valid == (cx_tab[0] <= what && what <= cx_tab[1]), "C10: range validity agrees with inclusion");
    VF_REACH();
  }
  return 0;
}
