/* C07 bounded tier: uncut real calc_chksum, every content of every buffer of <= NB bytes, every offset/len */
#include "vf_h.h"
#include "c07.c"
#ifndef NB
#define NB 12
#endif
uint64_t cx_sz; uint32_t cx_off; int32_t cx_len; uint32_t cx_ret; uint8_t cx_buf[NB + 1];
int main(void)
{
  uint64_t sz = nondet_u64(); uint32_t off = nondet_u32(); int32_t len = nondet_i32();
  VF_ASSUME(sz <= NB && off <= sz && len >= -1 && (len == -1 || (uint64_t)off + (uint64_t)len <= sz));
#ifdef KF_OFFSET_REMAINDER
  VF_ASSUME(!(off > 0 && len == -1));
#endif
  uint64_t elen = len == -1 ? sz - off : (uint64_t)len, objsz = off + elen;
  uint8_t *buf = malloc(objsz ? objsz : 1); VF_ASSUME(buf != 0);
  uint32_t sum = 0;
  for (uint64_t i = 0; i < objsz; i++) { cx_buf[i] = buf[i]; if (i >= off) sum += buf[i]; }
  cx_sz = sz; cx_off = off; cx_len = len;
  uint32_t r = vf_calc_chksum(buf, sz, off, (uint32_t)len);
  cx_ret = r;
  VF_ASSERT(r == (sum & 0xff), "C07: result is the byte sum of exactly the requested range mod 256");
  VF_REACH();
  return 0;
}
