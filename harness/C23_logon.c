/* C23, logon part: a Logon message processed by the real Session::process -> handle_logon (+ enforce, sequence_check, the catch
   clauses of process) for the acceptor role (pre-state wait_for_logon, own SenderCompID in _sci) and the initiator role (pre-state
   logon_sent, identity in _sid).  Oracle: the statement of C23. */
#include "sess_in_world.h"
#ifndef ROLE
#define ROLE cn_acceptor
#endif
#ifndef LENS            /* CompID lengths (own sender, own target, inbound sender, inbound target) */
#define LENS 0x2222
#endif
#define NS ((LENS >> 12) & 15)
#define NT ((LENS >> 8) & 15)
#define MNS ((LENS >> 4) & 15)
#define MNT (LENS & 15)
uint8_t cx_own_s[2], cx_own_t[2], cx_msg_s[2], cx_msg_t[2], cx_enforce, cx_auth, cx_has_reset, cx_reset, cx_silent, cx_reliable;
uint32_t cx_seq, cx_pre_recv, cx_pre_send, cx_hbi, cx_role = ROLE, cx_lens = LENS, cx_req_s, cx_req_r;
int main(void)
{
  world_init(1);
  uint8_t own_s[2], own_t[2], msg_s[2], msg_t[2];
  for (int i = 0; i < 2; i++) { own_s[i] = nondet_u8(); own_t[i] = nondet_u8(); msg_s[i] = nondet_u8(); msg_t[i] = nondet_u8(); cx_own_s[i] = own_s[i]; cx_own_t[i] = own_t[i]; cx_msg_s[i] = msg_s[i]; cx_msg_t[i] = msg_t[i]; }
  uint8_t enforce = nondet_bool(), silent = nondet_bool(), reliable = nondet_bool();
  uint32_t pre_recv = nondet_u32(), pre_send = nondet_u32(); VF_ASSUME(pre_recv >= 1 && pre_send >= 1);
  vf_conn_set((struct S_class_2eFIX8_3a_3aConnection*)&the_conn, ROLE, 1, 30, 0);
  /* start numbers requested through Session::start(conn, wait, send_seqnum, recv_seqnum): 0 = none (acceptor: symbolic) */
  uint32_t req_s = 0, req_r = 0;
#if ROLE == cn_acceptor
  req_s = nondet_u32(); req_r = nondet_u32();
#endif
  cx_req_s = req_s; cx_req_r = req_r;
  vf_sess_set_seq(BASE, pre_send, pre_recv); vf_sess_set_active(BASE, 1); vf_sess_set_req_seq(BASE, req_s, req_r);
  vf_sess_set_flags(BASE, enforce, silent, reliable, 0, 0);
#if ROLE == cn_acceptor
  vf_sess_set_state(BASE, st_wait_for_logon);
  vf_sess_set_sci(BASE, own_s, NS);
  uint8_t z[1] = { 0 }; vf_sess_set_sid(BASE, z, 0, z, 0);       /* acceptor: identity unknown until logon */
#else
  vf_sess_set_state(BASE, st_logon_sent);
  vf_sess_set_sid(BASE, own_s, NS, own_t, NT);
#endif
  uint8_t type[2] = { 'A', 0 }; msg_init(type, 1);
  vf_msg_set_compids(&the_msg, msg_s, MNS, msg_t, MNT);
  for (int i = 0; i < 2; i++) { m_sci[i] = msg_s[i]; m_tci[i] = msg_t[i]; } m_sci_n = MNS; m_tci_n = MNT;     /* the same CompIDs through the copying accessors */
  m_is_admin = 1; m_auth = nondet_bool();
  m_has_reset = nondet_bool(); uint8_t reset = nondet_bool(); vf_msg_set_reset(&the_msg, reset);
  m_has_hbi = 1; m_hbi = nondet_i32(); VF_ASSUME(m_hbi >= 1 && m_hbi <= 3600);
  m_has_pd = 0; m_has_st = 1; m_st = 1000; m_has_ost = 0;
  uint32_t seq = nondet_u32(); uint8_t raw[12]; uint32_t rawn = raw_abs(raw, seq);
  cx_enforce = enforce; cx_auth = m_auth; cx_has_reset = m_has_reset; cx_reset = reset; cx_silent = silent; cx_reliable = reliable; cx_seq = seq; cx_pre_recv = pre_recv; cx_pre_send = pre_send; cx_hbi = m_hbi;

  uint8_t ret = vf_process(SESS, raw, rawn);
  int thrown = __vf_exc_pending; __vf_exc_pending = 0;

  uint32_t state = vf_sess_state(BASE);
  int shutdown = vf_sess_is_shutdown_flag(BASE) & 1;
  int logon_reply = 0, logout = 0; uint32_t reply_hbi = 0;
  for (int i = 0; i < VF_OUTMAX; i++) if (i < out_n) { if (out_kind[i] == G_LOGON) { logon_reply++; reply_hbi = out_a[i]; } if (out_kind[i] == G_LOGOUT) logout++; }
  int reset_given = m_has_reset && reset;
  VF_ASSERT(!out_bad && out_n <= VF_OUTMAX, "C23: recorder consistent");
  VF_ASSERT(!thrown || reliable, "C23: process() lets an exception escape only in reliable mode");
#if ROLE == cn_acceptor
  int tci_ok = str_eq(msg_t, MNT, own_s, NS);
  int completed = state == st_continuous;
  /* only-if: logon completes only with the right TargetCompID (enforcement on) and successful authentication */
  if (completed) {
    VF_ASSERT(!enforce || tci_ok, "C23: an acceptor completes logon only when the Logon's TargetCompID equals its own SenderCompID (enforcement on)");
    VF_ASSERT(m_auth, "C23: an acceptor completes logon only after successful authentication");
    VF_ASSERT(logon_reply == 1 && reply_hbi == (uint32_t)m_hbi, "C23: the acceptor answers with a Logon echoing HeartBtInt");
    VF_ASSERT(vf_conn_hb((struct S_class_2eFIX8_3a_3aConnection*)&the_conn) == (uint32_t)m_hbi, "C23: the connection adopts the client's heartbeat interval");
    if (reset_given) VF_ASSERT(vf_sess_next_send(BASE) == 1 && vf_sess_next_recv(BASE) == 2, "C23: ResetSeqNumFlag=Y resets both numbers to 1 (the Logon itself consumes inbound number 1)");
    uint8_t sb[4], tb[4]; uint32_t sn = vf_sess_sid_sender(BASE, sb), tn = vf_sess_sid_target(BASE, tb);
    VF_ASSERT(str_eq(sb, sn, msg_t, MNT) && str_eq(tb, tn, msg_s, MNS), "C23: the session identity mirrors the Logon's CompIDs");
    VF_REACH();
  }
  /* if: a well-formed logon with the right TargetCompID, authenticated, in sequence, completes */
  uint32_t eff_recv = reset_given ? 1 : (req_r ? req_r : pre_recv);      /* a requested start number replaces the recovered one unless the peer resets */
  if ((!enforce || tci_ok) && m_auth && seq == eff_recv) { VF_ASSERT(completed && !shutdown && logon_reply == 1, "C23: a correct Logon is accepted"); VF_REACH(); }
  if (enforce && !tci_ok) { VF_ASSERT(state == st_session_terminated && shutdown && logon_reply == 0, "C23: wrong TargetCompID with enforcement on terminates the session without a Logon reply"); VF_REACH(); }
  if (!m_auth && (!enforce || tci_ok)) { VF_ASSERT(state == st_session_terminated && shutdown && logon_reply == 0, "C23: failed authentication terminates the session"); VF_REACH(); }
#else
  int mirror = str_eq(msg_t, MNT, own_s, NS) && str_eq(msg_s, MNS, own_t, NT);
#ifdef KF_SID_NE
  /* complement of the known-finding class: the reply's CompIDs mirror the identity or differ from it in both components */
  VF_ASSUME(mirror || (!str_eq(msg_t, MNT, own_s, NS) && !str_eq(msg_s, MNS, own_t, NT)));
#endif
  if (enforce && !mirror) {
    VF_ASSERT(state == st_session_terminated && shutdown, "C23: an initiator treats a Logon reply whose CompIDs do not mirror its identity as a mismatch and terminates (enforcement on)");
    VF_REACH();
  }
  if (mirror && seq == pre_recv) {
    VF_ASSERT(state == st_continuous && !shutdown && n_timer_sched == 1, "C23: a mirrored, in-sequence Logon reply establishes the session");
#if MNT == NS && MNS == NT      /* with other length combinations no reply can mirror the identity: the goal would be unreachable by construction */
    VF_REACH();
#endif
  }
  if (state == st_continuous) { VF_ASSERT(!enforce || mirror, "C23: an initiator session is established only with mirrored CompIDs (enforcement on)"); VF_REACH(); }
#endif
  VF_REACH();
  return 0;
}
