/* C23, identity part: SessionID::operator== / operator!= / same_*_comp_id on ids whose CompIDs are 1-2 arbitrary bytes
   (lengths case-split at compile time: LENS = a.sender, a.target, b.sender, b.target). */
#include "vf_h.h"
#include "sess_sid.c"      /* translation restricted to the SessionID roots (no session world needed) */
static int str_eq(const uint8_t *a, uint32_t na, const uint8_t *b, uint32_t nb) { if (na != nb) return 0; for (uint32_t i = 0; i < 2; i++) if (i < na && a[i] != b[i]) return 0; return 1; }
#ifndef LENS
#define LENS 0x2222
#endif
#define L0 ((LENS >> 12) & 15)
#define L1 ((LENS >> 8) & 15)
#define L2 ((LENS >> 4) & 15)
#define L3 (LENS & 15)
static struct S_class_2eFIX8_3a_3aSessionID id_a, id_b;
uint8_t cx_as[2], cx_at[2], cx_bs[2], cx_bt[2]; uint32_t cx_lens = LENS;
int main(void)
{
  uint8_t as[2], at[2], bs[2], bt[2];
  for (int i = 0; i < 2; i++) { as[i] = nondet_u8(); at[i] = nondet_u8(); bs[i] = nondet_u8(); bt[i] = nondet_u8(); cx_as[i] = as[i]; cx_at[i] = at[i]; cx_bs[i] = bs[i]; cx_bt[i] = bt[i]; }
  vf_sid_init(&id_a, as, L0, at, L1); vf_sid_init(&id_b, bs, L2, bt, L3);
  int s_eq = str_eq(as, L0, bs, L2), t_eq = str_eq(at, L1, bt, L3);
  uint8_t eq = vf_sid_eq(&id_a, &id_b) & 1, ne = vf_sid_ne(&id_a, &id_b) & 1;
  VF_ASSERT(!__vf_exc_pending, "C23: no exception");
  VF_ASSERT(eq == (s_eq && t_eq), "C23: session identities are equal exactly when both CompIDs are equal");
#ifndef KF_SID_NE
  VF_ASSERT(ne == !eq, "C23: session identities compare unequal exactly when they are not equal");
#else
  VF_ASSERT(!(s_eq && t_eq) || !ne, "C23: equal identities never compare unequal");
#endif
  VF_ASSERT((vf_sid_eq(&id_a, &id_a) & 1) && !(vf_sid_ne(&id_a, &id_a) & 1), "C23: an identity equals itself");
  /* same_*_comp_id: a.sender vs a TargetCompID field carrying b.sender's bytes, etc. */
  static struct S_struct_2eVMessage m2; /* reuse the abstract message's field members as holders of (b.sender as 49, b.target as 56) */
  vf_msg_set_compids(&m2, bs, L2, bt, L3);
  VF_ASSERT((vf_sid_same_side_sender(&id_a, (void*)vf_msg_sci(&m2)) & 1) == s_eq, "C23: same_side_sender_comp_id <=> SenderCompID equal");
  VF_ASSERT((vf_sid_same_side_target(&id_a, (void*)vf_msg_tci(&m2)) & 1) == t_eq, "C23: same_side_target_comp_id <=> TargetCompID equal");
  VF_ASSERT((vf_sid_same_target(&id_a, (void*)vf_msg_sci(&m2)) & 1) == str_eq(at, L1, bs, L2), "C23: same_target_comp_id <=> inbound SenderCompID equals own TargetCompID");
  VF_ASSERT((vf_sid_same_sender(&id_a, (void*)vf_msg_tci(&m2)) & 1) == str_eq(as, L0, bt, L3), "C23: same_sender_comp_id <=> inbound TargetCompID equals own SenderCompID");
  VF_REACH();
  return 0;
}
