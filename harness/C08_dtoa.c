/* C08 floats: CBMC runs the real C file runtime/modp_numtoa.c; v finite, |v| < 2^31, precision PREC.
   Oracle: exact correct rounding in 128-bit integers: |v*10^p - text*10^p| <= 1/2, at most p fraction digits. */
#include "vf_h.h"
#include <stdio.h>
#define F8API
#include MODP_C
#ifndef PREC
#define PREC 2
#endif
#ifdef PREC_SYM      /* boundary-value harness: concrete v (CX_V), every precision 0..9 */
static int g_prec;
#undef PREC
#define PREC g_prec
#endif
typedef unsigned __int128 u128;
double cx_v; uint8_t cx_text[24]; uint64_t cx_n; int32_t cx_prec = PREC;
int main(void)
{
  double v = nondet_double(); int neg = 0;
#ifdef PREC_SYM
  g_prec = nondet_i32(); VF_ASSUME(g_prec >= 0 && g_prec <= 9); cx_prec = g_prec;
#endif
#ifdef KF_EBAND        /* known finding: values in (2^31-1, 2^31) are printed in exponent notation */
  VF_ASSUME(v == v && v >= -2147483647.0 && v <= 2147483647.0);
#else
  VF_ASSUME(v == v && v > -2147483648.0 && v < 2147483648.0);
#endif
#ifdef VPOS
  VF_ASSUME(v >= 0);
#endif
#ifdef CX_V            /* reachability twin / boundary-value harness: one concrete input */
  v = CX_V;
#endif
  cx_v = v;
  char *buf = malloc(24); VF_ASSUME(buf != 0);            /* sign + 10 + '.' + 9 + NUL = 22 */
  size_t n = modp_dtoa(v, buf, PREC);
  cx_n = n; for (int i = 0; i < 24; i++) cx_text[i] = (uint8_t)buf[i];
  VF_ASSERT(n >= 1 && n < 23 && buf[n] == 0, "C08: text is NUL-terminated inside its buffer");
  double a = v < 0 ? -v : v;
  uint32_t whole = (uint32_t)a; double f = a - (double)whole;      /* both exact */
  size_t i = 0; uint64_t tw = 0, tf = 0; int nd = 0, ok = 1, tneg = 0;
  if (buf[0] == '-') { tneg = 1; i = 1; }
  for (int k = 0; k < 11; k++) if (i < n && buf[i] != '.') { ok = ok && buf[i] >= '0' && buf[i] <= '9'; tw = tw * 10 + (uint64_t)(buf[i] - '0'); i++; }
  if (i < n) { ok = ok && buf[i] == '.'; i++; for (int k = 0; k < 10; k++) if (i < n) { ok = ok && buf[i] >= '0' && buf[i] <= '9'; tf = tf * 10 + (uint64_t)(buf[i] - '0'); nd++; i++; } }
  VF_ASSERT(ok && i == n && nd <= PREC, "C08: text is [-]digits[.digits] with at most p fraction digits");
  for (int j = nd; j < PREC; j++) tf *= 10;
  uint64_t P10 = 1; for (int j = 0; j < PREC; j++) P10 *= 10;
  /* f*2^84 as an exact integer (f < 1 has at most 84 fraction bits that matter here; below 2^-32 it must print as zero digits) */
  double hi = f * 0x1p42; uint64_t hi_i = (uint64_t)hi; double lo = (hi - (double)hi_i) * 0x1p42; uint64_t lo_i = (uint64_t)lo;
  int tiny = (lo - (double)lo_i) != 0.0;                   /* bits below 2^-84: only for f < 2^-31 */
  u128 F = ((u128)hi_i << 42) | lo_i;
  u128 X = (((u128)whole * P10) << 84) + F * P10;      /* a*10^p * 2^84, exact up to the 'tiny' tail */
  u128 T = ((u128)tw * P10 + tf) << 84;
  u128 d = X > T ? X - T : T - X, half = (u128)1 << 83;
#ifdef KF_NEARTIE
  /* known finding: the product (value-whole)*10^p is rounded to double before the tie test */
  { u128 r = (F * P10) & (((u128)1 << 84) - 1); u128 td = r > half ? r - half : half - r; u128 thr = ((F * P10) >> 51) + ((u128)1 << 33);
    VF_ASSUME(td > thr); }
#endif
  VF_ASSERT(d <= half + (tiny ? 1 : 0), "C08: text is the correctly rounded decimal of v at precision p");
  VF_ASSERT(tneg == (v < 0 && (tw != 0 || tf != 0)) || (tneg && v < 0), "C08: sign is kept");
  VF_REACH();
  return 0;
}
