/* C12: real GeneratedTable<Key,Val>::_find / find_pair_ptr / find_ptr / at (and find_ref in the cut-mode variant) over a
   symbolic table: any strictly ascending table of n <= NT keys, any probe key.  The table ends where its object ends,
   so a read past the last pair is an out-of-bounds access.
   KIND 0: unsigned keys (field table)   KIND 1: const char* keys ordered by strcmp (message table), strings of <= 2 chars
   KIND 2: unsigned keys, find_ref (throws InvalidMetadata<unsigned> when absent; its constructor is a cut point) */
#include "vf_h.h"
#if KIND == 2
#include "c12cut.c"
#else
#include "c12.c"
#endif
#ifndef NT
#define NT 8
#endif
typedef struct UPAIR_T upair; typedef struct SPAIR_T spair;
uint32_t cx_key[NT], cx_probe; int32_t cx_n, cx_kind, cx_idx; int64_t cx_got; uint8_t cx_strs[NT * 3], cx_pstr[3];   /* flat: CBMC 6.11 mis-evaluates reads through row pointers of a 2-D byte array */
static int scmp(const uint8_t *a, const uint8_t *b) { int i = 0; while (a[i] && a[i] == b[i]) i++; return (int)a[i] - (int)b[i]; }
#if KIND == 2
static int im_ctor_calls; static uint32_t im_ctor_key;
void st_invmeta_ctor(struct S_struct_2eFIX8_3a_3aInvalidMetadata *e, uint32_t key) { im_ctor_calls++; im_ctor_key = key; }
#endif
int main(void)
{
  int n = nondet_i32(); VF_ASSUME(n >= 0 && n <= NT);
  cx_n = n; cx_kind = KIND;
#if KIND == 0 || KIND == 2
  static upair arr[NT]; upair *tab = arr + (NT - n);
  for (int i = 0; i < NT; i++) { cx_key[i] = nondet_u32(); if (i > 0 && i < n) VF_ASSUME(cx_key[i - 1] < cx_key[i]); }
  for (int i = 0; i < NT; i++) if (i < n) { tab[i].f0 = cx_key[i]; tab[i].f1.f0 = nondet_u32(); }
  uint32_t probe = nondet_u32(); cx_probe = probe;
  int pos = -1; for (int i = 0; i < NT; i++) if (i < n && cx_key[i] == probe) pos = i;
#if KIND == 0
  int64_t gp = (int64_t)vf_gt_pair_u(tab, (uint64_t)n, probe), gv = (int64_t)vf_gt_ptr_u(tab, (uint64_t)n, probe);
  cx_got = gp;
  VF_ASSERT(gp == pos, "C12: field-table lookup hits exactly the present keys and returns that key's pair");
  VF_ASSERT(gv == (pos < 0 ? -1 : (int64_t)(pos * sizeof(upair) + offsetof(upair, f1))), "C12: find_ptr returns the value of that key's pair, null when absent");
  uint64_t idx = nondet_u64(); cx_idx = (int32_t)idx;
  VF_ASSERT((int64_t)vf_gt_at_u(tab, (uint64_t)n, idx) == (idx < (uint64_t)n ? (int64_t)idx : -1), "C12: at(i) is the i-th pair, null from size() on");
#else
  int64_t gr = (int64_t)vf_gt_ref_u(tab, (uint64_t)n, probe);
  cx_got = gr;
  if (pos >= 0) {
    VF_ASSERT(!__vf_exc_pending, "C12: find_ref does not throw for a present key");
    VF_ASSERT(gr == (int64_t)(pos * sizeof(upair) + offsetof(upair, f1)), "C12: find_ref returns the value of that key's pair");
  } else {
    VF_ASSERT(__vf_exc_pending && im_ctor_calls == 1 && im_ctor_key == probe, "C12: find_ref throws InvalidMetadata carrying the key when it is absent");
    VF_ASSERT(__vf_exc_type == (void*)&VF_TI_INVMETA, "C12: the exception thrown is InvalidMetadata<unsigned>");
    __vf_exc_pending = 0;
  }
#endif
#else
  static spair arr[NT]; spair *tab = arr + (NT - n);
  for (int i = 0; i < NT; i++) {
    cx_strs[3 * i + 0] = nondet_u8(); cx_strs[3 * i + 1] = nondet_u8(); cx_strs[3 * i + 2] = 0;
    if (i > 0 && i < n) VF_ASSUME(scmp((&cx_strs[3 * (i - 1)]), (&cx_strs[3 * i])) < 0);
  }
  for (int i = 0; i < NT; i++) if (i < n) { tab[i].f0 = (&cx_strs[3 * i]); tab[i].f1.f0 = nondet_u32(); }
  cx_pstr[0] = nondet_u8(); cx_pstr[1] = nondet_u8(); cx_pstr[2] = 0;
  int pos = -1; for (int i = 0; i < NT; i++) if (i < n && scmp((&cx_strs[3 * i]), cx_pstr) == 0) pos = i;
  int64_t gp = (int64_t)vf_gt_pair_s(tab, (uint64_t)n, cx_pstr), gv = (int64_t)vf_gt_ptr_s(tab, (uint64_t)n, cx_pstr);
  cx_got = gp;
  VF_ASSERT(gp == pos, "C12: message-table lookup hits exactly the present strings and returns that string's pair");
  VF_ASSERT(gv == (pos < 0 ? -1 : (int64_t)(pos * sizeof(spair) + offsetof(spair, f1))), "C12: find_ptr returns the value of that string's pair, null when absent");
#endif
  if (pos >= 0) VF_REACH(); else VF_REACH();
  return 0;
}
