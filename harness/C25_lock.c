/* C25 (threaded model): NT application threads call the real FIXWriter::write(Message*,bool) / write(Message&) /
   write_batch (2 messages) concurrently on one writer (process model pm_thread). CBMC explores every interleaving (SC) of the
   threads' shared-memory accesses (__CPROVER_ASYNC threads).  pthread_spin_lock/unlock = atomic test-and-set (models/pthread_spin.c).
   Session::send_process is the critical-section witness: a NON-atomic read / write of a shared counter (the "sequence number")
   plus an occupancy flag, so any two overlapping executions are visible as a duplicate number or as occupancy.
   Oracle: mutual exclusion inside send_process; the numbers taken are unique and consecutive from 0; the two messages of a batch take
   adjacent numbers in order; every message is processed exactly once; end_of_batch is false on the first and true on the last
   message of a batch; the calls report success. */
#include "vf_h.h"
/* props/C25.py passes -Dmalloc=vf_static_alloc: CBMC's built-in malloc writes a shared pointer (leak bookkeeping), which its thread
   encoding rejects; the only allocation in reach is the exception object of the (unreachable, asserted) pipelined branch of write(Message&) */
static uint64_t vf_exc_store[3][16]; static __CPROVER_thread_local uint32_t vf_alloc_n;
void *vf_static_alloc(size_t n) { return vf_exc_store[vf_alloc_n++ % 3]; }
#include "c25.c"
#ifndef MODE0
#define MODE0 0           /* per thread: 0 = write(Message*, false), 1 = write(Message&), 2 = write_batch({a,b}, false), 9 = no thread */
#endif
#ifndef MODE1
#define MODE1 0
#endif
#ifndef MODE2
#define MODE2 9
#endif
#define NMSG 6
typedef struct S_class_2eFIX8_3a_3aMessage MSG;
static struct S_class_2eFIX8_3a_3aFIXWriter the_w;
/* messages are opaque to the code under test except for the end-of-batch flag: raw integer storage (an object with pointer-typed members
   cannot be written at a symbolic offset under CBMC's thread encoding) */
#define MSGWORDS 64
static uint64_t msg_raw[NMSG][MSGWORDS];
#define MSGP(i) ((MSG*)msg_raw[i])
static struct VEC_T vecs[3]; static MSG *vstore[3][2];   /* VEC_T = generated struct of std::vector<Message*> (passed by props/C25.py) */
/* witness state */
static uint32_t counter; static uint32_t taken[NMSG]; static uint8_t nproc[NMSG]; static uint8_t in_cs, overlap;
static uint8_t done[3]; static uint8_t ret_ok[3];
uint32_t cx_taken[NMSG]; uint8_t cx_nproc[NMSG]; uint8_t cx_overlap; uint8_t cx_mode[3] = { MODE0, MODE1, MODE2 };
uint8_t st_send_process(void *sess, void *m)
{
  uint32_t id = (uint32_t)(((uint64_t*)m - &msg_raw[0][0]) / MSGWORDS);
  if (in_cs) overlap = 1;
  in_cs = 1;
  uint32_t t = counter;                      /* read ...                                   */
  counter = t + 1;                           /* ... and write back: two separate shared accesses */
  taken[id] = t; nproc[id]++;
  in_cs = 0;
  return 1;
}
uint8_t st_queue_push(void *q, void *d) { __CPROVER_assert(0, "C25: the queue is not used in the threaded process model"); return 1; }
void st_exc_txt(void *e, void *txt, uint8_t force) { __CPROVER_assert(0, "C25: write(Message&) does not throw in the threaded process model"); }
static void worker(int i, int mode)
{
  uint8_t ok = 1;
  if (mode == 0) ok = vf_w_write(&the_w, MSGP(2 * i), 0) & 1;
  else if (mode == 1) ok = vf_w_write_ref(&the_w, MSGP(2 * i)) & 1;
  else if (mode == 2) ok = (vf_w_write_batch2(&the_w, &vecs[i], 0) == 2);
  ret_ok[i] = ok;
  done[i] = 1;
}
int main(void)
{
  __CPROVER_assert(sizeof(MSG) <= sizeof msg_raw[0], "raw message storage large enough");
  vf_w_init(&the_w, 0 /* pm_thread */);
  for (int i = 0; i < 3; i++) vf_vec_init2(&vecs[i], vstore[i], MSGP(2 * i), MSGP(2 * i + 1));
  const int nmsg[3] = { MODE0 == 9 ? 0 : MODE0 == 2 ? 2 : 1, MODE1 == 9 ? 0 : MODE1 == 2 ? 2 : 1, MODE2 == 9 ? 0 : MODE2 == 2 ? 2 : 1 };
#if MODE0 != 9
  __CPROVER_ASYNC_1: worker(0, MODE0);
#else
  done[0] = 1; ret_ok[0] = 1;
#endif
#if MODE1 != 9
  __CPROVER_ASYNC_2: worker(1, MODE1);
#else
  done[1] = 1; ret_ok[1] = 1;
#endif
#if MODE2 != 9
  __CPROVER_ASYNC_3: worker(2, MODE2);
#else
  done[2] = 1; ret_ok[2] = 1;
#endif
  VF_ASSUME(done[0] && done[1] && done[2]);          /* join */
  uint32_t total = nmsg[0] + nmsg[1] + nmsg[2];
  for (int k = 0; k < NMSG; k++) { cx_taken[k] = taken[k]; cx_nproc[k] = nproc[k]; } cx_overlap = overlap;
  VF_ASSERT(!overlap, "C25: at most one thread is inside send_process at any time");
  VF_ASSERT(counter == total, "C25: the sequence counter advanced once per message (no lost update)");
  uint32_t seen = 0;
  for (int i = 0; i < 3; i++) for (int j = 0; j < 2; j++) {
    int id = 2 * i + j;
    if (j < nmsg[i]) {
      VF_ASSERT(nproc[id] == 1, "C25: every message is processed exactly once");
      VF_ASSERT(taken[id] < total && !((seen >> taken[id]) & 1), "C25: the numbers taken are unique and consecutive");
      if (taken[id] < 32) seen |= 1u << taken[id];
    } else VF_ASSERT(nproc[id] == 0, "C25: nothing else is processed");
  }
  for (int i = 0; i < 3; i++) if (nmsg[i] == 2) {
    VF_ASSERT(taken[2 * i + 1] == taken[2 * i] + 1, "C25: the messages of a batch take adjacent numbers in order");
    VF_ASSERT(!(vf_msg_eob(MSGP(2 * i)) & 1) && (vf_msg_eob(MSGP(2 * i + 1)) & 1), "C25: end-of-batch is set on the last message of a batch only");
  }
  VF_ASSERT(ret_ok[0] && ret_ok[1] && ret_ok[2], "C25: the calls report success");
  VF_ASSERT(!__vf_exc_pending, "C25: no exception");
  VF_REACH();
  return 0;
}
