/* C22, inbound part: a TestRequest is answered with a Heartbeat carrying the same TestReqID; a Heartbeat received while a TestRequest
   is pending returns the session to normal operation.  One real Session::process step, in-sequence message, matching CompIDs. */
#include "sess_in_world.h"
uint32_t cx_state, cx_expected, cx_type; uint8_t cx_trid[2], cx_trid_n;
#ifndef TRLEN
#define TRLEN 2
#endif
int main(void)
{
  world_init(0);
  uint32_t state = nondet_u32(), expected = nondet_u32(); VF_ASSUME(IS_ESTABLISHED(state) && state != st_logon_received && expected >= 1);
  vf_sess_set_seq(BASE, 9, expected); vf_sess_set_state(BASE, state); vf_sess_set_active(BASE, 1);
  vf_sess_set_flags(BASE, 1, 0, 0, 0, 0);
  uint8_t s[1] = { 'S' }, t[1] = { 'T' }; vf_sess_set_sid(BASE, s, 1, t, 1);
  uint8_t type[2] = { nondet_bool() ? '0' : '1', 0 }; msg_init(type, 1); vf_msg_set_compids(&the_msg, t, 1, s, 1);
  m_is_admin = 1; m_has_pd = 0; m_has_st = 1; m_st = 7; m_has_ost = 0;
  m_has_trid = 1; m_trid_n = TRLEN; m_trid[0] = nondet_u8(); m_trid[1] = nondet_u8();
  if (type[0] == '0') m_has_trid = nondet_bool();
  uint8_t raw[12]; uint32_t rawn = raw_abs(raw, expected);
  cx_state = state; cx_expected = expected; cx_type = type[0]; cx_trid[0] = m_trid[0]; cx_trid[1] = m_trid[1]; cx_trid_n = TRLEN;
  uint8_t ret = vf_process(SESS, raw, rawn);
  VF_ASSERT(!__vf_exc_pending, "C22: no exception"); __vf_exc_pending = 0;
  VF_ASSERT(!out_bad, "C22: recorder consistent");
  if (type[0] == '1') {
    VF_ASSERT(out_n == 1 && out_kind[0] == G_HEARTBEAT && out_slen[0] == TRLEN && out_s0[0] == m_trid[0] && (TRLEN < 2 || out_s1[0] == m_trid[1]),
              "C22: an inbound TestRequest is answered with exactly one Heartbeat carrying the same TestReqID");
    VF_ASSERT(vf_sess_next_recv(BASE) == expected + 1 && !(vf_sess_is_shutdown_flag(BASE) & 1), "C22: the TestRequest is consumed and the session continues");
    VF_REACH();
  } else {
    VF_ASSERT(out_n == 0, "C22: an inbound Heartbeat is not answered");
    if (state == st_test_request_sent) { VF_ASSERT(vf_sess_state(BASE) == st_continuous, "C22: a Heartbeat received while a TestRequest is pending returns the session to normal operation"); VF_REACH(); }
    else if (state == st_resend_request_sent) { VF_ASSERT(vf_sess_state(BASE) == state || vf_sess_state(BASE) == st_continuous, "C22: during gap recovery an in-sequence Heartbeat leaves the state or completes the recovery"); VF_REACH(); }
    else { VF_ASSERT(vf_sess_state(BASE) == state, "C22: a Heartbeat in any other state leaves the state unchanged"); VF_REACH(); }
  }
  VF_REACH();
  return 0;
}
