/* C06 length-prefixed data fields, decode side, over the token-level driver (real Message::factory / MessageBase::decode with the
   ft_Length branch and the real extract_element_fixed_width running on the message bytes).
   Message = 8=FIX.4.2|9=12|35=A| 49=a|56=b|34=1|52=t| [90=n|91=DATA|] 98=0|108=3| [95=n|96=DATA|] 141=Y| [93=n|89=DATA|] 10=ccc|
   PLACE (compile time) selects the pair: 0 header (SecureDataLen/SecureData), 1 body (RawDataLength/RawData), 2 trailer
   (SignatureLength/Signature).  n = 0..NDATA is case-split (one concrete-length run each); the n data bytes are arbitrary
   (SOH, '=', NUL included).  Expected: accepted, the data field holds exactly those n bytes, the fields after it decode. */
#define NX 0
#define NG 0
#define NEL 1
#ifndef VMAXB
#define VMAXB 6
#endif
#ifndef NDATA
#define NDATA 4
#endif
#define NTOK (3 + 4 + 2 + 2 + 1 + 1)
#define MAXMSG (20 + 6 * 6 + 6 + 2 * 12 + 7 + 2 + 1)
#define RMAX (NTOK + 1)
#define NOGROUP
#include "codec_world.h"
#include "codec_tok.h"
#ifndef PLACE
#define PLACE 1
#endif
uint8_t cx_data[NDATA + 1], cx_n, cx_place = PLACE, cx_cs[3], cx_nochk = 1, cx_perm, cx_accept, cx_exc, cx_gotlen;
uint8_t cx_msg[MAXMSG]; uint32_t cx_len, cx_sum;
static uint8_t NSEL;
#ifdef FW_PRECOND
/* C03 composition harness: the Length text is two arbitrary digits (00..99) while the message carries NSEL data bytes.  Every call of the
   fixed-width extractor made by the real MessageBase::decode goes through this wrapper (ir2c --wrap), which asserts the precondition
   under which the C03_fw_* kernel harnesses prove the extractor memory safe: val_sz <= capacity of decode's value buffer - 1 (the
   extractor stores val[val_sz] = 0 and has no capacity parameter for val).  The run ends at the call site (the extractor itself is the
   subject of the kernel harnesses); the other path is the refusal by decode's capacity test. */
uint8_t cx_lendig[2]; uint32_t cx_valsz, cx_fldcap = FLDCAP;
uint32_t W_FW_SYM(uint8_t *from, uint32_t sz, uint32_t val_sz, uint8_t *tag, uint8_t *val, uint32_t tsz)
{
  cx_valsz = val_sz;
  VF_ASSERT(val_sz + 1 <= FLDCAP, "C03: MessageBase::decode hands the fixed-width extractor only value lengths that fit its value buffer (val_sz <= FIX8_MAX_FLD_LENGTH - 1)");
  VF_REACH();
  VF_ASSUME(0);             /* the run ends here: continuing under the symbolic path condition "the capacity test let val_sz through" would make every later offset a case split */
  return 0;
}
#endif
static void tok_const(const char *tag, int tl, uint32_t num, const char *val, int vl)
{
  uint8_t t[5] = { 0 }, v[TKV] = { 0 };
  for (int j = 0; j < tl; j++) t[j] = (uint8_t)tag[j];
  for (int j = 0; j < vl; j++) v[j] = (uint8_t)val[j];
  TK_add(1, num, t, (uint8_t)tl, v, (uint8_t)vl, (uint32_t)(tl + vl + 2));
}
static int k_len, k_data;
static void pair(const char *ltag, uint32_t lnum, const char *dtag, uint32_t dnum)
{
  uint8_t t[5] = { 0 }, v[TKV] = { 0 };
  t[0] = (uint8_t)ltag[0]; t[1] = (uint8_t)ltag[1]; v[0] = (uint8_t)('0' + NSEL);
#ifdef FW_PRECOND
  cx_lendig[0] = nondet_u8(); cx_lendig[1] = nondet_u8();
  VF_ASSUME(cx_lendig[0] >= '0' && cx_lendig[0] <= '9' && cx_lendig[1] >= '0' && cx_lendig[1] <= '9');
  v[0] = cx_lendig[0]; v[1] = cx_lendig[1];
  k_len = TK_n; TK_add(1, lnum, t, 2, v, 2, 6);
#else
  k_len = TK_n; TK_add(1, lnum, t, 2, v, 1, 5);
#endif
  uint8_t t2[5] = { 0 }, v2[TKV] = { 0 };
  t2[0] = (uint8_t)dtag[0]; t2[1] = (uint8_t)dtag[1];
  for (int j = 0; j < NDATA; j++) if (j < NSEL) v2[j] = cx_data[j];
  k_data = TK_n; TK_add(1, dnum, t2, 2, v2, NSEL, (uint32_t)(2 + 1 + NSEL + 1)); TK_isdata[k_data] = 1;
#if defined(KF_SIG_PAIR) && PLACE == 2
  /* known finding: MessageBase::decode pairs a Length field only with the data field whose tag is the Length tag + 1; SignatureLength(93) /
     Signature(89) is not such a pair, so the value is read by the byte tokenizer and ends at its first SOH.  Complement: values without SOH,
     for which the byte tokenizer's contract yields the same token. */
  { int hassoh = 0; for (int j = 0; j < NDATA; j++) if (j < NSEL && cx_data[j] == SOH) hassoh = 1; VF_ASSUME(!hassoh); }
#endif
}
static int run(void)
{
  tok_const("8", 1, 8, "FIX.4.2", 7); tok_const("9", 1, 9, "12", 2); tok_const("35", 2, 35, "A", 1);
  tok_const("49", 2, 49, "a", 1); tok_const("56", 2, 56, "b", 1); tok_const("34", 2, 34, "1", 1); tok_const("52", 2, 52, "t", 1);
#if PLACE == 0
  pair("90", 90, "91", 91);
#endif
  tok_const("98", 2, 98, "0", 1); tok_const("108", 3, 108, "3", 1);
#if PLACE == 1
  pair("95", 95, "96", 96);
#endif
  int k_after = TK_n; tok_const("141", 3, 141, "Y", 1);
#if PLACE == 2
  pair("93", 93, "89", 89);
#endif
  uint8_t c0 = nondet_u8(), c1 = nondet_u8(), c2 = nondet_u8(); VF_ASSUME(c0 >= '0' && c0 <= '9' && c1 >= '0' && c1 <= '9' && c2 >= '0' && c2 <= '9');
  cx_cs[0] = c0; cx_cs[1] = c1; cx_cs[2] = c2;
  { uint8_t t[5] = { '1', '0', 0, 0, 0 }, v[TKV] = { c0, c1, c2, 0 }; TK_add(1, 10, t, 2, v, 3, 7); }
  TK_render();
  W_set_input(TK_len); cx_len = TK_len;
  for (int i = 0; i < MAXMSG; i++) cx_msg[i] = W_buf[i];
  W_sum = 0;
  struct S_class_2eFIX8_3a_3aMessage *m = vf_factory(&W_ctx, &W_from, 1, 0);      /* checksum verification off: not the subject here */
  int thrown = __vf_exc_pending; int kind = thrown ? W_exc_kind() : -1; __vf_exc_pending = 0;
  cx_accept = !thrown; cx_exc = (uint8_t)kind;
  VF_REACH();               /* the decoder returned (accepted or threw): reachable whatever the verdict of the assertions below */
#ifdef FW_PRECOND
  return 0;                 /* the subject is the assertion inside the wrapper */
#else
  VF_ASSERT(!W_rec_overflow && !TK_bad, "C06: the decoder never tokenizes inside a data value (tokenizer cut consistent)");
#ifdef EXPECT_REJECT      /* boundary harness (C03): a data length that does not fit the decoder's value buffer must be refused, with no memory error */
  VF_ASSERT(thrown, "C03: a data field whose length does not fit the decoder's value buffer is refused");
  VF_REACH();
  return 0;
#endif
  VF_ASSERT(!thrown, "C06: a message with a well-formed Length/data pair is accepted");
  if (!thrown) {
    /* expected log: 49 56 34 52 [90 91] 98 108 [95 96] 141 [93 89] */
    int nexp = 7 + 2, idx = PLACE == 0 ? 4 : PLACE == 1 ? 6 : 7;
    VF_ASSERT(W_nrec == nexp, "C06: every field of the message is decoded (the fields after the data field included)");
    if (W_nrec == nexp) {
      struct W_rec_s *rl = &W_rec[idx], *rd = &W_rec[idx + 1];
      VF_ASSERT(rl->tag == TK_num[k_len] && rd->tag == TK_num[k_data] && rl->comp == PLACE && rd->comp == PLACE, "C06: Length and data fields are decoded in their component");
      cx_gotlen = rd->vlen;
      int eq = rd->vlen == NSEL; for (int j = 0; j < NDATA; j++) if (j < NSEL && rd->val[j] != cx_data[j]) eq = 0;
#ifdef KF_DATA_NUL
      { int hasnul = 0; for (int j = 0; j < NDATA; j++) if (j < NSEL && cx_data[j] == 0) hasnul = 1; if (hasnul) eq = 1; }   /* known finding: a NUL byte ends the value */
#endif
      VF_ASSERT(eq, "C06: the data field carries exactly the n bytes of the message (SOH, '=', NUL included)");
      int after = PLACE == 2 ? 6 : 6 + (PLACE <= 1 ? 2 : 0);
      struct W_rec_s *ra = &W_rec[PLACE == 2 ? 6 : 8];
      VF_ASSERT(ra->tag == 141 && ra->comp == C_BODY && ra->vlen == 1 && ra->val[0] == 'Y', "C06: the field after the pair decodes correctly");
    }
    VF_REACH();
  }
  return 0;
#endif
}
int main(void)
{
  W_setup();
#ifdef CONCRETE_DATA       /* boundary harness: the length is the subject, the bytes are fixed letters */
  for (int j = 0; j < NDATA; j++) cx_data[j] = (uint8_t)('a' + j);
#else
  for (int j = 0; j < NDATA; j++) cx_data[j] = nondet_u8();
#endif
#ifdef NFIX
  cx_n = NFIX; NSEL = NFIX; return run();                /* one query per data length */
#else
  cx_n = nondet_u8(); VF_ASSUME(cx_n <= NDATA);
  for (NSEL = 0; NSEL <= NDATA; NSEL++) if (cx_n == NSEL) return run();
  return 0;
#endif
}
