/* C19, header scan on real bytes: Session::process takes MsgSeqNum from the inbound bytes before decoding.  The message here is
   8=F<SOH>49=<4 arbitrary non-SOH bytes><SOH>34=<d><SOH> : a SenderCompID *value* of arbitrary content followed by the real MsgSeqNum
   field with value d.  The session is continuous and expects d, so the message is in sequence and must be delivered as number d. */
#define SESS_C "sess_scan.c"      /* translation with the real fast_atoi<unsigned> */
#include "sess_in_world.h"
uint8_t cx_v[4], cx_d; uint32_t cx_seen;
int main(void)
{
  world_init(0);
  uint8_t v[4], d = nondet_u8(); VF_ASSUME(d >= '1' && d <= '9');
  for (int i = 0; i < 4; i++) { v[i] = nondet_u8(); VF_ASSUME(v[i] != 1 && v[i] != 0); cx_v[i] = v[i]; }
#ifdef KF_FIRST_34
  /* complement of the known-finding class: the text "34=" does not occur inside the value */
  VF_ASSUME(!(v[0] == '3' && v[1] == '4' && v[2] == '=') && !(v[1] == '3' && v[2] == '4' && v[3] == '='));
#endif
  cx_d = d;
  uint32_t expected = (uint32_t)(d - '0');
  vf_sess_set_seq(BASE, 7, expected); vf_sess_set_state(BASE, st_continuous); vf_sess_set_active(BASE, 1);
  vf_sess_set_flags(BASE, 0, 0, 0, 0, 0);                    /* CompID enforcement off: the value is arbitrary */
  uint8_t a[1] = { 'S' }; vf_sess_set_sid(BASE, a, 1, a, 1);
  uint8_t type[2] = { 'D', 0 }; msg_init(type, 1); vf_msg_set_compids(&the_msg, a, 1, a, 1);
  m_is_admin = 0; m_has_pd = 0; m_has_st = 1; m_st = 5; m_has_ost = 0;
  uint8_t raw[20] = { '8', '=', 'F', 1, '4', '9', '=', v[0], v[1], v[2], v[3], 1, '3', '4', '=', d, 1, 0 };
  uint8_t ret = vf_process(SESS, raw, 17);
  int thrown = __vf_exc_pending; __vf_exc_pending = 0;
  cx_seen = deliver_seq;
  VF_ASSERT(!thrown, "C19: no exception escapes");
  VF_ASSERT(n_deliver == 1 && deliver_seq == expected, "C19: the in-sequence message is delivered under its own MsgSeqNum (header values containing '34=' do not matter)");
  VF_ASSERT(out_n == 0 && vf_sess_next_recv(BASE) == expected + 1 && !(vf_sess_is_shutdown_flag(BASE) & 1), "C19: no ResendRequest/Logout for an in-sequence message; expected number advances by one");
  VF_REACH();
  return 0;
}
