/* C09 (log timestamp clause): the real FIX8::GetTimeAsStringMS rendered through the ostream formatting model
   (models/ostream_fmt.c: setw/setfill/setprecision, int, char and fixed-precision double with exact round-half-even).
   For every instant (seconds 0 <= s < 2^32, nanoseconds 0..999999999) and the given number of decimal places the text is
   "YYYY-MM-DD HH:MM:SS.fff..": the seconds field (the two digits after the last ':') must read 00..59; the fraction has
   exactly DPLACES digits. */
#include "vf_h.h"
#include "c09l.c"
#ifndef DPLACES
#define DPLACES 6
#endif
int64_t cx_secs; int64_t cx_nsecs; uint32_t cx_dplaces;
/* gmtime_r: the date / hour / minute part is not the subject of this clause: fixed valid fields, tm_sec = s mod 60 */
struct S_struct_2etm *x_gmtime_r(uint64_t *t, struct S_struct_2etm *r)
{
  r->f0 = (uint32_t)(*t % 60); r->f1 = 15; r->f2 = 23; r->f3 = 2; r->f4 = 6; r->f5 = 114; r->f6 = 3; r->f7 = 182; r->f8 = 0;
  return r;
}
int main(void)
{
  int64_t secs = nondet_i64(), nsecs = nondet_i64();
  VF_ASSUME(secs >= 0 && secs < 4294967296LL && nsecs >= 0 && nsecs < 1000000000LL);
#ifdef S60
  VF_ASSUME(secs % 60 == S60);
#endif
#ifdef KF_LOGTS_ROUND60
  /* known finding: the fraction is rounded (not truncated) through a double; a round-up out of second 59 shows ":60."
     (class: second 59 and nanoseconds >= 10^9 - 5*10^(8-dplaces); empty for 9 decimal places) */
  { static const int64_t half[10] = { 500000000LL, 50000000LL, 5000000LL, 500000LL, 50000LL, 5000LL, 500LL, 50LL, 5LL, 0LL };
    if (DPLACES <= 8) VF_ASSUME(!(secs % 60 == 59 && nsecs >= 1000000000LL - half[DPLACES])); }
#endif
  cx_secs = secs; cx_nsecs = nsecs; cx_dplaces = DPLACES;
  uint8_t out[40]; int n = (int)vf_logts(out, (uint64_t)secs, (uint64_t)nsecs, DPLACES);
  VF_ASSERT(!__vf_exc_pending, "C09: no exception");
  VF_ASSERT(n == 20 + DPLACES, "C09: log timestamp has the layout YYYY-MM-DD HH:MM:SS.f{dplaces}");
  VF_ASSERT(out[4] == '-' && out[7] == '-' && out[10] == ' ' && out[13] == ':' && out[16] == ':' && out[19] == '.', "C09: log timestamp separators");
  VF_ASSERT(out[17] >= '0' && out[17] <= '5' && out[18] >= '0' && out[18] <= '9', "C09: log timestamp seconds field is in 00..59");
#ifdef STRICT_SECOND   /* stricter reading (truncation instead of rounding of the fraction); not part of the claimed clause */
  VF_ASSERT((out[17] - '0') * 10 + (out[18] - '0') == (int)(secs % 60), "C09: log timestamp shows the second the instant lies in");
#endif
  VF_REACH();
  return 0;
}
