/* C29 rename recorder: a directory of generations name, name.1 .. name.(NG-1) (optionally with a fixed suffix, e.g. ".idx"
   or ".gz") with symbolic existence and content ids; rename() as called by the code under test is simulated on it.
   A path that is not one of these generation names is "another file": touching it is recorded as a violation. */
#ifndef NG
#define NG 9
#endif
#ifndef NFAM
#define NFAM 1                     /* name families (persister: data files and index files) */
#endif
static const char *rec_base[NFAM], *rec_suffix[NFAM]; static int rec_sfx0[NFAM];   /* rec_sfx0: generation 0 carries the suffix too */
static uint8_t g_ex[NFAM][NG], g_ex0[NFAM][NG]; static uint32_t g_id[NFAM][NG], g_id0[NFAM][NG];
static int rn_calls, rn_other, rn_cross;
/* generation number of a path within family f, or -1 */
static int gen_of(int f, const uint8_t *p)
{
  const char *b = rec_base[f], *sfx = rec_suffix[f]; int i = 0;
  for (; b[i]; i++) if (p[i] != (uint8_t)b[i]) return -1;
  int g = 0;
  if (p[i] == 0 && !rec_sfx0[f]) return 0;                           /* the live file itself */
  if (p[i] == '.' && p[i + 1] >= '1' && p[i + 1] <= '9') {          /* ".<decimal without leading zero>" */
    i++;
    for (int d = 0; d < 5 && p[i] >= '0' && p[i] <= '9'; d++, i++) g = g * 10 + (p[i] - '0');
    if (p[i] >= '0' && p[i] <= '9') return -1;
  }
  if (g == 0 && !rec_sfx0[f]) return -1;
  for (int k = 0; sfx[k]; k++, i++) if (p[i] != (uint8_t)sfx[k]) return -1;
  if (p[i] != 0) return -1;
  return g < NG ? g : -2;                                            /* -2: a generation beyond the tracked window */
}
static void rec_init(void)
{
  for (int f = 0; f < NFAM; f++) for (int g = 0; g < NG; g++) { g_ex[f][g] = g_ex0[f][g] = nondet_bool(); g_id[f][g] = g_id0[f][g] = (uint32_t)(100 * f + g + 1); }
}
static uint32_t rec_rename(const uint8_t *from, const uint8_t *to)
{
  rn_calls++;
  int ff = -1, gf = -1, ft = -1, gt = -1;
  for (int f = 0; f < NFAM; f++) { int g = gen_of(f, from); if (g != -1 && ff < 0) { ff = f; gf = g; } g = gen_of(f, to); if (g != -1 && ft < 0) { ft = f; gt = g; } }
  if (ff < 0 || ft < 0 || gf < 0 || gt < 0) { rn_other++; return (uint32_t)-1; }
  if (ff != ft) rn_cross++;
  if (!g_ex[ff][gf]) return (uint32_t)-1;                            /* ENOENT: nothing changes */
  if (ff == ft && gf == gt) return 0;
  g_ex[ft][gt] = 1; g_id[ft][gt] = g_id[ff][gf]; g_ex[ff][gf] = 0;
  return 0;
}
