/* Session world, outbound side (C16/C17/C18) — shared by the harnesses of these properties.
   Real code (translated from shims/sessb.cpp = runtime/session.cpp + shim): Session::send (both overloads), send_batch,
   send_process, update_persist_seqnums, recover_seqnums, handle_resend_request, retrans_callback, modify_header,
   modify_outbound, Connection::write/write_batch/send, FIXWriter::write (both)/write_batch/send, f8_scoped_spin_lock,
   Field<> constructors, Tickval.
   Abstract parts (each a stated cut point):
   - message header = attribute record (presence of 34/43/49/52/56/122 and their values) behind MessageBase::have,
     add_field<T>, remove, get<sending_time>;
   - Message::encode(char**) = abstract encoder: writes the message's 2..4 symbolic non-NUL bytes at *to+8, NUL-terminates,
     moves *to there (like the real encoder it returns a pointer inside the caller's buffer) and snapshots the header
     attributes at encoding time (what goes on the wire in 34/43/52/122);
   - Persister = recording subclass (put(seq,bytes), control put/get recorded / served by the harness);
   - socket = models/sessb_env.c wire capture. */
#include "vf_h.h"
#include "sessb.c"
#ifndef NMSG
#define NMSG 3
#endif
#define ENC_MAX 4
#define NREC 6
static struct S_struct_2eVSessB the_sess; static struct S_class_2eFIX8_3a_3aConnection the_conn; static struct S_struct_2eVPers the_pers;
static struct S_struct_2eVMsg the_msg[NMSG]; static struct S_class_2eFIX8_3a_3aMessageBase the_hdr[NMSG];
static struct S_struct_2eVBatch the_vec; static struct S_class_2eFIX8_3a_3aMessage *the_arr[NMSG];   /* batch argument */
static uint64_t sock_raw[4], ctx_raw[64];          /* opaque handles: socket, F8MetaCntx (never read on these paths) */
#define SESS ((struct S_class_2eFIX8_3a_3aSession*)&the_sess)
#define MSGP(i) ((struct S_class_2eFIX8_3a_3aMessage*)&the_msg[i])
enum { T34, T43, T49, T56, T52, T122, NTAG };
/* abstract message attributes */
static uint8_t a_has[NMSG][NTAG], a_admin[NMSG], a_v43[NMSG], a_elen[NMSG], a_enc[NMSG][ENC_MAX], a_deleted[NMSG];
static uint32_t a_v34[NMSG]; static int64_t a_v52[NMSG], a_v122[NMSG];
/* encoder log: one record per Message::encode call (= per transmitted message) */
static uint32_t e_n, e_msg[NREC], e_v34[NREC]; static uint8_t e_has34[NREC], e_has43[NREC], e_v43[NREC], e_has122[NREC], e_has52[NREC]; static int64_t e_v52[NREC], e_v122[NREC];
/* persister log */
static uint32_t p_n, p_seq[NREC], p_len[NREC]; static uint8_t p_dat[NREC][ENC_MAX]; static uint8_t p_toolong, p_ok[NREC];
/* control record: (c_valid, c_snd, c_rcv) = what the store holds = the last ACCEPTED control put; (c_att_*) = the last attempted one.
   Contract of Persister::put (both overloads): may refuse and return false (e.g. occupied number, closed store); the harness
   chooses every result symbolically (-DPUTS_SUCCEED pins them to true) and records the attempt either way. */
static uint32_t c_n, c_snd, c_rcv; static uint8_t c_valid;
static uint32_t c_att_n, c_att_snd, c_att_rcv; static uint8_t c_att_ok, c_ok[NREC];
uint8_t cx_put_ok[NREC], cx_putc_ok[NREC];
/* after an operation: the session asked the store to hold exactly (ns, nr) in its last control put (or, if it made none, the
   record already holds them), and whenever that last put was accepted the stored record equals them */
static int ctl_matches(uint32_t ns, uint32_t nr)
{
  if (c_att_n == 0) return c_valid && c_snd == ns && c_rcv == nr;
  return c_att_snd == ns && c_att_rcv == nr && (!c_att_ok || (c_valid && c_snd == ns && c_rcv == nr));
}
static int midx(void *m) { for (int i = 0; i < NMSG; i++) if (m == (void*)&the_msg[i]) return i; __CPROVER_assert(0, "world: unknown message object"); return 0; }
static int hidx(void *h) { for (int i = 0; i < NMSG; i++) if (h == (void*)&the_hdr[i]) return i; __CPROVER_assert(0, "world: unknown header object"); return 0; }
static int tslot(uint32_t fnum) { switch (fnum) { case 34: return T34; case 43: return T43; case 49: return T49; case 56: return T56; case 52: return T52; case 122: return T122; } __CPROVER_assert(0, "world: header tag outside the abstract header"); return 0; }
uint8_t st_hdr_have(void *mb, uint16_t fnum) { return a_has[hidx(mb)][tslot(fnum)]; }
static void body_add(void *mb, void *fld);
static int is_hdr(void *h) { for (int i = 0; i < NMSG; i++) if (h == (void*)&the_hdr[i]) return 1; return 0; }
uint8_t st_hdr_add(void *mb, void *fld)
{
  if (!is_hdr(mb)) { body_add(mb, fld); return 1; }        /* body field of a session-generated message (C18: NewSeqNo, GapFillFlag) */
  int i = hidx(mb); uint32_t fnum = vf_fld_num(fld); a_has[i][tslot(fnum)] = 1;
  if (fnum == 34) a_v34[i] = vf_fld_uint(fld); else if (fnum == 43) a_v43[i] = vf_fld_bool(fld) & 1;
  else if (fnum == 52) a_v52[i] = (int64_t)vf_fld_time(fld); else if (fnum == 122) a_v122[i] = (int64_t)vf_fld_time(fld);
  return 1;
}
uint8_t st_hdr_get_sendingtime(void *mb, void *fld) { int i = hidx(mb); if (!a_has[i][T52]) return 0; vf_fld_set_time(fld, a_v52[i]); return 1; }
struct S_class_2eFIX8_3a_3aBaseField *x__ZN4FIX811MessageBase6removeEt(struct S_class_2eFIX8_3a_3aMessageBase *mb, uint16_t fnum) { a_has[hidx(mb)][tslot(fnum)] = 0; return 0; }
uint8_t x_vf_msg_is_admin(uint8_t *m) { return a_admin[midx(m)]; }
void st_msg_delete(void *m) { a_deleted[midx(m)]++; }
void st_nop1(void *p) { }
void st_fmt_s(void *e, void *what, void *val) { }
void st_thread_ctor(void *t, void *ref, uint64_t f0, uint64_t a0, uint64_t f1, uint64_t a1) { }
uint64_t x__ZNK4FIX87Message6encodeEPPc(struct S_class_2eFIX8_3a_3aMessage *m, uint8_t **to)
{
  int i = midx(m); uint32_t k = e_n < NREC ? e_n : NREC - 1;
  __CPROVER_assert(e_n < NREC, "world: encoder log large enough");
  e_msg[k] = i; e_has34[k] = a_has[i][T34]; e_v34[k] = a_v34[i]; e_has43[k] = a_has[i][T43]; e_v43[k] = a_v43[i];
  e_has52[k] = a_has[i][T52]; e_v52[k] = a_v52[i]; e_has122[k] = a_has[i][T122]; e_v122[k] = a_v122[i]; e_n++;
  uint8_t *o = *to + 8;
  for (int b = 0; b < ENC_MAX; b++) if (b < a_elen[i]) o[b] = a_enc[i][b];
  o[a_elen[i]] = 0; *to = o;
  return a_elen[i];
}
uint8_t x_vf_rec_put(uint32_t seq, uint8_t *d, uint32_t len)
{
  uint32_t k = p_n < NREC ? p_n : NREC - 1;
  __CPROVER_assert(p_n < NREC, "world: persister log large enough");
  p_seq[k] = seq; p_len[k] = len; if (len > ENC_MAX) p_toolong = 1;
  for (uint32_t b = 0; b < ENC_MAX; b++) if (b < len) p_dat[k][b] = d[b];
  uint8_t ok = nondet_u8() & 1;
#ifdef PUTS_SUCCEED
  ok = 1;
#endif
  p_ok[k] = ok; cx_put_ok[k] = ok; p_n++; return ok;
}
uint8_t x_vf_rec_putc(uint32_t s, uint32_t r)
{
  uint8_t ok = nondet_u8() & 1;
#ifdef PUTS_SUCCEED
  ok = 1;
#endif
  if (c_att_n < NREC) { c_ok[c_att_n] = ok; cx_putc_ok[c_att_n] = ok; }
  c_att_snd = s; c_att_rcv = r; c_att_ok = ok; c_att_n++; c_n++;
  if (ok) { c_snd = s; c_rcv = r; c_valid = 1; }
  return ok;
}
uint8_t x_vf_rec_getc(uint32_t *s, uint32_t *r) { if (!c_valid) return 0; *s = c_snd; *r = c_rcv; return 1; }
static const uint8_t ty_app[] = "D", ty_hb[] = "0", ty_sr[] = "4", ty_lo[] = "5";
enum { K_APP, K_HEARTBEAT, K_SEQRESET, K_LOGOUT, NKIND };
/* message i of kind k with fresh symbolic encoding */
static void world_msg(int i, int kind)
{
  struct S_struct_2eFIX8_3a_3aF8MetaCntx *cx = (struct S_struct_2eFIX8_3a_3aF8MetaCntx*)ctx_raw;
  /* one call per kind with a constant string: a std::string of symbolic length inside the message object would be
     written at a symbolic offset and cost the whole object its field sensitivity (vptr loads stop folding) */
  if (kind == K_APP) vf_sb_msg_init(&the_msg[i], &the_hdr[i], (uint8_t*)ty_app, cx);
  else if (kind == K_HEARTBEAT) vf_sb_msg_init(&the_msg[i], &the_hdr[i], (uint8_t*)ty_hb, cx);
  else if (kind == K_SEQRESET) vf_sb_msg_init(&the_msg[i], &the_hdr[i], (uint8_t*)ty_sr, cx);
  else vf_sb_msg_init(&the_msg[i], &the_hdr[i], (uint8_t*)ty_lo, cx);
  a_admin[i] = kind != K_APP;
  uint8_t n = nondet_u8(); VF_ASSUME(n >= 2 && n <= ENC_MAX); a_elen[i] = n;
  for (int b = 0; b < ENC_MAX; b++) { uint8_t c = nondet_u8(); VF_ASSUME(c != 0); a_enc[i][b] = c; }
}
static void world_init(int with_persist, int pmodel_unused)
{
  vf_sb_globals();
  vf_sb_conn_init(&the_conn, &the_sess, (struct S_class_2ePoco_3a_3aNet_3a_3aStreamSocket*)sock_raw);
  vf_sb_init(&the_sess, &the_pers);
  vf_sess_set_ptrs(SESS, &the_conn, with_persist ? (struct S_class_2eFIX8_3a_3aPersister*)&the_pers : 0);
  vf_sess_set_sid(SESS, (uint8_t*)"S", 1, (uint8_t*)"T", 1);
}
#ifndef SESSB_C18      /* cut points only the resend world (harness/sessb_c18.h) gives a meaning to: unreachable here */
static void body_add(void *mb, void *fld) { __CPROVER_assert(0, "world: body field added outside the resend world"); }
uint8_t st_enforce(void *s, uint32_t seq, void *m) { __CPROVER_assert(0, "world: enforce reached outside the resend world"); return 1; }
uint8_t st_get_begin(void *mb, void *fld) { __CPROVER_assert(0, "world: get<BeginSeqNo> reached outside the resend world"); return 0; }
uint8_t st_get_end(void *mb, void *fld) { __CPROVER_assert(0, "world: get<EndSeqNo> reached outside the resend world"); return 0; }
void *st_create_msg(void *s, void *type) { __CPROVER_assert(0, "world: create_msg reached outside the resend world"); return 0; }
struct S_class_2eFIX8_3a_3aMessage *x__ZN4FIX87Message7factoryERKNS_10F8MetaCntxERKNSt7__cxx1112basic_stringIcSt11char_traitsIcESaIcEEEbb(struct S_struct_2eFIX8_3a_3aF8MetaCntx *c, struct S_class_2estd_3a_3a__cxx11_3a_3abasic_string *from, uint8_t a, uint8_t b) { __CPROVER_assert(0, "world: Message::factory reached outside the resend world"); return 0; }
uint32_t x_vf_rec_range(uint8_t *self, uint32_t from, uint32_t to, uint8_t *sess) { __CPROVER_assert(0, "world: range get reached outside the resend world"); return 0; }
#endif
