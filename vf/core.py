"""Shared machinery: build IR from /repo, translate with ir2c, run CBMC, decode counterexamples,
replay on the native build, write evidence.  Every run regenerates the encoding from /repo's
current working tree (content-hash keyed cache only)."""
import os, sys, re, json, time, glob, shutil, hashlib, subprocess, resource, tempfile, concurrent.futures as cf

VERIF = os.path.dirname(os.path.dirname(os.path.abspath(__file__)))
REPO = os.environ.get('VF_REPO', '/repo')
CACHE = os.path.join(VERIF, '.cache')
CLANG = 'clang++-14'
NCPU = os.cpu_count() or 4

CXXFLAGS_COMMON = ['-std=gnu++17', '-I' + REPO + '/include', '-I' + REPO, '-I' + REPO + '/runtime',
                   '-I' + VERIF + '/shims', '-DFIX8_VERIF=1', '-Wno-everything', '-w']
LEAF_FLAGS = ['-O1', '-fno-vectorize', '-fno-slp-vectorize', '-fno-unroll-loops', '-S', '-emit-llvm']
CUT_FLAGS = LEAF_FLAGS + ['-fno-inline', '-fno-access-control']

def sh(cmd, **kw):
    return subprocess.run(cmd, stdout=subprocess.PIPE, stderr=subprocess.STDOUT, text=True, **kw)

_repo_hash = None
def repo_hash():
    """content hash of the repo sources the checks depend on (working tree, not HEAD)"""
    global _repo_hash
    if _repo_hash: return _repo_hash
    h = hashlib.sha1()
    pats = ['include/fix8/*.h', 'include/fix8/*.hpp', 'include/fix8/ff/*.hpp', 'include/fix8/ff/*.h', 'include/fix8/ff/*/*.hpp',
            'runtime/*.cpp', 'runtime/*.c', 'runtime/*.hpp', 'compiler/*.cpp', 'compiler/*.hpp', 'schema/FIX4*.xml',
            'utests/*.cpp', 'utests/*.hpp', 'utests/*.xml', 'intermediate_config.h']
    for p in pats:
        for f in sorted(glob.glob(os.path.join(REPO, p))):
            h.update(f.encode()); h.update(open(f, 'rb').read())
    _repo_hash = h.hexdigest()[:16]
    return _repo_hash

def file_hash(*paths_or_strs):
    h = hashlib.sha1()
    for p in paths_or_strs:
        if isinstance(p, str) and os.path.isfile(p): h.update(open(p, 'rb').read())
        else: h.update(str(p).encode())
    return h.hexdigest()[:16]

class Broken(Exception):
    """the machinery itself failed (build, translator validation, vacuity): never a verdict"""

class Harness:
    """one CBMC query (plus its cover/witness twin)"""
    def __init__(s, name, cfile, *, defines=(), unwind=None, unwindset=(), flags=(), backend='default', timeout=600,
                 mem_gb=12, functions=(), stubs=(), bounds='', expect='pass', cover=True, obligations_note='',
                 object_bits=12, nochecks=False, tier='quick', extra_c=(), desc='', cover_defines=()):
        s.name = name; s.cfile = cfile; s.defines = list(defines); s.unwind = unwind; s.unwindset = list(unwindset)
        s.flags = list(flags); s.backend = backend; s.timeout = timeout; s.mem_gb = mem_gb
        s.functions = list(functions); s.stubs = list(stubs); s.bounds = bounds; s.expect = expect; s.cover = cover
        s.cover_defines = list(cover_defines); s.object_bits = object_bits; s.nochecks = nochecks; s.tier = tier; s.extra_c = list(extra_c); s.desc = desc
        s.result = None

STD_CHECKS = ['--pointer-overflow-check', '--undefined-shift-check', '--signed-overflow-check', '--conversion-check'][:3]

def _limit(mem_gb):
    def f():
        resource.setrlimit(resource.RLIMIT_AS, (int(mem_gb * 2**30), int(mem_gb * 2**30)))
        os.setsid()
    return f

def run_capped(cmd, timeout, mem_gb, cwd=None, env=None):
    t0 = time.time()
    p = subprocess.Popen(['/usr/bin/time', '-f', '@@RSS %M', *cmd], stdout=subprocess.PIPE, stderr=subprocess.PIPE, text=True,
                         cwd=cwd, env=env, preexec_fn=_limit(mem_gb))
    try:
        out, err = p.communicate(timeout=timeout); to = False
    except subprocess.TimeoutExpired:
        try: os.killpg(p.pid, 9)
        except Exception: p.kill()
        out, err = p.communicate(); to = True
    rss = 0
    m = re.search(r'@@RSS (\d+)', err or '')
    if m: rss = int(m.group(1)) // 1024
    return dict(rc=p.returncode, out=out or '', err=err or '', timeout=to, secs=round(time.time() - t0, 2), rss_mb=rss)

def cbmc_cmd(h, cfile, cover=False):
    cmd = ['cbmc', cfile, '--json-ui', '--object-bits', str(h.object_bits), '--drop-unused-functions', '--no-malloc-may-fail']
    for d in h.defines: cmd += ['-D', d]
    cmd += ['-I', os.path.join(VERIF, 'models'), '-I', os.path.join(VERIF, 'harness'), '-I', os.path.dirname(cfile), '-I', '.']
    if h.unwind is not None: cmd += ['--unwind', str(h.unwind)]
    if h.unwindset: cmd += ['--unwindset', ','.join(h.unwindset)]
    if cover:
        cmd += ['-D', 'VF_COVER', '--cover', 'cover', '--no-standard-checks', '--no-unwinding-assertions']
        for d in h.cover_defines: cmd += ['-D', d]
        # flags that change the program semantics stay; check flags are dropped
        cmd += [f for f in h.flags if not f.endswith('-check') and f not in ('--trace',)]
        return cmd
    cmd += ['--unwinding-assertions', '--trace']
    if h.nochecks: cmd += ['--no-standard-checks']
    else: cmd += [c for c in STD_CHECKS if c not in getattr(h, 'drop_checks', ())]   # h.drop_checks: optional attribute set by a property module
    cmd += h.flags
    if h.backend == 'kissat': cmd += ['--external-sat-solver', 'kissat']
    elif h.backend == 'cadical': cmd += ['--sat-solver', 'cadical']
    elif h.backend == 'minisat': pass
    elif h.backend in ('z3', 'z3new'): cmd += ['--z3']
    elif h.backend in ('cvc5', 'cvc5int'): cmd += ['--cvc5', '--slice-formula']
    return cmd

def _parse_json(out):
    try: return json.loads(out)
    except Exception:
        # truncated output (killed): try to recover the array
        try: return json.loads(out.rstrip().rstrip(',') + ']')
        except Exception: return None

def parse_cbmc(out):
    """returns dict(props=[{name,desc,status,trace}], verdict, nvars, nclauses, messages, error)"""
    js = _parse_json(out)
    res = dict(props=[], verdict=None, error=None, vccs=None, solver_s=None, goals=None)
    if js is None:
        res['error'] = 'unparsable cbmc output: ' + out[-400:]; return res
    for item in js:
        if not isinstance(item, dict): continue
        if 'result' in item:
            for p in item['result']:
                res['props'].append(dict(name=p.get('property'), desc=p.get('description'), status=p.get('status'),
                                         trace=p.get('trace'), loc=p.get('sourceLocation', {})))
        if 'property' in item and 'status' in item and 'result' not in item:      # --stop-on-fail reports the failing property at top level
            st = item.get('status'); st = {'failed': 'FAILURE', 'success': 'SUCCESS'}.get(st, st)
            res['props'].append(dict(name=item.get('property'), desc=item.get('description'), status=st,
                                     trace=item.get('trace'), loc=item.get('sourceLocation', {})))
        if 'goals' in item:
            res['goals'] = [dict(name=g.get('goal'), desc=g.get('description'), status=g.get('status'),
                                 line=g.get('sourceLocation', {}).get('line'), file=g.get('sourceLocation', {}).get('file')) for g in item['goals']]
        if 'cProverStatus' in item: res['verdict'] = item['cProverStatus']
        mt = item.get('messageText', '')
        if item.get('messageType') == 'ERROR': res['error'] = (res['error'] or '') + mt + '\n'
        m = re.search(r'Generated (\d+) VCC\(s\), (\d+) remaining', mt)
        if m: res['vccs'] = (int(m.group(1)), int(m.group(2)))
        m = re.search(r'Runtime Solver: ([0-9.e+-]+)s', mt)
        if m: res['solver_s'] = float(m.group(1))
        m = re.search(r'(\d+) variables, (\d+) clauses', mt)
        if m: res['size'] = (int(m.group(1)), int(m.group(2)))
    return res

def trace_values(trace, prefix='cx_'):
    """last assignment to every variable whose base name starts with prefix, plus array elements"""
    vals = {}
    for st in trace or []:
        if st.get('stepType') != 'assignment': continue
        lhs = st.get('lhs', '')
        base = re.split(r'[\[.]', lhs)[0]
        if not base.startswith(prefix): continue
        v = st.get('value', {})
        vals[lhs] = _val(v)
    return vals

def _val(v):
    if 'data' in v and v.get('name') in ('integer', 'float', 'pointer', 'boolean'):
        d = v['data']
        if v['name'] == 'integer':
            try: return int(d)
            except Exception:
                if isinstance(d, str) and len(d) == 3 and d[0] == "'": return ord(d[1])
                b = v.get('binary')
                if b:
                    n = int(b, 2)
                    if v.get('type', '').startswith(('signed', 'int', 'char', 'long')) and b[0] == '1' and 'unsigned' not in v.get('type', ''): n -= 1 << len(b)
                    return n
                return d
        if v['name'] == 'boolean': return 1 if d in (True, 'true', 'TRUE') else 0
        if v['name'] == 'float':
            b = v.get('binary')
            return dict(float=d, bits=int(b, 2) if b else None)
        return d
    if v.get('name') == 'array':
        return [_val(e.get('value', {})) for e in v.get('elements', [])]
    if v.get('name') == 'struct':
        return {m.get('name'): _val(m.get('value', {})) for m in v.get('members', [])}
    if 'binary' in v:
        return int(v['binary'], 2)
    return v.get('data')

def flatten_cx(vals):
    """collapse 'cx_buf[3]'-style entries (trace order) into lists keyed by the base name"""
    out = {}
    for k, v in vals.items():
        m = re.fullmatch(r'(\w+)\[(\d+)l?\]', k)
        if m:
            base, i = m.group(1), int(m.group(2))
            cur = out.get(base)
            if not isinstance(cur, list): cur = out[base] = []
            while len(cur) <= i: cur.append(0)
            cur[i] = v
        else:
            out[k] = v
    return out

# ---------------------------------------------------------------------------------------------------------------------------
# Native replays must run the CURRENT sources, not whatever happens to be built under /repo: libfix8, f8c and the unit-test
# schema library (libutest, generated by f8c from schema/FIX42UTEST.xml) are rebuilt from the working tree into the cache,
# keyed by the content hash of the sources, the first time a replay needs them.
RUNTIME_SRCS = ['xml', 'f8utils', 'message', 'traits', 'session', 'logger', 'persist', 'connection', 'configuration', 'consolemenu',
                'filepersist', 'precomp', 'f8measure', 'gzstream']
EXTRA_FIELDS = ("<field number='9999' name='SampleUserField'  type='STRING' messages='NewOrderSingle:N ExecutionReport:N OrderCancelRequest:Y' />"
                "<field number='9991' name='SampleUserField2' type='STRING' messages='NewOrderSingle:N ExecutionReport:N OrderCancelRequest:Y' />")
_libdir = None
def repo_libs(say=print):
    """returns a directory holding libfix8.so, libutest.so (+ its generated headers) and f8c built from REPO's current sources"""
    global _libdir
    if _libdir: return _libdir
    d = os.path.join(CACHE, 'repolib_' + repo_hash())
    if os.path.exists(os.path.join(d, '.ok')): _libdir = d; return d
    tmp = d + '.tmp.%d' % os.getpid(); shutil.rmtree(tmp, ignore_errors=True); os.makedirs(tmp)
    t0 = time.time()
    inc = ['-I' + REPO, '-I' + REPO + '/include', '-I' + REPO + '/runtime', '-DHAVE_CONFIG_H', '-w', '-fPIC', '-O0', '-g0']
    def cc(args):
        r = sh(args)
        if r.returncode != 0: raise Broken('building the repository libraries from source failed: %s\n%s' % (' '.join(args[:6]), r.stdout[-2000:]))
    srcs = [os.path.join(REPO, 'runtime', s + '.cpp') for s in RUNTIME_SRCS if os.path.exists(os.path.join(REPO, 'runtime', s + '.cpp'))]
    jobs = [(['g++', *inc, '-c', s, '-o', os.path.join(tmp, 'rt_' + os.path.basename(s) + '.o')]) for s in srcs]
    jobs.append(['gcc', *inc, '-c', os.path.join(REPO, 'runtime', 'modp_numtoa.c'), '-o', os.path.join(tmp, 'rt_modp.o')])
    comp = [os.path.join(REPO, 'compiler', s) for s in ('f8c.cpp', 'f8cutils.cpp', 'f8precomp.cpp', 'precomp.cpp') if os.path.exists(os.path.join(REPO, 'compiler', s))]
    jobs += [(['g++', *inc, '-I' + REPO + '/compiler', '-c', s, '-o', os.path.join(tmp, 'fc_' + os.path.basename(s) + '.o')]) for s in comp]
    with cf.ThreadPoolExecutor(NCPU) as ex: list(ex.map(cc, jobs))
    poco = ['-lPocoNet', '-lPocoUtil', '-lPocoFoundation', '-lz', '-lpthread']
    cc(['g++', '-shared', '-o', os.path.join(tmp, 'libfix8.so'), *sorted(glob.glob(os.path.join(tmp, 'rt_*.o'))), *poco])
    cc(['g++', '-o', os.path.join(tmp, 'f8c'), *sorted(glob.glob(os.path.join(tmp, 'fc_*.o'))), '-L' + tmp, '-lfix8', '-Wl,-rpath,' + d, *poco])
    # unit-test schema classes, generated by the tree's own f8c
    env = dict(os.environ, LD_LIBRARY_PATH=tmp + ':' + os.environ.get('LD_LIBRARY_PATH', ''))
    r = subprocess.run([os.path.join(tmp, 'f8c'), '-sVp', 'utest', '-n', 'UTEST', os.path.join(REPO, 'schema', 'FIX42UTEST.xml'), '-F', EXTRA_FIELDS],
                       cwd=tmp, env=env, stdout=subprocess.PIPE, stderr=subprocess.STDOUT, text=True)
    if r.returncode != 0 or not os.path.exists(os.path.join(tmp, 'utest_classes.cpp')): raise Broken('f8c (built from source) failed on FIX42UTEST.xml: ' + r.stdout[-800:])
    with cf.ThreadPoolExecutor(NCPU) as ex:
        list(ex.map(cc, [['g++', *inc, '-I' + tmp, '-c', os.path.join(tmp, s + '.cpp'), '-o', os.path.join(tmp, 'ut_' + s + '.o')] for s in ('utest_types', 'utest_traits', 'utest_classes')]))
    cc(['g++', '-shared', '-o', os.path.join(tmp, 'libutest.so'), *sorted(glob.glob(os.path.join(tmp, 'ut_*.o'))), '-L' + tmp, '-lfix8', '-Wl,-rpath,' + d])
    for f in glob.glob(os.path.join(tmp, '*.o')): os.unlink(f)
    open(os.path.join(tmp, '.ok'), 'w').write('built %.0fs\n' % (time.time() - t0))
    shutil.rmtree(d, ignore_errors=True); os.rename(tmp, d)
    say('  [repolibs] libfix8, f8c, libutest rebuilt from the working tree in %.0fs' % (time.time() - t0))
    _libdir = d; return d

def _relib(args):
    """redirect references to the repository's own build output to the source-built copies"""
    rt, ut, fc = REPO + '/runtime/.libs', REPO + '/utests/.libs', REPO + '/compiler/.libs'
    if not any((rt in a or ut in a or fc in a) for a in args): return list(args), None
    d = repo_libs()
    return [a.replace(rt, d).replace(ut, d).replace(fc, d) for a in args], d

class Ctx:
    def __init__(s, pid, tier, seed):
        s.pid = pid; s.tier = tier; s.seed = seed; s.t0 = time.time()
        s.work = tempfile.mkdtemp(prefix='vf.%s.' % pid, dir=os.environ.get('VF_TMP', '/tmp'))
        s.harnesses = []; s.assumptions = []; s.functions = []; s.notes = []; s.validation = []
        s.violations = []; s.known = []; s.spurious = []; s.not_finished = []; s.samples = []
        s.log = open(os.path.join(s.work, 'log.txt'), 'w')
        os.makedirs(CACHE, exist_ok=True)
    def say(s, *a):
        msg = ' '.join(str(x) for x in a)
        print(msg, flush=True); s.log.write(msg + '\n'); s.log.flush()
    def cleanup(s):
        s.log.close()
        if not os.environ.get('VF_KEEP'): shutil.rmtree(s.work, ignore_errors=True)

    # ---------------------------------------------------------------- build
    def build_ir(s, shim, mode='leaf', extra=(), debug=False):
        shim_p = shim if os.path.isabs(shim) else os.path.join(VERIF, 'shims', shim)
        flags = (LEAF_FLAGS if mode == 'leaf' else CUT_FLAGS) + list(extra) + (['-g'] if debug else [])
        key = file_hash(shim_p, repo_hash(), ' '.join(flags), *sorted(glob.glob(os.path.join(VERIF, 'shims', '*.h'))))
        out = os.path.join(CACHE, 'ir_%s_%s.ll' % (os.path.basename(shim_p).replace('.', '_'), key))
        if not os.path.exists(out):
            t0 = time.time()
            r = sh([CLANG, *CXXFLAGS_COMMON, *flags, shim_p, '-o', out + '.tmp'])
            if r.returncode != 0: raise Broken('clang failed on %s:\n%s' % (shim, r.stdout[-3000:]))
            os.rename(out + '.tmp', out)
            s.say('  [ir] %s (%s) %.1fs' % (os.path.basename(shim_p), mode, time.time() - t0))
        return out

    def link_ir(s, lls, name):
        out = os.path.join(s.work, name + '.ll')
        r = sh(['llvm-link-14', '-S', *lls, '-o', out])
        if r.returncode != 0: raise Broken('llvm-link failed: ' + r.stdout[-2000:])
        return out

    def translate(s, ll, roots, out_name, stubs=None, stubfiles=(), models=(), opts=(), provided=()):
        out = os.path.join(s.work, out_name)
        cmd = [sys.executable, os.path.join(VERIF, 'vf', 'ir2c.py'), ll, '--roots', ','.join(roots), '-o', out]
        for k, v in (stubs or {}).items(): cmd += ['--stub', '%s=%s' % (k, v)]
        for f in stubfiles: cmd += ['--stubfile', f if os.path.isabs(f) else os.path.join(VERIF, 'shims', f)]
        for m in ['base.c'] + [m for m in models if m != 'base.c']: cmd += ['--model', m if os.path.isabs(m) else os.path.join(VERIF, 'models', m)]
        cmd += list(opts)
        for n in provided: cmd += ['--provided', n]
        t0 = time.time()
        r = subprocess.run(cmd, stdout=subprocess.PIPE, stderr=subprocess.PIPE, text=True)
        if r.returncode != 0: raise Broken('ir2c failed: ' + r.stderr[-3000:])
        und = re.search(r'undefined externals \(need models\): (.*)', r.stderr)
        info = dict(c=out, undefined=und.group(1).split() if und else [], warnings=[l for l in r.stderr.splitlines() if l.startswith('warn:')],
                    fns=re.findall(r'^/\* fn: (\S+) \*/', open(out).read(), re.M))
        s.say('  [ir2c] %s: %d functions, %.1fs' % (out_name, len(info['fns']), time.time() - t0))
        return info

    def native(s, name, sources, *, cxx='g++', flags=('-O1',), libs=(), defines=()):
        """build a native program from /verif sources + real repo sources; cached by content"""
        srcs = [p if os.path.isabs(p) else os.path.join(VERIF, p) for p in sources]
        libs, libd = _relib(list(libs)); flags, libd2 = _relib(list(flags)); libd = libd or libd2
        if libd: flags = ['-I' + libd] + list(flags)          # generated utest_*.hpp of the source-built schema library first
        key = file_hash(repo_hash(), cxx, ' '.join(flags), ' '.join(libs), ' '.join(defines), *srcs)
        exe = os.path.join(CACHE, 'bin_%s_%s' % (name, key))
        if os.path.exists(exe): return exe
        t0 = time.time(); objs = []
        def comp(src):
            o = os.path.join(s.work, 'o_%s_%s.o' % (name, file_hash(src)))
            isc = src.endswith('.c')
            cmd = ['gcc' if isc and cxx == 'g++' else ('clang-14' if isc else cxx)]
            if not isc: cmd += ['-std=gnu++17']
            cmd += ['-c', src, '-o', o, '-I' + REPO + '/include', '-I' + REPO, '-I' + REPO + '/runtime', '-I' + VERIF + '/shims',
                    '-I' + VERIF + '/models', '-I' + VERIF + '/replay', '-I' + s.work, '-w', *flags, *['-D' + d for d in defines]]
            r = sh(cmd)
            if r.returncode != 0: raise Broken('native compile failed (%s):\n%s' % (src, r.stdout[-3000:]))
            return o
        with cf.ThreadPoolExecutor(NCPU) as ex: objs = list(ex.map(comp, srcs))
        r = sh([cxx, *[f for f in flags if f.startswith('-fsanitize')], '-o', exe + '.tmp', *objs, *libs, '-lPocoNet', '-lPocoUtil', '-lPocoFoundation', '-lpthread'])
        if r.returncode != 0: raise Broken('native link failed:\n' + r.stdout[-3000:])
        os.rename(exe + '.tmp', exe)
        s.say('  [native] %s %.1fs' % (name, time.time() - t0))
        return exe

    # ---------------------------------------------------------------- solve
    def add(s, h):
        s.harnesses.append(h); return h

    def _run_one(s, h):
        res = s._run_one_inner(h)
        if res.get('status') in ('broken', 'no_verdict') and 'status 15' in str(res.get('why')) + str(res.get('why2', '')):
            time.sleep(5); res = s._run_one_inner(h)      # terminated from outside (SIGTERM): run it again once
            if 'status 15' in str(res.get('why')): res['status'] = 'no_verdict'; res['why'] = 'terminated externally (SIGTERM) twice: ' + str(res.get('why'))[:200]
        return res

    def _run_one_inner(s, h):
        res = dict(name=h.name, desc=h.desc, functions=h.functions, stubs=h.stubs, bounds=h.bounds, backend=h.backend,
                   unwind=h.unwind, unwindset=h.unwindset)
        if os.environ.get('VF_SHOWCMD'):      # debugging aid: the exact solver command lines of this harness (run them from the VF_KEEP work dir)
            import shlex
            open('/tmp/vf_cmd_%s.txt' % h.name, 'w').write('cd %s\n%s\n%s\n' % (s.work, ' '.join(shlex.quote(x) for x in cbmc_cmd(h, h.cfile, cover=True)), ' '.join(shlex.quote(x) for x in cbmc_cmd(h, h.cfile))))
        # cover twin first: reachability of every VF_REACH goal
        if h.cover:
            r = run_capped(cbmc_cmd(h, h.cfile, cover=True), min(h.timeout, 600), h.mem_gb, cwd=s.work)
            pc = parse_cbmc(r['out'])
            res['cover_s'] = r['secs']
            if r['timeout'] or pc['goals'] is None:
                oom = 'ut of memory' in (pc['error'] or '') + r['err'] + r['out'][-2000:] or 'bad_alloc' in r['err']
                res['status'] = 'no_verdict' if (r['timeout'] or oom) else 'broken'
                res['why'] = 'reachability (cover) twin gave no result: %s' % ('timeout' if r['timeout'] else 'out of memory' if oom else (pc['error'] or r['err'][-300:] or r['out'][-300:]))
                return res
            if 'ran out of memory' in r['out']:      # the SAT back end gave up inside the cover run: cbmc then lists every goal as not covered - that is no verdict, not vacuity
                res['status'] = 'no_verdict'; res['why'] = 'reachability (cover) twin gave no result: SAT checker ran out of memory'; return res
            goals = [g for g in pc['goals'] if g['file'] and not g['file'].startswith('<')]
            unreached = [g for g in goals if g['status'] != 'satisfied']
            res['reach_goals'] = len(goals); res['reached'] = len(goals) - len(unreached)
            if not goals or unreached:
                res['status'] = 'broken'; res['why'] = 'vacuous: unreachable goals %s' % [(g['file'], g['line']) for g in unreached] if goals else 'no reach goals'
                return res
        if os.environ.get('VF_COVER_ONLY'):     # maintenance scan: reachability twins only (finds vacuous/broken harnesses quickly); never a verdict
            res['status'] = 'no_verdict'; res['why'] = 'cover-only scan (VF_COVER_ONLY): reachability twin ok, verification run skipped'; return res
        env = None
        if h.backend == 'z3new':
            shim = os.path.join(s.work, 'z3shim'); os.makedirs(shim, exist_ok=True)
            if not os.path.exists(shim + '/z3'): os.symlink(shutil.which('z3-new'), shim + '/z3')
            env = dict(os.environ, PATH=shim + ':' + os.environ['PATH'])
        if h.backend == 'cvc5int':
            shim = os.path.join(s.work, 'cvc5shim'); os.makedirs(shim, exist_ok=True)
            if not os.path.exists(shim + '/cvc5'):
                open(shim + '/cvc5', 'w').write('#!/bin/sh\nexec /usr/bin/cvc5 --solve-bv-as-int=sum "$@"\n'); os.chmod(shim + '/cvc5', 0o755)
            env = dict(os.environ, PATH=shim + ':' + os.environ['PATH'])
        r = run_capped(cbmc_cmd(h, h.cfile), h.timeout, h.mem_gb, cwd=s.work, env=env)
        pc = parse_cbmc(r['out'])
        res.update(secs=r['secs'], rss_mb=r['rss_mb'], vccs=pc.get('vccs'), size=pc.get('size'), solver_s=pc.get('solver_s'))
        if r['timeout']:
            res['status'] = 'no_verdict'; res['why'] = 'timeout %ds' % h.timeout; return res
        if pc['verdict'] is None:
            oom = 'bad_alloc' in r['err'] or 'Out of memory' in r['err'] or r['rc'] in (-9, -6, 134, 137)
            res['status'] = 'no_verdict' if oom else 'broken'
            res['why'] = ('out of memory (%d GB cap)' % h.mem_gb) if oom else ('cbmc error rc=%s: %s %s' % (r['rc'], pc['error'], r['err'][-500:]))
            return res
        props = pc['props']
        if pc['verdict'] == 'failure' and not [p for p in props if p['status'] == 'FAILURE']:
            res['status'] = 'broken'; res['why'] = 'cbmc reported failure but no failing property could be parsed'; return res
        res['obligations'] = len(props) or (pc.get('vccs') or (0, 0))[0]
        if not props and pc['verdict'] == 'success': res['discharged'] = res['obligations']
        failed = [p for p in props if p['status'] == 'FAILURE']
        if props: res['discharged'] = len([p for p in props if p['status'] == 'SUCCESS'])
        res['failed'] = [dict(name=p['name'], desc=p['desc'], line=p['loc'].get('line'), file=p['loc'].get('file'), function=p['loc'].get('function'),
                              cx=flatten_cx(trace_values(p['trace']))) for p in failed]
        res['status'] = 'fail' if failed else 'pass'
        return res

    def solve(s, jobs=None):
        todo = [h for h in s.harnesses if h.result is None and (h.tier == 'quick' or s.tier == 'thorough')]
        if getattr(s, 'only', None): todo = [h for h in todo if any(o in h.name for o in s.only)]
        jobs = jobs or max(1, min(NCPU, len(todo)))
        with cf.ThreadPoolExecutor(jobs) as ex:
            futs = {ex.submit(s._run_one, h): h for h in todo}
            for f in cf.as_completed(futs):
                h = futs[f]
                try: h.result = f.result()
                except Exception as e: h.result = dict(name=h.name, status='broken', why='exception %r' % e)
                r = h.result
                s.say('  [cbmc] %-34s %-10s %6.1fs %5s MB  %s' % (h.name, r['status'], r.get('secs', 0), r.get('rss_mb', '?'),
                      r.get('why', '') or ('%s/%s VCs' % (r.get('discharged'), r.get('obligations')))))
        return todo

    # ---------------------------------------------------------------- verdicts
    def violation(s, what, replay):
        path = os.path.join(VERIF, 'evidence', 'replay', '%s_%d.json' % (s.pid, len(s.violations)))
        os.makedirs(os.path.dirname(path), exist_ok=True)
        json.dump(dict(property=s.pid, what=what, replay=replay), open(path, 'w'), indent=1, default=str)
        s.violations.append(dict(what=what, replay=path))
        s.say('VIOLATION property=%s replay=%s' % (s.pid, path)); s.say('  ' + what)

    def handle_failures(s, replay, kf=(), skip=(), classifier=None):
        """every solver counterexample is replayed on the native build of the real code; only a reproduced one
        becomes a VIOLATION (or a KNOWN-FINDING when a committed classifier covers it)"""
        seen = set()
        for h in s.harnesses:
            if h in skip: continue
            for fl in (h.result or {}).get('failed', []):
                key = json.dumps(fl['cx'], sort_keys=True, default=str)
                if (h.name, key) in seen: continue
                seen.add((h.name, key))
                try: ok, what = replay(s, fl['cx'], h)
                except Broken as e: ok, what = False, 'replay failed to build/run: %s' % str(e)[:300]
                if ok:
                    cls = next((e for e in kf if e.get('status') == 'known' and e.get('classify') and _classify(e['classify'], fl['cx'])), None)
                    if cls is None and classifier:
                        kid = classifier(fl['cx'], h)
                        cls = next((e for e in kf if e.get('status') == 'known' and e.get('id') == kid), None) if kid else None
                    if cls: s.say('  (counterexample of %s falls in known finding: %s)' % (h.name, cls['what']))
                    else: s.violation('%s: %s [%s]' % (h.name, fl['desc'], what), dict(cx=fl['cx'], harness=h.name))
                else:
                    s.spurious.append(dict(harness=h.name, desc=fl['desc'], cx=fl['cx'], why=what))
                    s.say('INCONCLUSIVE %s: "%s" counterexample did not reproduce on the native build: %s' % (h.name, fl['desc'], what))

    def known_finding(s, what):
        s.known.append(what); s.say('KNOWN-FINDING: property=%s %s' % (s.pid, what))

    def finish(s, level='model_checking', rule=None, extra=None):
        hs = [h for h in s.harnesses if h.result]
        broken = [h for h in hs if h.result['status'] == 'broken']
        nover = [h for h in hs if h.result['status'] == 'no_verdict']
        decided = [h for h in hs if h.result['status'] in ('pass', 'fail')]
        cov = dict(
            evaluations=sum(1 + (1 if h.cover else 0) for h in hs) + len(s.validation),
            distinct_nontrivial=len([h for h in decided if not h.cover or h.result.get('reached', 0) > 0]),
            rule=rule or 'one evaluation = one solver query (CBMC verification run or its reachability/cover twin) over a harness of symbolic inputs; '
                 'a harness counts as non-trivial when its cover twin reached every VF_REACH goal (assumptions satisfiable, end of harness reachable) and the solver returned a verdict',
            samples=[dict((k, v) for k, v in h.result.items() if k not in ('failed',)) for h in hs][:40] + s.samples[:10],
            obligations=sum(h.result.get('obligations', 0) for h in hs),
            discharged=sum(h.result.get('discharged', 0) for h in hs),
            functions_encoded=sorted(set(sum([h.functions for h in hs], []) + s.functions)),
            bounds=[('%s: %s' % (h.name, h.bounds)) for h in hs if h.bounds],
            solver_time_s=round(sum(h.result.get('secs', 0) for h in hs), 1),
            peak_rss_mb=max([h.result.get('rss_mb', 0) or 0 for h in hs] + [0]),
            not_finished=[dict(name=h.name, why=h.result.get('why')) for h in nover],
            broken=[dict(name=h.name, why=h.result.get('why')) for h in broken],
            spurious_counterexamples=s.spurious,
            known_findings_confirmed=s.known,
            translator_validation=s.validation,
            exhaustive=False,
        )
        if extra: cov.update(extra)
        ev = dict(property_id=s.pid, tier=s.tier, seed=s.seed, level=level, coverage=cov,
                  assumptions=s.assumptions, wall_s=round(time.time() - s.t0, 1), violations=len(s.violations))
        # only a full run against /repo itself rewrites the committed evidence file; partial (--only) runs and runs against a
        # scratch tree (VF_REPO, used for seeded changes) go to evidence/scratch/
        evdir = os.path.join(VERIF, 'evidence') if (os.path.realpath(REPO) == '/repo' and not getattr(s, 'only', None) and not os.environ.get('VF_EVID_SCRATCH')) else os.path.join(VERIF, 'evidence', 'scratch')
        os.makedirs(evdir, exist_ok=True)
        json.dump(ev, open(os.path.join(evdir, s.pid + '.json'), 'w'), indent=1, default=str)
        for h in broken: s.say('BROKEN-CHECK %s: %s' % (h.name, h.result.get('why')))
        for h in nover: s.say('NO-VERDICT %s: %s' % (h.name, h.result.get('why')))
        s.say('%s tier=%s harnesses=%d decided=%d no_verdict=%d broken=%d violations=%d known=%d wall=%.0fs' % (
            s.pid, s.tier, len(hs), len(decided), len(nover), len(broken), len(s.violations), len(s.known), time.time() - s.t0))
        if s.violations: return 1
        if broken: return 2
        return 0

def _classify(expr, cx):
    try: return bool(eval(expr, {'__builtins__': {}}, dict(cx=cx, int=int, len=len, abs=abs)))
    except Exception: return False

def known_findings(pid):
    p = os.path.join(VERIF, 'known_findings.json')
    if not os.path.exists(p): return []
    return [e for e in json.load(open(p)).get('findings', []) if e.get('property') == pid]

def announce_known(ctx, kf, replay):
    """for each committed known finding: confirm its witness still fails on the real code, then announce it"""
    for e in kf:
        if e.get('status') != 'known': continue
        try: ok, what = replay(ctx, e['witness'], None)
        except Broken as ex: ok, what = False, str(ex)[:200]
        if ok: ctx.known_finding(e['what'])
        else: ctx.say('note: known finding no longer reproduces on this tree (%s): %s' % (what, e['what']))

def kf_defines(kf):
    return [e['define'] for e in kf if e.get('status') == 'known' and e.get('define')]
