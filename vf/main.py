#!/usr/bin/env python3
"""driver: ./check <Cxx> [--tier quick|thorough] [--replay path]"""
import sys, os, argparse, importlib, json, traceback
sys.path.insert(0, os.path.dirname(os.path.dirname(os.path.abspath(__file__))))
from vf import core

def main():
    ap = argparse.ArgumentParser()
    ap.add_argument('pid'); ap.add_argument('--tier', default=os.environ.get('VERIF_TIER') or 'quick', choices=['quick', 'thorough'])
    ap.add_argument('--replay'); ap.add_argument('--only', help='comma list of harness-name substrings')
    a = ap.parse_args()
    seed = int(os.environ.get('VERIF_SEED') or 0)
    mod = importlib.import_module('props.' + a.pid)
    if a.replay:
        return mod.replay_file(a.replay) if hasattr(mod, 'replay_file') else generic_replay(mod, a)
    ctx = core.Ctx(a.pid, a.tier, seed); ctx.only = a.only.split(',') if a.only else None
    try:
        rc = mod.run(ctx)
    except core.Broken as e:
        ctx.say('BROKEN-CHECK %s: %s' % (a.pid, e)); rc = 2
        try: ctx.finish(extra=dict(explanation='check machinery failed before a verdict: %s' % str(e)[:500]))
        except Exception: traceback.print_exc()
        rc = 2
    except Exception:
        traceback.print_exc(); rc = 2
    finally:
        ctx.cleanup()
    return rc

def generic_replay(mod, a):
    d = json.load(open(a.replay))
    print(json.dumps(d, indent=1))
    ctx = core.Ctx(a.pid, 'quick', 0)
    try:
        ok, what = mod.replay(ctx, d['replay'])
        print(('REPRODUCED: ' if ok else 'not reproduced: ') + what)
        return 1 if ok else 0
    finally: ctx.cleanup()

if __name__ == '__main__':
    sys.exit(main())
