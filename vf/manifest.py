#!/usr/bin/env python3
"""regenerates /verif/MANIFEST.json from the CLAIMS table below (single source of truth)"""
import json, os, sys
sys.path.insert(0, os.path.dirname(os.path.dirname(os.path.abspath(__file__))))
from vf.claims import CLAIMS, NOT_APPLICABLE
V = os.path.dirname(os.path.dirname(os.path.abspath(__file__)))
props = [json.loads(l)['id'] for l in open(V + '/properties.jsonl')]
checks = []
for pid in props:
    c = CLAIMS.get(pid)
    if not c: continue
    checks.append(dict(property_id=pid, quick_cmd='./check %s --tier quick' % pid, thorough_cmd='./check %s --tier thorough' % pid,
                       evidence_file='evidence/%s.json' % pid, replay_cmd_template='./check %s --replay {path}' % pid, engine='ir2c+cbmc',
                       level_claimed=dict(category='model_checking', text=c['text'], design_ref=c.get('ref', 'DESIGN.md section 5/' + pid)),
                       level_note=c['note'], technique=c['technique']))
PENDING = 'no check registered yet: the harness for this property is still being built (plan in DESIGN.md section 5); it is not claimed until its check runs clean'
na = [dict(property_id=p, reason=NOT_APPLICABLE.get(p, PENDING)) for p in props if p not in CLAIMS]
m = dict(version=1,
         setup_cmd='python3-vt -m compileall -q vf props && python3-vt vf/selftest.py',
         hooks=dict(guard='FIX8_VERIF', enable='verification compiles pass -DFIX8_VERIF=1 (clang++-14 IR builds and native replay builds); no hook code exists in /repo at present',
                    baseline_off_cmd='cd /repo && make -k check', source_commits=[], add_only=True),
         engines=[dict(name='ir2c+cbmc', path='vf/', serves_properties=[c['property_id'] for c in checks],
                       kind_free_text='clang++-14 -O1 LLVM IR of the real translation units -> own IR-to-C translator (vf/ir2c.py) -> CBMC 6.11 bounded symbolic execution (kissat/cadical/z3 back ends) -> counterexample replay on a native g++/ASan build of the real code')],
         checks=checks, not_applicable=na,
         notes='Every check regenerates its encoding from /repo\'s working tree. Exit 0 = no violation among decided queries (NO-VERDICT lines list queries that hit their cap); exit 1 = replayed VIOLATION; exit 2 = the check machinery itself broke.')
json.dump(m, open(V + '/MANIFEST.json', 'w'), indent=1)
print('MANIFEST.json: %d checks, %d not applicable' % (len(checks), len(na)))
